#!/bin/bash
# MANIFEST.setup_cmd: build the framework from files on disk only (offline).
set -eu
cd "$(dirname "$0")"
export GOFLAGS=-mod=mod GOPROXY=off GOSUMDB=off GOTOOLCHAIN=local
REPO=${VERIF_REPO:-/repo}
python3 tools/gen_gomod.py harness "$REPO"
mkdir -p bin evidence replays
# settle go.mod/go.sum (indirect requirements are added by -mod=mod on first build) and warm the cache
(cd harness && go build ./lib/...)
(cd harness && go build -tags verif ./... 2>/dev/null) || echo "note: not every check package builds yet (each ./check builds its own)"
echo "setup ok"
