package main

import (
	"context"
	"fmt"
	"time"

	"go.opentelemetry.io/collector/component"
	"go.opentelemetry.io/collector/component/componenttest"
	"go.opentelemetry.io/collector/exporter/exporterhelper"
	"go.opentelemetry.io/collector/exporter/exportertest"
	"go.opentelemetry.io/collector/pdata/plog"
	"go.opentelemetry.io/otel/sdk/metric/metricdata"
	"go.uber.org/zap"
	"go.uber.org/zap/zaptest/observer"
	"go.opentelemetry.io/collector/config/configretry"
	"errors"
)

func main() {
	tel := componenttest.NewTelemetry()
	set := exportertest.NewNopSettings(component.MustNewType("p"))
	set.TelemetrySettings = tel.NewTelemetrySettings()
	core, logs := observer.New(zap.DebugLevel)
	set.Logger = zap.New(core)
	cfg := exporterhelper.NewDefaultQueueConfig()
	cfg.NumConsumers = 1
	cfg.QueueSize = 5
	cfg.Sizer = exporterhelper.RequestSizerTypeItems
	gate := make(chan error)
	n := 0
	rc := configretry.NewDefaultBackOffConfig()
	rc.InitialInterval = 5 * time.Millisecond
	rc.RandomizationFactor = 0
	exp, err := exporterhelper.NewLogs(context.Background(), set, struct{}{}, func(context.Context, plog.Logs) error { n++; return <-gate },
		exporterhelper.WithQueue(cfg), exporterhelper.WithRetry(rc))
	if err != nil { panic(err) }
	exp.Start(context.Background(), componenttest.NewNopHost())
	mk := func(k int) plog.Logs {
		ld := plog.NewLogs(); s := ld.ResourceLogs().AppendEmpty().ScopeLogs().AppendEmpty()
		for i := 0; i < k; i++ { s.LogRecords().AppendEmpty() }
		return ld
	}
	read := func(name string) int64 {
		m, err := tel.GetMetric(name)
		if err != nil { return -999 }
		switch d := m.Data.(type) {
		case metricdata.Gauge[int64]: return d.DataPoints[0].Value
		case metricdata.Sum[int64]: return d.DataPoints[0].Value
		}
		return -998
	}
	fmt.Println(exp.ConsumeLogs(context.Background(), mk(2)), read("otelcol_exporter_queue_size"), read("otelcol_exporter_queue_capacity"))
	fmt.Println(exp.ConsumeLogs(context.Background(), mk(3)), read("otelcol_exporter_queue_size"))
	fmt.Println(exp.ConsumeLogs(context.Background(), mk(1)), read("otelcol_exporter_queue_size"), read("otelcol_exporter_enqueue_failed_log_records"))
	gate <- errors.New("transient")
	gate <- nil
	time.Sleep(50*time.Millisecond)
	fmt.Println("after first done:", read("otelcol_exporter_queue_size"), "attempts", n)
	for _, l := range logs.All() { fmt.Println(l.Message, l.ContextMap()) }
	t0 := time.Now()
	for i := 0; i < 1000; i++ { read("otelcol_exporter_queue_size") }
	fmt.Println("1000 reads:", time.Since(t0))
	gate <- nil
	exp.Shutdown(context.Background())
	fmt.Println("sent:", read("otelcol_exporter_sent_log_records"))
}
