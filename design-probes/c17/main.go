package main

import (
	"context"
	"fmt"
	"reflect"
	"sort"
	"sync"
	"time"

	"go.opentelemetry.io/collector/component/componenttest"
	"go.opentelemetry.io/collector/consumer"
	"go.opentelemetry.io/collector/pdata/plog"
	"go.opentelemetry.io/collector/pdata/pmetric"
	"go.opentelemetry.io/collector/processor/batchprocessor"
	"go.opentelemetry.io/collector/processor/processortest"
)

func d(v any) string {
	m := map[string]string{}
	dump(reflect.ValueOf(v), "", m)
	ks := []string{}
	for k := range m { ks = append(ks, k) }
	sort.Strings(ks)
	s := ""
	for _, k := range ks { s += k + "=" + m[k] + ";" }
	return s
}

func canonLogs(ld plog.Logs, out map[string]int) {
	for i := 0; i < ld.ResourceLogs().Len(); i++ {
		rl := ld.ResourceLogs().At(i)
		for j := 0; j < rl.ScopeLogs().Len(); j++ {
			sl := rl.ScopeLogs().At(j)
			for k := 0; k < sl.LogRecords().Len(); k++ {
				out["R{"+d(rl.Resource())+rl.SchemaUrl()+"}S{"+d(sl.Scope())+sl.SchemaUrl()+"}I{"+d(sl.LogRecords().At(k))+"}"]++
			}
		}
	}
}

func canonMetrics(md pmetric.Metrics, out map[string]int) {
	for i := 0; i < md.ResourceMetrics().Len(); i++ {
		rm := md.ResourceMetrics().At(i)
		for j := 0; j < rm.ScopeMetrics().Len(); j++ {
			sm := rm.ScopeMetrics().At(j)
			for k := 0; k < sm.Metrics().Len(); k++ {
				m := sm.Metrics().At(k)
				id := fmt.Sprint(m.Name(), "|", m.Unit(), "|", m.Description(), "|", m.Type(), "|", m.Metadata().AsRaw())
				var dps reflect.Value
				switch m.Type() {
				case pmetric.MetricTypeGauge: dps = reflect.ValueOf(m.Gauge().DataPoints())
				case pmetric.MetricTypeSum: dps = reflect.ValueOf(m.Sum().DataPoints()); id += fmt.Sprint(m.Sum().AggregationTemporality(), m.Sum().IsMonotonic())
				case pmetric.MetricTypeHistogram: dps = reflect.ValueOf(m.Histogram().DataPoints()); id += fmt.Sprint(m.Histogram().AggregationTemporality())
				case pmetric.MetricTypeExponentialHistogram: dps = reflect.ValueOf(m.ExponentialHistogram().DataPoints()); id += fmt.Sprint(m.ExponentialHistogram().AggregationTemporality())
				case pmetric.MetricTypeSummary: dps = reflect.ValueOf(m.Summary().DataPoints())
				default: continue
				}
				n := int(dps.MethodByName("Len").Call(nil)[0].Int())
				for q := 0; q < n; q++ {
					dp := dps.MethodByName("At").Call([]reflect.Value{reflect.ValueOf(q)})[0]
					out["R{"+d(rm.Resource())+rm.SchemaUrl()+"}S{"+d(sm.Scope())+sm.SchemaUrl()+"}M{"+id+"}I{"+d(dp.Interface())+"}"]++
				}
			}
		}
	}
}

func diffMS(name string, in, out map[string]int) int {
	bad := 0
	for k, c := range in { if out[k] != c { bad++; if bad == 1 { fmt.Printf("%s: MISSING/COUNT in=%d out=%d  %.400s\n", name, c, out[k], k) } } }
	for k, c := range out { if in[k] != c { bad++; if bad <= 2 { fmt.Printf("%s: EXTRA out=%d in=%d  %.400s\n", name, c, in[k], k) } } }
	return bad
}

func main() {
	f := batchprocessor.NewFactory()
	totalBad := 0
	for iter := 0; iter < 30; iter++ {
		cfg := f.CreateDefaultConfig().(*batchprocessor.Config)
		cfg.SendBatchSize = uint32(1 + rng.Intn(6))
		cfg.SendBatchMaxSize = cfg.SendBatchSize + uint32(rng.Intn(3))
		cfg.Timeout = 10 * time.Millisecond
		var mu sync.Mutex
		inL, outL := map[string]int{}, map[string]int{}
		inM, outM := map[string]int{}, map[string]int{}
		maxSeen := 0
		sinkL, _ := consumer.NewLogs(func(_ context.Context, ld plog.Logs) error { mu.Lock(); canonLogs(ld, outL); if ld.LogRecordCount() > maxSeen { maxSeen = ld.LogRecordCount() }; mu.Unlock(); return nil })
		sinkM, _ := consumer.NewMetrics(func(_ context.Context, md pmetric.Metrics) error { mu.Lock(); canonMetrics(md, outM); if md.DataPointCount() > maxSeen { maxSeen = md.DataPointCount() }; mu.Unlock(); return nil })
		pl, err := f.CreateLogs(context.Background(), processortest.NewNopSettings(f.Type()), cfg, sinkL)
		if err != nil { panic(err) }
		pm, _ := f.CreateMetrics(context.Background(), processortest.NewNopSettings(f.Type()), cfg, sinkM)
		pl.Start(context.Background(), componenttest.NewNopHost()); pm.Start(context.Background(), componenttest.NewNopHost())
		for r := 0; r < 5; r++ {
			ld := plog.NewLogs(); fill(reflect.ValueOf(ld.ResourceLogs()), 0)
			canonLogs(ld, inL)
			if err := pl.ConsumeLogs(context.Background(), ld); err != nil { panic(err) }
			md := pmetric.NewMetrics(); fill(reflect.ValueOf(md.ResourceMetrics()), 0)
			canonMetrics(md, inM)
			if err := pm.ConsumeMetrics(context.Background(), md); err != nil { panic(err) }
		}
		pl.Shutdown(context.Background()); pm.Shutdown(context.Background())
		b := diffMS(fmt.Sprintf("iter%d logs size=%d max=%d", iter, cfg.SendBatchSize, cfg.SendBatchMaxSize), inL, outL)
		b += diffMS(fmt.Sprintf("iter%d metrics", iter), inM, outM)
		if maxSeen > int(cfg.SendBatchMaxSize) { fmt.Println("BOUND exceeded", maxSeen, cfg.SendBatchMaxSize); b++ }
		if b > 0 { totalBad++ }
		
	}
	fmt.Println("runs with problems:", totalBad)
}
