package main

import (
	"fmt"
	"reflect"
	"sort"
	"strings"

	"go.opentelemetry.io/collector/pdata/pcommon"
	"go.opentelemetry.io/collector/pdata/plog"
	"go.opentelemetry.io/collector/pdata/pmetric"
	"go.opentelemetry.io/collector/pdata/pprofile"
	"go.opentelemetry.io/collector/pdata/ptrace"
)

var seen = map[reflect.Type]bool{}

func isPdata(t reflect.Type) bool {
	return t.Kind() == reflect.Struct && strings.HasPrefix(t.PkgPath(), "go.opentelemetry.io/collector/pdata/")
}

func describe(t reflect.Type, depth int) {
	if seen[t] {
		return
	}
	seen[t] = true
	var getters, setters, others []string
	var children []reflect.Type
	for i := 0; i < t.NumMethod(); i++ {
		m := t.Method(i)
		ft := m.Type
		sig := fmt.Sprint(ft)
		switch {
		case ft.NumIn() == 1 && ft.NumOut() == 1:
			getters = append(getters, m.Name+"()"+ft.Out(0).String())
			if isPdata(ft.Out(0)) {
				children = append(children, ft.Out(0))
			}
		case strings.HasPrefix(m.Name, "Set") || strings.HasPrefix(m.Name, "Put"):
			setters = append(setters, m.Name+strings.TrimPrefix(sig, "func("+t.String()))
			if ft.NumOut() == 1 && isPdata(ft.Out(0)) {
				children = append(children, ft.Out(0))
			}
		default:
			others = append(others, m.Name+strings.TrimPrefix(sig, "func("+t.String()))
			for o := 0; o < ft.NumOut(); o++ {
				if isPdata(ft.Out(o)) {
					children = append(children, ft.Out(o))
				}
			}
		}
	}
	sort.Strings(getters)
	fmt.Printf("%s\n  G: %s\n  S: %s\n  O: %s\n", t, strings.Join(getters, " "), strings.Join(setters, " "), strings.Join(others, " "))
	for _, c := range children {
		describe(c, depth+1)
	}
}

func main() {
	for _, v := range []any{plog.NewLogs(), ptrace.NewTraces(), pmetric.NewMetrics(), pprofile.NewProfiles(), pcommon.NewMap(), pcommon.NewValueEmpty(), pcommon.NewSlice()} {
		describe(reflect.TypeOf(v), 0)
	}
	fmt.Println("TYPES:", len(seen))
}
