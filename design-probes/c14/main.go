package main

import (
	"bytes"
	"encoding/gob"
	"encoding/hex"
	"encoding/json"
	"encoding/xml"
	"fmt"
	"strings"

	"go.opentelemetry.io/collector/config/configopaque"
	"go.opentelemetry.io/collector/confmap"
	"go.uber.org/zap"
	"go.uber.org/zap/zapcore"
	yaml3 "gopkg.in/yaml.v3"
)

type inner struct {
	S  configopaque.String            `mapstructure:"s" json:"s" yaml:"s"`
	P  *configopaque.String           `mapstructure:"p"`
	M  map[string]configopaque.String `mapstructure:"m"`
	L  []configopaque.String          `mapstructure:"l"`
	A  [2]configopaque.String         `mapstructure:"a"`
	K  map[configopaque.String]string `mapstructure:"k"`
	I  any                            `mapstructure:"i"`
}

func main() {
	sec := "S3CR3T-%s-t0ken"
	s := configopaque.String(sec)
	in := inner{S: s, P: &s, M: map[string]configopaque.String{"h": s}, L: []configopaque.String{s}, A: [2]configopaque.String{s, s}, K: map[configopaque.String]string{s: "v"}, I: s}
	leaks := 0
	check := func(path, out string) {
		needles := []string{sec, hex.EncodeToString([]byte(sec)), strings.ToUpper(hex.EncodeToString([]byte(sec))), fmt.Sprintf("%q", sec)}
		for _, n := range needles {
			if strings.Contains(out, n) {
				leaks++
				fmt.Printf("LEAK via %s: %.120s\n", path, out)
				return
			}
		}
	}
	verbs := "vsqxXdbcoOUeEfFgGtTpzw"
	flags := []string{"", "+", "#", "-", " ", "0", "+#", "# ", "#0", "+ #-0"}
	n := 0
	for _, v := range verbs {
		for _, f := range flags {
			for _, w := range []string{"", "5", ".3", "20.10"} {
				format := "%" + f + w + string(v)
				for name, val := range map[string]any{"val": s, "ptr": &s, "struct": in, "structptr": &in, "slice": in.L, "map": in.M, "arr": in.A, "mapkey": in.K, "iface": in.I} {
					check(format+" "+name, fmt.Sprintf(format, val))
					n++
				}
			}
		}
	}
	check("Sprint", fmt.Sprint(s, in))
	check("Errorf", fmt.Errorf("x %w", fmt.Errorf("%v", in)).Error())
	b, _ := json.Marshal(in); check("json", string(b))
	b, _ = xml.Marshal(struct{ S configopaque.String }{s}); check("xml", string(b))
	b, _ = yaml3.Marshal(in); check("yaml3", string(b))
	var gb bytes.Buffer; _ = gob.NewEncoder(&gb).Encode(struct{ S configopaque.String }{s}); check("gob", gb.String())
	c := confmap.New(); err := c.Marshal(in); check("confmap", fmt.Sprint(c.ToStringMap(), err))
	var zb bytes.Buffer
	lg := zap.New(zapcore.NewCore(zapcore.NewJSONEncoder(zap.NewProductionEncoderConfig()), zapcore.AddSync(&zb), zap.DebugLevel))
	lg.Info("m", zap.Any("a", in), zap.Any("s", s), zap.Reflect("r", in), zap.Stringer("st", s), zap.String("f", fmt.Sprint(s)), zap.Any("l", in.L), zap.Any("m", in.M))
	check("zap", zb.String())
	fmt.Println("renderings:", n, "leaks:", leaks)
	fmt.Println(zb.String()[:300])
}
