package main

import (
	"fmt"
	"reflect"
	"sort"
	"strings"

	"go.opentelemetry.io/collector/pdata/pcommon"
)

func dump(v reflect.Value, path string, out map[string]string) {
	t := v.Type()
	switch x := v.Interface().(type) {
	case pcommon.Map: out[path] = fmt.Sprint(x.AsRaw()); return
	case pcommon.Value: out[path] = fmt.Sprint(x.Type(), x.AsRaw()); return
	case pcommon.TraceState: out[path] = x.AsRaw(); return
	}
	if _, ok := t.MethodByName("AsRaw"); ok { out[path] = fmt.Sprint(v.MethodByName("AsRaw").Call(nil)[0].Interface()); return }
	if _, ok := t.MethodByName("At"); ok {
		n := v.MethodByName("Len").Call(nil)[0].Int()
		out[path+".len"] = fmt.Sprint(n)
		for i := 0; i < int(n); i++ { dump(v.MethodByName("At").Call([]reflect.Value{reflect.ValueOf(i)})[0], fmt.Sprintf("%s[%d]", path, i), out) }
		return
	}
	for i := 0; i < t.NumMethod(); i++ {
		m := t.Method(i)
		if m.Type.NumIn() != 1 || m.Type.NumOut() != 1 { continue }
		bad := false
		for _, p := range []string{"Set", "Append", "Remove", "Move", "Mark", "Clear", "All"} { if strings.HasPrefix(m.Name, p) { bad = true } }
		if bad { continue }
		r := v.Method(i).Call(nil)[0]
		if isPdata(r.Type()) {
			if r.IsZero() { continue }
			if _, isScalar := t.MethodByName("Set" + m.Name); isScalar { out[path+"."+m.Name] = fmt.Sprint(r.Interface()); continue }
			dump(r, path+"."+m.Name, out)
		} else {
			out[path+"."+m.Name] = fmt.Sprint(r.Interface())
		}
	}
}

func diff(a, b any) {
	ma, mb := map[string]string{}, map[string]string{}
	dump(reflect.ValueOf(a), "", ma); dump(reflect.ValueOf(b), "", mb)
	keys := map[string]bool{}
	for k := range ma { keys[k] = true }
	for k := range mb { keys[k] = true }
	var ks []string
	for k := range keys { if ma[k] != mb[k] { ks = append(ks, k) } }
	sort.Strings(ks)
	seen := map[string]bool{}
	for _, k := range ks {
		// strip indices for dedup
		g := k
		for {
			i := strings.Index(g, "["); if i < 0 { break }
			j := strings.Index(g[i:], "]"); g = g[:i] + g[i+j+1:]
		}
		if seen[g] { continue }
		seen[g] = true
		fmt.Printf("   DIFF %s: %.60q vs %.60q\n", g, ma[k], mb[k])
	}
}
