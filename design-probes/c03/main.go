package main

import (
	"context"
	"errors"
	"fmt"
	"sync"
	"sync/atomic"
	"time"

	"go.opentelemetry.io/collector/component"
	"go.opentelemetry.io/collector/component/componenttest"
	"go.opentelemetry.io/collector/config/configretry"
	"go.opentelemetry.io/collector/exporter/exporterhelper"
	"go.opentelemetry.io/collector/exporter/exportertest"
	"go.opentelemetry.io/collector/pdata/plog"
)

func mk(id string, k int) plog.Logs {
	ld := plog.NewLogs()
	s := ld.ResourceLogs().AppendEmpty().ScopeLogs().AppendEmpty()
	for i := 0; i < k; i++ {
		s.LogRecords().AppendEmpty().Body().SetStr(fmt.Sprintf("%s.%d", id, i))
	}
	return ld
}

func run(name string, qmod func(*exporterhelper.QueueBatchConfig), retry bool, outcome func(n int) error) {
	var mu sync.Mutex
	got := map[string]int{}
	var inflight, calls atomic.Int64
	cfg := exporterhelper.NewDefaultQueueConfig()
	cfg.NumConsumers = 2
	qmod(&cfg)
	opts := []exporterhelper.Option{exporterhelper.WithQueue(cfg)}
	if retry {
		rc := configretry.NewDefaultBackOffConfig()
		rc.InitialInterval = time.Hour
		rc.MaxInterval = time.Hour
		rc.MaxElapsedTime = 0
		opts = append(opts, exporterhelper.WithRetry(rc))
	}
	set := exportertest.NewNopSettings(component.MustNewType("p"))
	exp, err := exporterhelper.NewLogs(context.Background(), set, struct{}{}, func(_ context.Context, ld plog.Logs) error {
		inflight.Add(1)
		defer inflight.Add(-1)
		n := int(calls.Add(1))
		time.Sleep(2 * time.Millisecond)
		mu.Lock()
		for i := 0; i < ld.ResourceLogs().Len(); i++ {
			rl := ld.ResourceLogs().At(i)
			for j := 0; j < rl.ScopeLogs().Len(); j++ {
				lrs := rl.ScopeLogs().At(j).LogRecords()
				for k := 0; k < lrs.Len(); k++ {
					got[lrs.At(k).Body().Str()]++
				}
			}
		}
		mu.Unlock()
		return outcome(n)
	}, opts...)
	if err != nil {
		fmt.Println(name, "create err", err)
		return
	}
	exp.Start(context.Background(), componenttest.NewNopHost())
	want := 0
	for i := 0; i < 7; i++ {
		if err := exp.ConsumeLogs(context.Background(), mk(fmt.Sprint("r", i), 3)); err == nil {
			want += 3
		}
	}
	t0 := time.Now()
	err = exp.Shutdown(context.Background())
	fl := inflight.Load()
	mu.Lock()
	dup := 0
	for _, c := range got { if c > 1 { dup++ } }
	fmt.Printf("%-40s shutdown err=%v in %v inflight@return=%d accepted_items=%d distinct_seen=%d dups=%d calls=%d\n", name, err, time.Since(t0).Round(time.Millisecond), fl, want, len(got), dup, calls.Load())
	mu.Unlock()
}

func main() {
	ok := func(int) error { return nil }
	run("mem nobatch ok", func(c *exporterhelper.QueueBatchConfig) {}, false, ok)
	run("mem batch items min10 max0", func(c *exporterhelper.QueueBatchConfig) {
		c.Sizer = exporterhelper.RequestSizerTypeItems; c.QueueSize = 1000
		c.Batch = &exporterhelper.BatchConfig{FlushTimeout: time.Hour, MinSize: 10}
	}, false, ok)
	run("mem batch items min10 max4", func(c *exporterhelper.QueueBatchConfig) {
		c.Sizer = exporterhelper.RequestSizerTypeItems; c.QueueSize = 1000
		c.Batch = &exporterhelper.BatchConfig{FlushTimeout: time.Hour, MinSize: 4, MaxSize: 4}
	}, false, ok)
	run("mem nobatch transient+retry(1h)", func(c *exporterhelper.QueueBatchConfig) {}, true, func(n int) error { return errors.New("transient") })
	run("mem batch transient+retry(1h)", func(c *exporterhelper.QueueBatchConfig) {
		c.Sizer = exporterhelper.RequestSizerTypeItems; c.QueueSize = 1000
		c.Batch = &exporterhelper.BatchConfig{FlushTimeout: time.Hour, MinSize: 10}
	}, true, func(n int) error { return errors.New("transient") })
}
