package main

import (
	"context"
	"fmt"
	"runtime"
	"strings"
	"sync/atomic"
	"time"

	"go.opentelemetry.io/collector/component"
	"go.opentelemetry.io/collector/component/componenttest"
	"go.opentelemetry.io/collector/exporter/exporterhelper"
	"go.opentelemetry.io/collector/exporter/exportertest"
	"go.opentelemetry.io/collector/pdata/plog"
	"go.opentelemetry.io/otel/sdk/metric/metricdata"
)

type hookCtx struct {
	context.Context
	onDone func()
}

func (h hookCtx) Done() <-chan struct{} { h.onDone(); return h.Context.Done() }

func mk() plog.Logs { ld := plog.NewLogs(); ld.ResourceLogs().AppendEmpty().ScopeLogs().AppendEmpty().LogRecords().AppendEmpty(); return ld }

func main() {
	tel := componenttest.NewTelemetry()
	set := exportertest.NewNopSettings(component.MustNewType("p")); set.TelemetrySettings = tel.NewTelemetrySettings()
	cfg := exporterhelper.NewDefaultQueueConfig(); cfg.NumConsumers = 1; cfg.QueueSize = 1; cfg.BlockOnOverflow = true
	gate := make(chan struct{})
	exp, _ := exporterhelper.NewLogs(context.Background(), set, struct{}{}, func(context.Context, plog.Logs) error { <-gate; return nil }, exporterhelper.WithQueue(cfg), exporterhelper.WithTimeout(exporterhelper.TimeoutConfig{}))
	exp.Start(context.Background(), componenttest.NewNopHost())
	_ = exp.ConsumeLogs(context.Background(), mk()) // fills capacity 1 (in flight, size still counted)
	var inWait, calls atomic.Int64
	ctx, cancel := context.WithCancel(context.Background())
	h := hookCtx{ctx, func() {
		calls.Add(1)
		buf := make([]byte, 1<<14); n := runtime.Stack(buf, false)
		if strings.Contains(string(buf[:n]), "queuebatch.(*cond).Wait") {
			inWait.Add(1)
			// the queue lock must be free here: reading the size gauge takes it
			m, err := tel.GetMetric("otelcol_exporter_queue_size")
			fmt.Println("hook inside cond.Wait: queue lock is free, size gauge =", m.Data.(metricdata.Gauge[int64]).DataPoints[0].Value, err)
			// rendezvous: complete the in-flight request AND cancel, so both select cases are ready
			close(gate); time.Sleep(2 * time.Millisecond); cancel()
		}
	}}
	err := exp.ConsumeLogs(h, mk())
	fmt.Println("blocked offer returned:", err, "| Done() calls:", calls.Load(), "of which inside cond.Wait:", inWait.Load())
	exp.Shutdown(context.Background())
}
