package main

import (
	"context"
	"fmt"
	"math/rand"
	"time"

	"go.opentelemetry.io/collector/component"
	"go.opentelemetry.io/collector/component/componenttest"
	"go.opentelemetry.io/collector/exporter/exporterhelper"
	"go.opentelemetry.io/collector/exporter/exportertest"
	"go.opentelemetry.io/collector/pdata/plog"
	"go.opentelemetry.io/otel/sdk/metric/metricdata"
)

func gauge(tel *componenttest.Telemetry, name string) int64 {
	m, err := tel.GetMetric(name)
	if err != nil { return -999 }
	return m.Data.(metricdata.Gauge[int64]).DataPoints[0].Value
}

type inflight struct{ id int; size int64; release chan error }

func mk(id, k int) plog.Logs {
	ld := plog.NewLogs(); rl := ld.ResourceLogs().AppendEmpty(); rl.Resource().Attributes().PutInt("id", int64(id))
	sl := rl.ScopeLogs().AppendEmpty()
	for i := 0; i < k; i++ { sl.LogRecords().AppendEmpty() }
	return ld
}

func main() {
	rng := rand.New(rand.NewSource(3))
	bad, steps, refusals, states := 0, 0, 0, map[string]bool{}
	for iter := 0; iter < 600 && bad < 4; iter++ {
		persistent := iter%2 == 1
		consumers := 1 + rng.Intn(2)
		capacity := int64(1 + rng.Intn(8))
		sizerItems := rng.Intn(2) == 0
		if persistent { sizerItems = false }
		tel := componenttest.NewTelemetry()
		set := exportertest.NewNopSettings(component.MustNewType("p"))
		set.TelemetrySettings = tel.NewTelemetrySettings()
		cfg := exporterhelper.NewDefaultQueueConfig()
		cfg.NumConsumers = consumers; cfg.QueueSize = capacity
		if sizerItems { cfg.Sizer = exporterhelper.RequestSizerTypeItems }
		var h component.Host = componenttest.NewNopHost()
		if persistent { id := component.MustNewID("st"); cfg.StorageID = &id; h = host{&ext{s: &store{live: map[string][]byte{}, crashAt: -1}}} }
		enteredCh := make(chan *inflight, 100)
		exp, err := exporterhelper.NewLogs(context.Background(), set, struct{}{}, func(_ context.Context, ld plog.Logs) error {
			v, _ := ld.ResourceLogs().At(0).Resource().Attributes().Get("id")
			sz := int64(1); if sizerItems { sz = int64(ld.LogRecordCount()) }
			f := &inflight{id: int(v.Int()), size: sz, release: make(chan error)}
			enteredCh <- f
			return <-f.release
		}, exporterhelper.WithQueue(cfg), exporterhelper.WithTimeout(exporterhelper.TimeoutConfig{}))
		if err != nil { panic(err) }
		if err := exp.Start(context.Background(), h); err != nil { panic(err) }
		// model
		var queued []inflight // accepted, not yet handed
		var flying []*inflight
		var handedOrder, acceptOrder []int
		modelSize := int64(0)
		settle := func() bool {
			// wait until min(consumers, queued+flying) are in flight
			for len(flying) < consumers && len(queued) > 0 {
				select {
				case f := <-enteredCh:
					// must be head of queue for FIFO
					if f.id != queued[0].id && consumers == 1 { fmt.Println("FIFO violation: got", f.id, "want", queued[0].id); return false }
					found := false
					for i := range queued { if queued[i].id == f.id { queued = append(queued[:i], queued[i+1:]...); found = true; break } }
					if !found { fmt.Println("handed off unknown/duplicate id", f.id); return false }
					flying = append(flying, f); handedOrder = append(handedOrder, f.id)
				case <-time.After(2 * time.Second):
					fmt.Println("LOST WAKEUP? queued", len(queued), "flying", len(flying)); return false
				}
			}
			select { case f := <-enteredCh: fmt.Println("unexpected extra hand-off", f.id); return false; case <-time.After(200 * time.Microsecond): }
			return true
		}
		ok := true
		nextID := 0
		for step := 0; step < 25 && ok; step++ {
			steps++
			if rng.Intn(3) != 0 || len(flying) == 0 {
				k := rng.Intn(int(capacity) + 3)
				sz := int64(1); if sizerItems { sz = int64(k) }
				nextID++
				before := gauge(tel, "otelcol_exporter_queue_size")
				err := exp.ConsumeLogs(context.Background(), mk(nextID, k))
				var wantAccept bool
				if sz == 0 { wantAccept = true } else { wantAccept = modelSize+sz <= capacity }
				if persistent { wantAccept = before+sz <= capacity }
				if (err == nil) != wantAccept { fmt.Printf("DECISION mismatch: size=%d req=%d cap=%d err=%v\n", modelSize, sz, capacity, err); ok = false; break }
				if err != nil { refusals++ }
				if err == nil && sz > 0 { modelSize += sz; queued = append(queued, inflight{id: nextID, size: sz}); acceptOrder = append(acceptOrder, nextID) }
				if err == nil && sz == 0 && persistent { queued = append(queued, inflight{id: nextID, size: 0}) }
			} else {
				i := rng.Intn(len(flying)); f := flying[i]; flying = append(flying[:i], flying[i+1:]...)
				f.release <- nil
				modelSize -= f.size
				time.Sleep(300 * time.Microsecond) // let onDone run (logical ack not observable without wait_for_result)
			}
			if !settle() { ok = false; break }
			g := gauge(tel, "otelcol_exporter_queue_size")
			states[fmt.Sprint(persistent, capacity, modelSize, len(flying), len(queued))] = true
			if !persistent && g != modelSize { 
				time.Sleep(5 * time.Millisecond); g = gauge(tel, "otelcol_exporter_queue_size")
				if g != modelSize { fmt.Printf("SIZE mismatch memory: gauge=%d model=%d\n", g, modelSize); ok = false }
			}
			if persistent && (g < 0 || g > capacity) { fmt.Printf("SIZE out of bounds persistent: %d cap %d\n", g, capacity); ok = false }
			if c := gauge(tel, "otelcol_exporter_queue_capacity"); c != capacity { fmt.Println("capacity gauge", c, capacity); ok = false }
		}
		for _, f := range flying { f.release <- nil }
		for len(queued) > 0 { f := <-enteredCh; for i := range queued { if queued[i].id == f.id { queued = append(queued[:i], queued[i+1:]...); break } }; f.release <- nil }
		exp.Shutdown(context.Background())
		if !ok { bad++; fmt.Println("  config: persistent", persistent, "consumers", consumers, "cap", capacity, "items sizer", sizerItems) }
	}
	fmt.Println("steps:", steps, "refusals:", refusals, "distinct states:", len(states), "bad scripts:", bad)
}
