package main

import (
	"context"
	"errors"
	"fmt"
	"time"

	"go.opentelemetry.io/collector/component"
	"go.opentelemetry.io/collector/component/componenttest"
	"go.opentelemetry.io/collector/config/configretry"
	"go.opentelemetry.io/collector/exporter/exporterhelper"
	"go.opentelemetry.io/collector/exporter/exportertest"
	"go.opentelemetry.io/collector/pdata/plog"
)

func main() {
	for _, iv := range []time.Duration{0, time.Nanosecond, time.Microsecond, time.Millisecond} {
		hist := map[int]int{}
		for it := 0; it < 300; it++ {
			n := 0
			rc := configretry.NewDefaultBackOffConfig()
			rc.InitialInterval = iv
			rc.MaxInterval = iv
			rc.RandomizationFactor = 0
			rc.MaxElapsedTime = 0
			set := exportertest.NewNopSettings(component.MustNewType("p"))
			exp, _ := exporterhelper.NewLogs(context.Background(), set, struct{}{}, func(context.Context, plog.Logs) error { n++; return errors.New("t") }, exporterhelper.WithRetry(rc))
			exp.Start(context.Background(), componenttest.NewNopHost())
			exp.Shutdown(context.Background())
			ld := plog.NewLogs(); ld.ResourceLogs().AppendEmpty().ScopeLogs().AppendEmpty().LogRecords().AppendEmpty()
			_ = exp.ConsumeLogs(context.Background(), ld)
			hist[n]++
		}
		fmt.Println("interval", iv, "attempts-after-shutdown histogram:", hist)
	}
}
