package main

import (
	"context"
	"errors"
	"fmt"
	"os"
	"runtime"
	"strings"
	"time"

	"go.opentelemetry.io/collector/component"
	"go.opentelemetry.io/collector/component/componentstatus"
	"go.opentelemetry.io/collector/confmap"
	"go.opentelemetry.io/collector/consumer"
	"go.opentelemetry.io/collector/exporter"
	"go.opentelemetry.io/collector/otelcol"
	"go.opentelemetry.io/collector/pdata/plog"
	"go.opentelemetry.io/collector/receiver"
)

type comp struct {
	name string
	host component.Host
}

var comps []*comp

func (c *comp) Start(_ context.Context, h component.Host) error { c.host = h; comps = append(comps, c); return nil }
func (c *comp) Shutdown(context.Context) error                  { return nil }

type cfg struct{}
type le struct{ comp }

func (p *le) Capabilities() consumer.Capabilities                 { return consumer.Capabilities{} }
func (p *le) ConsumeLogs(ctx context.Context, ld plog.Logs) error { return nil }

func factories() (otelcol.Factories, error) {
	t := component.MustNewType("k")
	f := otelcol.Factories{}
	f.Receivers = map[component.Type]receiver.Factory{t: receiver.NewFactory(t, func() component.Config { return &cfg{} },
		receiver.WithLogs(func(_ context.Context, s receiver.Settings, c component.Config, next consumer.Logs) (receiver.Logs, error) {
			return &comp{name: "recv/" + s.ID.String()}, nil
		}, component.StabilityLevelStable))}
	f.Exporters = map[component.Type]exporter.Factory{t: exporter.NewFactory(t, func() component.Config { return &cfg{} },
		exporter.WithLogs(func(_ context.Context, s exporter.Settings, _ component.Config) (exporter.Logs, error) {
			return &le{comp{name: "exp/" + s.ID.String()}}, nil
		}, component.StabilityLevelStable))}
	return f, nil
}

type prov struct{}

func (*prov) Retrieve(_ context.Context, uri string, w confmap.WatcherFunc) (*confmap.Retrieved, error) {
	return confmap.NewRetrievedFromYAML([]byte(`
receivers: {k: {}, k/2: {}}
exporters: {k: {}}
service:
  telemetry: {metrics: {level: none}, logs: {level: error}}
  pipelines:
    logs: {receivers: [k, k/2], exporters: [k]}
`))
}
func (*prov) Scheme() string                 { return "vv" }
func (*prov) Shutdown(context.Context) error { return nil }

func main() {
	col, err := otelcol.NewCollector(otelcol.CollectorSettings{
		Factories: factories, BuildInfo: component.NewDefaultBuildInfo(), SkipSettingGRPCLogger: true,
		ConfigProviderSettings: otelcol.ConfigProviderSettings{ResolverSettings: confmap.ResolverSettings{
			URIs: []string{"vv:x"}, ProviderFactories: []confmap.ProviderFactory{confmap.NewProviderFactory(func(confmap.ProviderSettings) confmap.Provider { return &prov{} })}}},
	})
	if err != nil { panic(err) }
	done := make(chan error, 1)
	go func() { done <- col.Run(context.Background()) }()
	for col.GetState() != otelcol.StateRunning { time.Sleep(time.Millisecond) }
	mode := os.Args[1]
	n := 0
	for _, c := range comps {
		if strings.HasPrefix(c.name, "recv") {
			c := c
			n++
			go componentstatus.ReportStatus(c.host, componentstatus.NewFatalErrorEvent(errors.New("fatal from "+c.name)))
			if mode == "one" { break }
		}
	}
	select {
	case err := <-done:
		fmt.Println(mode, ": Run returned", err, col.GetState())
	case <-time.After(5 * time.Second):
		fmt.Println(mode, ": Run did NOT return within 5s; state =", col.GetState())
		buf := make([]byte, 1<<18)
		k := runtime.Stack(buf, true)
		for _, g := range strings.Split(string(buf[:k]), "\n\n") {
			if strings.Contains(g, "chan send") || strings.Contains(g, "ReportStatus") { fmt.Println(strings.Join(strings.Split(g, "\n")[:9], "\n")); fmt.Println("--") }
		}
	}
}
