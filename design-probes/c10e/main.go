package main

import (
	"context"
	"fmt"
	"math/rand"
	"strings"
	"sync"
	"time"

	"go.opentelemetry.io/collector/component"
	"go.opentelemetry.io/collector/confmap"
	"go.opentelemetry.io/collector/consumer"
	"go.opentelemetry.io/collector/exporter"
	"go.opentelemetry.io/collector/extension"
	"go.opentelemetry.io/collector/otelcol"
	"go.opentelemetry.io/collector/pdata/plog"
	"go.opentelemetry.io/collector/receiver"
)

var mu sync.Mutex
var evs []string
var deps = map[string][]string{}
var failStart = ""

func ev(s string) { mu.Lock(); evs = append(evs, s); mu.Unlock() }

type comp struct{ name string }
func (c *comp) Start(context.Context, component.Host) error { ev("start " + c.name); if c.name == failStart { return fmt.Errorf("startfail") }; return nil }
func (c *comp) Shutdown(context.Context) error { ev("stop " + c.name); return nil }
type extc struct{ comp; id string }
func (e *extc) Dependencies() []component.ID { var out []component.ID; mu.Lock(); for _, d := range deps[e.id] { out = append(out, component.MustNewIDWithName("x", d)) }; mu.Unlock(); return out }
type le struct{ comp }
func (*le) Capabilities() consumer.Capabilities { return consumer.Capabilities{} }
func (*le) ConsumeLogs(context.Context, plog.Logs) error { return nil }
type cfg struct{}

func factories() (otelcol.Factories, error) {
	t := component.MustNewType("k"); xt := component.MustNewType("x"); f := otelcol.Factories{}
	f.Receivers = map[component.Type]receiver.Factory{t: receiver.NewFactory(t, func() component.Config { return &cfg{} }, receiver.WithLogs(func(_ context.Context, s receiver.Settings, _ component.Config, _ consumer.Logs) (receiver.Logs, error) { return &comp{"pipe recv"}, nil }, component.StabilityLevelStable))}
	f.Exporters = map[component.Type]exporter.Factory{t: exporter.NewFactory(t, func() component.Config { return &cfg{} }, exporter.WithLogs(func(_ context.Context, s exporter.Settings, _ component.Config) (exporter.Logs, error) { return &le{comp{"pipe exp"}}, nil }, component.StabilityLevelStable))}
	f.Extensions = map[component.Type]extension.Factory{xt: extension.NewFactory(xt, func() component.Config { return &cfg{} }, func(_ context.Context, s extension.Settings, _ component.Config) (extension.Extension, error) { return &extc{comp{"ext " + s.ID.Name()}, s.ID.Name()}, nil }, component.StabilityLevelStable)}
	return f, nil
}

type prov struct{ y string }
func (p *prov) Retrieve(context.Context, string, confmap.WatcherFunc) (*confmap.Retrieved, error) { return confmap.NewRetrievedFromYAML([]byte(p.y)) }
func (*prov) Scheme() string { return "vv" }
func (*prov) Shutdown(context.Context) error { return nil }

func main() {
	rng := rand.New(rand.NewSource(5))
	bad, runs, cyc := 0, 0, 0
	orders := map[string]bool{}
	for iter := 0; iter < 1500; iter++ {
		n := 1 + rng.Intn(5)
		names := []string{}
		for i := 0; i < n; i++ { names = append(names, fmt.Sprint("e", i)) }
		mu.Lock(); deps = map[string][]string{}; evs = nil; failStart = ""
		cyclic := rng.Intn(8) == 0
		for i := 1; i < n; i++ { for j := 0; j < i; j++ { if rng.Intn(3) == 0 { deps[names[i]] = append(deps[names[i]], names[j]) } } }
		if cyclic && n >= 2 { deps[names[0]] = append(deps[names[0]], names[n-1]); deps[names[n-1]] = append(deps[names[n-1]], names[0]) }
		if !cyclic && rng.Intn(4) == 0 { failStart = "ext " + names[rng.Intn(n)] }
		fs := failStart
		mu.Unlock()
		perm := rng.Perm(n); listed := []string{}; defs := []string{}
		for _, i := range perm { listed = append(listed, "x/"+names[i]); defs = append(defs, "x/"+names[i]+": {}") }
		y := "receivers: {k: {}}\nexporters: {k: {}}\nextensions: {" + strings.Join(defs, ", ") + "}\nservice:\n  extensions: [" + strings.Join(listed, ", ") + "]\n  telemetry: {metrics: {level: none}, logs: {level: error, output_paths: [/dev/null], error_output_paths: [/dev/null]}}\n  pipelines:\n    logs: {receivers: [k], exporters: [k]}\n"
		col, err := otelcol.NewCollector(otelcol.CollectorSettings{Factories: factories, BuildInfo: component.NewDefaultBuildInfo(), SkipSettingGRPCLogger: true,
			ConfigProviderSettings: otelcol.ConfigProviderSettings{ResolverSettings: confmap.ResolverSettings{URIs: []string{"vv:x"}, ProviderFactories: []confmap.ProviderFactory{confmap.NewProviderFactory(func(confmap.ProviderSettings) confmap.Provider { return &prov{y} })}}}})
		if err != nil { panic(err) }
		done := make(chan error, 1)
		go func() { done <- col.Run(context.Background()) }()
		var runErr error; fin := false
		for { select { case runErr = <-done: fin = true; default: }; if fin || col.GetState() == otelcol.StateRunning { break }; time.Sleep(100 * time.Microsecond) }
		if !fin { col.Shutdown(); runErr = <-done }
		runs++
		mu.Lock(); log := append([]string(nil), evs...); mu.Unlock()
		idx := func(s string) int { for i, e := range log { if e == s { return i } }; return -1 }
		prob := ""
		if cyclic && n >= 2 { cyc++; if runErr == nil || !strings.Contains(runErr.Error(), "cycle") { prob += fmt.Sprintf(" dependency cycle accepted (%v);", runErr) }; if len(log) != 0 { prob += " components started despite cycle;" } } else {
			for e, ds := range deps { for _, d := range ds {
				if a, b := idx("start ext "+e), idx("start ext "+d); a >= 0 && (b < 0 || b > a) { prob += fmt.Sprintf(" ext %s started before its dependency %s;", e, d) }
				if a, b := idx("stop ext "+e), idx("stop ext "+d); a >= 0 && b >= 0 && a > b { prob += fmt.Sprintf(" ext %s stopped after its dependency %s;", e, d) }
			} }
			for _, nme := range names { if a, p := idx("start ext "+nme), idx("start pipe exp"); a >= 0 && p >= 0 && a > p { prob += " extension started after a pipeline component;" }; if a, p := idx("stop ext "+nme), idx("stop pipe exp"); a >= 0 && p >= 0 && a < p { prob += " extension stopped before a pipeline component;" } }
			if fs != "" { if runErr == nil || !strings.Contains(runErr.Error(), "startfail") { prob += " start failure not returned;" }; if idx("start pipe exp") >= 0 { prob += " pipeline started after extension failure;" } } else if runErr != nil { prob += fmt.Sprintf(" unexpected error %v;", runErr) }
			for _, nme := range names { c := 0; for _, e := range log { if e == "stop ext "+nme { c++ } }; if c != 1 { prob += fmt.Sprintf(" ext %s stop count %d;", nme, c) } }
		}
		orders[strings.Join(log, ",")] = true
		if prob != "" { bad++; if bad < 6 { fmt.Println(prob[:min(len(prob), 250)], "\n   deps", deps, "fail", fs, "\n   log", log) } }
	}
	fmt.Println("runs:", runs, "cyclic:", cyc, "distinct orders:", len(orders), "bad:", bad)
}
