package main

import (
	"context"
	"errors"
	"fmt"
	"math/rand"
	"sync"
	"sync/atomic"
	"time"

	"go.opentelemetry.io/collector/component"
	"go.opentelemetry.io/collector/component/componenttest"
	"go.opentelemetry.io/collector/config/configretry"
	"go.opentelemetry.io/collector/consumer/consumererror"
	"go.opentelemetry.io/collector/exporter/exporterhelper"
	"go.opentelemetry.io/collector/exporter/exportertest"
	"go.opentelemetry.io/collector/pdata/plog"
	"go.opentelemetry.io/otel/sdk/metric/metricdata"
)

func all(tel *componenttest.Telemetry) map[string]int64 {
	out := map[string]int64{}
	var rm metricdata.ResourceMetrics
	if err := tel.Reader.Collect(context.Background(), &rm); err != nil { panic(err) }
	for _, sm := range rm.ScopeMetrics { for _, m := range sm.Metrics { if d, ok := m.Data.(metricdata.Sum[int64]); ok { for _, p := range d.DataPoints { out[m.Name] += p.Value } } } }
	return out
}

func mk(n int) plog.Logs { ld := plog.NewLogs(); s := ld.ResourceLogs().AppendEmpty().ScopeLogs().AppendEmpty(); for i := 0; i < n; i++ { s.LogRecords().AppendEmpty().Body().SetStr("x") }; return ld }

func main() {
	rng := rand.New(rand.NewSource(23))
	bad, runs := 0, 0
	classes := map[string]int{}
	for iter := 0; iter < 300; iter++ {
		runs++
		tel := componenttest.NewTelemetry()
		set := exportertest.NewNopSettings(component.MustNewType("p")); set.TelemetrySettings = tel.NewTelemetrySettings()
		cfg := exporterhelper.NewDefaultQueueConfig(); cfg.NumConsumers = 1 + rng.Intn(3)
		cfg.Sizer = exporterhelper.RequestSizerTypeItems; cfg.QueueSize = int64(5 + rng.Intn(40))
		batch := rng.Intn(2) == 0
		if batch { cfg.Batch = &exporterhelper.BatchConfig{FlushTimeout: 3 * time.Millisecond, MinSize: int64(rng.Intn(8)), MaxSize: 0}; if rng.Intn(2) == 0 { cfg.Batch.MaxSize = cfg.Batch.MinSize + int64(1+rng.Intn(4)) } }
		opts := []exporterhelper.Option{exporterhelper.WithQueue(cfg), exporterhelper.WithTimeout(exporterhelper.TimeoutConfig{})}
		retry := rng.Intn(2) == 0
		if retry { rc := configretry.NewDefaultBackOffConfig(); rc.InitialInterval = time.Millisecond; rc.MaxInterval = 2 * time.Millisecond; rc.MaxElapsedTime = 20 * time.Millisecond; rc.RandomizationFactor = 0; opts = append(opts, exporterhelper.WithRetry(rc)) }
		mode := rng.Intn(4)
		var calls atomic.Int64
		var lmu sync.Mutex
		exp, err := exporterhelper.NewLogs(context.Background(), set, struct{}{}, func(_ context.Context, ld plog.Logs) error {
			n := calls.Add(1)
			lmu.Lock(); defer lmu.Unlock()
			switch mode {
			case 1: if n%3 == 0 { return consumererror.NewPermanent(errors.New("perm")) }
			case 2: if n%2 == 0 { return errors.New("transient") }
			case 3: if n%2 == 0 && ld.LogRecordCount() > 1 { rem := plog.NewLogs(); ld.CopyTo(rem); k := 0; rem.ResourceLogs().At(0).ScopeLogs().At(0).LogRecords().RemoveIf(func(plog.LogRecord) bool { k++; return k == 1 }); return consumererror.NewLogs(errors.New("partial"), rem) }
			}
			return nil
		}, opts...)
		if err != nil { panic(err) }
		exp.Start(context.Background(), componenttest.NewNopHost())
		given := int64(0)
		var wg sync.WaitGroup
		var gmu sync.Mutex
		for p := 0; p < 3; p++ { wg.Add(1); go func(p int) { defer wg.Done(); for r := 0; r < 12; r++ { n := 1 + (p+r)%6; _ = exp.ConsumeLogs(context.Background(), mk(n)); gmu.Lock(); given += int64(n); gmu.Unlock() } }(p) }
		wg.Wait()
		exp.Shutdown(context.Background())
		m := all(tel)
		sent, failed, enq := m["otelcol_exporter_sent_log_records"], m["otelcol_exporter_send_failed_log_records"], m["otelcol_exporter_enqueue_failed_log_records"]
		key := fmt.Sprintf("batch=%v retry=%v mode=%d", batch, retry, mode)
		if sent+failed+enq != given { bad++; if bad < 8 { fmt.Printf("%s consumers=%d queue=%d: given=%d sent=%d failed=%d enqueue_failed=%d (sum %d)\n", key, cfg.NumConsumers, cfg.QueueSize, given, sent, failed, enq, sent+failed+enq) } } else { classes[key]++ }
	}
	fmt.Println("runs:", runs, "config/backend classes balanced:", len(classes), "bad:", bad)
}
