package main

import (
	"context"
	"fmt"
	"math/rand"
	"reflect"
	"sort"
	"strings"
	"time"

	"go.opentelemetry.io/collector/component"
	"go.opentelemetry.io/collector/confmap"
	"go.opentelemetry.io/collector/confmap/provider/yamlprovider"
	"go.opentelemetry.io/collector/confmap/xconfmap"
	"go.opentelemetry.io/collector/exporter"
	"go.opentelemetry.io/collector/exporter/debugexporter"
	"go.opentelemetry.io/collector/exporter/otlpexporter"
	"go.opentelemetry.io/collector/exporter/otlphttpexporter"
	"go.opentelemetry.io/collector/otelcol"
	"go.opentelemetry.io/collector/processor"
	"go.opentelemetry.io/collector/processor/batchprocessor"
	"go.opentelemetry.io/collector/processor/memorylimiterprocessor"
	"go.opentelemetry.io/collector/receiver"
	"go.opentelemetry.io/collector/receiver/otlpreceiver"
)

type validator interface{ Validate() error }

// independent walker: visit every reachable value, call every Validate it can find
func walk(v reflect.Value, path string, out map[string]string, depth int) {
	if depth > 30 || !v.IsValid() { return }
	call := func(x reflect.Value) {
		if !x.IsValid() || !x.CanInterface() { return }
		if val, ok := x.Interface().(validator); ok {
			if x.Kind() == reflect.Ptr && x.IsNil() { return }
			if err := func() (e error) { defer func() { if r := recover(); r != nil { e = nil } }(); return val.Validate() }(); err != nil { out[err.Error()] = path }
		}
	}
	switch v.Kind() {
	case reflect.Ptr, reflect.Interface:
		if v.IsNil() { return }
		walk(v.Elem(), path, out, depth+1)
		return
	}
	// value receiver or pointer receiver
	call(v)
	if v.CanAddr() { call(v.Addr()) } else { p := reflect.New(v.Type()); p.Elem().Set(v); call(p) }
	switch v.Kind() {
	case reflect.Struct:
		for i := 0; i < v.NumField(); i++ { if v.Type().Field(i).IsExported() { walk(v.Field(i), path+"."+v.Type().Field(i).Name, out, depth+1) } }
	case reflect.Slice, reflect.Array:
		for i := 0; i < v.Len(); i++ { walk(v.Index(i), fmt.Sprintf("%s[%d]", path, i), out, depth+1) }
	case reflect.Map:
		it := v.MapRange()
		for it.Next() { walk(it.Key(), path+"{key}", out, depth+1); walk(it.Value(), fmt.Sprintf("%s{%v}", path, it.Key().Interface()), out, depth+1) }
	}
}

// perturb: set random numeric/duration fields to hostile values
func perturb(rng *rand.Rand, v reflect.Value, depth int) int {
	n := 0
	if depth > 30 { return 0 }
	switch v.Kind() {
	case reflect.Ptr, reflect.Interface:
		if !v.IsNil() { n += perturb(rng, v.Elem(), depth+1) }
	case reflect.Struct:
		for i := 0; i < v.NumField(); i++ { if v.Type().Field(i).IsExported() { n += perturb(rng, v.Field(i), depth+1) } }
	case reflect.Map:
		for _, k := range v.MapKeys() { e := v.MapIndex(k); if e.Kind() == reflect.Ptr || e.Kind() == reflect.Interface { n += perturb(rng, e, depth+1) } }
	case reflect.Slice:
		for i := 0; i < v.Len(); i++ { n += perturb(rng, v.Index(i), depth+1) }
	case reflect.Int, reflect.Int32, reflect.Int64:
		if v.CanSet() && rng.Intn(4) == 0 { v.SetInt([]int64{-1, 0, -1000000000}[rng.Intn(3)]); n++ }
	case reflect.Uint32, reflect.Uint64:
		if v.CanSet() && rng.Intn(4) == 0 { v.SetUint([]uint64{0, 101, 4000000000}[rng.Intn(3)]); n++ }
	case reflect.Float64:
		if v.CanSet() && rng.Intn(4) == 0 { v.SetFloat([]float64{-1, 2, 0}[rng.Intn(3)]); n++ }
	case reflect.String:
		if v.CanSet() && rng.Intn(6) == 0 { v.SetString([]string{"", "bogus", "localhost:0"}[rng.Intn(3)]); n++ }
	}
	return n
}

func main() {
	_ = time.Second
	rng := rand.New(rand.NewSource(14))
	f := otelcol.Factories{}
	f.Receivers = map[component.Type]receiver.Factory{otlpreceiver.NewFactory().Type(): otlpreceiver.NewFactory()}
	f.Processors = map[component.Type]processor.Factory{batchprocessor.NewFactory().Type(): batchprocessor.NewFactory(), memorylimiterprocessor.NewFactory().Type(): memorylimiterprocessor.NewFactory()}
	f.Exporters = map[component.Type]exporter.Factory{otlpexporter.NewFactory().Type(): otlpexporter.NewFactory(), otlphttpexporter.NewFactory().Type(): otlphttpexporter.NewFactory(), debugexporter.NewFactory().Type(): debugexporter.NewFactory()}
	y := `
receivers: {otlp: {protocols: {grpc: {endpoint: "localhost:4317", keepalive: {server_parameters: {time: 1s}}}, http: {endpoint: "localhost:4318", cors: {allowed_origins: ["*"]}}}}}
processors: {batch: {}, memory_limiter: {check_interval: 1s, limit_mib: 100, spike_limit_mib: 10}}
exporters:
  otlp: {endpoint: "localhost:1", tls: {insecure: true}, sending_queue: {queue_size: 10, sizer: items, batch: {flush_timeout: 1s, min_size: 1, max_size: 5}}, retry_on_failure: {enabled: true}}
  otlp/2: {endpoint: "localhost:2", sending_queue: {enabled: true}}
  otlphttp: {endpoint: "http://localhost:1", sending_queue: {queue_size: 3}}
  debug: {}
service:
  telemetry: {metrics: {level: none}}
  pipelines:
    logs: {receivers: [otlp], processors: [memory_limiter, batch], exporters: [otlp, otlp/2, otlphttp, debug]}
`
	missing := map[string]int{}
	totalErrs, cases, perturbed := 0, 0, 0
	for iter := 0; iter < 2000; iter++ {
		cp, err := otelcol.NewConfigProvider(otelcol.ConfigProviderSettings{ResolverSettings: confmap.ResolverSettings{URIs: []string{"yaml:" + y}, ProviderFactories: []confmap.ProviderFactory{yamlprovider.NewFactory()}}})
		if err != nil { panic(err) }
		cfg, err := cp.Get(context.Background(), f)
		if err != nil { panic(err) }
		if iter == 0 { if err := xconfmap.Validate(cfg); err != nil { panic("base invalid: " + err.Error()) } }
		perturbed += perturb(rng, reflect.ValueOf(cfg), 0)
		mine := map[string]string{}
		walk(reflect.ValueOf(cfg), "cfg", mine, 0)
		verr := xconfmap.Validate(cfg)
		vs := ""
		if verr != nil { vs = verr.Error() }
		cases++
		for e, path := range mine {
			totalErrs++
			if !strings.Contains(vs, e) { missing[fmt.Sprintf("%s  (at %s)", e, path)]++ }
		}
	}
	fmt.Println("cases:", cases, "fields perturbed:", perturbed, "Validate errors found by independent walker:", totalErrs, "not reported by xconfmap.Validate:", len(missing))
	ks := []string{}; for k := range missing { ks = append(ks, k) }; sort.Strings(ks)
	for _, k := range ks[:min(len(ks), 15)] { fmt.Println("  MISSING", missing[k], k) }
}
