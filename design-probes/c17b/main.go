package main

import (
	"context"
	"fmt"
	"math/rand"
	"sort"
	"strings"
	"sync"
	"time"

	"go.opentelemetry.io/collector/client"
	"go.opentelemetry.io/collector/component/componenttest"
	"go.opentelemetry.io/collector/consumer"
	"go.opentelemetry.io/collector/pdata/plog"
	"go.opentelemetry.io/collector/processor/batchprocessor"
	"go.opentelemetry.io/collector/processor/processortest"
)

func mk(id string, k int) plog.Logs {
	ld := plog.NewLogs(); s := ld.ResourceLogs().AppendEmpty().ScopeLogs().AppendEmpty()
	for i := 0; i < k; i++ { s.LogRecords().AppendEmpty().Body().SetStr(fmt.Sprintf("%s.%d", id, i)) }
	return ld
}
func bodies(ld plog.Logs) []string {
	var out []string
	for i := 0; i < ld.ResourceLogs().Len(); i++ { rl := ld.ResourceLogs().At(i); for j := 0; j < rl.ScopeLogs().Len(); j++ { l := rl.ScopeLogs().At(j).LogRecords(); for k := 0; k < l.Len(); k++ { out = append(out, l.At(k).Body().Str()) } } }
	return out
}

func main() {
	rng := rand.New(rand.NewSource(2))
	f := batchprocessor.NewFactory()
	bad, runs, groupsSeen, refusedSeen := 0, 0, 0, 0
	var maxLat time.Duration
	for iter := 0; iter < 200; iter++ {
		runs++
		cfg := f.CreateDefaultConfig().(*batchprocessor.Config)
		cfg.SendBatchSize = uint32(1 + rng.Intn(8)); cfg.SendBatchMaxSize = 0; if rng.Intn(2) == 0 { cfg.SendBatchMaxSize = cfg.SendBatchSize + uint32(rng.Intn(4)) }
		timerMode := rng.Intn(2) == 0
		cfg.Timeout = time.Hour; if timerMode { cfg.Timeout = 15 * time.Millisecond; cfg.SendBatchSize = 1000; cfg.SendBatchMaxSize = 0 }
		cfg.MetadataKeys = []string{"tenant", "Region"}[:1+rng.Intn(2)]
		cfg.MetadataCardinalityLimit = uint32(rng.Intn(4))
		if err := cfg.Validate(); err != nil { panic(err) }
		var mu sync.Mutex
		itemGroup := map[string]string{} // item -> group it was sent with
		arrival := map[string]time.Time{}
		out := map[string]int{}
		prob := ""
		sink, _ := consumer.NewLogs(func(ctx context.Context, ld plog.Logs) error {
			now := time.Now()
			info := client.FromContext(ctx)
			var md []string
			for _, k := range cfg.MetadataKeys { md = append(md, strings.ToLower(k)+"="+strings.Join(info.Metadata.Get(k), "|")) }
			g := strings.Join(md, ",")
			mu.Lock(); defer mu.Unlock()
			b := bodies(ld)
			if cfg.SendBatchMaxSize > 0 && len(b) > int(cfg.SendBatchMaxSize) { prob += fmt.Sprintf(" batch %d > max %d;", len(b), cfg.SendBatchMaxSize) }
			for _, id := range b {
				out[id]++
				if itemGroup[id] != g { prob += fmt.Sprintf(" item %s of group [%s] emitted with metadata [%s];", id, itemGroup[id], g) }
				if timerMode { if lat := now.Sub(arrival[id]); lat > maxLat { maxLat = lat } }
			}
			return nil
		})
		p, err := f.CreateLogs(context.Background(), processortest.NewNopSettings(f.Type()), cfg, sink)
		if err != nil { panic(err) }
		p.Start(context.Background(), componenttest.NewNopHost())
		accepted := map[string]bool{}
		groups := map[string]bool{}
		var wg sync.WaitGroup
		var amu sync.Mutex
		for pr := 0; pr < 3; pr++ {
			wg.Add(1)
			go func(pr int) {
				defer wg.Done()
				r := rand.New(rand.NewSource(int64(iter*10 + pr)))
				for k := 0; k < 8; k++ {
					if timerMode && k == 4 { time.Sleep(25 * time.Millisecond) } // second wave after the first timer period
					tenant := fmt.Sprint("t", r.Intn(3)); region := fmt.Sprint("r", r.Intn(2))
					md := map[string][]string{"tenant": {tenant}, "region": {region}, "other": {"x"}}
					ctx := client.NewContext(context.Background(), client.Info{Metadata: client.NewMetadata(md)})
					var gp []string
					for _, key := range cfg.MetadataKeys { gp = append(gp, strings.ToLower(key)+"="+md[strings.ToLower(key)][0]) }
					g := strings.Join(gp, ",")
					id := fmt.Sprintf("i%d.p%d.k%d", iter, pr, k); n := 1 + r.Intn(4)
					mu.Lock(); for i := 0; i < n; i++ { itemGroup[fmt.Sprintf("%s.%d", id, i)] = g; arrival[fmt.Sprintf("%s.%d", id, i)] = time.Now() }; mu.Unlock()
					err := p.ConsumeLogs(ctx, mk(id, n))
					amu.Lock()
					if err == nil { for i := 0; i < n; i++ { accepted[fmt.Sprintf("%s.%d", id, i)] = true }; groups[g] = true } else { refusedSeen++ }
					amu.Unlock()
				}
			}(pr)
		}
		wg.Wait()
		if timerMode { time.Sleep(40 * time.Millisecond); mu.Lock(); for id := range accepted { if out[id] == 0 { prob += " item not flushed 40ms after arrival with 15ms timeout;"; break } }; mu.Unlock() }
		p.Shutdown(context.Background())
		mu.Lock()
		for id := range accepted { if out[id] != 1 { prob += fmt.Sprintf(" accepted item %s emitted %d times;", id, out[id]); break } }
		for id := range out { if !accepted[id] { prob += fmt.Sprintf(" refused item %s emitted;", id); break } }
		if cfg.MetadataCardinalityLimit > 0 && len(groups) > int(cfg.MetadataCardinalityLimit) { prob += fmt.Sprintf(" %d groups accepted, limit %d;", len(groups), cfg.MetadataCardinalityLimit) }
		mu.Unlock()
		groupsSeen += len(groups)
		if prob != "" { bad++; if bad < 6 { fmt.Println("cfg", cfg.SendBatchSize, cfg.SendBatchMaxSize, cfg.Timeout, cfg.MetadataKeys, cfg.MetadataCardinalityLimit, ":", prob[:min(len(prob), 300)]) } }
	}
	_ = sort.Strings
	fmt.Println("runs:", runs, "groups:", groupsSeen, "refused (cardinality):", refusedSeen, "max timer latency:", maxLat, "bad:", bad)
}
