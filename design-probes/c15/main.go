package main

import (
	"context"
	"errors"
	"fmt"
	"sort"
	"strings"
	"sync"
	"time"

	"google.golang.org/genproto/googleapis/rpc/errdetails"
	"google.golang.org/grpc/codes"
	"google.golang.org/grpc/status"
	"google.golang.org/protobuf/types/known/durationpb"

	"go.opentelemetry.io/collector/component/componenttest"
	"go.opentelemetry.io/collector/config/configcompression"
	"go.opentelemetry.io/collector/config/configtls"
	"go.opentelemetry.io/collector/consumer"
	"go.opentelemetry.io/collector/consumer/consumererror"
	"go.opentelemetry.io/collector/exporter"
	"go.opentelemetry.io/collector/exporter/exportertest"
	"go.opentelemetry.io/collector/exporter/otlpexporter"
	"go.opentelemetry.io/collector/exporter/otlphttpexporter"
	"go.opentelemetry.io/collector/internal/testutil"
	"go.opentelemetry.io/collector/pdata/plog"
	"go.opentelemetry.io/collector/receiver/otlpreceiver"
	"go.opentelemetry.io/collector/receiver/receivertest"
	"testing"
)

type outcome struct {
	name string
	err  func() error
	// expectation per transport: "ok" | "permanent" | "retry" | "throttle"
	grpc, http string
}

func st(c codes.Code, delay time.Duration) error {
	s := status.New(c, "msg")
	if delay > 0 { s, _ = s.WithDetails(&errdetails.RetryInfo{RetryDelay: durationpb.New(delay)}) }
	return s.Err()
}

func main() {
	t := &testing.T{}
	grpcAddr, httpAddr := testutil.GetAvailableLocalAddress(t), testutil.GetAvailableLocalAddress(t)
	var mu sync.Mutex
	var next error
	calls := 0
	var lastBody string
	sink, _ := consumer.NewLogs(func(_ context.Context, ld plog.Logs) error {
		mu.Lock(); defer mu.Unlock()
		calls++
		lastBody = ld.ResourceLogs().At(0).ScopeLogs().At(0).LogRecords().At(0).Body().Str()
		return next
	})
	rf := otlpreceiver.NewFactory()
	rcfg := rf.CreateDefaultConfig().(*otlpreceiver.Config)
	rcfg.GRPC.NetAddr.Endpoint = grpcAddr
	rcfg.HTTP.ServerConfig.Endpoint = httpAddr
	rcv, err := rf.CreateLogs(context.Background(), receivertest.NewNopSettings(rf.Type()), rcfg, sink)
	if err != nil { panic(err) }
	if err := rcv.Start(context.Background(), componenttest.NewNopHost()); err != nil { panic(err) }
	defer rcv.Shutdown(context.Background())

	exps := map[string]exporter.Logs{}
	for _, comp := range []configcompression.Type{"none", "gzip", "zstd", "snappy"} {
		gf := otlpexporter.NewFactory()
		gc := gf.CreateDefaultConfig().(*otlpexporter.Config)
		gc.ClientConfig.Endpoint = grpcAddr; gc.ClientConfig.TLSSetting = configtls.ClientConfig{Insecure: true}
		gc.ClientConfig.Compression = comp
		gc.QueueConfig.Enabled = false; gc.RetryConfig.Enabled = false
		ge, err := gf.CreateLogs(context.Background(), exportertest.NewNopSettings(gf.Type()), gc)
		if err != nil { panic(err) }
		if err := ge.Start(context.Background(), componenttest.NewNopHost()); err != nil { panic(err) }
		exps["grpc/"+string(comp)] = ge
		for _, enc := range []otlphttpexporter.EncodingType{otlphttpexporter.EncodingProto, otlphttpexporter.EncodingJSON} {
			hf := otlphttpexporter.NewFactory()
			hc := hf.CreateDefaultConfig().(*otlphttpexporter.Config)
			hc.ClientConfig.Endpoint = "http://" + httpAddr
			hc.ClientConfig.Compression = comp
			hc.Encoding = enc
			hc.QueueConfig.Enabled = false; hc.RetryConfig.Enabled = false
			he, err := hf.CreateLogs(context.Background(), exportertest.NewNopSettings(hf.Type()), hc)
			if err != nil { panic(err) }
			if err := he.Start(context.Background(), componenttest.NewNopHost()); err != nil { panic(err) }
			exps["http-"+string(enc)+"/"+string(comp)] = he
		}
	}
	// expectation tables straight from the OTLP spec
	grpcRetry := map[codes.Code]bool{codes.Canceled: true, codes.DeadlineExceeded: true, codes.Aborted: true, codes.OutOfRange: true, codes.Unavailable: true, codes.DataLoss: true}
	httpOf := func(c codes.Code) int { // receiver's documented mapping
		switch c {
		case codes.Canceled, codes.DeadlineExceeded, codes.Aborted, codes.OutOfRange, codes.Unavailable, codes.DataLoss: return 503
		case codes.ResourceExhausted: return 429
		case codes.InvalidArgument: return 400
		case codes.Unauthenticated: return 401
		case codes.PermissionDenied: return 403
		case codes.Unimplemented: return 404
		}
		return 500
	}
	httpRetry := map[int]bool{429: true, 502: true, 503: true, 504: true}
	var outs []outcome
	outs = append(outs, outcome{"nil", func() error { return nil }, "ok", "ok"})
	outs = append(outs, outcome{"plain transient", func() error { return errors.New("boom") }, "retry", "retry"})
	outs = append(outs, outcome{"plain permanent", func() error { return consumererror.NewPermanent(errors.New("perm")) }, "permanent", "permanent"})
	for c := codes.Canceled; c <= codes.Unauthenticated; c++ {
		c := c
		for _, d := range []time.Duration{0, 7 * time.Second} {
			d := d
			g := "permanent"
			if grpcRetry[c] || (c == codes.ResourceExhausted && d > 0) { g = "retry"; if d > 0 { g = "throttle" } }
			h := "permanent"
			if httpRetry[httpOf(c)] { h = "retry"; if d > 0 && (httpOf(c) == 429 || httpOf(c) == 503) { h = "throttle" } }
			outs = append(outs, outcome{fmt.Sprintf("status %s delay %v", c, d), func() error { return st(c, d) }, g, h})
		}
	}
	classify := func(err error) string {
		switch {
		case err == nil: return "ok"
		case consumererror.IsPermanent(err): return "permanent"
		case strings.HasPrefix(err.Error(), "Throttle ("): return "throttle"
		}
		return "retry"
	}
	bad, n := 0, 0
	names := []string{}; for k := range exps { names = append(names, k) }; sort.Strings(names)
	for _, o := range outs {
		for _, en := range names {
			mu.Lock(); next = o.err(); before := calls; mu.Unlock()
			ld := plog.NewLogs(); ld.ResourceLogs().AppendEmpty().ScopeLogs().AppendEmpty().LogRecords().AppendEmpty().Body().SetStr(fmt.Sprint("b", n))
			err := exps[en].ConsumeLogs(context.Background(), ld)
			n++
			mu.Lock(); got, body := calls-before, lastBody; mu.Unlock()
			want := o.http; if strings.HasPrefix(en, "grpc") { want = o.grpc }
			if c := classify(err); c != want || got != 1 || body != fmt.Sprint("b", n-1) {
				bad++
				if bad < 15 { fmt.Printf("MISMATCH %-28s via %-16s: classified %s want %s (sinkcalls=%d) err=%.90v\n", o.name, en, c, want, got, err) }
			}
		}
	}
	// empty request must not reach sink
	mu.Lock(); next = nil; before := calls; mu.Unlock()
	for _, en := range names { if err := exps[en].ConsumeLogs(context.Background(), plog.NewLogs()); err != nil { fmt.Println("empty payload error via", en, err); bad++ } }
	mu.Lock(); if calls != before { fmt.Println("sink invoked for empty payloads:", calls-before); bad++ }; mu.Unlock()
	fmt.Println("exchanges:", n, "bad:", bad)
}
