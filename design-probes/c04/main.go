package main

import (
	"context"
	"fmt"
	"os"
	"strings"

	"go.opentelemetry.io/collector/exporter/exporterhelper"
	"go.opentelemetry.io/collector/pdata/plog"
	"go.opentelemetry.io/collector/pdata/pmetric"
)

func main() {
	switch os.Args[1] {
	case "copyto":
		a := plog.NewLogRecordSlice()
		for i := 0; i < 3; i++ { a.AppendEmpty().Body().SetStr(fmt.Sprint("a", i)) }
		d := plog.NewLogRecordSlice()
		for i := 0; i < 3; i++ { d.AppendEmpty().Body().SetStr(fmt.Sprint("d", i)) }
		d.RemoveIf(func(lr plog.LogRecord) bool { return lr.Body().Str() == "d0" })
		a.CopyTo(d)
		for i := 0; i < d.Len(); i++ { fmt.Print(d.At(i).Body().Str(), " ") }
		fmt.Println()
		m := pmetric.NewMetric(); m.SetEmptyGauge().DataPoints().AppendEmpty().SetIntValue(7)
		pmetric.NewMetric().CopyTo(m)
		fmt.Println("after copy of empty metric, dest type:", m.Type())
		func() {
			defer func() { fmt.Println("ensurecap copy recovered:", recover()) }()
			e := plog.NewLogRecordSlice(); e.EnsureCapacity(5); a.CopyTo(e); fmt.Println("ok len", e.Len())
		}()
	case "split":
		ld := plog.NewLogs()
		lr := ld.ResourceLogs().AppendEmpty().ScopeLogs().AppendEmpty().LogRecords().AppendEmpty()
		lr.Body().SetStr(strings.Repeat("x", 500))
		set := exporterhelper.NewLogsQueueBatchSettings()
		b, _ := (&plog.ProtoMarshaler{}).MarshalLogs(ld)
		req, _ := set.Encoding.Unmarshal(b)
		fmt.Println("calling MergeSplit bytes max=100 on single 500B record")
		out, err := req.MergeSplit(context.Background(), 100, exporterhelper.RequestSizerTypeBytes, nil)
		fmt.Println("returned", len(out), err)
	case "metricsplit":
		md := pmetric.NewMetrics()
		m := md.ResourceMetrics().AppendEmpty().ScopeMetrics().AppendEmpty().Metrics().AppendEmpty()
		m.SetName("name"); m.SetUnit("u"); s := m.SetEmptySum(); s.SetIsMonotonic(true)
		for i := 0; i < 5; i++ { s.DataPoints().AppendEmpty().SetIntValue(int64(i)) }
		set := exporterhelper.NewMetricsQueueBatchSettings()
		b, _ := (&pmetric.ProtoMarshaler{}).MarshalMetrics(md)
		req, _ := set.Encoding.Unmarshal(b)
		out, err := req.MergeSplit(context.Background(), 2, exporterhelper.RequestSizerTypeItems, nil)
		fmt.Println(len(out), err)
		for _, o := range out {
			bb, _ := set.Encoding.Marshal(o)
			x, _ := (&pmetric.ProtoUnmarshaler{}).UnmarshalMetrics(bb)
			mm := x.ResourceMetrics().At(0).ScopeMetrics().At(0).Metrics().At(0)
			fmt.Printf(" name=%q unit=%q type=%v mono=%v dps=%d\n", mm.Name(), mm.Unit(), mm.Type(), mm.Sum().IsMonotonic(), mm.Sum().DataPoints().Len())
		}
	}
}
