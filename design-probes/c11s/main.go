package main

import (
	"context"
	"errors"
	"fmt"
	"math/rand"
	"sync"

	"go.opentelemetry.io/collector/component"
	"go.opentelemetry.io/collector/component/componentstatus"
	"go.opentelemetry.io/collector/config/configtelemetry"
	"go.opentelemetry.io/collector/consumer"
	"go.opentelemetry.io/collector/exporter"
	"go.opentelemetry.io/collector/extension"
	"go.opentelemetry.io/collector/internal/sharedcomponent"
	"go.opentelemetry.io/collector/pdata/plog"
	"go.opentelemetry.io/collector/pdata/pmetric"
	"go.opentelemetry.io/collector/pdata/ptrace"
	"go.opentelemetry.io/collector/pipeline"
	"go.opentelemetry.io/collector/receiver"
	"go.opentelemetry.io/collector/service"
	"go.opentelemetry.io/collector/service/extensions"
	"go.opentelemetry.io/collector/service/pipelines"
	"go.opentelemetry.io/collector/service/telemetry"
	"go.uber.org/zap/zapcore"
)

type S = componentstatus.Status

var legal = map[S]map[S]bool{
	componentstatus.StatusNone:             {componentstatus.StatusStarting: true},
	componentstatus.StatusStarting:         {componentstatus.StatusOK: true, componentstatus.StatusRecoverableError: true, componentstatus.StatusPermanentError: true, componentstatus.StatusFatalError: true, componentstatus.StatusStopping: true},
	componentstatus.StatusOK:               {componentstatus.StatusRecoverableError: true, componentstatus.StatusPermanentError: true, componentstatus.StatusFatalError: true, componentstatus.StatusStopping: true},
	componentstatus.StatusRecoverableError: {componentstatus.StatusOK: true, componentstatus.StatusPermanentError: true, componentstatus.StatusFatalError: true, componentstatus.StatusStopping: true},
	componentstatus.StatusPermanentError:   {componentstatus.StatusStopping: true},
	componentstatus.StatusFatalError:       {},
	componentstatus.StatusStopping:         {componentstatus.StatusPermanentError: true, componentstatus.StatusFatalError: true, componentstatus.StatusStopped: true, componentstatus.StatusRecoverableError: true},
	componentstatus.StatusStopped:          {},
}

type under struct{ host component.Host }
func (u *under) Start(_ context.Context, h component.Host) error { u.host = h; return nil }
func (u *under) Shutdown(context.Context) error { return nil }

type sink struct{}
func (sink) Start(context.Context, component.Host) error { return nil }
func (sink) Shutdown(context.Context) error { return nil }
func (sink) Capabilities() consumer.Capabilities { return consumer.Capabilities{} }
func (sink) ConsumeLogs(context.Context, plog.Logs) error { return nil }
func (sink) ConsumeTraces(context.Context, ptrace.Traces) error { return nil }
func (sink) ConsumeMetrics(context.Context, pmetric.Metrics) error { return nil }

type watcher struct{ mu sync.Mutex; got map[*componentstatus.InstanceID][]S }
func (w *watcher) Start(context.Context, component.Host) error { return nil }
func (w *watcher) Shutdown(context.Context) error { return nil }
func (w *watcher) ComponentStatusChanged(src *componentstatus.InstanceID, e *componentstatus.Event) {
	if src.Kind() != component.KindReceiver { return }
	w.mu.Lock(); w.got[src] = append(w.got[src], e.Status()); w.mu.Unlock()
}
type cfg struct{}

func main() {
	rng := rand.New(rand.NewSource(1))
	bad, lifetimes, events := 0, 0, 0
	for iter := 0; iter < 300; iter++ {
		lifetimes++
		t := component.MustNewType("k")
		shared := sharedcomponent.NewMap[component.ID, *under]()
		var u *under
		get := func(id component.ID) (*sharedcomponent.Component[*under], error) { return shared.LoadOrStore(id, func() (*under, error) { u = &under{}; return u, nil }) }
		w := &watcher{got: map[*componentstatus.InstanceID][]S{}}
		ch := make(chan error, 100); go func() { for range ch { } }()
		set := service.Settings{BuildInfo: component.NewDefaultBuildInfo(), AsyncErrorChannel: ch,
			ReceiversConfigs: map[component.ID]component.Config{component.NewID(t): &cfg{}},
			ReceiversFactories: map[component.Type]receiver.Factory{t: receiver.NewFactory(t, func() component.Config { return &cfg{} },
				receiver.WithLogs(func(_ context.Context, s receiver.Settings, _ component.Config, _ consumer.Logs) (receiver.Logs, error) { return get(s.ID) }, component.StabilityLevelStable),
				receiver.WithTraces(func(_ context.Context, s receiver.Settings, _ component.Config, _ consumer.Traces) (receiver.Traces, error) { return get(s.ID) }, component.StabilityLevelStable),
				receiver.WithMetrics(func(_ context.Context, s receiver.Settings, _ component.Config, _ consumer.Metrics) (receiver.Metrics, error) { return get(s.ID) }, component.StabilityLevelStable))},
			ExportersConfigs: map[component.ID]component.Config{component.NewID(t): &cfg{}},
			ExportersFactories: map[component.Type]exporter.Factory{t: exporter.NewFactory(t, func() component.Config { return &cfg{} },
				exporter.WithLogs(func(context.Context, exporter.Settings, component.Config) (exporter.Logs, error) { return sink{}, nil }, component.StabilityLevelStable),
				exporter.WithTraces(func(context.Context, exporter.Settings, component.Config) (exporter.Traces, error) { return sink{}, nil }, component.StabilityLevelStable),
				exporter.WithMetrics(func(context.Context, exporter.Settings, component.Config) (exporter.Metrics, error) { return sink{}, nil }, component.StabilityLevelStable))},
			ExtensionsConfigs: map[component.ID]component.Config{component.NewID(t): &cfg{}},
			ExtensionsFactories: map[component.Type]extension.Factory{t: extension.NewFactory(t, func() component.Config { return &cfg{} }, func(context.Context, extension.Settings, component.Config) (extension.Extension, error) { return w, nil }, component.StabilityLevelStable)},
		}
		pc := &pipelines.PipelineConfig{Receivers: []component.ID{component.NewID(t)}, Exporters: []component.ID{component.NewID(t)}}
		cfgS := service.Config{Telemetry: telemetry.Config{Logs: telemetry.LogsConfig{Level: zapcore.ErrorLevel, Encoding: "console", OutputPaths: []string{"/dev/null"}, ErrorOutputPaths: []string{"/dev/null"}}, Metrics: telemetry.MetricsConfig{Level: configtelemetry.LevelNone}},
			Extensions: extensions.Config{component.NewID(t)},
			Pipelines: pipelines.Config{pipeline.NewID(pipeline.SignalLogs): pc, pipeline.NewID(pipeline.SignalTraces): pc, pipeline.NewID(pipeline.SignalMetrics): pc}}
		srv, err := service.New(context.Background(), set, cfgS)
		if err != nil { panic(err) }
		if err := srv.Start(context.Background()); err != nil { panic(err) }
		// concurrent reporters through the shared component's host
		var wg sync.WaitGroup
		nrep := 2 + rng.Intn(3)
		seeds := []int64{}; for g := 0; g < nrep; g++ { seeds = append(seeds, rng.Int63()) }
		for g := 0; g < nrep; g++ {
			wg.Add(1)
			go func(seed int64) {
				defer wg.Done()
				r := rand.New(rand.NewSource(seed))
				for k := 0; k < 6; k++ {
					switch r.Intn(4) {
					case 0: componentstatus.ReportStatus(u.host, componentstatus.NewEvent(componentstatus.StatusOK))
					case 1: componentstatus.ReportStatus(u.host, componentstatus.NewRecoverableErrorEvent(errors.New("r")))
					case 2: if r.Intn(6) == 0 { componentstatus.ReportStatus(u.host, componentstatus.NewPermanentErrorEvent(errors.New("p"))) }
					case 3: componentstatus.ReportStatus(u.host, componentstatus.NewEvent(componentstatus.StatusStarting))
					}
				}
			}(seeds[g])
		}
		wg.Wait()
		if err := srv.Shutdown(context.Background()); err != nil { panic(err) }
		w.mu.Lock()
		prob := ""
		if len(w.got) != 3 { prob += fmt.Sprintf(" %d receiver instances reported, want 3;", len(w.got)) }
		var ref []S
		for id, seq := range w.got {
			events += len(seq)
			cur := componentstatus.StatusNone
			for _, s := range seq { if !legal[cur][s] { prob += fmt.Sprintf(" illegal %v->%v for %v;", cur, s, id.ComponentID()) }; cur = s }
			if len(seq) == 0 || seq[len(seq)-1] != componentstatus.StatusStopped { prob += " does not end Stopped;" }
			// every instance of the shared component should see the same runtime transitions
			var rt []S
			for _, s := range seq { if s == componentstatus.StatusRecoverableError || s == componentstatus.StatusPermanentError { rt = append(rt, s) } }
			if ref == nil { ref = append([]S{}, rt...); ref = append(ref, componentstatus.StatusNone) } else if fmt.Sprint(append(rt, componentstatus.StatusNone)) != fmt.Sprint(ref) { prob += fmt.Sprintf(" instances disagree on error transitions: %v vs %v;", rt, ref[:len(ref)-1]) }
		}
		w.mu.Unlock()
		if prob != "" { bad++; if bad < 5 { fmt.Println(prob[:min(len(prob), 300)]) } }
	}
	fmt.Println("service lifetimes:", lifetimes, "events delivered:", events, "bad:", bad)
}
