package main

import (
	"context"
	"fmt"
	"strings"
	"sync"
	"time"

	"go.opentelemetry.io/collector/component"
	"go.opentelemetry.io/collector/confmap"
	"go.opentelemetry.io/collector/consumer"
	"go.opentelemetry.io/collector/exporter"
	"go.opentelemetry.io/collector/internal/sharedcomponent"
	"go.opentelemetry.io/collector/otelcol"
	"go.opentelemetry.io/collector/pdata/plog"
	"go.opentelemetry.io/collector/pdata/ptrace"
	"go.opentelemetry.io/collector/processor"
	"go.opentelemetry.io/collector/receiver"
)

var mu sync.Mutex
var events []string

func ev(s string) { mu.Lock(); events = append(events, s); mu.Unlock() }

type comp struct{ name string }

func (c *comp) Start(context.Context, component.Host) error { ev("start " + c.name); return nil }
func (c *comp) Shutdown(context.Context) error              { ev("stop " + c.name); return nil }

type cfg struct{}

type lp struct{ comp; next consumer.Logs }
func (p *lp) Capabilities() consumer.Capabilities { return consumer.Capabilities{} }
func (p *lp) ConsumeLogs(ctx context.Context, ld plog.Logs) error { return p.next.ConsumeLogs(ctx, ld) }
type tp struct{ comp; next consumer.Traces }
func (p *tp) Capabilities() consumer.Capabilities { return consumer.Capabilities{} }
func (p *tp) ConsumeTraces(ctx context.Context, ld ptrace.Traces) error { return p.next.ConsumeTraces(ctx, ld) }
type le struct{ comp }
func (p *le) Capabilities() consumer.Capabilities { return consumer.Capabilities{} }
func (p *le) ConsumeLogs(ctx context.Context, ld plog.Logs) error { return nil }
type te struct{ comp }
func (p *te) Capabilities() consumer.Capabilities { return consumer.Capabilities{} }
func (p *te) ConsumeTraces(ctx context.Context, ld ptrace.Traces) error { return nil }

var shared = sharedcomponent.NewMap[component.ID, *comp]()

func factories() (otelcol.Factories, error) {
	t := component.MustNewType("k")
	f := otelcol.Factories{}
	mk := func(id component.ID) (*sharedcomponent.Component[*comp], error) {
		return shared.LoadOrStore(id, func() (*comp, error) { return &comp{"SHARED-RECV"}, nil })
	}
	f.Receivers = map[component.Type]receiver.Factory{t: receiver.NewFactory(t, func() component.Config { return &cfg{} },
		receiver.WithLogs(func(_ context.Context, s receiver.Settings, c component.Config, next consumer.Logs) (receiver.Logs, error) { return mk(s.ID) }, component.StabilityLevelStable),
		receiver.WithTraces(func(_ context.Context, s receiver.Settings, c component.Config, next consumer.Traces) (receiver.Traces, error) { return mk(s.ID) }, component.StabilityLevelStable))}
	f.Processors = map[component.Type]processor.Factory{t: processor.NewFactory(t, func() component.Config { return &cfg{} },
		processor.WithLogs(func(_ context.Context, s processor.Settings, _ component.Config, next consumer.Logs) (processor.Logs, error) { return &lp{comp{"proc-logs"}, next}, nil }, component.StabilityLevelStable),
		processor.WithTraces(func(_ context.Context, s processor.Settings, _ component.Config, next consumer.Traces) (processor.Traces, error) { return &tp{comp{"proc-traces"}, next}, nil }, component.StabilityLevelStable))}
	f.Exporters = map[component.Type]exporter.Factory{t: exporter.NewFactory(t, func() component.Config { return &cfg{} },
		exporter.WithLogs(func(_ context.Context, s exporter.Settings, _ component.Config) (exporter.Logs, error) { return &le{comp{"exp-logs"}}, nil }, component.StabilityLevelStable),
		exporter.WithTraces(func(_ context.Context, s exporter.Settings, _ component.Config) (exporter.Traces, error) { return &te{comp{"exp-traces"}}, nil }, component.StabilityLevelStable))}
	return f, nil
}

type prov struct{}
func (*prov) Retrieve(_ context.Context, uri string, w confmap.WatcherFunc) (*confmap.Retrieved, error) {
	return confmap.NewRetrievedFromYAML([]byte(`
receivers: {k: {}}
processors: {k: {}}
exporters: {k: {}}
service:
  telemetry: {metrics: {level: none}, logs: {level: error}}
  pipelines:
    logs: {receivers: [k], processors: [k], exporters: [k]}
    traces: {receivers: [k], processors: [k], exporters: [k]}
`))
}
func (*prov) Scheme() string                 { return "vv" }
func (*prov) Shutdown(context.Context) error { return nil }

func main() {
	bad := 0
	for i := 0; i < 30; i++ {
		events = nil
		col, err := otelcol.NewCollector(otelcol.CollectorSettings{
			Factories: factories, BuildInfo: component.NewDefaultBuildInfo(), SkipSettingGRPCLogger: true,
			ConfigProviderSettings: otelcol.ConfigProviderSettings{ResolverSettings: confmap.ResolverSettings{
				URIs: []string{"vv:x"}, ProviderFactories: []confmap.ProviderFactory{confmap.NewProviderFactory(func(confmap.ProviderSettings) confmap.Provider { return &prov{} })}}},
		})
		if err != nil { panic(err) }
		done := make(chan error, 1)
		go func() { done <- col.Run(context.Background()) }()
		for col.GetState() != otelcol.StateRunning { time.Sleep(time.Millisecond) }
		col.Shutdown()
		<-done
		s := strings.Join(events, ", ")
		idx := func(x string) int { return strings.Index(s, x) }
		if idx("start SHARED-RECV") < idx("start proc-logs") || idx("start SHARED-RECV") < idx("start proc-traces") {
			bad++
			if bad == 1 { fmt.Println("example:", s) }
		}
	}
	fmt.Println("runs where shared receiver started before a downstream processor of a sibling signal:", bad, "/ 30")
}
