package main

import (
	"context"
	"errors"
	"fmt"
	"math/rand"
	"strings"
	"sync"
	"time"

	"go.opentelemetry.io/collector/component"
	"go.opentelemetry.io/collector/component/componenttest"
	"go.opentelemetry.io/collector/exporter/exporterhelper"
	"go.opentelemetry.io/collector/exporter/exportertest"
	"go.opentelemetry.io/collector/pdata/plog"
)

func mk(id string, k int) plog.Logs {
	ld := plog.NewLogs(); s := ld.ResourceLogs().AppendEmpty().ScopeLogs().AppendEmpty()
	for i := 0; i < k; i++ { s.LogRecords().AppendEmpty().Body().SetStr(fmt.Sprintf("%s.%d", id, i)) }
	return ld
}
func bodies(ld plog.Logs) []string {
	var out []string
	for i := 0; i < ld.ResourceLogs().Len(); i++ { rl := ld.ResourceLogs().At(i); for j := 0; j < rl.ScopeLogs().Len(); j++ { l := rl.ScopeLogs().At(j).LogRecords(); for k := 0; k < l.Len(); k++ { out = append(out, l.At(k).Body().Str()) } } }
	return out
}

func main() {
	rng := rand.New(rand.NewSource(8))
	bad, runs, batches, splitReqs := 0, 0, 0, 0
	for iter := 0; iter < 300; iter++ {
		runs++
		minS := int64(rng.Intn(10)); maxS := int64(0); if rng.Intn(3) > 0 { maxS = minS + int64(rng.Intn(6)); if maxS == 0 { maxS = 1 } }
		cfg := exporterhelper.NewDefaultQueueConfig()
		cfg.Sizer = exporterhelper.RequestSizerTypeItems; cfg.QueueSize = 10000; cfg.WaitForResult = true; cfg.NumConsumers = 2; cfg.BlockOnOverflow = true
		cfg.Batch = &exporterhelper.BatchConfig{FlushTimeout: 5 * time.Millisecond, MinSize: minS, MaxSize: maxS}
		if err := cfg.Validate(); err != nil { continue }
		var mu sync.Mutex
		type batchRec struct{ ids []string; failed bool; doneAt time.Time }
		var recs []*batchRec
		nb := 0
		exp, err := exporterhelper.NewLogs(context.Background(), exportertest.NewNopSettings(component.MustNewType("p")), struct{}{}, func(_ context.Context, ld plog.Logs) error {
			mu.Lock(); nb++; fail := nb%3 == 0; r := &batchRec{ids: bodies(ld), failed: fail}; recs = append(recs, r); mu.Unlock()
			time.Sleep(200 * time.Microsecond)
			mu.Lock(); r.doneAt = time.Now(); mu.Unlock()
			if fail { return errors.New("batchfail") }
			return nil
		}, exporterhelper.WithQueue(cfg), exporterhelper.WithTimeout(exporterhelper.TimeoutConfig{}))
		if err != nil { panic(err) }
		exp.Start(context.Background(), componenttest.NewNopHost())
		type res struct{ id string; k int; err error; at time.Time }
		var results []res
		var rmu sync.Mutex
		var wg sync.WaitGroup
		for p := 0; p < 4; p++ {
			wg.Add(1)
			go func(p int) {
				defer wg.Done()
				for r := 0; r < 6; r++ {
					id := fmt.Sprintf("p%d.r%d", p, r); k := 1 + (p*7+r*3)%9
					err := exp.ConsumeLogs(context.Background(), mk(id, k))
					rmu.Lock(); results = append(results, res{id, k, err, time.Now()}); rmu.Unlock()
				}
			}(p)
		}
		wg.Wait()
		exp.Shutdown(context.Background())
		prob := ""
		seen := map[string]int{}
		itemBatch := map[string]*batchRec{}
		for _, r := range recs {
			batches++
			if maxS > 0 && int64(len(r.ids)) > maxS { prob += fmt.Sprintf(" batch of %d > max %d;", len(r.ids), maxS) }
			for _, id := range r.ids { seen[id]++; itemBatch[id] = r }
		}
		for _, r := range results {
			anyFail := false; var last time.Time
			parts := map[*batchRec]bool{}
			for i := 0; i < r.k; i++ {
				id := fmt.Sprintf("%s.%d", r.id, i)
				if seen[id] != 1 { prob += fmt.Sprintf(" item %s exported %d times;", id, seen[id]); continue }
				b := itemBatch[id]; parts[b] = true
				if b.failed { anyFail = true }
				if b.doneAt.After(last) { last = b.doneAt }
			}
			if len(parts) > 1 { splitReqs++ }
			if anyFail != (r.err != nil) { prob += fmt.Sprintf(" request %s err=%v but some containing batch failed=%v;", r.id, r.err, anyFail) }
			if r.at.Before(last) { prob += fmt.Sprintf(" request %s completed %v before its last batch finished;", r.id, last.Sub(r.at)) }
		}
		if len(seen) != func() int { n := 0; for _, r := range results { n += r.k }; return n }() { prob += " item count mismatch;" }
		if prob != "" { bad++; if bad < 6 { fmt.Printf("min=%d max=%d:%s\n", minS, maxS, prob[:min(len(prob), 300)]) } }
	}
	_ = strings.Join
	fmt.Println("runs:", runs, "batches:", batches, "requests spread over >1 batch:", splitReqs, "bad:", bad)
}
