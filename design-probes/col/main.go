package main

import (
	"context"
	"fmt"
	"os"
	"sync"
	"syscall"
	"time"

	"go.opentelemetry.io/collector/component"
	"go.opentelemetry.io/collector/component/componentstatus"
	"go.opentelemetry.io/collector/confmap"
	"go.opentelemetry.io/collector/connector"
	"go.opentelemetry.io/collector/consumer"
	"go.opentelemetry.io/collector/exporter"
	"go.opentelemetry.io/collector/extension"
	"go.opentelemetry.io/collector/otelcol"
	"go.opentelemetry.io/collector/pdata/plog"
	"go.opentelemetry.io/collector/pdata/ptrace"
	"go.opentelemetry.io/collector/processor"
	"go.opentelemetry.io/collector/receiver"
)

var mu sync.Mutex
var events []string

func ev(s string) { mu.Lock(); events = append(events, s); mu.Unlock() }

type comp struct{ name string }

func (c *comp) Start(context.Context, component.Host) error { ev("start " + c.name); return nil }
func (c *comp) Shutdown(context.Context) error              { ev("stop " + c.name); return nil }

type cfg struct {
	Gen int `mapstructure:"gen"`
}

type logsProc struct {
	comp
	next consumer.Logs
}

func (p *logsProc) Capabilities() consumer.Capabilities { return consumer.Capabilities{MutatesData: true} }
func (p *logsProc) ConsumeLogs(ctx context.Context, ld plog.Logs) error {
	return p.next.ConsumeLogs(ctx, ld)
}

type logsExp struct{ comp }

func (p *logsExp) Capabilities() consumer.Capabilities { return consumer.Capabilities{} }
func (p *logsExp) ConsumeLogs(ctx context.Context, ld plog.Logs) error {
	ev(fmt.Sprintf("exp %s got %d", p.name, ld.LogRecordCount()))
	return nil
}

type tracesExp struct{ comp }

func (p *tracesExp) Capabilities() consumer.Capabilities { return consumer.Capabilities{} }
func (p *tracesExp) ConsumeTraces(ctx context.Context, td ptrace.Traces) error {
	ev(fmt.Sprintf("texp %s got %d", p.name, td.SpanCount()))
	return nil
}

type conn struct {
	comp
	next consumer.Traces
}

func (p *conn) Capabilities() consumer.Capabilities { return consumer.Capabilities{} }
func (p *conn) ConsumeLogs(ctx context.Context, ld plog.Logs) error {
	td := ptrace.NewTraces()
	td.ResourceSpans().AppendEmpty().ScopeSpans().AppendEmpty().Spans().AppendEmpty()
	return p.next.ConsumeTraces(ctx, td)
}

var recvs = map[string]consumer.Logs{}

type watcher struct{ comp }

func (w *watcher) ComponentStatusChanged(s *componentstatus.InstanceID, e *componentstatus.Event) {
	ev(fmt.Sprintf("status %s %s", s.ComponentID(), e.Status()))
}

type prov struct {
	yaml func() string
	w    confmap.WatcherFunc
}

var theProv = &prov{}

func (p *prov) Retrieve(_ context.Context, uri string, w confmap.WatcherFunc) (*confmap.Retrieved, error) {
	p.w = w
	return confmap.NewRetrievedFromYAML([]byte(p.yaml()))
}
func (*prov) Scheme() string                 { return "vv" }
func (*prov) Shutdown(context.Context) error { ev("provider shutdown"); return nil }

func factories() (otelcol.Factories, error) {
	t := component.MustNewType("k")
	f := otelcol.Factories{}
	f.Receivers = map[component.Type]receiver.Factory{t: receiver.NewFactory(t, func() component.Config { return &cfg{} },
		receiver.WithLogs(func(_ context.Context, s receiver.Settings, c component.Config, next consumer.Logs) (receiver.Logs, error) {
			recvs[s.ID.String()] = next
			ev(fmt.Sprintf("create recv %s gen%d", s.ID, c.(*cfg).Gen))
			return &comp{"recv/" + s.ID.String()}, nil
		}, component.StabilityLevelStable))}
	f.Processors = map[component.Type]processor.Factory{t: processor.NewFactory(t, func() component.Config { return &cfg{} },
		processor.WithLogs(func(_ context.Context, s processor.Settings, _ component.Config, next consumer.Logs) (processor.Logs, error) {
			return &logsProc{comp{"proc/" + s.ID.String()}, next}, nil
		}, component.StabilityLevelStable))}
	f.Exporters = map[component.Type]exporter.Factory{t: exporter.NewFactory(t, func() component.Config { return &cfg{} },
		exporter.WithLogs(func(_ context.Context, s exporter.Settings, _ component.Config) (exporter.Logs, error) {
			return &logsExp{comp{"exp/" + s.ID.String()}}, nil
		}, component.StabilityLevelStable),
		exporter.WithTraces(func(_ context.Context, s exporter.Settings, _ component.Config) (exporter.Traces, error) {
			return &tracesExp{comp{"texp/" + s.ID.String()}}, nil
		}, component.StabilityLevelStable))}
	ct := component.MustNewType("kc")
	f.Connectors = map[component.Type]connector.Factory{ct: connector.NewFactory(ct, func() component.Config { return &cfg{} },
		connector.WithLogsToTraces(func(_ context.Context, s connector.Settings, _ component.Config, next consumer.Traces) (connector.Logs, error) {
			return &conn{comp{"conn/" + s.ID.String()}, next}, nil
		}, component.StabilityLevelStable))}
	f.Extensions = map[component.Type]extension.Factory{t: extension.NewFactory(t, func() component.Config { return &cfg{} },
		func(_ context.Context, s extension.Settings, _ component.Config) (extension.Extension, error) {
			return &watcher{comp{"ext/" + s.ID.String()}}, nil
		}, component.StabilityLevelStable)}
	return f, nil
}

func main() {
	gen := 1
	theProv.yaml = func() string {
		return fmt.Sprintf(`
receivers: {k: {gen: %d}}
processors: {k: {}}
exporters: {k: {}}
connectors: {kc: {}}
extensions: {k: {}}
service:
  extensions: [k]
  telemetry: {metrics: {level: none}, logs: {level: error}}
  pipelines:
    logs: {receivers: [k], processors: [k], exporters: [k, kc]}
    traces: {receivers: [kc], exporters: [k]}
`, gen)
	}
	col, err := otelcol.NewCollector(otelcol.CollectorSettings{
		Factories: factories, BuildInfo: component.NewDefaultBuildInfo(), SkipSettingGRPCLogger: true,
		ConfigProviderSettings: otelcol.ConfigProviderSettings{ResolverSettings: confmap.ResolverSettings{
			URIs: []string{"vv:x"}, ProviderFactories: []confmap.ProviderFactory{confmap.NewProviderFactory(func(confmap.ProviderSettings) confmap.Provider { return theProv })}}},
	})
	if err != nil { panic(err) }
	done := make(chan error, 1)
	go func() { done <- col.Run(context.Background()) }()
	for col.GetState() != otelcol.StateRunning { time.Sleep(time.Millisecond) }
	ld := plog.NewLogs(); ld.ResourceLogs().AppendEmpty().ScopeLogs().AppendEmpty().LogRecords().AppendEmpty()
	fmt.Println("consume err:", recvs["k"].ConsumeLogs(context.Background(), ld))
	gen = 2
	theProv.w(&confmap.ChangeEvent{})
	time.Sleep(200 * time.Millisecond)
	syscall.Kill(os.Getpid(), syscall.SIGHUP)
	time.Sleep(200 * time.Millisecond)
	syscall.Kill(os.Getpid(), syscall.SIGTERM)
	fmt.Println("run returned:", <-done, col.GetState())
	for _, e := range events { fmt.Println(" ", e) }
}
