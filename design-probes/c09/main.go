package main

import (
	"context"
	"fmt"
	"math/rand"
	"sort"
	"strings"
	"sync"
	"time"

	"go.opentelemetry.io/collector/component"
	"go.opentelemetry.io/collector/confmap"
	"go.opentelemetry.io/collector/connector"
	"go.opentelemetry.io/collector/consumer"
	"go.opentelemetry.io/collector/exporter"
	"go.opentelemetry.io/collector/otelcol"
	"go.opentelemetry.io/collector/pdata/pcommon"
	"go.opentelemetry.io/collector/pdata/plog"
	"go.opentelemetry.io/collector/pdata/pmetric"
	"go.opentelemetry.io/collector/pdata/ptrace"
	"go.opentelemetry.io/collector/processor"
	"go.opentelemetry.io/collector/receiver"
)

// ---- generic payload: tag + trail carried in resource attributes of any signal
type msg struct{ tag, trail string }

func toLogs(m msg) plog.Logs {
	ld := plog.NewLogs(); rl := ld.ResourceLogs().AppendEmpty()
	rl.Resource().Attributes().PutStr("tag", m.tag); rl.Resource().Attributes().PutStr("trail", m.trail)
	rl.ScopeLogs().AppendEmpty().LogRecords().AppendEmpty(); return ld
}
func toTraces(m msg) ptrace.Traces {
	ld := ptrace.NewTraces(); rl := ld.ResourceSpans().AppendEmpty()
	rl.Resource().Attributes().PutStr("tag", m.tag); rl.Resource().Attributes().PutStr("trail", m.trail)
	rl.ScopeSpans().AppendEmpty().Spans().AppendEmpty(); return ld
}
func toMetrics(m msg) pmetric.Metrics {
	ld := pmetric.NewMetrics(); rl := ld.ResourceMetrics().AppendEmpty()
	rl.Resource().Attributes().PutStr("tag", m.tag); rl.Resource().Attributes().PutStr("trail", m.trail)
	rl.ScopeMetrics().AppendEmpty().Metrics().AppendEmpty().SetEmptyGauge().DataPoints().AppendEmpty(); return ld
}
func fromAttrs(a pcommon.Map) msg {
	t, _ := a.Get("tag"); tr, _ := a.Get("trail"); return msg{t.Str(), tr.Str()}
}
func addTrail(a pcommon.Map, s string) { tr, _ := a.Get("trail"); a.PutStr("trail", tr.Str()+">"+s) }

var mu sync.Mutex
var creates = map[string]int{}
var delivered = map[string]int{}
var started = 0
var recvNext = map[string]any{} // signal/id -> consumer

type base struct{}
func (base) Start(context.Context, component.Host) error { mu.Lock(); started++; mu.Unlock(); return nil }
func (base) Shutdown(context.Context) error { return nil }
func cr(k string) { mu.Lock(); creates[k]++; mu.Unlock() }

type cfg struct{}
func dc() component.Config { return &cfg{} }
var st = component.StabilityLevelStable

type proc struct{ base; id string; nl consumer.Logs; nt consumer.Traces; nm consumer.Metrics }
func (p *proc) Capabilities() consumer.Capabilities { return consumer.Capabilities{MutatesData: true} }
func (p *proc) ConsumeLogs(ctx context.Context, d plog.Logs) error { addTrail(d.ResourceLogs().At(0).Resource().Attributes(), p.id); return p.nl.ConsumeLogs(ctx, d) }
func (p *proc) ConsumeTraces(ctx context.Context, d ptrace.Traces) error { addTrail(d.ResourceSpans().At(0).Resource().Attributes(), p.id); return p.nt.ConsumeTraces(ctx, d) }
func (p *proc) ConsumeMetrics(ctx context.Context, d pmetric.Metrics) error { addTrail(d.ResourceMetrics().At(0).Resource().Attributes(), p.id); return p.nm.ConsumeMetrics(ctx, d) }

type exp struct{ base; key string }
func (e *exp) Capabilities() consumer.Capabilities { return consumer.Capabilities{} }
func (e *exp) rec(m msg) error { mu.Lock(); delivered[e.key+" <= "+m.tag+" via "+m.trail]++; mu.Unlock(); return nil }
func (e *exp) ConsumeLogs(_ context.Context, d plog.Logs) error { return e.rec(fromAttrs(d.ResourceLogs().At(0).Resource().Attributes())) }
func (e *exp) ConsumeTraces(_ context.Context, d ptrace.Traces) error { return e.rec(fromAttrs(d.ResourceSpans().At(0).Resource().Attributes())) }
func (e *exp) ConsumeMetrics(_ context.Context, d pmetric.Metrics) error { return e.rec(fromAttrs(d.ResourceMetrics().At(0).Resource().Attributes())) }

type conn struct{ base; id string; nl consumer.Logs; nt consumer.Traces; nm consumer.Metrics }
func (c *conn) Capabilities() consumer.Capabilities { return consumer.Capabilities{} }
func (c *conn) fwd(ctx context.Context, m msg) error {
	m.trail += ">" + c.id
	switch {
	case c.nl != nil: return c.nl.ConsumeLogs(ctx, toLogs(m))
	case c.nt != nil: return c.nt.ConsumeTraces(ctx, toTraces(m))
	default: return c.nm.ConsumeMetrics(ctx, toMetrics(m))
	}
}
func (c *conn) ConsumeLogs(ctx context.Context, d plog.Logs) error { return c.fwd(ctx, fromAttrs(d.ResourceLogs().At(0).Resource().Attributes())) }
func (c *conn) ConsumeTraces(ctx context.Context, d ptrace.Traces) error { return c.fwd(ctx, fromAttrs(d.ResourceSpans().At(0).Resource().Attributes())) }
func (c *conn) ConsumeMetrics(ctx context.Context, d pmetric.Metrics) error { return c.fwd(ctx, fromAttrs(d.ResourceMetrics().At(0).Resource().Attributes())) }

func factories() (otelcol.Factories, error) {
	f := otelcol.Factories{}
	rt, pt, et, ct := component.MustNewType("r"), component.MustNewType("p"), component.MustNewType("e"), component.MustNewType("c")
	f.Receivers = map[component.Type]receiver.Factory{rt: receiver.NewFactory(rt, dc,
		receiver.WithLogs(func(_ context.Context, s receiver.Settings, _ component.Config, n consumer.Logs) (receiver.Logs, error) { cr("recv logs/" + s.ID.String()); mu.Lock(); recvNext["logs/"+s.ID.String()] = n; mu.Unlock(); return base{}, nil }, st),
		receiver.WithTraces(func(_ context.Context, s receiver.Settings, _ component.Config, n consumer.Traces) (receiver.Traces, error) { cr("recv traces/" + s.ID.String()); mu.Lock(); recvNext["traces/"+s.ID.String()] = n; mu.Unlock(); return base{}, nil }, st),
		receiver.WithMetrics(func(_ context.Context, s receiver.Settings, _ component.Config, n consumer.Metrics) (receiver.Metrics, error) { cr("recv metrics/" + s.ID.String()); mu.Lock(); recvNext["metrics/"+s.ID.String()] = n; mu.Unlock(); return base{}, nil }, st))}
	f.Processors = map[component.Type]processor.Factory{pt: processor.NewFactory(pt, dc,
		processor.WithLogs(func(_ context.Context, s processor.Settings, _ component.Config, n consumer.Logs) (processor.Logs, error) { cr("proc logs/" + s.ID.String()); return &proc{id: s.ID.String(), nl: n}, nil }, st),
		processor.WithTraces(func(_ context.Context, s processor.Settings, _ component.Config, n consumer.Traces) (processor.Traces, error) { cr("proc traces/" + s.ID.String()); return &proc{id: s.ID.String(), nt: n}, nil }, st),
		processor.WithMetrics(func(_ context.Context, s processor.Settings, _ component.Config, n consumer.Metrics) (processor.Metrics, error) { cr("proc metrics/" + s.ID.String()); return &proc{id: s.ID.String(), nm: n}, nil }, st))}
	f.Exporters = map[component.Type]exporter.Factory{et: exporter.NewFactory(et, dc,
		exporter.WithLogs(func(_ context.Context, s exporter.Settings, _ component.Config) (exporter.Logs, error) { cr("exp logs/" + s.ID.String()); return &exp{key: "logs/" + s.ID.String()}, nil }, st),
		exporter.WithTraces(func(_ context.Context, s exporter.Settings, _ component.Config) (exporter.Traces, error) { cr("exp traces/" + s.ID.String()); return &exp{key: "traces/" + s.ID.String()}, nil }, st),
		exporter.WithMetrics(func(_ context.Context, s exporter.Settings, _ component.Config) (exporter.Metrics, error) { cr("exp metrics/" + s.ID.String()); return &exp{key: "metrics/" + s.ID.String()}, nil }, st))}
	mkL := func(from string) func(context.Context, connector.Settings, component.Config, consumer.Logs) (*conn, error) {
		return func(_ context.Context, s connector.Settings, _ component.Config, n consumer.Logs) (*conn, error) { cr("conn " + from + ">logs/" + s.ID.String()); return &conn{id: s.ID.String(), nl: n}, nil }
	}
	mkT := func(from string) func(context.Context, connector.Settings, component.Config, consumer.Traces) (*conn, error) {
		return func(_ context.Context, s connector.Settings, _ component.Config, n consumer.Traces) (*conn, error) { cr("conn " + from + ">traces/" + s.ID.String()); return &conn{id: s.ID.String(), nt: n}, nil }
	}
	mkM := func(from string) func(context.Context, connector.Settings, component.Config, consumer.Metrics) (*conn, error) {
		return func(_ context.Context, s connector.Settings, _ component.Config, n consumer.Metrics) (*conn, error) { cr("conn " + from + ">metrics/" + s.ID.String()); return &conn{id: s.ID.String(), nm: n}, nil }
	}
	f.Connectors = map[component.Type]connector.Factory{ct: connector.NewFactory(ct, dc,
		connector.WithLogsToLogs(func(a context.Context, b connector.Settings, c component.Config, d consumer.Logs) (connector.Logs, error) { return mkL("logs")(a, b, c, d) }, st),
		connector.WithTracesToLogs(func(a context.Context, b connector.Settings, c component.Config, d consumer.Logs) (connector.Traces, error) { return mkL("traces")(a, b, c, d) }, st),
		connector.WithMetricsToLogs(func(a context.Context, b connector.Settings, c component.Config, d consumer.Logs) (connector.Metrics, error) { return mkL("metrics")(a, b, c, d) }, st),
		connector.WithLogsToTraces(func(a context.Context, b connector.Settings, c component.Config, d consumer.Traces) (connector.Logs, error) { return mkT("logs")(a, b, c, d) }, st),
		connector.WithTracesToTraces(func(a context.Context, b connector.Settings, c component.Config, d consumer.Traces) (connector.Traces, error) { return mkT("traces")(a, b, c, d) }, st),
		connector.WithMetricsToTraces(func(a context.Context, b connector.Settings, c component.Config, d consumer.Traces) (connector.Metrics, error) { return mkT("metrics")(a, b, c, d) }, st),
		connector.WithLogsToMetrics(func(a context.Context, b connector.Settings, c component.Config, d consumer.Metrics) (connector.Logs, error) { return mkM("logs")(a, b, c, d) }, st),
		connector.WithTracesToMetrics(func(a context.Context, b connector.Settings, c component.Config, d consumer.Metrics) (connector.Traces, error) { return mkM("traces")(a, b, c, d) }, st),
		connector.WithMetricsToMetrics(func(a context.Context, b connector.Settings, c component.Config, d consumer.Metrics) (connector.Metrics, error) { return mkM("metrics")(a, b, c, d) }, st))}
	return f, nil
}

type pipe struct{ sig, name string; recv, procs, exps []string }
func (p pipe) id() string { return p.sig + "/" + p.name }

func isConn(s string) bool { return strings.HasPrefix(s, "c/") }

type prov struct{ y string }
func (p *prov) Retrieve(context.Context, string, confmap.WatcherFunc) (*confmap.Retrieved, error) { return confmap.NewRetrievedFromYAML([]byte(p.y)) }
func (*prov) Scheme() string { return "vv" }
func (*prov) Shutdown(context.Context) error { return nil }

func pick(rng *rand.Rand, pool []string, min, max int) []string {
	n := min + rng.Intn(max-min+1)
	perm := rng.Perm(len(pool)); out := []string{}
	for _, i := range perm[:n] { out = append(out, pool[i]) }
	return out
}

func main() {
	rng := rand.New(rand.NewSource(7))
	sigs := []string{"logs", "traces", "metrics"}
	stats := map[string]int{}
	for iter := 0; iter < 400; iter++ {
		np := 1 + rng.Intn(5)
		var pipes []pipe
		for i := 0; i < np; i++ {
			p := pipe{sig: sigs[rng.Intn(3)], name: fmt.Sprint("p", i)}
			p.recv = pick(rng, []string{"r/1", "r/2", "r/3"}, 0, 2)
			p.procs = pick(rng, []string{"p/1", "p/2", "p/3"}, 0, 3)
			p.exps = pick(rng, []string{"e/1", "e/2", "e/3"}, 0, 2)
			if rng.Intn(2) == 0 { p.exps = append(p.exps, pick(rng, []string{"c/1", "c/2"}, 1, 2)...) }
			if rng.Intn(2) == 0 { p.recv = append(p.recv, pick(rng, []string{"c/1", "c/2"}, 1, 2)...) }
			if len(p.recv) == 0 { p.recv = []string{"r/1"} }
			if len(p.exps) == 0 { p.exps = []string{"e/1"} }
			pipes = append(pipes, p)
		}
		// connector usage validity: every connector used as exporter must be receiver somewhere and vice versa
		asE, asR := map[string][]int{}, map[string][]int{}
		for i, p := range pipes {
			for _, e := range p.exps { if isConn(e) { asE[e] = append(asE[e], i) } }
			for _, r := range p.recv { if isConn(r) { asR[r] = append(asR[r], i) } }
		}
		orphan := false
		for c := range asE { if len(asR[c]) == 0 { orphan = true } }
		for c := range asR { if len(asE[c]) == 0 { orphan = true } }
		// pipeline graph + cycle detection
		next := map[int][]struct{ to int; via string }{}
		for i, p := range pipes { for _, e := range p.exps { if isConn(e) { for _, j := range asR[e] { next[i] = append(next[i], struct{ to int; via string }{j, e}) } } } }
		color := map[int]int{}; cyc := false
		var dfs func(int); dfs = func(u int) { color[u] = 1; for _, e := range next[u] { if color[e.to] == 1 { cyc = true } else if color[e.to] == 0 { dfs(e.to) } }; color[u] = 2 }
		for i := range pipes { if color[i] == 0 { dfs(i) } }
		// yaml
		var sb strings.Builder
		sb.WriteString("receivers: {r/1: {}, r/2: {}, r/3: {}}\nprocessors: {p/1: {}, p/2: {}, p/3: {}}\nexporters: {e/1: {}, e/2: {}, e/3: {}}\nconnectors: {c/1: {}, c/2: {}}\nservice:\n  telemetry: {metrics: {level: none}, logs: {level: error, output_paths: [/dev/null], error_output_paths: [/dev/null]}}\n  pipelines:\n")
		for _, p := range pipes { fmt.Fprintf(&sb, "    %s: {receivers: [%s], processors: [%s], exporters: [%s]}\n", p.id(), strings.Join(p.recv, ","), strings.Join(p.procs, ","), strings.Join(p.exps, ",")) }
		mu.Lock(); creates = map[string]int{}; delivered = map[string]int{}; recvNext = map[string]any{}; started = 0; mu.Unlock()
		col, err := otelcol.NewCollector(otelcol.CollectorSettings{Factories: factories, BuildInfo: component.NewDefaultBuildInfo(), SkipSettingGRPCLogger: true,
			ConfigProviderSettings: otelcol.ConfigProviderSettings{ResolverSettings: confmap.ResolverSettings{URIs: []string{"vv:x"}, ProviderFactories: []confmap.ProviderFactory{confmap.NewProviderFactory(func(confmap.ProviderSettings) confmap.Provider { return &prov{sb.String()} })}}}})
		if err != nil { panic(err) }
		done := make(chan error, 1)
		go func() { done <- col.Run(context.Background()) }()
		var runErr error
		running := false
		for !running {
			select {
			case runErr = <-done: running = true
			default: if col.GetState() == otelcol.StateRunning { running = true } else { time.Sleep(200 * time.Microsecond) }
			}
		}
		if orphan || cyc {
			if runErr == nil { fmt.Println("INVALID CONFIG ACCEPTED orphan/cycle:", orphan, cyc, "\n", sb.String()); col.Shutdown(); <-done; stats["BAD"]++; continue }
			if started != 0 { fmt.Println("components started despite rejection"); stats["BAD"]++ }
			if cyc && !orphan && !strings.Contains(runErr.Error(), "cycle") { fmt.Println("cycle err msg:", runErr) }
			stats["rejected"]++; continue
		}
		if runErr != nil { fmt.Println("VALID CONFIG REJECTED:", runErr, "\n", sb.String()); stats["BAD"]++; continue }
		// inject at every receiver instance
		mu.Lock(); rn := map[string]any{}; for k, v := range recvNext { rn[k] = v }; mu.Unlock()
		for k, n := range rn {
			m := msg{tag: k, trail: ""}
			switch c := n.(type) {
			case consumer.Logs: if strings.HasPrefix(k, "logs/") { _ = c.ConsumeLogs(context.Background(), toLogs(m)) }
			}
			if strings.HasPrefix(k, "traces/") { _ = n.(consumer.Traces).ConsumeTraces(context.Background(), toTraces(m)) }
			if strings.HasPrefix(k, "metrics/") { _ = n.(consumer.Metrics).ConsumeMetrics(context.Background(), toMetrics(m)) }
		}
		col.Shutdown(); <-done
		// expected
		exp := map[string]int{}
		var walk func(pi int, tag, trail string)
		walk = func(pi int, tag, trail string) {
			p := pipes[pi]
			for _, pr := range p.procs { trail += ">" + pr }
			for _, e := range p.exps {
				if !isConn(e) { exp[p.sig+"/"+e+" <= "+tag+" via "+trail]++; continue }
				// connector instance per (sigE,sigR): emits once per receiving pipeline
				for _, j := range asR[e] { walk(j, tag, trail+">"+e) }
			}
		}
		seenRecv := map[string]bool{}
		for _, p := range pipes { for _, r := range p.recv { if !isConn(r) { seenRecv[p.sig+"/"+r] = true } } }
		for k := range seenRecv {
			for pi, p := range pipes { for _, r := range p.recv { if p.sig+"/"+r == k { walk(pi, k, "") } } }
		}
		bad := false
		mu.Lock()
		for k, c := range exp { if delivered[k] != c { bad = true; fmt.Printf("MISMATCH expected %d got %d: %s\n", c, delivered[k], k) } }
		for k, c := range delivered { if exp[k] != c { bad = true; fmt.Printf("UNEXPECTED got %d expected %d: %s\n", c, exp[k], k) } }
		// create counts
		wantCreate := map[string]int{}
		for _, p := range pipes {
			for _, r := range p.recv { if !isConn(r) { wantCreate["recv "+p.sig+"/"+r] = 1 } }
			for _, pr := range p.procs { wantCreate["proc "+p.sig+"/"+pr]++ }
			for _, e := range p.exps { if !isConn(e) { wantCreate["exp "+p.sig+"/"+e] = 1 } else { for _, j := range asR[e] { wantCreate["conn "+p.sig+">"+pipes[j].sig+"/"+e] = 1 } } }
		}
		for k, c := range wantCreate { if creates[k] != c { bad = true; fmt.Printf("CREATE mismatch %s want %d got %d\n", k, c, creates[k]) } }
		for k, c := range creates { if wantCreate[k] != c { bad = true; fmt.Printf("CREATE unexpected %s got %d want %d\n", k, c, wantCreate[k]) } }
		mu.Unlock()
		if bad { fmt.Println(sb.String()); stats["BAD"]++ } else { stats["ok"]++; stats["deliveries"] += len(exp) }
		if stats["BAD"] > 3 { break }
	}
	keys := []string{}; for k := range stats { keys = append(keys, k) }; sort.Strings(keys)
	for _, k := range keys { fmt.Println(k, stats[k]) }
}
