package main

import (
	"fmt"
	"reflect"
	"sort"
	"strings"

	"go.opentelemetry.io/collector/pdata/pcommon"
	"go.opentelemetry.io/collector/pdata/plog"
	"go.opentelemetry.io/collector/pdata/pmetric"
	"go.opentelemetry.io/collector/pdata/ptrace"
)

// generic snapshot tree
type node struct {
	Kind   string // struct | slice | leaf
	Leaf   string
	Names  []string // struct field names (sorted)
	Fields map[string]*node
	Elems  []*node
}

func (n *node) clone() *node {
	if n == nil { return nil }
	c := &node{Kind: n.Kind, Leaf: n.Leaf, Names: append([]string(nil), n.Names...)}
	if n.Fields != nil { c.Fields = map[string]*node{}; for k, v := range n.Fields { c.Fields[k] = v.clone() } }
	for _, e := range n.Elems { c.Elems = append(c.Elems, e.clone()) }
	return c
}

func (n *node) String() string {
	switch n.Kind {
	case "leaf": return n.Leaf
	case "slice": p := []string{}; for _, e := range n.Elems { p = append(p, e.String()) }; return "[" + strings.Join(p, ",") + "]"
	}
	p := []string{}
	for _, k := range n.Names { p = append(p, k+":"+n.Fields[k].String()) }
	return "{" + strings.Join(p, " ") + "}"
}

func isSliceT(t reflect.Type) bool { _, a := t.MethodByName("At"); _, b := t.MethodByName("AppendEmpty"); return a && b }

func snap(v reflect.Value) *node {
	t := v.Type()
	switch x := v.Interface().(type) {
	case pcommon.Map: return &node{Kind: "leaf", Leaf: fmt.Sprint(x.AsRaw())}
	case pcommon.Value: return &node{Kind: "leaf", Leaf: fmt.Sprint(x.Type(), x.AsRaw())}
	case pcommon.TraceState: return &node{Kind: "leaf", Leaf: x.AsRaw()}
	}
	if _, ok := t.MethodByName("AsRaw"); ok { return &node{Kind: "leaf", Leaf: fmt.Sprint(v.MethodByName("AsRaw").Call(nil)[0].Interface())} }
	if isSliceT(t) {
		n := &node{Kind: "slice"}
		ln := int(v.MethodByName("Len").Call(nil)[0].Int())
		for i := 0; i < ln; i++ { n.Elems = append(n.Elems, snap(v.MethodByName("At").Call([]reflect.Value{reflect.ValueOf(i)})[0])) }
		return n
	}
	n := &node{Kind: "struct", Fields: map[string]*node{}}
	for i := 0; i < t.NumMethod(); i++ {
		m := t.Method(i)
		if m.Type.NumIn() != 1 || m.Type.NumOut() != 1 { continue }
		skip := false
		for _, p := range []string{"Set", "Append", "Remove", "Move", "Mark", "Clear", "All", "IsReadOnly"} { if strings.HasPrefix(m.Name, p) { skip = true } }
		if skip || m.Name == "LogRecordCount" || m.Name == "SpanCount" || m.Name == "DataPointCount" || m.Name == "MetricCount" || m.Name == "SampleCount" { continue }
		r := v.Method(i).Call(nil)[0]
		if isPdata(r.Type()) {
			if r.IsZero() { continue }
			if _, sc := t.MethodByName("Set" + m.Name); sc { n.Fields[m.Name] = &node{Kind: "leaf", Leaf: fmt.Sprint(r.Interface())}; continue }
			n.Fields[m.Name] = snap(r)
		} else { n.Fields[m.Name] = &node{Kind: "leaf", Leaf: fmt.Sprint(r.Interface())} }
	}
	for k := range n.Fields { n.Names = append(n.Names, k) }
	sort.Strings(n.Names)
	return n
}

// path addressing: list of steps; step is field name or "#i"
type path []string

func resolve(root reflect.Value, p path) reflect.Value {
	v := root
	for _, s := range p {
		if strings.HasPrefix(s, "#") { var i int; fmt.Sscan(s[1:], &i); v = v.MethodByName("At").Call([]reflect.Value{reflect.ValueOf(i)})[0] } else { v = v.MethodByName(s).Call(nil)[0] }
	}
	return v
}
func mresolve(root *node, p path) *node {
	n := root
	for _, s := range p {
		if strings.HasPrefix(s, "#") { var i int; fmt.Sscan(s[1:], &i); n = n.Elems[i] } else { n = n.Fields[s] }
	}
	return n
}

// enumerate all slice paths and struct paths in a model tree
func walkPaths(n *node, p path, slices, structs *[]path) {
	switch n.Kind {
	case "slice":
		*slices = append(*slices, append(path(nil), p...))
		for i, e := range n.Elems { walkPaths(e, append(p, fmt.Sprint("#", i)), slices, structs) }
	case "struct":
		*structs = append(*structs, append(path(nil), p...))
		for _, k := range n.Names { walkPaths(n.Fields[k], append(p, k), slices, structs) }
	}
}

type rootT struct {
	name string
	v    reflect.Value
	m    *node
}

func typeOfPath(r rootT, p path) reflect.Type { return resolve(r.v, p).Type() }

func main() {
	violations := map[string]int{}
	examples := map[string]string{}
	progs, stepsTotal := 0, 0
	for iter := 0; iter < 1500; iter++ {
		progs++
		var roots []rootT
		mk := func(i int) rootT {
			switch iter % 3 {
			case 0: x := plog.NewLogs(); if i < 2 { fill(reflect.ValueOf(x.ResourceLogs()), 0) }; return rootT{fmt.Sprint("L", i), reflect.ValueOf(x), nil}
			case 1: x := ptrace.NewTraces(); if i < 2 { fill(reflect.ValueOf(x.ResourceSpans()), 0) }; return rootT{fmt.Sprint("T", i), reflect.ValueOf(x), nil}
			default: x := pmetric.NewMetrics(); if i < 2 { fill(reflect.ValueOf(x.ResourceMetrics()), 0) }; return rootT{fmt.Sprint("M", i), reflect.ValueOf(x), nil}
			}
		}
		for i := 0; i < 3; i++ { r := mk(i); r.m = snap(r.v); roots = append(roots, r) }
		var trace []string
		for step := 0; step < 12; step++ {
			stepsTotal++
			// choose src root/path and dest root/path of same type
			si := rng.Intn(len(roots)); di := rng.Intn(len(roots))
			var sl, st []path
			walkPaths(roots[si].m, nil, &sl, &st)
			var dl, dt []path
			walkPaths(roots[di].m, nil, &dl, &dt)
			op := rng.Intn(7)
			desc := ""
			var panicked any
			func() {
				defer func() { panicked = recover() }()
				switch op {
				case 0, 1: // slice CopyTo / MoveAndAppendTo to same-typed slice elsewhere
					sp := sl[rng.Intn(len(sl))]
					stype := typeOfPath(roots[si], sp)
					var cands []path
					for _, dp := range dl { if typeOfPath(roots[di], dp) == stype && !(si == di && (strings.HasPrefix(strings.Join(dp, "/")+"/", strings.Join(sp, "/")+"/") || strings.HasPrefix(strings.Join(sp, "/")+"/", strings.Join(dp, "/")+"/"))) { cands = append(cands, dp) } }
					if len(cands) == 0 { return }
					dp := cands[rng.Intn(len(cands))]
					src, dst := resolve(roots[si].v, sp), resolve(roots[di].v, dp)
					ms, md := mresolve(roots[si].m, sp), mresolve(roots[di].m, dp)
					if op == 0 {
						desc = fmt.Sprintf("%s%v.CopyTo(%s%v) [%s len %d -> len %d]", roots[si].name, sp, roots[di].name, dp, stype, len(ms.Elems), len(md.Elems))
						src.MethodByName("CopyTo").Call([]reflect.Value{dst})
						md.Elems = ms.clone().Elems
					} else {
						desc = fmt.Sprintf("%s%v.MoveAndAppendTo(%s%v) [%s]", roots[si].name, sp, roots[di].name, dp, stype)
						src.MethodByName("MoveAndAppendTo").Call([]reflect.Value{dst})
						md.Elems = append(md.Elems, ms.Elems...); ms.Elems = nil
					}
				case 2: // RemoveIf on a slice by index parity
					sp := sl[rng.Intn(len(sl))]
					src := resolve(roots[si].v, sp); ms := mresolve(roots[si].m, sp)
					keepMask := rng.Intn(8)
					desc = fmt.Sprintf("%s%v.RemoveIf(mask %03b) [len %d]", roots[si].name, sp, keepMask, len(ms.Elems))
					idx := 0
					ft := src.MethodByName("RemoveIf").Type().In(0)
					src.MethodByName("RemoveIf").Call([]reflect.Value{reflect.MakeFunc(ft, func([]reflect.Value) []reflect.Value { r := keepMask>>(idx%3)&1 == 1; idx++; return []reflect.Value{reflect.ValueOf(r)} })})
					var ne []*node
					for i, e := range ms.Elems { if keepMask>>(i%3)&1 == 0 { ne = append(ne, e) } }
					ms.Elems = ne
				case 3: // EnsureCapacity
					sp := sl[rng.Intn(len(sl))]
					desc = fmt.Sprintf("%s%v.EnsureCapacity", roots[si].name, sp)
					resolve(roots[si].v, sp).MethodByName("EnsureCapacity").Call([]reflect.Value{reflect.ValueOf(rng.Intn(6))})
				case 4: // AppendEmpty + fill
					sp := sl[rng.Intn(len(sl))]
					if len(sp) > 8 { return }
					src := resolve(roots[si].v, sp); ms := mresolve(roots[si].m, sp)
					desc = fmt.Sprintf("%s%v.AppendEmpty+fill", roots[si].name, sp)
					e := src.MethodByName("AppendEmpty").Call(nil)[0]
					fill(e, 3)
					ms.Elems = append(ms.Elems, snap(e))
				case 5, 6: // struct CopyTo / MoveTo
					sp := st[rng.Intn(len(st))]
					if len(sp) == 0 { return }
					stype := typeOfPath(roots[si], sp)
					if _, ok := stype.MethodByName("MoveTo"); !ok { return }
					var cands []path
					for _, dp := range dt { if len(dp) > 0 && typeOfPath(roots[di], dp) == stype && !(si == di && (strings.HasPrefix(strings.Join(dp, "/")+"/", strings.Join(sp, "/")+"/") || strings.HasPrefix(strings.Join(sp, "/")+"/", strings.Join(dp, "/")+"/"))) { cands = append(cands, dp) } }
					if len(cands) == 0 { return }
					dp := cands[rng.Intn(len(cands))]
					src, dst := resolve(roots[si].v, sp), resolve(roots[di].v, dp)
					if op == 5 {
						desc = fmt.Sprintf("%s%v.CopyTo(%s%v) [%s]", roots[si].name, sp, roots[di].name, dp, stype)
						src.MethodByName("CopyTo").Call([]reflect.Value{dst})
						*mresolve(roots[di].m, dp) = *mresolve(roots[si].m, sp).clone()
					} else {
						desc = fmt.Sprintf("%s%v.MoveTo(%s%v) [%s]", roots[si].name, sp, roots[di].name, dp, stype)
						src.MethodByName("MoveTo").Call([]reflect.Value{dst})
						*mresolve(roots[di].m, dp) = *mresolve(roots[si].m, sp)
						*mresolve(roots[si].m, sp) = *snap(resolve(roots[si].v, sp)) // moved-from: read back (prototype shortcut)
					}
				}
			}()
			if desc == "" { continue }
			trace = append(trace, desc)
			cls := ""
			opName := func() string {
				d := desc
				if i := strings.Index(d, "]."); i >= 0 { d = d[i+2:] } else if i := strings.Index(d, "."); i >= 0 { d = d[i+1:] }
				if i := strings.IndexAny(d, "(+ "); i >= 0 { d = d[:i] }
				ty := ""
				if i := strings.LastIndex(desc, "["); i >= 0 { ty = desc[i:]; if j := strings.Index(ty, " len"); j >= 0 { ty = ty[:j] + "]" } }
				return d + " " + ty
			}
			if panicked != nil { ps := fmt.Sprint(panicked); if len(ps) > 50 { ps = ps[:50] }; cls = "PANIC " + opName() + " " + ps }
			if cls == "" {
				for _, r := range roots {
					if got, want := snap(r.v).String(), r.m.String(); got != want { cls = "DIVERGE after " + opName() + " (root " + r.name + ")"; break }
				}
			}
			if cls != "" {
				// normalise class by op + type
				violations[cls]++
				if _, ok := examples[cls]; !ok { examples[cls] = strings.Join(trace, "\n      ") }
				break
			}
		}
	}
	fmt.Println("programs:", progs, "steps:", stepsTotal)
	keys := []string{}; for k := range violations { keys = append(keys, k) }; sort.Strings(keys)
	for _, k := range keys { fmt.Printf("%4d  %s\n", violations[k], k) }
	if len(keys) > 0 { fmt.Println("example for", keys[0], ":\n     ", examples[keys[0]]) }
}
