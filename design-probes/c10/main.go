package main

import (
	"context"
	"fmt"
	"math/rand"
	"sort"
	"strings"
	"sync"
	"time"

	"go.opentelemetry.io/collector/component"
	"go.opentelemetry.io/collector/confmap"
	"go.opentelemetry.io/collector/connector"
	"go.opentelemetry.io/collector/consumer"
	"go.opentelemetry.io/collector/exporter"
	"go.opentelemetry.io/collector/otelcol"
	"go.opentelemetry.io/collector/pdata/pcommon"
	"go.opentelemetry.io/collector/pdata/plog"
	"go.opentelemetry.io/collector/pdata/pmetric"
	"go.opentelemetry.io/collector/pdata/ptrace"
	"go.opentelemetry.io/collector/processor"
	"go.opentelemetry.io/collector/receiver"
)

// ---- generic payload: tag + trail carried in resource attributes of any signal
type msg struct{ tag, trail string }

func toLogs(m msg) plog.Logs {
	ld := plog.NewLogs(); rl := ld.ResourceLogs().AppendEmpty()
	rl.Resource().Attributes().PutStr("tag", m.tag); rl.Resource().Attributes().PutStr("trail", m.trail)
	rl.ScopeLogs().AppendEmpty().LogRecords().AppendEmpty(); return ld
}
func toTraces(m msg) ptrace.Traces {
	ld := ptrace.NewTraces(); rl := ld.ResourceSpans().AppendEmpty()
	rl.Resource().Attributes().PutStr("tag", m.tag); rl.Resource().Attributes().PutStr("trail", m.trail)
	rl.ScopeSpans().AppendEmpty().Spans().AppendEmpty(); return ld
}
func toMetrics(m msg) pmetric.Metrics {
	ld := pmetric.NewMetrics(); rl := ld.ResourceMetrics().AppendEmpty()
	rl.Resource().Attributes().PutStr("tag", m.tag); rl.Resource().Attributes().PutStr("trail", m.trail)
	rl.ScopeMetrics().AppendEmpty().Metrics().AppendEmpty().SetEmptyGauge().DataPoints().AppendEmpty(); return ld
}
func fromAttrs(a pcommon.Map) msg {
	t, _ := a.Get("tag"); tr, _ := a.Get("trail"); return msg{t.Str(), tr.Str()}
}
func addTrail(a pcommon.Map, s string) { tr, _ := a.Get("trail"); a.PutStr("trail", tr.Str()+">"+s) }

var mu sync.Mutex
var creates = map[string]int{}
var delivered = map[string]int{}
var started = 0
var recvNext = map[string]any{} // signal/id -> consumer

type base struct{ name string }
var evs []string
var failStart, failStop = map[string]bool{}, map[string]bool{}
func (b base) Start(context.Context, component.Host) error { mu.Lock(); started++; evs = append(evs, "start "+b.name); f := failStart[b.name]; mu.Unlock(); if f { return fmt.Errorf("startfail %s", b.name) }; return nil }
func (b base) Shutdown(context.Context) error { mu.Lock(); evs = append(evs, "stop "+b.name); f := failStop[b.name]; mu.Unlock(); if f { return fmt.Errorf("stopfail %s", b.name) }; return nil }
func cr(k string) { mu.Lock(); creates[k]++; mu.Unlock() }

type cfg struct{}
func dc() component.Config { return &cfg{} }
var st = component.StabilityLevelStable

type proc struct{ base; id string; nl consumer.Logs; nt consumer.Traces; nm consumer.Metrics }
func (p *proc) Capabilities() consumer.Capabilities { return consumer.Capabilities{MutatesData: true} }
func (p *proc) ConsumeLogs(ctx context.Context, d plog.Logs) error { addTrail(d.ResourceLogs().At(0).Resource().Attributes(), p.id); return p.nl.ConsumeLogs(ctx, d) }
func (p *proc) ConsumeTraces(ctx context.Context, d ptrace.Traces) error { addTrail(d.ResourceSpans().At(0).Resource().Attributes(), p.id); return p.nt.ConsumeTraces(ctx, d) }
func (p *proc) ConsumeMetrics(ctx context.Context, d pmetric.Metrics) error { addTrail(d.ResourceMetrics().At(0).Resource().Attributes(), p.id); return p.nm.ConsumeMetrics(ctx, d) }

type exp struct{ base; key string }
func (e *exp) Capabilities() consumer.Capabilities { return consumer.Capabilities{} }
func (e *exp) rec(m msg) error { mu.Lock(); delivered[e.key+" <= "+m.tag+" via "+m.trail]++; mu.Unlock(); return nil }
func (e *exp) ConsumeLogs(_ context.Context, d plog.Logs) error { return e.rec(fromAttrs(d.ResourceLogs().At(0).Resource().Attributes())) }
func (e *exp) ConsumeTraces(_ context.Context, d ptrace.Traces) error { return e.rec(fromAttrs(d.ResourceSpans().At(0).Resource().Attributes())) }
func (e *exp) ConsumeMetrics(_ context.Context, d pmetric.Metrics) error { return e.rec(fromAttrs(d.ResourceMetrics().At(0).Resource().Attributes())) }

type conn struct{ base; id string; nl consumer.Logs; nt consumer.Traces; nm consumer.Metrics }
func (c *conn) Capabilities() consumer.Capabilities { return consumer.Capabilities{} }
func (c *conn) fwd(ctx context.Context, m msg) error {
	m.trail += ">" + c.id
	switch {
	case c.nl != nil: return c.nl.ConsumeLogs(ctx, toLogs(m))
	case c.nt != nil: return c.nt.ConsumeTraces(ctx, toTraces(m))
	default: return c.nm.ConsumeMetrics(ctx, toMetrics(m))
	}
}
func (c *conn) ConsumeLogs(ctx context.Context, d plog.Logs) error { return c.fwd(ctx, fromAttrs(d.ResourceLogs().At(0).Resource().Attributes())) }
func (c *conn) ConsumeTraces(ctx context.Context, d ptrace.Traces) error { return c.fwd(ctx, fromAttrs(d.ResourceSpans().At(0).Resource().Attributes())) }
func (c *conn) ConsumeMetrics(ctx context.Context, d pmetric.Metrics) error { return c.fwd(ctx, fromAttrs(d.ResourceMetrics().At(0).Resource().Attributes())) }

func factories() (otelcol.Factories, error) {
	f := otelcol.Factories{}
	rt, pt, et, ct := component.MustNewType("r"), component.MustNewType("p"), component.MustNewType("e"), component.MustNewType("c")
	f.Receivers = map[component.Type]receiver.Factory{rt: receiver.NewFactory(rt, dc,
		receiver.WithLogs(func(_ context.Context, s receiver.Settings, _ component.Config, n consumer.Logs) (receiver.Logs, error) { cr("recv logs/" + s.ID.String()); mu.Lock(); recvNext["logs/"+s.ID.String()] = n; mu.Unlock(); return base{"recv logs/" + s.ID.String()}, nil }, st),
		receiver.WithTraces(func(_ context.Context, s receiver.Settings, _ component.Config, n consumer.Traces) (receiver.Traces, error) { cr("recv traces/" + s.ID.String()); mu.Lock(); recvNext["traces/"+s.ID.String()] = n; mu.Unlock(); return base{"recv traces/" + s.ID.String()}, nil }, st),
		receiver.WithMetrics(func(_ context.Context, s receiver.Settings, _ component.Config, n consumer.Metrics) (receiver.Metrics, error) { cr("recv metrics/" + s.ID.String()); mu.Lock(); recvNext["metrics/"+s.ID.String()] = n; mu.Unlock(); return base{"recv metrics/" + s.ID.String()}, nil }, st))}
	f.Processors = map[component.Type]processor.Factory{pt: processor.NewFactory(pt, dc,
		processor.WithLogs(func(_ context.Context, s processor.Settings, _ component.Config, n consumer.Logs) (processor.Logs, error) { cr("proc logs/" + s.ID.String()); return &proc{base: base{"proc logs/" + s.ID.String()}, id: s.ID.String(), nl: n}, nil }, st),
		processor.WithTraces(func(_ context.Context, s processor.Settings, _ component.Config, n consumer.Traces) (processor.Traces, error) { cr("proc traces/" + s.ID.String()); return &proc{base: base{"proc traces/" + s.ID.String()}, id: s.ID.String(), nt: n}, nil }, st),
		processor.WithMetrics(func(_ context.Context, s processor.Settings, _ component.Config, n consumer.Metrics) (processor.Metrics, error) { cr("proc metrics/" + s.ID.String()); return &proc{base: base{"proc metrics/" + s.ID.String()}, id: s.ID.String(), nm: n}, nil }, st))}
	f.Exporters = map[component.Type]exporter.Factory{et: exporter.NewFactory(et, dc,
		exporter.WithLogs(func(_ context.Context, s exporter.Settings, _ component.Config) (exporter.Logs, error) { cr("exp logs/" + s.ID.String()); return &exp{base: base{"exp logs/" + s.ID.String()}, key: "logs/" + s.ID.String()}, nil }, st),
		exporter.WithTraces(func(_ context.Context, s exporter.Settings, _ component.Config) (exporter.Traces, error) { cr("exp traces/" + s.ID.String()); return &exp{base: base{"exp traces/" + s.ID.String()}, key: "traces/" + s.ID.String()}, nil }, st),
		exporter.WithMetrics(func(_ context.Context, s exporter.Settings, _ component.Config) (exporter.Metrics, error) { cr("exp metrics/" + s.ID.String()); return &exp{base: base{"exp metrics/" + s.ID.String()}, key: "metrics/" + s.ID.String()}, nil }, st))}
	mkL := func(from string) func(context.Context, connector.Settings, component.Config, consumer.Logs) (*conn, error) {
		return func(_ context.Context, s connector.Settings, _ component.Config, n consumer.Logs) (*conn, error) { cr("conn " + from + ">logs/" + s.ID.String()); return &conn{base: base{"conn " + from + ">logs/" + s.ID.String()}, id: s.ID.String(), nl: n}, nil }
	}
	mkT := func(from string) func(context.Context, connector.Settings, component.Config, consumer.Traces) (*conn, error) {
		return func(_ context.Context, s connector.Settings, _ component.Config, n consumer.Traces) (*conn, error) { cr("conn " + from + ">traces/" + s.ID.String()); return &conn{base: base{"conn " + from + ">traces/" + s.ID.String()}, id: s.ID.String(), nt: n}, nil }
	}
	mkM := func(from string) func(context.Context, connector.Settings, component.Config, consumer.Metrics) (*conn, error) {
		return func(_ context.Context, s connector.Settings, _ component.Config, n consumer.Metrics) (*conn, error) { cr("conn " + from + ">metrics/" + s.ID.String()); return &conn{base: base{"conn " + from + ">metrics/" + s.ID.String()}, id: s.ID.String(), nm: n}, nil }
	}
	f.Connectors = map[component.Type]connector.Factory{ct: connector.NewFactory(ct, dc,
		connector.WithLogsToLogs(func(a context.Context, b connector.Settings, c component.Config, d consumer.Logs) (connector.Logs, error) { return mkL("logs")(a, b, c, d) }, st),
		connector.WithTracesToLogs(func(a context.Context, b connector.Settings, c component.Config, d consumer.Logs) (connector.Traces, error) { return mkL("traces")(a, b, c, d) }, st),
		connector.WithMetricsToLogs(func(a context.Context, b connector.Settings, c component.Config, d consumer.Logs) (connector.Metrics, error) { return mkL("metrics")(a, b, c, d) }, st),
		connector.WithLogsToTraces(func(a context.Context, b connector.Settings, c component.Config, d consumer.Traces) (connector.Logs, error) { return mkT("logs")(a, b, c, d) }, st),
		connector.WithTracesToTraces(func(a context.Context, b connector.Settings, c component.Config, d consumer.Traces) (connector.Traces, error) { return mkT("traces")(a, b, c, d) }, st),
		connector.WithMetricsToTraces(func(a context.Context, b connector.Settings, c component.Config, d consumer.Traces) (connector.Metrics, error) { return mkT("metrics")(a, b, c, d) }, st),
		connector.WithLogsToMetrics(func(a context.Context, b connector.Settings, c component.Config, d consumer.Metrics) (connector.Logs, error) { return mkM("logs")(a, b, c, d) }, st),
		connector.WithTracesToMetrics(func(a context.Context, b connector.Settings, c component.Config, d consumer.Metrics) (connector.Traces, error) { return mkM("traces")(a, b, c, d) }, st),
		connector.WithMetricsToMetrics(func(a context.Context, b connector.Settings, c component.Config, d consumer.Metrics) (connector.Metrics, error) { return mkM("metrics")(a, b, c, d) }, st))}
	return f, nil
}

type pipe struct{ sig, name string; recv, procs, exps []string }
func (p pipe) id() string { return p.sig + "/" + p.name }

func isConn(s string) bool { return strings.HasPrefix(s, "c/") }

type prov struct{ y string }
func (p *prov) Retrieve(context.Context, string, confmap.WatcherFunc) (*confmap.Retrieved, error) { return confmap.NewRetrievedFromYAML([]byte(p.y)) }
func (*prov) Scheme() string { return "vv" }
func (*prov) Shutdown(context.Context) error { return nil }

func pick(rng *rand.Rand, pool []string, min, max int) []string {
	n := min + rng.Intn(max-min+1)
	perm := rng.Perm(len(pool)); out := []string{}
	for _, i := range perm[:n] { out = append(out, pool[i]) }
	return out
}


func main() {
	rng := rand.New(rand.NewSource(11))
	sigs := []string{"logs", "traces", "metrics"}
	stats := map[string]int{}
	orders := map[string]bool{}
	for iter := 0; iter < 3000 && stats["BAD"] < 3; iter++ {
		np := 1 + rng.Intn(4)
		var pipes []pipe
		procDefs := []string{}
		// constructive valid connector usage: a DAG over pipelines
		for i := 0; i < np; i++ {
			p := pipe{sig: sigs[rng.Intn(3)], name: fmt.Sprint("p", i)}
			p.recv = pick(rng, []string{"r/1", "r/2"}, 0, 2)
			for k := 0; k < rng.Intn(3); k++ { id := fmt.Sprintf("p/%d_%d", i, k); p.procs = append(p.procs, id); procDefs = append(procDefs, id+": {}") }
			p.exps = pick(rng, []string{"e/1", "e/2"}, 0, 2)
			pipes = append(pipes, p)
		}
		for c := 1; c <= 2; c++ {
			if np >= 2 && rng.Intn(2) == 0 {
				a := rng.Intn(np - 1); b := a + 1 + rng.Intn(np-1-a)
				pipes[a].exps = append(pipes[a].exps, fmt.Sprint("c/", c)); pipes[b].recv = append(pipes[b].recv, fmt.Sprint("c/", c))
				if rng.Intn(3) == 0 && b+1 < np { pipes[b+1].recv = append(pipes[b+1].recv, fmt.Sprint("c/", c)) }
			}
		}
		for i := range pipes { if len(pipes[i].recv) == 0 { pipes[i].recv = []string{"r/1"} }; if len(pipes[i].exps) == 0 { pipes[i].exps = []string{"e/1"} } }
		asR := map[string][]int{}
		for i, p := range pipes { for _, r := range p.recv { if isConn(r) { asR[r] = append(asR[r], i) } } }
		// component-level edges
		first := func(pi int) []string {
			p := pipes[pi]
			if len(p.procs) > 0 { return []string{"proc " + p.sig + "/" + p.procs[0]} }
			var out []string
			for _, e := range p.exps {
				if !isConn(e) { out = append(out, "exp "+p.sig+"/"+e) } else { seen := map[string]bool{}; for _, j := range asR[e] { k := "conn " + p.sig + ">" + pipes[j].sig + "/" + e; if !seen[k] { seen[k] = true; out = append(out, k) } } }
			}
			return out
		}
		edges := [][2]string{}
		all := map[string]bool{}
		for pi, p := range pipes {
			for _, r := range p.recv { if !isConn(r) { for _, f := range first(pi) { edges = append(edges, [2]string{"recv " + p.sig + "/" + r, f}) }; all["recv "+p.sig+"/"+r] = true } }
			for k, pr := range p.procs {
				all["proc "+p.sig+"/"+pr] = true
				if k+1 < len(p.procs) { edges = append(edges, [2]string{"proc " + p.sig + "/" + pr, "proc " + p.sig + "/" + p.procs[k+1]}) } else {
					for _, e := range p.exps {
						if !isConn(e) { edges = append(edges, [2]string{"proc " + p.sig + "/" + pr, "exp " + p.sig + "/" + e}) } else { for _, j := range asR[e] { edges = append(edges, [2]string{"proc " + p.sig + "/" + pr, "conn " + p.sig + ">" + pipes[j].sig + "/" + e}) } }
					}
				}
			}
			for _, e := range p.exps {
				if !isConn(e) { all["exp "+p.sig+"/"+e] = true } else { for _, j := range asR[e] { c := "conn " + p.sig + ">" + pipes[j].sig + "/" + e; all[c] = true; for _, f := range first(j) { edges = append(edges, [2]string{c, f}) } } }
			}
		}
		names := []string{}; for k := range all { names = append(names, k) }; sort.Strings(names)
		mu.Lock(); creates = map[string]int{}; delivered = map[string]int{}; recvNext = map[string]any{}; started = 0; evs = nil
		failStart, failStop = map[string]bool{}, map[string]bool{}
		mode := rng.Intn(3)
		victim := names[rng.Intn(len(names))]
		if mode == 1 { failStart[victim] = true }
		if mode == 2 { failStop[victim] = true }
		mu.Unlock()
		var sb strings.Builder
		sb.WriteString("receivers: {r/1: {}, r/2: {}}\nprocessors: {" + strings.Join(procDefs, ", ") + "}\nexporters: {e/1: {}, e/2: {}}\nconnectors: {c/1: {}, c/2: {}}\nservice:\n  telemetry: {metrics: {level: none}, logs: {level: error, output_paths: [/dev/null], error_output_paths: [/dev/null]}}\n  pipelines:\n")
		for _, p := range pipes { fmt.Fprintf(&sb, "    %s: {receivers: [%s], processors: [%s], exporters: [%s]}\n", p.id(), strings.Join(p.recv, ","), strings.Join(p.procs, ","), strings.Join(p.exps, ",")) }
		col, err := otelcol.NewCollector(otelcol.CollectorSettings{Factories: factories, BuildInfo: component.NewDefaultBuildInfo(), SkipSettingGRPCLogger: true,
			ConfigProviderSettings: otelcol.ConfigProviderSettings{ResolverSettings: confmap.ResolverSettings{URIs: []string{"vv:x"}, ProviderFactories: []confmap.ProviderFactory{confmap.NewProviderFactory(func(confmap.ProviderSettings) confmap.Provider { return &prov{sb.String()} })}}}})
		if err != nil { panic(err) }
		done := make(chan error, 1)
		go func() { done <- col.Run(context.Background()) }()
		var runErr error
		finished := false
		for {
			select { case runErr = <-done: finished = true; default: }
			if finished || col.GetState() == otelcol.StateRunning { break }
			time.Sleep(200 * time.Microsecond)
		}
		if !finished { col.Shutdown(); runErr = <-done }
		mu.Lock(); log := append([]string(nil), evs...); mu.Unlock()
		idx := func(s string) int { for i, e := range log { if e == s { return i } }; return -1 }
		cnt := func(s string) int { n := 0; for _, e := range log { if e == s { n++ } }; return n }
		bad := false
		for _, n := range names {
			if cnt("start "+n) > 1 { bad = true; fmt.Println("started twice", n) }
			if cnt("stop "+n) != 1 { bad = true; fmt.Println("stop count", cnt("stop "+n), n, "mode", mode, "victim", victim) }
		}
		if mode == 1 {
			if runErr == nil || !strings.Contains(runErr.Error(), "startfail "+victim) { bad = true; fmt.Println("start failure not returned:", runErr) }
			// nothing started after victim
			vi := idx("start " + victim)
			for i, e := range log { if i > vi && strings.HasPrefix(e, "start ") { bad = true; fmt.Println("started after failure:", e) } }
		}
		if mode == 2 && (runErr == nil || !strings.Contains(runErr.Error(), "stopfail "+victim)) { bad = true; fmt.Println("stop failure not returned:", runErr) }
		if mode == 0 && runErr != nil { bad = true; fmt.Println("unexpected err", runErr) }
		for _, e := range edges {
			su, sv := idx("start "+e[0]), idx("start "+e[1])
			if su >= 0 && (sv < 0 || sv > su) { bad = true; fmt.Printf("START ORDER: %s started (idx %d) before downstream %s (idx %d)\n", e[0], su, e[1], sv) }
			tu, tv := idx("stop "+e[0]), idx("stop "+e[1])
			if tu > tv { bad = true; fmt.Printf("STOP ORDER: %s stopped after downstream %s\n", e[0], e[1]) }
		}
		orders[strings.Join(log, ",")] = true
		if bad { fmt.Println(sb.String()); fmt.Println(log); stats["BAD"]++ } else { stats[fmt.Sprint("ok mode", mode)]++; stats["edges"] += len(edges) }
	}
	keys := []string{}; for k := range stats { keys = append(keys, k) }; sort.Strings(keys)
	for _, k := range keys { fmt.Println(k, stats[k]) }
	fmt.Println("distinct event orders:", len(orders))
}
