package main

import (
	"context"
	"fmt"

	"go.opentelemetry.io/collector/confmap"
	"go.opentelemetry.io/collector/confmap/provider/yamlprovider"
)

func main() {
	cases := [][]string{
		{"a: {x: 1}", "a: null"},
		{"a: {x: 1}", "a:"},
		{"a: 1", "a: {x: 1}"},
		{"a: {x: 1}", "a: 2"},
		{"a: {x: 1}", "a: {}"},
		{"a: [1, 2]", "a: []"},
		{"a: [1, 2]", "a: [3]"},
		{"a: {x: 1, y: {z: 2}}", "a: {y: {w: 3}}"},
		{"a: {x: 1}", "{}"},
		{"a: {x: 1}", ""},
		{"a: {x: null}", "a: {x: {q: 1}}"},
		{"a: {x: {q: 1}}", "a: {x: null}"},
		{"a::b: 1", "a: {c: 2}"},
		{"a: {b: 1}", "a::b: 2"},
		{"a: {x: 1}", "A: {x: 2}"},
	}
	for _, c := range cases {
		uris := []string{}
		for _, y := range c { uris = append(uris, "yaml:"+y) }
		r, err := confmap.NewResolver(confmap.ResolverSettings{URIs: uris, ProviderFactories: []confmap.ProviderFactory{yamlprovider.NewFactory()}})
		if err != nil { fmt.Println(c, "ERR", err); continue }
		conf, err := r.Resolve(context.Background())
		if err != nil { fmt.Println(c, "ERR", err); continue }
		fmt.Printf("%-45q => %#v\n", c, conf.ToStringMap())
	}
}
