#!/usr/bin/env python3
"""Generate a scratch harness module (go.mod + go.sum) against /repo, as used for the design probes.

usage: gen_scratch_module.py <target-dir> [repo-root]
Then copy a probe directory into <target-dir>/<name>/ and `go build ./<name>` with
GOFLAGS=-mod=mod GOPROXY=off GOSUMDB=off GOTOOLCHAIN=local.
"""
import os, re, sys, glob

target = sys.argv[1]
repo = sys.argv[2] if len(sys.argv) > 2 else "/repo"
os.makedirs(target, exist_ok=True)
mods = {}
for root, dirs, files in os.walk(repo):
    dirs[:] = [d for d in dirs if d not in (".git", "node_modules")]
    if "go.mod" in files:
        m = re.search(r"^module\s+(\S+)", open(os.path.join(root, "go.mod")).read(), re.M).group(1)
        mods[m] = root
req = {}
for gm in ["internal/e2e", "cmd/otelcorecol", "otelcol", "service", "exporter", "processor/batchprocessor",
           "processor/memorylimiterprocessor", "scraper/scraperhelper", "exporter/exporterhelper/xexporterhelper"]:
    p = os.path.join(repo, gm, "go.mod")
    if not os.path.exists(p):
        continue
    for line in open(p):
        mm = re.match(r"\s*(go\.opentelemetry\.io/collector\S*)\s+(v\S+)", line)
        if mm and mm.group(1) in mods:
            req[mm.group(1)] = mm.group(2)
out = ["module go.opentelemetry.io/collector/verifharness", "", "go 1.23.0", "", "require ("]
for m in sorted(mods):
    if m in req and not m.startswith("go.opentelemetry.io/collector/cmd") and "internal/tools" not in m:
        out.append("\t%s %s" % (m, req[m]))
out.append("\tgithub.com/anishathalye/porcupine v1.3.0")
out.append(")")
out.append("")
for m in sorted(mods):
    out.append("replace %s => %s" % (m, mods[m]))
open(os.path.join(target, "go.mod"), "w").write("\n".join(out) + "\n")
sums = set()
for p in glob.glob(os.path.join(repo, "**", "go.sum"), recursive=True):
    sums.update(l for l in open(p).read().splitlines() if l.strip())
open(os.path.join(target, "go.sum"), "w").write("\n".join(sorted(sums)) + "\n")
print("wrote", os.path.join(target, "go.mod"), "with", len(mods), "replace directives;", len(sums), "go.sum lines")
