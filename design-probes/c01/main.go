package main

import (
	"context"
	"errors"
	"fmt"
	"sort"
	"sync"
	"time"

	"go.opentelemetry.io/collector/component"
	"go.opentelemetry.io/collector/component/componenttest"
	"go.opentelemetry.io/collector/exporter"
	"go.opentelemetry.io/collector/exporter/exporterhelper"
	"go.opentelemetry.io/collector/exporter/exportertest"
	"go.opentelemetry.io/collector/extension/xextension/storage"
	"go.opentelemetry.io/collector/pdata/plog"
)

type store struct {
	mu      sync.Mutex
	live    map[string][]byte
	ops     int
	crashAt int // boundary: after this many ops, dead
	dead    bool
	snap    map[string][]byte
}

func cp(m map[string][]byte) map[string][]byte {
	o := map[string][]byte{}
	for k, v := range m {
		o[k] = append([]byte(nil), v...)
	}
	return o
}

func (s *store) pre() error {
	if s.dead {
		return errors.New("dead")
	}
	if s.crashAt >= 0 && s.ops == s.crashAt {
		s.dead = true
		s.snap = cp(s.live)
		return errors.New("dead")
	}
	s.ops++
	return nil
}
func (s *store) Get(_ context.Context, k string) ([]byte, error) {
	s.mu.Lock(); defer s.mu.Unlock()
	if err := s.pre(); err != nil { return nil, err }
	return s.live[k], nil
}
func (s *store) Set(_ context.Context, k string, v []byte) error {
	s.mu.Lock(); defer s.mu.Unlock()
	if err := s.pre(); err != nil { return err }
	s.live[k] = v
	return nil
}
func (s *store) Delete(_ context.Context, k string) error {
	s.mu.Lock(); defer s.mu.Unlock()
	if err := s.pre(); err != nil { return err }
	delete(s.live, k)
	return nil
}
func (s *store) Batch(_ context.Context, ops ...*storage.Operation) error {
	s.mu.Lock(); defer s.mu.Unlock()
	if err := s.pre(); err != nil { return err }
	for _, op := range ops {
		switch op.Type {
		case storage.Get:
			op.Value = s.live[op.Key]
		case storage.Set:
			s.live[op.Key] = op.Value
		case storage.Delete:
			delete(s.live, op.Key)
		}
	}
	return nil
}
func (s *store) Close(context.Context) error { return nil }

type ext struct {
	component.StartFunc
	component.ShutdownFunc
	s *store
}

func (e *ext) GetClient(context.Context, component.Kind, component.ID, string) (storage.Client, error) {
	return e.s, nil
}

type host struct{ e *ext }

func (h host) GetExtensions() map[component.ID]component.Component {
	return map[component.ID]component.Component{component.MustNewID("st"): h.e}
}

type inc struct {
	exp     exporter.Logs
	mu      sync.Mutex
	got     []string
	gate    chan error
	entered chan string
}

func newInc(s *store, consumers int) *inc {
	in := &inc{gate: make(chan error, 100), entered: make(chan string, 100)}
	cfg := exporterhelper.NewDefaultQueueConfig()
	id := component.MustNewID("st")
	cfg.StorageID = &id
	cfg.NumConsumers = consumers
	cfg.QueueSize = 100
	set := exportertest.NewNopSettings(component.MustNewType("p"))
	exp, err := exporterhelper.NewLogs(context.Background(), set, struct{}{}, func(_ context.Context, ld plog.Logs) error {
		v, _ := ld.ResourceLogs().At(0).Resource().Attributes().Get("id")
		in.mu.Lock()
		in.got = append(in.got, v.Str())
		in.mu.Unlock()
		in.entered <- v.Str()
		return <-in.gate
	}, exporterhelper.WithQueue(cfg), exporterhelper.WithTimeout(exporterhelper.TimeoutConfig{}))
	if err != nil { panic(err) }
	if err := exp.Start(context.Background(), host{&ext{s: s}}); err != nil { panic(err) }
	in.exp = exp
	return in
}

func mk(id string) plog.Logs {
	ld := plog.NewLogs()
	rl := ld.ResourceLogs().AppendEmpty()
	rl.Resource().Attributes().PutStr("id", id)
	rl.ScopeLogs().AppendEmpty().LogRecords().AppendEmpty().Body().SetStr(id)
	return ld
}

func waitEntered(in *inc, n int) {
	for i := 0; i < n; i++ {
		select {
		case <-in.entered:
		case <-time.After(2 * time.Second):
			panic("timeout waiting entered")
		}
	}
}

func main() {
	_ = componenttest.NewNopHost
	// incarnation 1: enqueue a,b,c with 2 consumers -> a,b in flight (dispatched), c queued. crash (no more ops).
	s1 := &store{live: map[string][]byte{}, crashAt: -1}
	in1 := newInc(s1, 2)
	for _, id := range []string{"a", "b", "c"} {
		if err := in1.exp.ConsumeLogs(context.Background(), mk(id)); err != nil { panic(err) }
	}
	waitEntered(in1, 2)
	base := cp(s1.live)
	fmt.Println("ops in inc1:", s1.ops, "keys:", keys(base))
	// count ops of clean recovery+drain
	s2 := &store{live: cp(base), crashAt: -1}
	in2 := newInc(s2, 1)
	for i := 0; i < 3; i++ { waitEntered(in2, 1); in2.gate <- nil }
	time.Sleep(50 * time.Millisecond)
	in2.exp.Shutdown(context.Background())
	fmt.Println("clean recovery delivered:", in2.got, "ops:", s2.ops)
	total := s2.ops
	for n := 0; n <= total; n++ {
		s := &store{live: cp(base), crashAt: n}
		in := newInc(s, 1)
		// drive until dead
		deadline := time.After(300 * time.Millisecond)
	L:
		for {
			select {
			case <-in.entered:
				in.gate <- nil
			case <-deadline:
				break L
			}
		}
		s.mu.Lock()
		snap := s.snap
		if snap == nil { snap = cp(s.live) }
		s.mu.Unlock()
		go in.exp.Shutdown(context.Background())
		in.mu.Lock(); before := append([]string(nil), in.got...); in.mu.Unlock()
		// probe recovery
		s3 := &store{live: cp(snap), crashAt: -1}
		in3 := newInc(s3, 1)
		deadline = time.After(300 * time.Millisecond)
	L2:
		for {
			select {
			case <-in3.entered:
				in3.gate <- nil
			case <-deadline:
				break L2
			}
		}
		in3.mu.Lock(); after := append([]string(nil), in3.got...); in3.mu.Unlock()
		go in3.exp.Shutdown(context.Background())
		seen := map[string]bool{}
		for _, x := range before { seen[x] = true }
		for _, x := range after { seen[x] = true }
		lost := []string{}
		for _, id := range []string{"a", "b", "c"} { if !seen[id] { lost = append(lost, id) } }
		fmt.Printf("crash at boundary %d: inc2 delivered %v, inc3 delivered %v, LOST %v\n", n, before, after, lost)
	}
}

func keys(m map[string][]byte) []string {
	var ks []string
	for k := range m { ks = append(ks, k) }
	sort.Strings(ks)
	return ks
}
