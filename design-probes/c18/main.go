package main

import (
	"fmt"
	"runtime"
	"time"

	"go.opentelemetry.io/collector/internal/memorylimiter"
	"go.uber.org/zap"
	"go.uber.org/zap/zaptest/observer"
)

const mib = 1024 * 1024

func main() {
	bad, seqs, gcs, states := 0, 0, 0, map[string]bool{}
	// levels relative to limit=100MiB spike=20MiB -> soft=80MiB hard=100MiB
	levels := []uint64{10 * mib, 80*mib - 1, 80 * mib, 90 * mib, 100*mib - 1, 100 * mib, 150 * mib}
	var rec func(prefix []int, depth int)
	run := func(seq []int, gcEffect int, softIv, hardIv time.Duration) {
		seqs++
		var script []uint64
		pos := 0
		reads := 0
		memorylimiter.ReadMemStatsFn = func(ms *runtime.MemStats) { reads++; if pos < len(script) { ms.Alloc = script[pos] } ; pos++ }
		core, logs := observer.New(zap.DebugLevel)
		ml, err := memorylimiter.NewMemoryLimiter(&memorylimiter.Config{CheckInterval: time.Hour, MemoryLimitMiB: 100, MemorySpikeLimitMiB: 20, MinGCIntervalWhenSoftLimited: softIv, MinGCIntervalWhenHardLimited: hardIv}, zap.New(core))
		if err != nil { panic(err) }
		for i, li := range seq {
			lv := levels[li]
			// expected
			aboveSoft, aboveHard := lv >= 80*mib, lv >= 100*mib
			gcDue := aboveSoft && ((aboveHard && hardIv == 0) || (!aboveHard && softIv == 0))
			post := lv
			if gcDue { switch gcEffect { case 1: post = 10 * mib; case 2: if lv >= 100*mib { post = 90 * mib } } }
			script = []uint64{lv, post}; pos = 0; reads = 0
			nlogs := logs.Len()
			ml.CheckMemLimits()
			forced := 0
			for _, e := range logs.All()[nlogs:] { if e.Message == "Memory usage after GC." { forced++ } }
			wantRefuse := lv >= 80*mib
			if gcDue { wantRefuse = post >= 80*mib }
			wantReads := 1; if gcDue { wantReads = 2; gcs++ }
			states[fmt.Sprint(li, gcDue, wantRefuse)] = true
			if ml.MustRefuse() != wantRefuse || reads != wantReads || (forced == 1) != gcDue {
				bad++
				if bad < 8 { fmt.Printf("MISMATCH seq=%v step=%d level=%dMiB gcEffect=%d iv=%v/%v: refuse=%v want %v, reads=%d want %d, forcedGC=%d want %v\n", seq, i, lv/mib, gcEffect, softIv, hardIv, ml.MustRefuse(), wantRefuse, reads, wantReads, forced, gcDue) }
			}
		}
	}
	rec = func(prefix []int, depth int) {
		if depth == 0 {
			for gcEffect := 0; gcEffect < 3; gcEffect++ {
				run(prefix, gcEffect, 0, 0)
				run(prefix, gcEffect, time.Hour, time.Hour)
				run(prefix, gcEffect, time.Hour, 0)
			}
			return
		}
		for i := range levels { rec(append(append([]int(nil), prefix...), i), depth-1) }
	}
	for d := 1; d <= 4; d++ { rec(nil, d) }
	fmt.Println("sequences:", seqs, "forced GCs expected:", gcs, "distinct (level,gc,refuse):", len(states), "mismatches:", bad)
}
