package main

import (
	"context"
	"errors"
	"fmt"
	"time"

	"go.opentelemetry.io/collector/component"
	"go.opentelemetry.io/collector/component/componenttest"
	"go.opentelemetry.io/collector/config/configretry"
	"go.opentelemetry.io/collector/exporter/exporterhelper"
	"go.opentelemetry.io/collector/exporter/exportertest"
	"go.opentelemetry.io/collector/pdata/plog"
	"go.opentelemetry.io/otel/sdk/metric/metricdata"
)

func read(tel *componenttest.Telemetry, name string) int64 {
	m, err := tel.GetMetric(name)
	if err != nil { return 0 }
	if d, ok := m.Data.(metricdata.Sum[int64]); ok { var s int64; for _, p := range d.DataPoints { s += p.Value }; return s }
	return -1
}

func main() {
	s := &store{live: map[string][]byte{}, crashAt: -1}
	tel := componenttest.NewTelemetry()
	set := exportertest.NewNopSettings(component.MustNewType("p"))
	set.TelemetrySettings = tel.NewTelemetrySettings()
	cfg := exporterhelper.NewDefaultQueueConfig()
	id := component.MustNewID("st"); cfg.StorageID = &id; cfg.NumConsumers = 1
	rc := configretry.NewDefaultBackOffConfig(); rc.InitialInterval = time.Hour; rc.MaxInterval = time.Hour; rc.MaxElapsedTime = 0
	entered := make(chan struct{}, 10)
	exp, err := exporterhelper.NewLogs(context.Background(), set, struct{}{}, func(context.Context, plog.Logs) error { entered <- struct{}{}; return errors.New("transient") },
		exporterhelper.WithQueue(cfg), exporterhelper.WithRetry(rc))
	if err != nil { panic(err) }
	exp.Start(context.Background(), host{&ext{s: s}})
	given := 0
	for i := 0; i < 3; i++ {
		ld := plog.NewLogs(); sl := ld.ResourceLogs().AppendEmpty().ScopeLogs().AppendEmpty()
		for k := 0; k < 2; k++ { sl.LogRecords().AppendEmpty() }
		if exp.ConsumeLogs(context.Background(), ld) == nil { given += 2 }
	}
	<-entered
	time.Sleep(20 * time.Millisecond)
	exp.Shutdown(context.Background())
	sent, failed, enq := read(tel, "otelcol_exporter_sent_log_records"), read(tel, "otelcol_exporter_send_failed_log_records"), read(tel, "otelcol_exporter_enqueue_failed_log_records")
	stored := 0
	for k := range s.live { if k != "ri" && k != "wi" && k != "di" && k != "si" { stored += 2 } }
	fmt.Printf("given=%d sent=%d failed=%d enqueue_failed=%d stored_items=%d  => sent+failed+enq=%d vs given-stored=%d\n", given, sent, failed, enq, stored, sent+failed+enq, given-stored)
}
