package main

import (
	"context"
	"errors"
	"fmt"
	"math/rand"
	"os"
	"os/signal"
	"strings"
	"sync"
	"syscall"
	"time"

	"go.opentelemetry.io/collector/component"
	"go.opentelemetry.io/collector/confmap"
	"go.opentelemetry.io/collector/consumer"
	"go.opentelemetry.io/collector/exporter"
	"go.opentelemetry.io/collector/otelcol"
	"go.opentelemetry.io/collector/pdata/plog"
	"go.opentelemetry.io/collector/receiver"
)

var mu sync.Mutex
var evs []string
var failGen = -1
var provShutdowns = 0

func ev(s string) { mu.Lock(); evs = append(evs, s); mu.Unlock() }

type cfg struct{ Gen int `mapstructure:"gen"` }
type comp struct{ name string; gen int }
func (c *comp) Start(context.Context, component.Host) error { ev(fmt.Sprintf("start g%d %s", c.gen, c.name)); mu.Lock(); f := failGen == c.gen && strings.HasPrefix(c.name, "recv"); mu.Unlock(); if f { return errors.New("startfail") }; return nil }
func (c *comp) Shutdown(context.Context) error { ev(fmt.Sprintf("stop g%d %s", c.gen, c.name)); return nil }
type le struct{ comp }
func (*le) Capabilities() consumer.Capabilities { return consumer.Capabilities{} }
func (*le) ConsumeLogs(context.Context, plog.Logs) error { return nil }

func factories() (otelcol.Factories, error) {
	t := component.MustNewType("k"); f := otelcol.Factories{}
	f.Receivers = map[component.Type]receiver.Factory{t: receiver.NewFactory(t, func() component.Config { return &cfg{} }, receiver.WithLogs(func(_ context.Context, s receiver.Settings, c component.Config, _ consumer.Logs) (receiver.Logs, error) { g := c.(*cfg).Gen; ev(fmt.Sprintf("create g%d recv/%s", g, s.ID)); return &comp{"recv/" + s.ID.String(), g}, nil }, component.StabilityLevelStable))}
	f.Exporters = map[component.Type]exporter.Factory{t: exporter.NewFactory(t, func() component.Config { return &cfg{} }, exporter.WithLogs(func(_ context.Context, s exporter.Settings, c component.Config) (exporter.Logs, error) { g := c.(*cfg).Gen; ev(fmt.Sprintf("create g%d exp/%s", g, s.ID)); return &le{comp{"exp/" + s.ID.String(), g}}, nil }, component.StabilityLevelStable))}
	return f, nil
}

type prov struct{ gen *int; w confmap.WatcherFunc }
func (p *prov) Retrieve(_ context.Context, _ string, w confmap.WatcherFunc) (*confmap.Retrieved, error) {
	mu.Lock(); *p.gen++; g := *p.gen; p.w = w; mu.Unlock()
	return confmap.NewRetrievedFromYAML([]byte(fmt.Sprintf("receivers: {k: {gen: %d}, k/2: {gen: %d}}\nexporters: {k: {gen: %d}}\nservice:\n  telemetry: {metrics: {level: none}, logs: {level: error, output_paths: [/dev/null], error_output_paths: [/dev/null]}}\n  pipelines:\n    logs: {receivers: [k, k/2], exporters: [k]}\n", g, g, g)))
}
func (*prov) Scheme() string { return "vv" }
func (*prov) Shutdown(context.Context) error { mu.Lock(); provShutdowns++; mu.Unlock(); return nil }

func main() {
	keep := make(chan os.Signal, 16); signal.Notify(keep, syscall.SIGHUP, syscall.SIGINT, syscall.SIGTERM) // monitor's own registration
	rng := rand.New(rand.NewSource(6))
	stats := map[string]int{}
	for iter := 0; iter < 300; iter++ {
		mu.Lock(); evs = nil; failGen = -1; provShutdowns = 0; mu.Unlock()
		gen := 0
		p := &prov{gen: &gen}
		col, err := otelcol.NewCollector(otelcol.CollectorSettings{Factories: factories, BuildInfo: component.NewDefaultBuildInfo(), SkipSettingGRPCLogger: true,
			ConfigProviderSettings: otelcol.ConfigProviderSettings{ResolverSettings: confmap.ResolverSettings{URIs: []string{"vv:x"}, ProviderFactories: []confmap.ProviderFactory{confmap.NewProviderFactory(func(confmap.ProviderSettings) confmap.Provider { return p })}}}})
		if err != nil { panic(err) }
		ctx, cancel := context.WithCancel(context.Background())
		done := make(chan error, 1)
		var states []otelcol.State
		stopSample := make(chan struct{})
		var swg sync.WaitGroup
		swg.Add(1)
		go func() { defer swg.Done(); last := otelcol.State(-1); for { select { case <-stopSample: return; default: }; s := col.GetState(); if s != last { states = append(states, s); last = s }; time.Sleep(20 * time.Microsecond) } }()
		go func() { done <- col.Run(ctx) }()
		waitRunning := func() bool { for i := 0; i < 20000; i++ { if col.GetState() == otelcol.StateRunning { return true }; select { case e := <-done: done <- e; return false; default: }; time.Sleep(100 * time.Microsecond) }; return false }
		if !waitRunning() { panic("never running") }
		hist := []string{}
		nEvents := rng.Intn(4)
		wantErr := false
		finished := false
		isDone := func() bool { select { case e := <-done: done <- e; return true; default: return false } }
		for e := 0; e < nEvents && !wantErr && !finished; e++ {
			switch k := rng.Intn(5); k {
			case 0: hist = append(hist, "watch"); expectGen := gen + 1; p.w(&confmap.ChangeEvent{}); for i := 0; i < 20000; i++ { mu.Lock(); g := gen; mu.Unlock(); if g >= expectGen && col.GetState() == otelcol.StateRunning { break }; time.Sleep(100 * time.Microsecond) }
			case 1: hist = append(hist, "sighup"); expectGen := gen + 1; syscall.Kill(os.Getpid(), syscall.SIGHUP); for i := 0; i < 20000; i++ { mu.Lock(); g := gen; mu.Unlock(); if g >= expectGen && col.GetState() == otelcol.StateRunning { break }; time.Sleep(100 * time.Microsecond) }
			case 2: hist = append(hist, "reload+concurrent Shutdown()"); p.w(&confmap.ChangeEvent{}); col.Shutdown(); col.Shutdown(); for i := 0; i < 200 && !finished; i++ { time.Sleep(100 * time.Microsecond); finished = isDone() }; if !finished { if !waitRunning() { finished = true } }
			case 3: hist = append(hist, "reload-with-start-failure"); mu.Lock(); failGen = gen + 1; mu.Unlock(); wantErr = true; p.w(&confmap.ChangeEvent{})
			case 4: hist = append(hist, "3x concurrent Shutdown() noop? no: skip"); 
			}
		}
		var runErr error
		if !wantErr && !finished && !isDone() {
			switch k := rng.Intn(5); k {
			case 0: hist = append(hist, "Shutdown()x3"); var w sync.WaitGroup; for i := 0; i < 3; i++ { w.Add(1); go func() { defer w.Done(); col.Shutdown() }() }; w.Wait()
			case 1: hist = append(hist, "SIGTERM"); syscall.Kill(os.Getpid(), syscall.SIGTERM)
			case 2: hist = append(hist, "SIGINT"); syscall.Kill(os.Getpid(), syscall.SIGINT)
			case 3: hist = append(hist, "ctx cancel"); cancel()
			case 4: hist = append(hist, "watch error"); p.w(&confmap.ChangeEvent{Error: errors.New("watcherr")})
			}
		}
		select {
		case runErr = <-done:
		case <-time.After(5 * time.Second): fmt.Println("RUN DID NOT RETURN", hist, col.GetState()); stats["BAD"]++; continue
		}
		close(stopSample); swg.Wait(); cancel()
		col.Shutdown() // idempotent after close
		prob := ""
		if wantErr { if runErr == nil || !strings.Contains(runErr.Error(), "startfail") { prob += fmt.Sprintf(" expected start failure error, got %v;", runErr) } } else { if runErr != nil { prob += fmt.Sprintf(" unexpected Run error %v;", runErr) }; if col.GetState() != otelcol.StateClosed { prob += " final state " + col.GetState().String() + ";" }; mu.Lock(); if provShutdowns != 1 { prob += fmt.Sprintf(" provider shutdowns=%d;", provShutdowns) }; mu.Unlock() }
		// state path legality
		for i := 0; i+1 < len(states); i++ { if states[i] == otelcol.StateClosed { prob += " state changed after Closed;" } }
		// no overlap + exactly once
		mu.Lock()
		live := map[string]bool{}; startCnt := map[string]int{}; stopCnt := map[string]int{}
		maxGenLive := 0
		for _, e := range evs {
			f := strings.Fields(e); var g int; fmt.Sscanf(f[1], "g%d", &g)
			key := f[1] + " " + f[2]
			switch f[0] {
			case "create": for k := range live { var lg int; fmt.Sscanf(k, "g%d", &lg); if lg != g { prob += fmt.Sprintf(" generation overlap: %s created while %s live;", key, k) } }
			case "start": live[key] = true; startCnt[key]++; if g > maxGenLive { maxGenLive = g }
			case "stop": delete(live, key); stopCnt[key]++
			}
		}
		for k, c := range startCnt { if c != 1 || stopCnt[k] != 1 { prob += fmt.Sprintf(" %s start=%d stop=%d;", k, c, stopCnt[k]) } }
		if len(live) != 0 { prob += fmt.Sprintf(" still live at end: %v;", live) }
		mu.Unlock()
		if prob != "" { stats["BAD"]++; if stats["BAD"] < 6 { fmt.Println(hist, ":", prob[:min(300, len(prob))]) } } else { stats["ok"]++; stats["hist "+strings.Join(hist, ",")]++ }
	}
	dist := 0; for k := range stats { if strings.HasPrefix(k, "hist ") { dist++ } }
	fmt.Println("ok:", stats["ok"], "bad:", stats["BAD"], "distinct histories:", dist)
}
