package main

import (
	"context"
	"errors"
	"fmt"
	"math/rand"
	"sort"
	"strings"
	"sync"
	"time"

	"go.opentelemetry.io/collector/component"
	"go.opentelemetry.io/collector/consumer/consumererror"
	"go.opentelemetry.io/collector/exporter"
	"go.opentelemetry.io/collector/exporter/exporterhelper"
	"go.opentelemetry.io/collector/exporter/exportertest"
	"go.opentelemetry.io/collector/pdata/plog"
	"go.uber.org/zap"
)

type step struct{ kind string; id string; ok bool } // enq | done | restart

type inc struct {
	exp     exporter.Logs
	s       *store
	mu      sync.Mutex
	handed  []string // ids handed off (before death)
	final   map[string]bool
	entered chan string
	gates   map[string]chan error
	dead    func() bool
}

func newInc(s *store, consumers int) *inc {
	in := &inc{s: s, final: map[string]bool{}, entered: make(chan string, 100), gates: map[string]chan error{}}
	in.dead = func() bool { s.mu.Lock(); defer s.mu.Unlock(); return s.dead }
	cfg := exporterhelper.NewDefaultQueueConfig()
	id := component.MustNewID("st"); cfg.StorageID = &id; cfg.NumConsumers = consumers; cfg.QueueSize = 100
	set := exportertest.NewNopSettings(component.MustNewType("p")); set.Logger = zap.NewNop()
	exp, err := exporterhelper.NewLogs(context.Background(), set, struct{}{}, func(_ context.Context, ld plog.Logs) error {
		v, _ := ld.ResourceLogs().At(0).Resource().Attributes().Get("id")
		id := v.Str()
		in.mu.Lock()
		if !in.dead() { in.handed = append(in.handed, id) }
		g := make(chan error, 1); in.gates[id] = g
		in.mu.Unlock()
		in.entered <- id
		err := <-g
		in.mu.Lock(); if !in.dead() { in.final[id] = true }; in.mu.Unlock() // completed hand-off with final outcome (before delete op)
		return err
	}, exporterhelper.WithQueue(cfg), exporterhelper.WithTimeout(exporterhelper.TimeoutConfig{}))
	if err != nil { panic(err) }
	if err := exp.Start(context.Background(), host{&ext{s: s}}); err != nil { panic(err) }
	in.exp = exp
	return in
}

func mk(id string) plog.Logs {
	ld := plog.NewLogs(); rl := ld.ResourceLogs().AppendEmpty(); rl.Resource().Attributes().PutStr("id", id)
	rl.ScopeLogs().AppendEmpty().LogRecords().AppendEmpty().Body().SetStr(id); return ld
}

func (in *inc) waitEntered(n int) []string {
	var out []string
	for i := 0; i < n; i++ { select { case id := <-in.entered: out = append(out, id); case <-time.After(300 * time.Millisecond): return out } }
	return out
}

func (in *inc) abandon() { in.mu.Lock(); for _, g := range in.gates { select { case g <- errors.New("dead"): default: } }; in.mu.Unlock(); go in.exp.Shutdown(context.Background()) }

// drain a fault-free incarnation: returns ids handed off
func drain(snap map[string][]byte) []string {
	in := newInc(&store{live: cp(snap), crashAt: -1}, 2)
	var got []string
	for { ids := in.waitEntered(1); if len(ids) == 0 { break }; got = append(got, ids[0]); in.mu.Lock(); g := in.gates[ids[0]]; in.mu.Unlock(); g <- nil }
	in.exp.Shutdown(context.Background())
	return got
}

// run script on store; returns accepted ids, finalized ids, snapshot at death (or final)
func run(script []step, consumers int, crashAt int, base map[string][]byte) (accepted, finalized map[string]bool, snap map[string][]byte, ops int, trace []string) {
	s := &store{live: cp(base), crashAt: crashAt}
	in := newInc(s, consumers)
	accepted, finalized = map[string]bool{}, map[string]bool{}
	inflight := map[string]bool{}
	queued := 0
	settle := func() {
		for len(inflight) < consumers && queued > 0 { ids := in.waitEntered(1); if len(ids) == 0 { return }; inflight[ids[0]] = true; queued-- }
	}
	for _, st := range script {
		if in.dead() { break }
		switch st.kind {
		case "enq":
			err := in.exp.ConsumeLogs(context.Background(), mk(st.id))
			if err == nil && !in.dead() { accepted[st.id] = true; queued++ } else if err == nil { accepted["?"+st.id] = true }
			trace = append(trace, "enq "+st.id)
		case "done":
			var pick string
			ks := []string{}; for k := range inflight { ks = append(ks, k) }; sort.Strings(ks)
			if len(ks) == 0 { continue }
			pick = ks[0]; delete(inflight, pick)
			in.mu.Lock(); g := in.gates[pick]; in.mu.Unlock()
			if st.ok { g <- nil } else { g <- consumererror.NewPermanent(errors.New("perm")) }
			time.Sleep(300 * time.Microsecond)
			trace = append(trace, "done "+pick)
		case "restart":
			// clean shutdown while items may be in flight: release them with shutdown? they are gated: release as success after shutdown requested is not clean; keep simple: only restart when nothing in flight
			if len(inflight) > 0 { continue }
			in.exp.Shutdown(context.Background())
			if in.dead() { break }
			s2 := &store{live: cp(s.live), crashAt: -1}
			if crashAt >= 0 { s2.crashAt = crashAt - s.ops; if s2.crashAt < 0 { s2.crashAt = -1 } }
			ops += s.ops
			s = s2; in = newInc(s, consumers); queued = 0
			for id := range accepted { if !in.final[id] && !finalized[id] { queued++ } }
			trace = append(trace, "restart")
		}
		settle()
	}
	in.mu.Lock(); for id := range in.final { finalized[id] = true }; in.mu.Unlock()
	s.mu.Lock(); if s.snap != nil { snap = s.snap } else { snap = cp(s.live) }; ops += s.ops; s.mu.Unlock()
	in.abandon()
	return
}

func main() {
	rng := rand.New(rand.NewSource(21))
	lossSigs := map[string]int{}
	examples := map[string]string{}
	crashes, scripts := 0, 0
	for iter := 0; iter < 25; iter++ {
		scripts++
		consumers := 1 + rng.Intn(2)
		var script []step
		n := 3 + rng.Intn(5)
		for i := 0; i < n; i++ {
			switch rng.Intn(5) {
			case 0, 1, 2: script = append(script, step{kind: "enq", id: fmt.Sprintf("s%d.%d", iter, i)})
			case 3: script = append(script, step{kind: "done", ok: rng.Intn(2) == 0})
			case 4: script = append(script, step{kind: "done", ok: true})
			}
		}
		_, _, _, total, _ := run(script, consumers, -1, map[string][]byte{})
		for b := 0; b <= total; b++ {
			crashes++
			acc, fin, snap, _, trace := run(script, consumers, b, map[string][]byte{})
			got := drain(snap)
			gotSet := map[string]bool{}; for _, g := range got { gotSet[g] = true }
			var lost []string
			for id := range acc { if strings.HasPrefix(id, "?") { continue }; if !fin[id] && !gotSet[id] { lost = append(lost, id) } }
			if len(lost) > 0 {
				keys := []string{}; for k := range snap { if k == "ri" || k == "wi" || k == "di" { keys = append(keys, k) } }; sort.Strings(keys)
				sig := fmt.Sprintf("depth1 loss; durable index keys present=%v", keys)
				lossSigs[sig]++
				if examples[sig] == "" { examples[sig] = fmt.Sprintf("consumers=%d boundary=%d trace=%v lost=%v recovered=%v", consumers, b, trace, lost, got) }
			}
			// depth 2: crash during the recovery/drain of the next incarnation
			// count ops of a clean recovery first
			s0 := &store{live: cp(snap), crashAt: -1}; in0 := newInc(s0, 1)
			for { ids := in0.waitEntered(1); if len(ids) == 0 { break }; in0.mu.Lock(); g := in0.gates[ids[0]]; in0.mu.Unlock(); g <- nil }
			in0.exp.Shutdown(context.Background())
			for b2 := 0; b2 <= s0.ops && b2 < 14; b2++ {
				crashes++
				s1 := &store{live: cp(snap), crashAt: b2}; in1 := newInc(s1, 1)
				fin2 := map[string]bool{}
				for { ids := in1.waitEntered(1); if len(ids) == 0 { break }; in1.mu.Lock(); g := in1.gates[ids[0]]; in1.mu.Unlock(); g <- nil; time.Sleep(200 * time.Microsecond) }
				in1.mu.Lock(); for id := range in1.final { fin2[id] = true }; handed := append([]string(nil), in1.handed...); in1.mu.Unlock()
				s1.mu.Lock(); snap2 := s1.snap; if snap2 == nil { snap2 = cp(s1.live) }; s1.mu.Unlock()
				in1.abandon()
				got2 := drain(snap2)
				g2 := map[string]bool{}; for _, g := range got2 { g2[g] = true }; for _, h := range handed { _ = h }
				var lost2 []string
				for id := range acc { if strings.HasPrefix(id, "?") { continue }; if !fin[id] && !fin2[id] && !g2[id] && gotSet[id] { lost2 = append(lost2, id) } }
				if len(lost2) > 0 {
					sig := "depth2 loss: death inside recovery/drain of the second incarnation"
					lossSigs[sig]++
					if examples[sig] == "" { examples[sig] = fmt.Sprintf("boundary1=%d boundary2=%d trace=%v lost=%v", b, b2, trace, lost2) }
				}
			}
		}
	}
	fmt.Println("scripts:", scripts, "crash runs:", crashes)
	for k, v := range lossSigs { fmt.Println(v, k, "\n     e.g.", examples[k]) }
}
