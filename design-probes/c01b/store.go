package main

import (
	"context"
	"errors"
	"sync"

	"go.opentelemetry.io/collector/component"
	"go.opentelemetry.io/collector/extension/xextension/storage"
)

type store struct {
	mu      sync.Mutex
	live    map[string][]byte
	ops     int
	crashAt int // boundary: after this many ops, dead
	dead    bool
	snap    map[string][]byte
}

func cp(m map[string][]byte) map[string][]byte {
	o := map[string][]byte{}
	for k, v := range m {
		o[k] = append([]byte(nil), v...)
	}
	return o
}

func (s *store) pre() error {
	if s.dead {
		return errors.New("dead")
	}
	if s.crashAt >= 0 && s.ops == s.crashAt {
		s.dead = true
		s.snap = cp(s.live)
		return errors.New("dead")
	}
	s.ops++
	return nil
}
func (s *store) Get(_ context.Context, k string) ([]byte, error) {
	s.mu.Lock(); defer s.mu.Unlock()
	if err := s.pre(); err != nil { return nil, err }
	return s.live[k], nil
}
func (s *store) Set(_ context.Context, k string, v []byte) error {
	s.mu.Lock(); defer s.mu.Unlock()
	if err := s.pre(); err != nil { return err }
	s.live[k] = v
	return nil
}
func (s *store) Delete(_ context.Context, k string) error {
	s.mu.Lock(); defer s.mu.Unlock()
	if err := s.pre(); err != nil { return err }
	delete(s.live, k)
	return nil
}
func (s *store) Batch(_ context.Context, ops ...*storage.Operation) error {
	s.mu.Lock(); defer s.mu.Unlock()
	if err := s.pre(); err != nil { return err }
	for _, op := range ops {
		switch op.Type {
		case storage.Get:
			op.Value = s.live[op.Key]
		case storage.Set:
			s.live[op.Key] = op.Value
		case storage.Delete:
			delete(s.live, op.Key)
		}
	}
	return nil
}
func (s *store) Close(context.Context) error { return nil }

type ext struct {
	component.StartFunc
	component.ShutdownFunc
	s *store
}

func (e *ext) GetClient(context.Context, component.Kind, component.ID, string) (storage.Client, error) {
	return e.s, nil
}

type host struct{ e *ext }

func (h host) GetExtensions() map[component.ID]component.Component {
	return map[component.ID]component.Component{component.MustNewID("st"): h.e}
}

