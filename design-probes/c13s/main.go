package main

import (
	"context"
	"fmt"
	"strings"

	"go.opentelemetry.io/collector/component"
	"go.opentelemetry.io/collector/confmap"
	"go.opentelemetry.io/collector/confmap/provider/yamlprovider"
	"go.opentelemetry.io/collector/confmap/xconfmap"
	"go.opentelemetry.io/collector/exporter"
	"go.opentelemetry.io/collector/exporter/otlpexporter"
	"go.opentelemetry.io/collector/exporter/otlphttpexporter"
	"go.opentelemetry.io/collector/otelcol"
	"go.opentelemetry.io/collector/processor"
	"go.opentelemetry.io/collector/processor/batchprocessor"
	"go.opentelemetry.io/collector/receiver"
	"go.opentelemetry.io/collector/receiver/otlpreceiver"
)

func factories() otelcol.Factories {
	f := otelcol.Factories{}
	f.Receivers = map[component.Type]receiver.Factory{otlpreceiver.NewFactory().Type(): otlpreceiver.NewFactory()}
	f.Processors = map[component.Type]processor.Factory{batchprocessor.NewFactory().Type(): batchprocessor.NewFactory()}
	f.Exporters = map[component.Type]exporter.Factory{otlpexporter.NewFactory().Type(): otlpexporter.NewFactory(), otlphttpexporter.NewFactory().Type(): otlphttpexporter.NewFactory()}
	return f
}

const base = `
receivers:
  otlp:
    protocols:
      grpc: {endpoint: "localhost:4317"RG}
      http: {endpoint: "localhost:4318", cors: {allowed_origins: ["*"]RC}RH}
processors:
  batch: {timeout: 1sPB}
exporters:
  otlp: {endpoint: "localhost:1", tls: {insecure: trueET}, sending_queue: {queue_size: 10, sizer: items, batch: {flush_timeout: 1s, min_size: 1EB}EQ}, retry_on_failure: {enabled: trueER}EX}
  otlphttp: {endpoint: "http://localhost:1"HX}
service:
  telemetry:
    logs: {level: infoTL}
    metrics: {level: noneTM}
    resource: {a: b}TT
  pipelines:
    logs: {receivers: [otlp], processors: [batch], exporters: [otlp, otlphttp]PL}SV
`

func load(y string) error {
	cp, err := otelcol.NewConfigProvider(otelcol.ConfigProviderSettings{ResolverSettings: confmap.ResolverSettings{URIs: []string{"yaml:" + y}, ProviderFactories: []confmap.ProviderFactory{yamlprovider.NewFactory()}}})
	if err != nil { return err }
	cfg, err := cp.Get(context.Background(), factories())
	if err != nil { return err }
	return xconfmap.Validate(cfg)
}

func main() {
	slots := []string{"RG", "RC", "RH", "PB", "ET", "EB", "EQ", "ER", "EX", "HX", "TL", "TM", "TT", "PL", "SV"}
	clean := base
	for _, s := range slots { clean = strings.ReplaceAll(clean, s, "") }
	fmt.Println("clean:", load(clean))
	for _, s := range slots {
		y := base
		for _, o := range slots {
			if o == s {
				ins := ", bogus_key: 1"
				if s == "TT" || s == "SV" { ins = "\n" + map[string]string{"TT": "    ", "SV": "  "}[s] + "bogus_key: 1" }
				y = strings.ReplaceAll(y, o, ins)
			} else { y = strings.ReplaceAll(y, o, "") }
		}
		err := load(y)
		res := "IGNORED (no error)"
		if err != nil { res = "rejected; names key: " + fmt.Sprint(strings.Contains(err.Error(), "bogus_key")) }
		fmt.Printf("slot %s: %s\n", s, res)
	}
}
