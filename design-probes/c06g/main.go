package main

import (
	"bytes"
	"context"
	"fmt"
	"math/rand"
	"sort"
	"strings"
	"sync"
	"time"

	"go.opentelemetry.io/collector/component"
	"go.opentelemetry.io/collector/confmap"
	"go.opentelemetry.io/collector/connector"
	"go.opentelemetry.io/collector/consumer"
	"go.opentelemetry.io/collector/exporter"
	"go.opentelemetry.io/collector/otelcol"
	"go.opentelemetry.io/collector/pdata/pcommon"
	"go.opentelemetry.io/collector/pdata/plog"
	"go.opentelemetry.io/collector/processor"
	"go.opentelemetry.io/collector/receiver"
)

var pm = &plog.ProtoMarshaler{}
func b(ld plog.Logs) []byte { x, _ := pm.MarshalLogs(ld); return x }
func markers(ld plog.Logs) []string {
	var out []string
	ld.ResourceLogs().At(0).Resource().Attributes().Range(func(k string, _ pcommonValue) bool { return true })
	return out
}

type pcommonValue = pcommon.Value

var mu sync.Mutex
var wg sync.WaitGroup
var recvNext = map[string]consumer.Logs{}

type base struct{}
func (base) Start(context.Context, component.Host) error { return nil }
func (base) Shutdown(context.Context) error { return nil }
type cfg struct{ Mut bool `mapstructure:"mut"` }

type proc struct{ base; id string; mut bool; next consumer.Logs }
func (p *proc) Capabilities() consumer.Capabilities { return consumer.Capabilities{MutatesData: p.mut} }
func (p *proc) ConsumeLogs(ctx context.Context, ld plog.Logs) error {
	if p.mut { ld.ResourceLogs().At(0).Resource().Attributes().PutStr("m:"+p.id, "x") }
	return p.next.ConsumeLogs(ctx, ld)
}

type rec struct{ key string; atCall []byte; ld plog.Logs; keys []string }
var recs []*rec

type exp struct{ base; id string; mut bool }
func (e *exp) Capabilities() consumer.Capabilities { return consumer.Capabilities{MutatesData: e.mut} }
func (e *exp) ConsumeLogs(_ context.Context, ld plog.Logs) error {
	r := &rec{key: e.id, atCall: b(ld), ld: ld}
	ld.ResourceLogs().At(0).Resource().Attributes().Range(func(k string, _ pcommonValue) bool { if strings.HasPrefix(k, "m:") { r.keys = append(r.keys, k) }; return true })
	mu.Lock(); recs = append(recs, r); mu.Unlock()
	wg.Add(1)
	if e.mut { go func() { defer wg.Done(); time.Sleep(50 * time.Microsecond); ld.ResourceLogs().At(0).Resource().Attributes().PutStr("m:"+e.id, "x") }() } else { go func() { defer wg.Done(); for i := 0; i < 3; i++ { _ = b(ld); time.Sleep(30 * time.Microsecond) } }() }
	return nil
}

type conn struct{ base; id string; next consumer.Logs }
func (c *conn) Capabilities() consumer.Capabilities { return consumer.Capabilities{} }
func (c *conn) ConsumeLogs(ctx context.Context, ld plog.Logs) error { return c.next.ConsumeLogs(ctx, ld) }

func factories() (otelcol.Factories, error) {
	f := otelcol.Factories{}
	rt, pt, et, ct := component.MustNewType("r"), component.MustNewType("p"), component.MustNewType("e"), component.MustNewType("c")
	st := component.StabilityLevelStable
	f.Receivers = map[component.Type]receiver.Factory{rt: receiver.NewFactory(rt, func() component.Config { return &cfg{} }, receiver.WithLogs(func(_ context.Context, s receiver.Settings, _ component.Config, n consumer.Logs) (receiver.Logs, error) { mu.Lock(); recvNext[s.ID.String()] = n; mu.Unlock(); return base{}, nil }, st))}
	f.Processors = map[component.Type]processor.Factory{pt: processor.NewFactory(pt, func() component.Config { return &cfg{} }, processor.WithLogs(func(_ context.Context, s processor.Settings, c component.Config, n consumer.Logs) (processor.Logs, error) { return &proc{id: s.ID.String(), mut: c.(*cfg).Mut, next: n}, nil }, st))}
	f.Exporters = map[component.Type]exporter.Factory{et: exporter.NewFactory(et, func() component.Config { return &cfg{} }, exporter.WithLogs(func(_ context.Context, s exporter.Settings, c component.Config) (exporter.Logs, error) { return &exp{id: s.ID.String(), mut: c.(*cfg).Mut}, nil }, st))}
	f.Connectors = map[component.Type]connector.Factory{ct: connector.NewFactory(ct, func() component.Config { return &cfg{} }, connector.WithLogsToLogs(func(_ context.Context, s connector.Settings, _ component.Config, n consumer.Logs) (connector.Logs, error) { return &conn{id: s.ID.String(), next: n}, nil }, st))}
	return f, nil
}

type prov struct{ y string }
func (p *prov) Retrieve(context.Context, string, confmap.WatcherFunc) (*confmap.Retrieved, error) { return confmap.NewRetrievedFromYAML([]byte(p.y)) }
func (*prov) Scheme() string { return "vv" }
func (*prov) Shutdown(context.Context) error { return nil }

func main() {
	rng := rand.New(rand.NewSource(17))
	bad, runs, deliveries := 0, 0, 0
	for iter := 0; iter < 600; iter++ {
		np := 1 + rng.Intn(4)
		var procDefs, expDefs, pipes []string
		expected := map[string][]string{} // exporter id -> expected marker set (sorted)
		useConn := rng.Intn(3) == 0 && np >= 2
		for i := 0; i < np; i++ {
			var ps, es, muts []string
			for k := 0; k < rng.Intn(3); k++ { id := fmt.Sprintf("p/%d_%d", i, k); m := rng.Intn(2) == 0; procDefs = append(procDefs, fmt.Sprintf("%s: {mut: %v}", id, m)); ps = append(ps, id); if m { muts = append(muts, "m:"+id) } }
			for k := 0; k < 1+rng.Intn(2); k++ { id := fmt.Sprintf("e/%d_%d", i, k); m := rng.Intn(3) == 0; expDefs = append(expDefs, fmt.Sprintf("%s: {mut: %v}", id, m)); es = append(es, id); sort.Strings(muts); expected[id] = append([]string(nil), muts...) }
			recvs := "r"
			if useConn && i > 0 { recvs = "c" }
			if useConn && i == 0 { es = append(es, "c") }
			pipes = append(pipes, fmt.Sprintf("    logs/%d: {receivers: [%s], processors: [%s], exporters: [%s]}", i, recvs, strings.Join(ps, ","), strings.Join(es, ",")))
		}
		if useConn { // pipelines >0 are fed by pipeline 0 through the connector: they also carry pipeline 0's processor markers
			var m0 []string
			for id, ms := range expected { if strings.HasPrefix(id, "e/0_") { m0 = ms; break } }
			for id := range expected { if !strings.HasPrefix(id, "e/0_") { expected[id] = append(append([]string(nil), m0...), expected[id]...); sort.Strings(expected[id]) } }
		}
		y := "receivers: {r: {}}\nprocessors: {" + strings.Join(procDefs, ", ") + "}\nexporters: {" + strings.Join(expDefs, ", ") + "}\nconnectors: {c: {}}\nservice:\n  telemetry: {metrics: {level: none}, logs: {level: error, output_paths: [/dev/null], error_output_paths: [/dev/null]}}\n  pipelines:\n" + strings.Join(pipes, "\n") + "\n"
		mu.Lock(); recs = nil; recvNext = map[string]consumer.Logs{}; mu.Unlock()
		col, err := otelcol.NewCollector(otelcol.CollectorSettings{Factories: factories, BuildInfo: component.NewDefaultBuildInfo(), SkipSettingGRPCLogger: true,
			ConfigProviderSettings: otelcol.ConfigProviderSettings{ResolverSettings: confmap.ResolverSettings{URIs: []string{"vv:x"}, ProviderFactories: []confmap.ProviderFactory{confmap.NewProviderFactory(func(confmap.ProviderSettings) confmap.Provider { return &prov{y} })}}}})
		if err != nil { panic(err) }
		done := make(chan error, 1)
		go func() { done <- col.Run(context.Background()) }()
		fin := false; var runErr error
		for { select { case runErr = <-done: fin = true; default: }; if fin || col.GetState() == otelcol.StateRunning { break }; time.Sleep(100 * time.Microsecond) }
		if fin { fmt.Println("run failed", runErr, y); bad++; continue }
		runs++
		mu.Lock(); next := recvNext["r"]; mu.Unlock()
		orig := plog.NewLogs(); rl := orig.ResourceLogs().AppendEmpty(); rl.Resource().Attributes().PutStr("orig", "1"); rl.ScopeLogs().AppendEmpty().LogRecords().AppendEmpty().Body().SetStr("body")
		sent := b(orig)
		advertised := next.Capabilities().MutatesData
		_ = next.ConsumeLogs(context.Background(), orig)
		wg.Wait()
		prob := ""
		if !advertised && !bytes.Equal(b(orig), sent) { prob += " receiver's original changed although the consumer it was given does not advertise mutation;" }
		mu.Lock()
		for _, r := range recs {
			deliveries++
			sort.Strings(r.keys)
			if fmt.Sprint(r.keys) != fmt.Sprint(expected[r.key]) { prob += fmt.Sprintf(" exporter %s saw markers %v, its path has %v;", r.key, r.keys, expected[r.key]) }
		}
		if len(recs) != len(expected) { prob += fmt.Sprintf(" %d deliveries, want %d;", len(recs), len(expected)) }
		mu.Unlock()
		col.Shutdown(); <-done
		if prob != "" { bad++; if bad < 5 { fmt.Println(prob[:min(len(prob), 300)], "\n", y) } }
	}
	fmt.Println("runs:", runs, "deliveries:", deliveries, "bad:", bad)
}
