package main

import (
	"context"
	"errors"
	"fmt"
	"sync"

	"go.opentelemetry.io/collector/component"
	"go.opentelemetry.io/collector/component/componentstatus"
	"go.opentelemetry.io/collector/config/configtelemetry"
	"go.opentelemetry.io/collector/consumer"
	"go.opentelemetry.io/collector/exporter"
	"go.opentelemetry.io/collector/extension"
	"go.opentelemetry.io/collector/pdata/plog"
	"go.opentelemetry.io/collector/pipeline"
	"go.opentelemetry.io/collector/receiver"
	"go.opentelemetry.io/collector/service"
	"go.opentelemetry.io/collector/service/extensions"
	"go.opentelemetry.io/collector/service/pipelines"
	"go.opentelemetry.io/collector/service/telemetry"
	"go.uber.org/zap/zapcore"
)

type S = componentstatus.Status

var all = []S{componentstatus.StatusNone, componentstatus.StatusStarting, componentstatus.StatusOK, componentstatus.StatusRecoverableError,
	componentstatus.StatusPermanentError, componentstatus.StatusFatalError, componentstatus.StatusStopping, componentstatus.StatusStopped}

// documented diagram (docs/img/component-status-state-diagram.png) + two tolerated edges
var legal = map[S]map[S]bool{
	componentstatus.StatusNone:             {componentstatus.StatusStarting: true},
	componentstatus.StatusStarting:         {componentstatus.StatusOK: true, componentstatus.StatusRecoverableError: true, componentstatus.StatusPermanentError: true, componentstatus.StatusFatalError: true, componentstatus.StatusStopping: true /*tolerated*/},
	componentstatus.StatusOK:               {componentstatus.StatusRecoverableError: true, componentstatus.StatusPermanentError: true, componentstatus.StatusFatalError: true, componentstatus.StatusStopping: true},
	componentstatus.StatusRecoverableError: {componentstatus.StatusOK: true, componentstatus.StatusPermanentError: true, componentstatus.StatusFatalError: true, componentstatus.StatusStopping: true},
	componentstatus.StatusPermanentError:   {componentstatus.StatusStopping: true, componentstatus.StatusFatalError: true},
	componentstatus.StatusFatalError:       {},
	componentstatus.StatusStopping:         {componentstatus.StatusPermanentError: true, componentstatus.StatusFatalError: true, componentstatus.StatusStopped: true, componentstatus.StatusRecoverableError: true /*tolerated*/},
	componentstatus.StatusStopped:          {},
}

func ev(s S) *componentstatus.Event {
	switch s {
	case componentstatus.StatusRecoverableError: return componentstatus.NewRecoverableErrorEvent(errors.New("r"))
	case componentstatus.StatusPermanentError: return componentstatus.NewPermanentErrorEvent(errors.New("p"))
	case componentstatus.StatusFatalError: return componentstatus.NewFatalErrorEvent(errors.New("f"))
	}
	return componentstatus.NewEvent(s)
}

type script struct{ inStart, afterStart, afterStop []S }

type rcv struct {
	id   string
	sc   script
	host component.Host
}

var reported = map[string][]string{} // id -> reference input sequence (service + component)
var mu sync.Mutex

func (r *rcv) Start(_ context.Context, h component.Host) error {
	r.host = h
	for _, s := range r.sc.inStart { componentstatus.ReportStatus(h, ev(s)) }
	return nil
}
func (r *rcv) Shutdown(context.Context) error { return nil }

type cfg struct{}
type le struct{}
func (le) Start(context.Context, component.Host) error { return nil }
func (le) Shutdown(context.Context) error { return nil }
func (le) Capabilities() consumer.Capabilities { return consumer.Capabilities{} }
func (le) ConsumeLogs(context.Context, plog.Logs) error { return nil }

type watcher struct{ got map[string][]S }
func (w *watcher) Start(context.Context, component.Host) error { return nil }
func (w *watcher) Shutdown(context.Context) error { return nil }
func (w *watcher) ComponentStatusChanged(src *componentstatus.InstanceID, e *componentstatus.Event) {
	if src.Kind() != component.KindReceiver { return }
	mu.Lock(); w.got[src.ComponentID().String()] = append(w.got[src.ComponentID().String()], e.Status()); mu.Unlock()
}

func main() {
	// all scripts: inStart len<=1, afterStart len<=2, afterStop len<=1
	var scripts []script
	opt := [][]S{{}}
	for _, s := range all { opt = append(opt, []S{s}) }
	var two [][]S
	two = append(two, opt...)
	for _, a := range all { for _, b := range all { two = append(two, []S{a, b}) } }
	for _, a := range opt { for _, b := range two { for _, c := range opt { scripts = append(scripts, script{a, b, c}) } } }
	fmt.Println("scripts:", len(scripts))
	t := component.MustNewType("k")
	rcvs := map[string]*rcv{}
	w := &watcher{got: map[string][]S{}}
	rcfgs := map[component.ID]component.Config{}
	var rids []component.ID
	for i, sc := range scripts {
		id := component.MustNewIDWithName("k", fmt.Sprint("i", i))
		rcfgs[id] = &cfg{}; rids = append(rids, id)
		rcvs[id.String()] = &rcv{id: id.String(), sc: sc}
	}
	ch := make(chan error, 10)
	go func() { for range ch { } }()
	set := service.Settings{
		BuildInfo: component.NewDefaultBuildInfo(),
		ReceiversConfigs: rcfgs,
		ReceiversFactories: map[component.Type]receiver.Factory{t: receiver.NewFactory(t, func() component.Config { return &cfg{} },
			receiver.WithLogs(func(_ context.Context, s receiver.Settings, _ component.Config, _ consumer.Logs) (receiver.Logs, error) { return rcvs[s.ID.String()], nil }, component.StabilityLevelStable))},
		ExportersConfigs: map[component.ID]component.Config{component.NewID(t): &cfg{}},
		ExportersFactories: map[component.Type]exporter.Factory{t: exporter.NewFactory(t, func() component.Config { return &cfg{} },
			exporter.WithLogs(func(context.Context, exporter.Settings, component.Config) (exporter.Logs, error) { return le{}, nil }, component.StabilityLevelStable))},
		ExtensionsConfigs: map[component.ID]component.Config{component.NewID(t): &cfg{}},
		ExtensionsFactories: map[component.Type]extension.Factory{t: extension.NewFactory(t, func() component.Config { return &cfg{} },
			func(context.Context, extension.Settings, component.Config) (extension.Extension, error) { return w, nil }, component.StabilityLevelStable)},
		AsyncErrorChannel: ch,
	}
	cfgS := service.Config{
		Telemetry: telemetry.Config{Logs: telemetry.LogsConfig{Level: zapcore.ErrorLevel, Encoding: "console", OutputPaths: []string{"/dev/null"}, ErrorOutputPaths: []string{"/dev/null"}}, Metrics: telemetry.MetricsConfig{Level: configtelemetry.LevelNone}},
		Extensions: extensions.Config{component.NewID(t)},
		Pipelines: pipelines.Config{pipeline.NewID(pipeline.SignalLogs): {Receivers: rids, Exporters: []component.ID{component.NewID(t)}}},
	}
	srv, err := service.New(context.Background(), set, cfgS)
	if err != nil { panic(err) }
	if err := srv.Start(context.Background()); err != nil { panic(err) }
	for _, r := range rcvs { for _, s := range r.sc.afterStart { componentstatus.ReportStatus(r.host, ev(s)) } }
	if err := srv.Shutdown(context.Background()); err != nil { fmt.Println("shutdown err", err) }
	for _, r := range rcvs { for _, s := range r.sc.afterStop { componentstatus.ReportStatus(r.host, ev(s)) } }
	// reference: service reports Starting, [inStart], OK-if-starting, [afterStart], Stopping, Stopped, [afterStop]
	bad, checked, nontrivial := 0, 0, 0
	distinct := map[string]bool{}
	for id, r := range rcvs {
		cur := componentstatus.StatusNone
		var want []S
		illegal := false
		apply := func(s S) { if legal[cur][s] { cur = s; want = append(want, s) } else { illegal = true } }
		apply(componentstatus.StatusStarting)
		for _, s := range r.sc.inStart { apply(s) }
		if cur == componentstatus.StatusStarting { apply(componentstatus.StatusOK) }
		for _, s := range r.sc.afterStart { apply(s) }
		apply(componentstatus.StatusStopping); apply(componentstatus.StatusStopped)
		for _, s := range r.sc.afterStop { apply(s) }
		got := w.got[id]
		checked++
		if illegal { nontrivial++ }
		distinct[fmt.Sprint(got)] = true
		if fmt.Sprint(got) != fmt.Sprint(want) {
			bad++
			if bad < 6 { fmt.Printf("MISMATCH script=%v\n   got  %v\n   want %v\n", r.sc, got, want) }
		}
	}
	fmt.Println("instances checked:", checked, "with >=1 rejected report:", nontrivial, "distinct delivered sequences:", len(distinct), "mismatches:", bad)
}
