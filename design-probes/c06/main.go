package main

import (
	"bytes"
	"context"
	"errors"
	"fmt"
	"sync"

	"go.opentelemetry.io/collector/consumer"
	"go.opentelemetry.io/collector/internal/fanoutconsumer"
	"go.opentelemetry.io/collector/pdata/plog"
	"go.uber.org/multierr"
)

var pm = &plog.ProtoMarshaler{}

func b(ld plog.Logs) []byte { x, _ := pm.MarshalLogs(ld); return x }

type tc struct {
	idx     int
	mutates bool
	fail    bool
	async   bool
	atCall  []byte
	ld      plog.Logs
	calls   int
	ro      bool
	wg      *sync.WaitGroup
}

func (c *tc) Capabilities() consumer.Capabilities { return consumer.Capabilities{MutatesData: c.mutates} }
func (c *tc) mutate() { c.ld.ResourceLogs().At(0).Resource().Attributes().PutStr(fmt.Sprint("marker", c.idx), "x") }
func (c *tc) ConsumeLogs(_ context.Context, ld plog.Logs) error {
	c.calls++
	c.atCall = b(ld); c.ld = ld; c.ro = ld.IsReadOnly()
	if c.mutates {
		if c.async { c.wg.Add(1); go func() { defer c.wg.Done(); c.mutate() }() } else { c.mutate() }
	}
	if c.fail { return fmt.Errorf("fail%d", c.idx) }
	return nil
}

func main() {
	bad, cases := 0, 0
	for n := 1; n <= 5; n++ {
		for mask := 0; mask < 1<<n; mask++ {
			for failMask := 0; failMask < 1<<n; failMask += 1 + n { // sample
				for _, ro := range []bool{false, true} {
					for _, async := range []bool{false, true} {
						cases++
						var wg sync.WaitGroup
						var cs []*tc
						var lcs []consumer.Logs
						for i := 0; i < n; i++ {
							c := &tc{idx: i, mutates: mask>>i&1 == 1, fail: failMask>>i&1 == 1, async: async, wg: &wg}
							cs = append(cs, c); lcs = append(lcs, c)
						}
						ld := plog.NewLogs()
						rl := ld.ResourceLogs().AppendEmpty(); rl.Resource().Attributes().PutStr("k", "v")
						rl.ScopeLogs().AppendEmpty().LogRecords().AppendEmpty().Body().SetStr("body")
						if ro { ld.MarkReadOnly() }
						sent := b(ld)
						f := fanoutconsumer.NewLogs(lcs)
						advertised := f.Capabilities().MutatesData
						var err error
						func() {
							defer func() { if r := recover(); r != nil { err = fmt.Errorf("PANIC %v", r) } }()
							err = f.ConsumeLogs(context.Background(), ld)
						}()
						wg.Wait()
						prob := ""
						nfail := 0
						for _, c := range cs {
							if c.calls != 1 { prob += fmt.Sprintf(" consumer%d calls=%d;", c.idx, c.calls) ; continue }
							if !bytes.Equal(c.atCall, sent) { prob += fmt.Sprintf(" consumer%d saw different content at call;", c.idx) }
							if !c.mutates && !bytes.Equal(b(c.ld), c.atCall) { prob += fmt.Sprintf(" non-mutating consumer%d observed a change;", c.idx) }
							if c.fail { nfail++; if err == nil || !errors.Is(err, err) || !contains(err, fmt.Sprintf("fail%d", c.idx)) { prob += fmt.Sprintf(" error of consumer%d missing;", c.idx) } }
							if c.mutates { // own marker only
								for j := 0; j < n; j++ { if j != c.idx { if _, ok := c.ld.ResourceLogs().At(0).Resource().Attributes().Get(fmt.Sprint("marker", j)); ok { prob += fmt.Sprintf(" consumer%d sees marker%d;", c.idx, j) } } }
							}
						}
						if len(multierr.Errors(err)) != nfail { prob += fmt.Sprintf(" errs=%d want %d (%v);", len(multierr.Errors(err)), nfail, err) }
						if !advertised && !bytes.Equal(b(ld), sent) { prob += " original changed although fan-out does not advertise mutation;" }
						nro := 0
						for _, c := range cs { if !c.mutates { nro++ } }
						if nro >= 2 { for _, c := range cs { if !c.mutates && !c.ro { prob += fmt.Sprintf(" shared payload for consumer%d not read-only;", c.idx) } } }
						if ro && advertised && n > 0 { /* caller must not pass read-only data to a mutating consumer; fanout clones */ }
						if prob != "" { bad++; if bad < 8 { fmt.Printf("n=%d mask=%b fail=%b ro=%v async=%v:%s\n", n, mask, failMask, ro, async, prob) } }
					}
				}
			}
		}
	}
	fmt.Println("cases:", cases, "bad:", bad)
}

func contains(err error, s string) bool { return err != nil && bytes.Contains([]byte(err.Error()), []byte(s)) }
