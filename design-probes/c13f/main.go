package main

import (
	"context"
	"encoding"
	"fmt"
	"math/rand"
	"reflect"
	"sort"
	"strings"
	"time"

	"go.opentelemetry.io/collector/component"
	"go.opentelemetry.io/collector/confmap"
	"go.opentelemetry.io/collector/confmap/provider/yamlprovider"
	"go.opentelemetry.io/collector/exporter"
	"go.opentelemetry.io/collector/exporter/debugexporter"
	"go.opentelemetry.io/collector/exporter/otlpexporter"
	"go.opentelemetry.io/collector/exporter/otlphttpexporter"
	"go.opentelemetry.io/collector/otelcol"
	"go.opentelemetry.io/collector/processor"
	"go.opentelemetry.io/collector/processor/batchprocessor"
	"go.opentelemetry.io/collector/processor/memorylimiterprocessor"
	"go.opentelemetry.io/collector/receiver"
	"go.opentelemetry.io/collector/receiver/otlpreceiver"
	yaml "gopkg.in/yaml.v3"
)

type leaf struct {
	key   []string
	typ   reflect.Type
	index [][]int // field index chain per struct level (through pointers)
}

func walk(t reflect.Type, key []string, out *[]leaf) {
	for t.Kind() == reflect.Ptr { t = t.Elem() }
	if t.Kind() == reflect.Struct && t.PkgPath() != "time" && !reflect.PointerTo(t).Implements(reflect.TypeOf((*encoding.TextUnmarshaler)(nil)).Elem()) {
		for i := 0; i < t.NumField(); i++ {
			f := t.Field(i)
			if !f.IsExported() { continue }
			parts := strings.Split(f.Tag.Get("mapstructure"), ",")
			name := parts[0]
			if name == "-" { continue }
			squash := false
			for _, p := range parts[1:] { if p == "squash" { squash = true } }
			if squash { walk(f.Type, key, out); continue }
			if name == "" { name = strings.ToLower(f.Name) }
			walk(f.Type, append(append([]string(nil), key...), name), out)
		}
		return
	}
	*out = append(*out, leaf{key: key, typ: t})
}

// read a leaf from a loaded config by key path
func get(v reflect.Value, key []string) (reflect.Value, bool) {
	for v.Kind() == reflect.Ptr || v.Kind() == reflect.Interface { if v.IsNil() { return v, false }; v = v.Elem() }
	if len(key) == 0 { return v, true }
	if v.Kind() != reflect.Struct { return v, false }
	t := v.Type()
	for i := 0; i < t.NumField(); i++ {
		f := t.Field(i)
		if !f.IsExported() { continue }
		parts := strings.Split(f.Tag.Get("mapstructure"), ",")
		name := parts[0]
		squash := false
		for _, p := range parts[1:] { if p == "squash" { squash = true } }
		if squash { if r, ok := get(v.Field(i), key); ok { return r, true }; continue }
		if name == "" { name = strings.ToLower(f.Name) }
		if name == key[0] { return get(v.Field(i), key[1:]) }
	}
	return v, false
}

// generate (yaml text node, expected Go value) for a type
func genVal(rng *rand.Rand, t reflect.Type) (any, any, bool) {
	switch t.String() {
	case "time.Duration": d := time.Duration(1+rng.Intn(5000)) * time.Millisecond; return d.String(), d, true
	case "configopaque.String": s := fmt.Sprint("sec", rng.Intn(1000)); return s, s, true
	case "component.ID": s := fmt.Sprint("ext", rng.Intn(9), "/n"); return s, s, true
	case "configcompression.Type": s := []string{"gzip", "zstd", "snappy", "none", "zlib"}[rng.Intn(5)]; return s, s, true
	case "request.SizerType": s := []string{"requests", "items", "bytes"}[rng.Intn(3)]; return s, s, true
	}
	switch t.Kind() {
	case reflect.Bool: b := rng.Intn(2) == 0; return b, b, true
	case reflect.Int, reflect.Int32, reflect.Int64: n := 1 + rng.Intn(1000); return n, int64(n), true
	case reflect.Uint, reflect.Uint32, reflect.Uint64: n := 1 + rng.Intn(1000); return n, uint64(n), true
	case reflect.Float64: f := float64(rng.Intn(100)) / 8; return f, f, true
	case reflect.String: s := fmt.Sprint("v", rng.Intn(100000)); return s, s, true
	case reflect.Slice:
		if t.Elem().Kind() == reflect.String { l := []any{fmt.Sprint("e", rng.Intn(100)), fmt.Sprint("f", rng.Intn(100))}; return l, fmt.Sprint(l), true }
	case reflect.Map:
		if t.Key().Kind() == reflect.String && (t.Elem().Kind() == reflect.String) { m := map[string]any{fmt.Sprint("k", rng.Intn(100)): fmt.Sprint("w", rng.Intn(100))}; return m, fmt.Sprint(m), true }
	}
	return nil, nil, false
}

func show(v reflect.Value) any {
	for v.Kind() == reflect.Ptr { if v.IsNil() { return "<nil>" }; v = v.Elem() }
	switch v.Type().String() {
	case "time.Duration": return time.Duration(v.Int())
	case "component.ID": return fmt.Sprint(v.Interface())
	case "request.SizerType": b, _ := v.Addr().Interface().(encoding.TextMarshaler).MarshalText(); return string(b)
	}
	switch v.Kind() {
	case reflect.Bool: return v.Bool()
	case reflect.Int, reflect.Int32, reflect.Int64: return v.Int()
	case reflect.Uint, reflect.Uint32, reflect.Uint64: return v.Uint()
	case reflect.Float64: return v.Float()
	case reflect.String: return v.String()
	case reflect.Slice: l := []any{}; for i := 0; i < v.Len(); i++ { l = append(l, v.Index(i).String()) }; return fmt.Sprint(l)
	case reflect.Map: m := map[string]any{}; for _, k := range v.MapKeys() { m[k.String()] = v.MapIndex(k).String() }; return fmt.Sprint(m)
	}
	return fmt.Sprint(v.Interface())
}

func setPath(m map[string]any, key []string, val any) {
	for _, k := range key[:len(key)-1] { n, ok := m[k].(map[string]any); if !ok { n = map[string]any{}; m[k] = n }; m = n }
	m[key[len(key)-1]] = val
}

func main() {
	rng := rand.New(rand.NewSource(9))
	f := otelcol.Factories{}
	f.Receivers = map[component.Type]receiver.Factory{otlpreceiver.NewFactory().Type(): otlpreceiver.NewFactory()}
	f.Processors = map[component.Type]processor.Factory{batchprocessor.NewFactory().Type(): batchprocessor.NewFactory(), memorylimiterprocessor.NewFactory().Type(): memorylimiterprocessor.NewFactory()}
	f.Exporters = map[component.Type]exporter.Factory{otlpexporter.NewFactory().Type(): otlpexporter.NewFactory(), otlphttpexporter.NewFactory().Type(): otlphttpexporter.NewFactory(), debugexporter.NewFactory().Type(): debugexporter.NewFactory()}
	type comp struct{ section, id string; def component.Config }
	comps := []comp{{"exporters", "otlp", otlpexporter.NewFactory().CreateDefaultConfig()}, {"exporters", "otlphttp", otlphttpexporter.NewFactory().CreateDefaultConfig()}, {"exporters", "debug", debugexporter.NewFactory().CreateDefaultConfig()},
		{"processors", "batch", batchprocessor.NewFactory().CreateDefaultConfig()}, {"processors", "memory_limiter", memorylimiterprocessor.NewFactory().CreateDefaultConfig()}, {"receivers", "otlp", otlpreceiver.NewFactory().CreateDefaultConfig()}}
	problems := map[string]int{}
	uncovered := map[string]bool{}
	checked, loads, loadErrs := 0, 0, map[string]int{}
	for iter := 0; iter < 1500; iter++ {
		c := comps[iter%len(comps)]
		var leaves []leaf
		walk(reflect.TypeOf(c.def), nil, &leaves)
		root := map[string]any{"receivers": map[string]any{"otlp": map[string]any{"protocols": map[string]any{"grpc": nil}}}, "exporters": map[string]any{"debug": nil},
			"service": map[string]any{"pipelines": map[string]any{"logs": map[string]any{"receivers": []any{"otlp"}, "exporters": []any{"debug"}}}}}
		sec := map[string]any{}
		written := map[string]any{}
		n := 1 + rng.Intn(5)
		for k := 0; k < n; k++ {
			l := leaves[rng.Intn(len(leaves))]
			y, want, ok := genVal(rng, l.typ)
			if !ok { uncovered[c.id+"::"+strings.Join(l.key, "::")+" <"+l.typ.String()+">"] = true; continue }
			// avoid writing both a parent-conflicting key twice
			setPath(sec, l.key, y)
			written[strings.Join(l.key, "::")] = want
		}
		if len(written) == 0 { continue }
		if c.section == "receivers" { root["receivers"].(map[string]any)["otlp"] = sec; if _, ok := sec["protocols"]; !ok { sec["protocols"] = map[string]any{"grpc": nil} } } else { root[c.section] = map[string]any{c.id: sec}; if c.section == "exporters" { root["exporters"].(map[string]any)["debug"] = sec2(root, c.id, sec) } }
		yb, _ := yaml.Marshal(root)
		cp, err := otelcol.NewConfigProvider(otelcol.ConfigProviderSettings{ResolverSettings: confmap.ResolverSettings{URIs: []string{"yaml:" + string(yb)}, ProviderFactories: []confmap.ProviderFactory{yamlprovider.NewFactory()}}})
		if err != nil { panic(err) }
		cfg, err := cp.Get(context.Background(), f)
		loads++
		if err != nil { e := err.Error(); if len(e) > 110 { e = e[len(e)-110:] }; loadErrs[c.id+": ..."+e]++; continue }
		var loaded component.Config
		switch c.section {
		case "exporters": loaded = cfg.Exporters[component.MustNewID(c.id)]
		case "processors": loaded = cfg.Processors[component.MustNewID(c.id)]
		case "receivers": loaded = cfg.Receivers[component.MustNewID(c.id)]
		}
		for k, want := range written {
			v, ok := get(reflect.ValueOf(loaded), strings.Split(k, "::"))
			checked++
			if !ok { problems[fmt.Sprintf("%s::%s not reachable after load (nil section?)", c.id, k)]++; continue }
			if got := show(v); fmt.Sprint(got) != fmt.Sprint(want) { problems[fmt.Sprintf("%s::%s wrote %v loaded %v", c.id, k, want, got)]++ }
		}
	}
	fmt.Println("loads:", loads, "keys checked:", checked)
	ks := []string{}; for k := range problems { ks = append(ks, k) }; sort.Strings(ks)
	for _, k := range ks { fmt.Println("PROBLEM", problems[k], k) }
	ks = nil; for k := range loadErrs { ks = append(ks, k) }; sort.Strings(ks)
	for _, k := range ks { fmt.Println("LOADERR", loadErrs[k], k) }
	ks = nil; for k := range uncovered { ks = append(ks, k) }; sort.Strings(ks)
	fmt.Println("uncovered key types:", len(ks)); for _, k := range ks { fmt.Println("   ", k) }
}

func sec2(root map[string]any, id string, sec map[string]any) any { if id == "debug" { return sec }; return nil }
