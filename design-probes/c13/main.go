package main

import (
	"fmt"
	"reflect"
	"sort"
	"strings"

	"go.opentelemetry.io/collector/component"
	"go.opentelemetry.io/collector/confmap"
	"go.opentelemetry.io/collector/exporter/debugexporter"
	"go.opentelemetry.io/collector/exporter/otlpexporter"
	"go.opentelemetry.io/collector/exporter/otlphttpexporter"
	"go.opentelemetry.io/collector/extension/zpagesextension"
	"go.opentelemetry.io/collector/processor/batchprocessor"
	"go.opentelemetry.io/collector/processor/memorylimiterprocessor"
	"go.opentelemetry.io/collector/receiver/otlpreceiver"
)

func walk(t reflect.Type, prefix string, out *[]string, depth int) {
	if depth > 8 { return }
	for t.Kind() == reflect.Ptr { t = t.Elem() }
	switch t.Kind() {
	case reflect.Struct:
		if t.PkgPath() == "time" { *out = append(*out, prefix+" <"+t.String()+">"); return }
		n := 0
		for i := 0; i < t.NumField(); i++ {
			f := t.Field(i)
			if !f.IsExported() { continue }
			tag := f.Tag.Get("mapstructure")
			parts := strings.Split(tag, ",")
			name := parts[0]
			squash := false
			for _, p := range parts[1:] { if p == "squash" { squash = true } }
			if name == "-" { continue }
			if squash { walk(f.Type, prefix, out, depth+1); n++; continue }
			if name == "" { name = strings.ToLower(f.Name) }
			walk(f.Type, prefix+"::"+name, out, depth+1)
			n++
		}
		if n == 0 { *out = append(*out, prefix+" <"+t.String()+">") }
	default:
		*out = append(*out, prefix+" <"+t.String()+">")
	}
}

func main() {
	fs := map[string]component.Config{
		"otlp receiver": otlpreceiver.NewFactory().CreateDefaultConfig(),
		"otlp exporter": otlpexporter.NewFactory().CreateDefaultConfig(),
		"otlphttp exporter": otlphttpexporter.NewFactory().CreateDefaultConfig(),
		"debug exporter": debugexporter.NewFactory().CreateDefaultConfig(),
		"batch": batchprocessor.NewFactory().CreateDefaultConfig(),
		"memlimiter": memorylimiterprocessor.NewFactory().CreateDefaultConfig(),
		"zpages": zpagesextension.NewFactory().CreateDefaultConfig(),
	}
	names := []string{}
	for k := range fs { names = append(names, k) }
	sort.Strings(names)
	for _, k := range names {
		var out []string
		walk(reflect.TypeOf(fs[k]), "", &out, 0)
		c := confmap.New()
		_ = c.Marshal(fs[k])
		fmt.Printf("== %s: %d leaf keys by type walk; %d keys in marshalled default\n", k, len(out), len(c.AllKeys()))
		if k == "otlp exporter" { for _, o := range out { fmt.Println("   ", o) } }
	}
}
