package main

import (
	"context"
	"errors"
	"fmt"
	"math/rand"
	"sort"
	"time"

	"go.opentelemetry.io/collector/component"
	"go.opentelemetry.io/collector/component/componenttest"
	"go.opentelemetry.io/collector/exporter/exporterhelper"
	"go.opentelemetry.io/collector/exporter/exportertest"
	"go.opentelemetry.io/collector/pdata/plog"
	"go.opentelemetry.io/otel/sdk/metric/metricdata"
)

func gauge(tel *componenttest.Telemetry) int64 { m, err := tel.GetMetric("otelcol_exporter_queue_size"); if err != nil { return -999 }; return m.Data.(metricdata.Gauge[int64]).DataPoints[0].Value }

func mk(id, k int) plog.Logs {
	ld := plog.NewLogs(); rl := ld.ResourceLogs().AppendEmpty(); rl.Resource().Attributes().PutInt("id", int64(id))
	sl := rl.ScopeLogs().AppendEmpty(); for i := 0; i < k; i++ { sl.LogRecords().AppendEmpty() }
	return ld
}

type prod struct{ id int; size int64; cancel context.CancelFunc; done chan error; cancelled bool }
type fly struct{ id int; size int64; release chan error }

func main() {
	rng := rand.New(rand.NewSource(31))
	bad, steps, blockedStates, cancels := 0, 0, 0, 0
	for iter := 0; iter < 300 && bad < 4; iter++ {
		capacity := int64(2 + rng.Intn(6))
		waitResult := rng.Intn(3) == 0
		tel := componenttest.NewTelemetry()
		set := exportertest.NewNopSettings(component.MustNewType("p")); set.TelemetrySettings = tel.NewTelemetrySettings()
		cfg := exporterhelper.NewDefaultQueueConfig(); cfg.NumConsumers = 1 + rng.Intn(2); cfg.QueueSize = capacity; cfg.Sizer = exporterhelper.RequestSizerTypeItems; cfg.BlockOnOverflow = true; cfg.WaitForResult = waitResult
		entered := make(chan *fly, 100)
		exp, err := exporterhelper.NewLogs(context.Background(), set, struct{}{}, func(_ context.Context, ld plog.Logs) error {
			v, _ := ld.ResourceLogs().At(0).Resource().Attributes().Get("id")
			f := &fly{id: int(v.Int()), size: int64(ld.LogRecordCount()), release: make(chan error, 1)}
			entered <- f
			return <-f.release
		}, exporterhelper.WithQueue(cfg), exporterhelper.WithTimeout(exporterhelper.TimeoutConfig{}))
		if err != nil { panic(err) }
		exp.Start(context.Background(), componenttest.NewNopHost())
		modelSize := int64(0)
		accepted := map[int]int64{} // id -> size (accepted, unfinished)
		var flying []*fly
		pending := map[int]*prod{} // offers that have not returned
		nextID := 0
		ok := true
		fail := func(f string, a ...any) { if ok { fmt.Printf("iter %d cap %d wait_for_result=%v consumers=%d: "+f+"\n", append([]any{iter, capacity, waitResult, cfg.NumConsumers}, a...)...) }; ok = false }
		// settle: collect hand-offs and returns until stable (bounded polling on logical conditions)
		settle := func() {
			for round := 0; round < 400; round++ {
				progressed := false
				select { case f := <-entered: flying = append(flying, f); progressed = true; default: }
				for id, p := range pending {
					select {
					case err := <-p.done:
						progressed = true
						delete(pending, id)
						if p.cancelled && errors.Is(err, context.Canceled) { continue } // cancelled before acceptance
						if waitResult {
							// returns only after its own request completed; outcome must be its own
							want := fmt.Sprint("outcome-", id)
							if err == nil || err.Error() != want { if !(p.cancelled && errors.Is(err, context.Canceled)) { fail("producer %d got %v want %s", id, err, want) } }
						} else if err != nil { fail("blocking offer %d returned %v", id, err) }
					default:
					}
				}
				if !progressed { time.Sleep(20 * time.Microsecond) }
			}
		}
		for step := 0; step < 30 && ok; step++ {
			steps++
			switch k := rng.Intn(6); {
			case k <= 2: // offer in a goroutine (may block)
				nextID++
				sz := int64(1 + rng.Intn(int(capacity)))
				ctx, cancel := context.WithCancel(context.Background())
				p := &prod{id: nextID, size: sz, cancel: cancel, done: make(chan error, 1)}
				pending[nextID] = p
				go func(id int) { p.done <- exp.ConsumeLogs(ctx, mk(id, int(sz))) }(nextID)
			case k == 3 || k == 4: // complete one in flight
				if len(flying) == 0 { continue }
				i := rng.Intn(len(flying)); f := flying[i]; flying = append(flying[:i], flying[i+1:]...)
				f.release <- fmt.Errorf("outcome-%d", f.id)
				delete(accepted, f.id)
			case k == 5: // cancel ONE blocked producer (never two at once: known deadlock C02-a)
				nCancelled := 0
				for _, p := range pending { if p.cancelled { nCancelled++ } }
				if nCancelled > 0 { continue }
				ids := []int{}; for id := range pending { ids = append(ids, id) }; sort.Ints(ids)
				if len(ids) == 0 { continue }
				p := pending[ids[rng.Intn(len(ids))]]
				p.cancelled = true; p.cancel(); cancels++
			}
			settle()
			// derive accepted set: every id seen in flight or still queued is accepted; use gauge as ground truth for the memory queue
			g := gauge(tel)
			_ = modelSize
			// oracle (a): queue empty => nobody blocked (except wait_for_result producers waiting for their own result)
			blocked := 0
			for _, p := range pending { if !p.cancelled { blocked++ } }
			if blocked > 0 { blockedStates++ }
			if !waitResult && g == 0 && len(flying) == 0 && blocked > 0 { fail("queue empty (gauge 0, nothing in flight) but %d producers still blocked", blocked) }
			// oracle (b): exactly one blocked producer => its request does not fit
			if !waitResult && blocked == 1 { for _, p := range pending { if !p.cancelled && g+p.size <= capacity { time.Sleep(2 * time.Millisecond); settle(); if _, still := pending[p.id]; still && gauge(tel)+p.size <= capacity { fail("single blocked producer %d (size %d) fits: gauge %d cap %d", p.id, p.size, gauge(tel), capacity) } } } }
			if g < 0 || g > capacity { fail("gauge %d outside [0,%d]", g, capacity) }
			// oracle (c): a cancelled producer returns
			for _, p := range pending { if p.cancelled { time.Sleep(2 * time.Millisecond); settle(); if _, still := pending[p.id]; still { fail("cancelled producer %d did not return", p.id) } } }
		}
		// drain: complete everything; every producer must return
		for round := 0; round < 2000 && (len(pending) > 0 || len(flying) > 0 || gauge(tel) > 0); round++ {
			for _, f := range flying { f.release <- fmt.Errorf("outcome-%d", f.id) }
			flying = nil
			settle()
		}
		if len(pending) > 0 { fail("%d producers never returned after full drain", len(pending)) }
		exp.Shutdown(context.Background())
		if !ok { bad++ }
	}
	fmt.Println("steps:", steps, "states with a blocked producer:", blockedStates, "cancellations:", cancels, "bad scripts:", bad)
}
