package main

import (
	"context"
	"fmt"
	"math/rand"
	"reflect"

	"go.opentelemetry.io/collector/confmap"
	yaml "gopkg.in/yaml.v3"
)

type prov struct{ docs map[string][]byte }

func (p prov) Retrieve(_ context.Context, uri string, _ confmap.WatcherFunc) (*confmap.Retrieved, error) { return confmap.NewRetrievedFromYAML(p.docs[uri]) }
func (prov) Scheme() string                 { return "vv" }
func (prov) Shutdown(context.Context) error { return nil }

func genVal(rng *rand.Rand, depth int) any {
	switch k := rng.Intn(9); {
	case k == 0: return nil
	case k == 1: return rng.Intn(100)
	case k == 2: return fmt.Sprint("s", rng.Intn(100))
	case k == 3: return rng.Intn(2) == 0
	case k == 4: return float64(rng.Intn(100)) + 0.5
	case k == 5: l := []any{}; for i := 0; i < rng.Intn(3); i++ { l = append(l, rng.Intn(10)) }; return l
	case depth < 3: return genMap(rng, depth+1)
	}
	return "leaf"
}
func genMap(rng *rand.Rand, depth int) map[string]any {
	m := map[string]any{}
	for i := 0; i < rng.Intn(4); i++ { m[[]string{"a", "b", "c", "d"}[rng.Intn(4)]] = genVal(rng, depth) }
	return m
}

// reference: recursive right-biased merge; nil and lists are scalars
func merge(dst, src map[string]any) map[string]any {
	out := map[string]any{}
	for k, v := range dst { out[k] = v }
	for k, v := range src {
		sm, sok := v.(map[string]any); dm, dok := out[k].(map[string]any)
		if sok && dok { out[k] = merge(dm, sm) } else if sok { out[k] = merge(map[string]any{}, sm) } else { out[k] = v }
	}
	return out
}

func norm(v any) any {
	switch x := v.(type) {
	case map[string]any: o := map[string]any{}; for k, e := range x { o[k] = norm(e) }; return o
	case []any: if len(x) == 0 { return []any{} }; o := make([]any, len(x)); for i, e := range x { o[i] = norm(e) }; return o
	case int: return int64(x)
	case int64: return x
	}
	return v
}

func main() {
	rng := rand.New(rand.NewSource(3))
	bad, cases, overlapping := 0, 0, 0
	for iter := 0; iter < 20000; iter++ {
		n := 1 + rng.Intn(4)
		docs := map[string][]byte{}
		var uris []string
		want := map[string]any{}
		var srcs []map[string]any
		for i := 0; i < n; i++ {
			m := genMap(rng, 0)
			if rng.Intn(6) == 0 { m = map[string]any{} }
			srcs = append(srcs, m)
			b, _ := yaml.Marshal(m)
			u := fmt.Sprint("vv:", i); docs[u] = b; uris = append(uris, u)
			before := fmt.Sprint(norm(want))
			want = merge(want, m)
			if len(m) == 0 && fmt.Sprint(norm(want)) != before { panic("reference broken") }
		}
		r, err := confmap.NewResolver(confmap.ResolverSettings{URIs: uris, ProviderFactories: []confmap.ProviderFactory{confmap.NewProviderFactory(func(confmap.ProviderSettings) confmap.Provider { return prov{docs} })}})
		if err != nil { panic(err) }
		conf, err := r.Resolve(context.Background())
		cases++
		if n > 1 { overlapping++ }
		if err != nil { bad++; fmt.Println("ERR", err, srcs); continue }
		if got := norm(conf.ToStringMap()); !reflect.DeepEqual(got, norm(want)) {
			bad++
			if bad < 6 { fmt.Printf("MERGE mismatch sources=%v\n   impl %v\n   want %v\n", srcs, got, norm(want)) }
		}
	}
	fmt.Println("cases:", cases, "with >1 source:", overlapping, "bad:", bad)
}
