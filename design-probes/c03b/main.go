package main

import (
	"context"
	"errors"
	"fmt"
	"math/rand"
	"runtime"
	"strings"
	"sync"
	"sync/atomic"
	"time"

	"go.opentelemetry.io/collector/component"
	"go.opentelemetry.io/collector/component/componenttest"
	"go.opentelemetry.io/collector/config/configretry"
	"go.opentelemetry.io/collector/consumer/consumererror"
	"go.opentelemetry.io/collector/exporter/exporterhelper"
	"go.opentelemetry.io/collector/exporter/exportertest"
	"go.opentelemetry.io/collector/pdata/plog"
)

var seq atomic.Int64

func mk(id string, k int) plog.Logs {
	ld := plog.NewLogs(); s := ld.ResourceLogs().AppendEmpty().ScopeLogs().AppendEmpty()
	for i := 0; i < k; i++ { s.LogRecords().AppendEmpty().Body().SetStr(fmt.Sprintf("%s.%d", id, i)) }
	return ld
}

func ids(ld plog.Logs) []string {
	var out []string
	for i := 0; i < ld.ResourceLogs().Len(); i++ { rl := ld.ResourceLogs().At(i); for j := 0; j < rl.ScopeLogs().Len(); j++ { l := rl.ScopeLogs().At(j).LogRecords(); for k := 0; k < l.Len(); k++ { out = append(out, l.At(k).Body().Str()) } } }
	return out
}

func goroutines() map[string]bool {
	buf := make([]byte, 1<<20); n := runtime.Stack(buf, true)
	out := map[string]bool{}
	for _, g := range strings.Split(string(buf[:n]), "\n\n") {
		if strings.Contains(g, "exporterhelper") { lines := strings.Split(g, "\n"); out[strings.Join(lines[1:min(len(lines), 7)], "|")] = true }
	}
	return out
}

func main() {
	rng := rand.New(rand.NewSource(4))
	stats := map[string]int{}
	for iter := 0; iter < 400; iter++ {
		persistent := rng.Intn(3) == 0
		batch := rng.Intn(2) == 0
		retry := rng.Intn(2) == 0
		mode := rng.Intn(4) // backend: 0 ok, 1 transient always, 2 permanent sometimes, 3 slow ok
		cfg := exporterhelper.NewDefaultQueueConfig()
		cfg.NumConsumers = 1 + rng.Intn(3); cfg.QueueSize = 1000
		var h component.Host = componenttest.NewNopHost()
		st := &store{live: map[string][]byte{}, crashAt: -1}
		if persistent { id := component.MustNewID("st"); cfg.StorageID = &id; h = host{&ext{s: st}} }
		if batch && !persistent { cfg.Sizer = exporterhelper.RequestSizerTypeItems; cfg.Batch = &exporterhelper.BatchConfig{FlushTimeout: time.Duration(1+rng.Intn(20)) * time.Millisecond, MinSize: int64(rng.Intn(12)), MaxSize: 0}; if rng.Intn(2) == 0 { cfg.Batch.MaxSize = cfg.Batch.MinSize + int64(1+rng.Intn(5)) } }
		opts := []exporterhelper.Option{exporterhelper.WithQueue(cfg)}
		if retry { rc := configretry.NewDefaultBackOffConfig(); rc.InitialInterval = time.Duration(1+rng.Intn(3)) * time.Millisecond; rc.MaxInterval = 5 * time.Millisecond; rc.MaxElapsedTime = 30 * time.Millisecond; opts = append(opts, exporterhelper.WithRetry(rc)) }
		var mu sync.Mutex
		attempts := map[string]int{}
		failedAttempt := map[string]bool{}
		var inflight atomic.Int64
		var shutdownReturned atomic.Bool
		lateCalls := 0
		before := goroutines()
		exp, err := exporterhelper.NewLogs(context.Background(), exportertest.NewNopSettings(component.MustNewType("p")), struct{}{}, func(_ context.Context, ld plog.Logs) error {
			inflight.Add(1); defer inflight.Add(-1)
			if shutdownReturned.Load() { mu.Lock(); lateCalls++; mu.Unlock() }
			var e error
			switch mode {
			case 1: e = errors.New("transient")
			case 2: if len(ids(ld))%2 == 0 { e = consumererror.NewPermanent(errors.New("perm")) }
			case 3: time.Sleep(time.Duration(seq.Load()%3) * time.Millisecond)
			}
			mu.Lock(); for _, id := range ids(ld) { attempts[id]++; if e != nil { failedAttempt[id] = true } }; mu.Unlock()
			return e
		}, opts...)
		if err != nil { panic(err) }
		if err := exp.Start(context.Background(), h); err != nil { panic(err) }
		// producers
		var accepted sync.Map // id -> seq at return
		var wg sync.WaitGroup
		stop := make(chan struct{})
		for p := 0; p < 3; p++ {
			wg.Add(1)
			go func(p int) {
				defer wg.Done()
				for r := 0; r < 30; r++ {
					select { case <-stop: return; default: }
					id := fmt.Sprintf("i%d.p%d.r%d", iter, p, r)
					k := 1 + r%4
					if exp.ConsumeLogs(context.Background(), mk(id, k)) == nil { s := seq.Add(1); for i := 0; i < k; i++ { accepted.Store(fmt.Sprintf("%s.%d", id, i), s) } }
					if r%5 == 0 { runtime.Gosched() }
				}
			}(p)
		}
		time.Sleep(time.Duration(rng.Intn(3000)) * time.Microsecond)
		shutdownSeq := seq.Add(1)
		close(stop)
		err = exp.Shutdown(context.Background())
		fl := inflight.Load()
		shutdownReturned.Store(true)
		wg.Wait()
		time.Sleep(2 * time.Millisecond)
		prob := ""
		if fl != 0 { prob += fmt.Sprintf(" inflight@return=%d;", fl) }
		mu.Lock()
		if lateCalls > 0 { prob += fmt.Sprintf(" %d export calls began after Shutdown returned;", lateCalls) }
		missing, dup := 0, 0
		var stored map[string]bool
		if persistent { // drain a new incarnation
			stored = map[string]bool{}
			mu.Unlock()
			var mu2 sync.Mutex
			c2 := exporterhelper.NewDefaultQueueConfig(); id := component.MustNewID("st"); c2.StorageID = &id; c2.NumConsumers = 2
			e2, _ := exporterhelper.NewLogs(context.Background(), exportertest.NewNopSettings(component.MustNewType("p")), struct{}{}, func(_ context.Context, ld plog.Logs) error { mu2.Lock(); for _, x := range ids(ld) { stored[x] = true }; mu2.Unlock(); return nil }, exporterhelper.WithQueue(c2))
			e2.Start(context.Background(), host{&ext{s: &store{live: cp(st.live), crashAt: -1}}})
			time.Sleep(100 * time.Millisecond)
			e2.Shutdown(context.Background())
			mu.Lock()
		}
		accepted.Range(func(k, v any) bool {
			if v.(int64) > shutdownSeq { return true }
			id := k.(string)
			if persistent {
				if attempts[id] == 0 && !stored[id] { missing++ }
			} else {
				if attempts[id] == 0 { missing++ }
				if attempts[id] > 1 && !failedAttempt[id] { dup++ }
			}
			return true
		})
		mu.Unlock()
		if missing > 0 { prob += fmt.Sprintf(" %d accepted-before-shutdown items never attempted (persistent=%v) keys=%s;", missing, persistent, describe(st.live)) }
		if dup > 0 { prob += fmt.Sprintf(" %d items attempted more than once without a failure;", dup) }
		time.Sleep(time.Millisecond)
		after := goroutines()
		for g := range after { if !before[g] { prob += " leaked goroutine: " + g[:min(len(g), 160)] + ";"; break } }
		key := fmt.Sprintf("persistent=%v batch=%v retry=%v mode=%d", persistent, batch && !persistent, retry, mode)
		if prob != "" { stats["BAD "+key]++; if stats["printed"] < 6 { stats["printed"]++; fmt.Println(key, "consumers", cfg.NumConsumers, ":", prob, "shutdown err:", err) } } else { stats["ok"]++ }
	}
	for k, v := range stats { if k != "printed" { fmt.Println(v, k) } }
}

func describe(m map[string][]byte) string {
	out := ""
	for k, v := range m {
		switch k {
		case "ri", "wi": out += fmt.Sprintf(" %s=%d", k, le64(v))
		case "di": n := int(v[0]) | int(v[1])<<8; out += fmt.Sprintf(" di(n=%d)=[", n); for i := 0; i < n; i++ { out += fmt.Sprint(le64(v[4+8*i:]), " ") }; out += "]"
		default: out += " body:" + k
		}
	}
	return out
}
func le64(b []byte) uint64 { var x uint64; for i := 0; i < 8 && i < len(b); i++ { x |= uint64(b[i]) << (8 * i) }; return x }
