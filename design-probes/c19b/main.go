package main

import (
	"context"
	"errors"
	"fmt"
	"sort"
	"time"

	"go.opentelemetry.io/collector/component"
	"go.opentelemetry.io/collector/component/componenttest"
	"go.opentelemetry.io/collector/consumer"
	"go.opentelemetry.io/collector/pdata/plog"
	"go.opentelemetry.io/collector/pdata/pmetric"
	"go.opentelemetry.io/collector/processor/processorhelper"
	"go.opentelemetry.io/collector/processor/processortest"
	"go.opentelemetry.io/collector/receiver/receiverhelper"
	"go.opentelemetry.io/collector/receiver/receivertest"
	"go.opentelemetry.io/collector/scraper"
	"go.opentelemetry.io/collector/scraper/scraperhelper"
	"go.opentelemetry.io/otel/sdk/metric/metricdata"
	sdkmetric "go.opentelemetry.io/otel/sdk/metric"
)

func all(tel *componenttest.Telemetry) map[string]int64 {
	out := map[string]int64{}
	var rm metricdata.ResourceMetrics
	if err := tel.Reader.Collect(context.Background(), &rm); err != nil { panic(err) }
	for _, sm := range rm.ScopeMetrics { for _, m := range sm.Metrics { if d, ok := m.Data.(metricdata.Sum[int64]); ok { for _, p := range d.DataPoints { out[m.Name] += p.Value } } } }
	return out
}

func mkLogs(n int) plog.Logs { ld := plog.NewLogs(); s := ld.ResourceLogs().AppendEmpty().ScopeLogs().AppendEmpty(); for i := 0; i < n; i++ { s.LogRecords().AppendEmpty() }; return ld }
func mkMetrics(n int) pmetric.Metrics { md := pmetric.NewMetrics(); g := md.ResourceMetrics().AppendEmpty().ScopeMetrics().AppendEmpty().Metrics().AppendEmpty().SetEmptyGauge(); for i := 0; i < n; i++ { g.DataPoints().AppendEmpty() }; return md }

func show(m map[string]int64) string { ks := []string{}; for k, v := range m { if v != 0 { ks = append(ks, fmt.Sprintf("%s=%d", k, v)) } }; sort.Strings(ks); return fmt.Sprint(ks) }

func main() {
	_ = sdkmetric.NewManualReader
	// receiver obsreport
	{
		tel := componenttest.NewTelemetry()
		set := receivertest.NewNopSettings(component.MustNewType("r")); set.TelemetrySettings = tel.NewTelemetrySettings()
		or, err := receiverhelper.NewObsReport(receiverhelper.ObsReportSettings{ReceiverID: set.ID, Transport: "t", ReceiverCreateSettings: set})
		if err != nil { panic(err) }
		ctx := or.StartLogsOp(context.Background()); or.EndLogsOp(ctx, "f", 5, nil)
		ctx = or.StartLogsOp(context.Background()); or.EndLogsOp(ctx, "f", 3, errors.New("x"))
		ctx = or.StartMetricsOp(context.Background()); or.EndMetricsOp(ctx, "f", 7, nil)
		ctx = or.StartTracesOp(context.Background()); or.EndTracesOp(ctx, "f", 2, errors.New("x"))
		fmt.Println("receiver:", show(all(tel)))
	}
	// processor helper
	{
		tel := componenttest.NewTelemetry()
		set := processortest.NewNopSettings(component.MustNewType("p")); set.TelemetrySettings = tel.NewTelemetrySettings()
		forwarded := 0
		sink, _ := consumer.NewLogs(func(_ context.Context, ld plog.Logs) error { forwarded += ld.LogRecordCount(); return nil })
		k := 0
		p, err := processorhelper.NewLogs(context.Background(), set, struct{}{}, sink, func(_ context.Context, ld plog.Logs) (plog.Logs, error) {
			k++
			switch k % 4 {
			case 0: return ld, errors.New("fail")
			case 1: n := 0; ld.ResourceLogs().At(0).ScopeLogs().At(0).LogRecords().RemoveIf(func(plog.LogRecord) bool { n++; return n%2 == 0 }); return ld, nil
			case 2: ld.ResourceLogs().At(0).ScopeLogs().At(0).LogRecords().AppendEmpty(); return ld, nil
			}
			return ld, processorhelper.ErrSkipProcessingData
		})
		if err != nil { panic(err) }
		given := 0
		for i := 1; i <= 12; i++ { given += i; _ = p.ConsumeLogs(context.Background(), mkLogs(i)) }
		fmt.Println("processor: given", given, "forwarded", forwarded, show(all(tel)))
	}
	// scraper controllers
	{
		tel := componenttest.NewTelemetry()
		set := receivertest.NewNopSettings(component.MustNewType("s")); set.TelemetrySettings = tel.NewTelemetrySettings()
		tick := make(chan time.Time)
		got := make(chan int, 10)
		sinkM, _ := consumer.NewMetrics(func(_ context.Context, md pmetric.Metrics) error { got <- md.DataPointCount(); return nil })
		sm, _ := scraper.NewMetrics(func(context.Context) (pmetric.Metrics, error) { return mkMetrics(4), nil })
		cfg := scraperhelper.NewDefaultControllerConfig(); cfg.InitialDelay = 0; cfg.CollectionInterval = time.Hour
		c, err := scraperhelper.NewMetricsController(&cfg, set, sinkM, scraperhelper.AddScraper(component.MustNewType("sm"), sm), scraperhelper.WithTickerChannel(tick))
		if err != nil { panic(err) }
		c.Start(context.Background(), componenttest.NewNopHost())
		<-got // initial scrape
		tick <- time.Now(); <-got
		c.Shutdown(context.Background())
		fmt.Println("metrics scraper (2 scrapes x 4 points):", show(all(tel)))
	}
	{
		tel := componenttest.NewTelemetry()
		set := receivertest.NewNopSettings(component.MustNewType("s")); set.TelemetrySettings = tel.NewTelemetrySettings()
		tick := make(chan time.Time)
		got := make(chan int, 10)
		sinkL, _ := consumer.NewLogs(func(_ context.Context, ld plog.Logs) error { got <- ld.LogRecordCount(); return nil })
		sl, _ := scraper.NewLogs(func(context.Context) (plog.Logs, error) { return mkLogs(3), nil })
		f := scraper.NewFactory(component.MustNewType("sl"), nil, scraper.WithLogs(func(context.Context, scraper.Settings, component.Config) (scraper.Logs, error) { return sl, nil }, component.StabilityLevelAlpha))
		cfg := scraperhelper.NewDefaultControllerConfig(); cfg.InitialDelay = 0; cfg.CollectionInterval = time.Hour
		c, err := scraperhelper.NewLogsController(&cfg, set, sinkL, scraperhelper.AddFactoryWithConfig(f, nil), scraperhelper.WithTickerChannel(tick))
		if err != nil { panic(err) }
		c.Start(context.Background(), componenttest.NewNopHost())
		<-got
		tick <- time.Now(); <-got
		c.Shutdown(context.Background())
		fmt.Println("logs scraper (2 scrapes x 3 records):", show(all(tel)))
	}
}
