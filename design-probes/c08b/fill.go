package main

import (
	"fmt"
	"math/rand"
	"reflect"
	"strings"

	"go.opentelemetry.io/collector/pdata/pcommon"
)

var rng = rand.New(rand.NewSource(1))
var ctr = 0

func uniq() int { ctr++; return ctr }

func isPdata(t reflect.Type) bool {
	return t.Kind() == reflect.Struct && strings.HasPrefix(t.PkgPath(), "go.opentelemetry.io/collector/pdata/")
}

func fillValue(v pcommon.Value, depth int) {
	switch k := rng.Intn(8); {
	case k == 0: v.SetStr(fmt.Sprint("s", uniq()))
	case k == 1: v.SetInt(int64(uniq()) * 1000003)
	case k == 2: v.SetDouble(float64(uniq()) + 0.5)
	case k == 3: v.SetBool(true)
	case k == 4: v.SetEmptyBytes().FromRaw([]byte{byte(uniq()), 1, 2})
	case k == 5 && depth < 2: fillMap(v.SetEmptyMap(), depth+1)
	case k == 6 && depth < 2:
		s := v.SetEmptySlice()
		for i := 0; i < 2; i++ { fillValue(s.AppendEmpty(), depth+1) }
	default: v.SetStr(fmt.Sprint("d", uniq()))
	}
}

func fillMap(m pcommon.Map, depth int) {
	for i := 0; i < 2; i++ { fillValue(m.PutEmpty(fmt.Sprint("k", uniq())), depth) }
}

func scalar(t reflect.Type) reflect.Value {
	v := reflect.New(t).Elem()
	switch t.Kind() {
	case reflect.String: v.SetString(fmt.Sprint("str", uniq()))
	case reflect.Int, reflect.Int32, reflect.Int64: v.SetInt(int64(uniq()%5 + 1))
	case reflect.Uint32, reflect.Uint64, reflect.Uint8: v.SetUint(uint64(uniq() + 7))
	case reflect.Float64: v.SetFloat(float64(uniq()) + 0.25)
	case reflect.Bool: v.SetBool(true)
	case reflect.Array:
		for i := 0; i < v.Len(); i++ { v.Index(i).SetUint(uint64(uniq()%250 + 1)) }
	default: panic("scalar kind " + t.String())
	}
	return v
}

func fill(v reflect.Value, depth int) {
	t := v.Type()
	switch x := v.Interface().(type) {
	case pcommon.Map: fillMap(x, 0); return
	case pcommon.Value: fillValue(x, 0); return
	case pcommon.TraceState: x.FromRaw(fmt.Sprint("ts=", uniq())); return
	}
	if m, ok := t.MethodByName("AppendEmpty"); ok && m.Type.NumIn() == 1 { // slice of structs
		for i := 0; i < 2; i++ { fill(v.MethodByName("AppendEmpty").Call(nil)[0], depth+1) }
		return
	}
	if m, ok := t.MethodByName("Append"); ok && m.Type.IsVariadic() { // primitive slice
		et := m.Type.In(1).Elem()
		v.MethodByName("Append").Call([]reflect.Value{scalar(et), scalar(et)})
		return
	}
	// struct: setters
	var oneofs []string
	for i := 0; i < t.NumMethod(); i++ {
		m := t.Method(i)
		if strings.HasPrefix(m.Name, "SetEmpty") && m.Type.NumIn() == 1 { oneofs = append(oneofs, m.Name); continue }
		if strings.HasPrefix(m.Name, "Set") && m.Type.NumIn() == 2 && !isPdata(m.Type.In(1)) {
			if t.String() == "pmetric.NumberDataPoint" && m.Name == "SetIntValue" { continue }
			if t.String() == "pmetric.Exemplar" && m.Name == "SetIntValue" { continue }
			v.Method(i).Call([]reflect.Value{scalar(m.Type.In(1))})
		}
	}
	if len(oneofs) > 0 {
		fill(v.MethodByName(oneofs[rng.Intn(len(oneofs))]).Call(nil)[0], depth+1)
	}
	for i := 0; i < t.NumMethod(); i++ {
		m := t.Method(i)
		if m.Type.NumIn() == 1 && m.Type.NumOut() == 1 && isPdata(m.Type.Out(0)) && !strings.HasPrefix(m.Name, "Set") && m.Name != "AppendEmpty" {
			if _, hasSet := t.MethodByName("SetEmpty" + m.Name); hasSet { continue } // oneof accessor
			if _, hasSet := t.MethodByName("Set" + m.Name); hasSet { continue }      // scalar struct-typed (ids, flags)
			fill(v.Method(i).Call(nil)[0], depth+1)
		}
	}
}

