package main

import (
	"bytes"
	"fmt"
	"reflect"
	"sort"
	"time"

	"go.opentelemetry.io/collector/pdata/plog"
	"go.opentelemetry.io/collector/pdata/pmetric"
	"go.opentelemetry.io/collector/pdata/pprofile"
	"go.opentelemetry.io/collector/pdata/ptrace"
)

type codec struct {
	name string
	seed func() []byte
	rt   func([]byte) (ok bool, b1, b2 []byte) // decode, encode, decode, encode
}

func main() {
	codecs := []codec{
		{"logs/pb", func() []byte { x := plog.NewLogs(); fill(reflect.ValueOf(x.ResourceLogs()), 0); b, _ := (&plog.ProtoMarshaler{}).MarshalLogs(x); return b },
			func(in []byte) (bool, []byte, []byte) { x, err := (&plog.ProtoUnmarshaler{}).UnmarshalLogs(in); if err != nil { return false, nil, nil }; b1, _ := (&plog.ProtoMarshaler{}).MarshalLogs(x); y, err := (&plog.ProtoUnmarshaler{}).UnmarshalLogs(b1); if err != nil { return true, b1, []byte("REDECODE-ERR " + err.Error()) }; b2, _ := (&plog.ProtoMarshaler{}).MarshalLogs(y); return true, b1, b2 }},
		{"logs/json", func() []byte { x := plog.NewLogs(); fill(reflect.ValueOf(x.ResourceLogs()), 0); b, _ := (&plog.JSONMarshaler{}).MarshalLogs(x); return b },
			func(in []byte) (bool, []byte, []byte) { x, err := (&plog.JSONUnmarshaler{}).UnmarshalLogs(in); if err != nil { return false, nil, nil }; b1, _ := (&plog.JSONMarshaler{}).MarshalLogs(x); y, err := (&plog.JSONUnmarshaler{}).UnmarshalLogs(b1); if err != nil { return true, b1, []byte("REDECODE-ERR " + err.Error()) }; b2, _ := (&plog.JSONMarshaler{}).MarshalLogs(y); return true, b1, b2 }},
		{"traces/pb", func() []byte { x := ptrace.NewTraces(); fill(reflect.ValueOf(x.ResourceSpans()), 0); b, _ := (&ptrace.ProtoMarshaler{}).MarshalTraces(x); return b },
			func(in []byte) (bool, []byte, []byte) { x, err := (&ptrace.ProtoUnmarshaler{}).UnmarshalTraces(in); if err != nil { return false, nil, nil }; b1, _ := (&ptrace.ProtoMarshaler{}).MarshalTraces(x); y, err := (&ptrace.ProtoUnmarshaler{}).UnmarshalTraces(b1); if err != nil { return true, b1, []byte("REDECODE-ERR " + err.Error()) }; b2, _ := (&ptrace.ProtoMarshaler{}).MarshalTraces(y); return true, b1, b2 }},
		{"traces/json", func() []byte { x := ptrace.NewTraces(); fill(reflect.ValueOf(x.ResourceSpans()), 0); b, _ := (&ptrace.JSONMarshaler{}).MarshalTraces(x); return b },
			func(in []byte) (bool, []byte, []byte) { x, err := (&ptrace.JSONUnmarshaler{}).UnmarshalTraces(in); if err != nil { return false, nil, nil }; b1, _ := (&ptrace.JSONMarshaler{}).MarshalTraces(x); y, err := (&ptrace.JSONUnmarshaler{}).UnmarshalTraces(b1); if err != nil { return true, b1, []byte("REDECODE-ERR " + err.Error()) }; b2, _ := (&ptrace.JSONMarshaler{}).MarshalTraces(y); return true, b1, b2 }},
		{"metrics/pb", func() []byte { x := pmetric.NewMetrics(); fill(reflect.ValueOf(x.ResourceMetrics()), 0); b, _ := (&pmetric.ProtoMarshaler{}).MarshalMetrics(x); return b },
			func(in []byte) (bool, []byte, []byte) { x, err := (&pmetric.ProtoUnmarshaler{}).UnmarshalMetrics(in); if err != nil { return false, nil, nil }; b1, _ := (&pmetric.ProtoMarshaler{}).MarshalMetrics(x); y, err := (&pmetric.ProtoUnmarshaler{}).UnmarshalMetrics(b1); if err != nil { return true, b1, []byte("REDECODE-ERR " + err.Error()) }; b2, _ := (&pmetric.ProtoMarshaler{}).MarshalMetrics(y); return true, b1, b2 }},
		{"metrics/json", func() []byte { x := pmetric.NewMetrics(); fill(reflect.ValueOf(x.ResourceMetrics()), 0); b, _ := (&pmetric.JSONMarshaler{}).MarshalMetrics(x); return b },
			func(in []byte) (bool, []byte, []byte) { x, err := (&pmetric.JSONUnmarshaler{}).UnmarshalMetrics(in); if err != nil { return false, nil, nil }; b1, _ := (&pmetric.JSONMarshaler{}).MarshalMetrics(x); y, err := (&pmetric.JSONUnmarshaler{}).UnmarshalMetrics(b1); if err != nil { return true, b1, []byte("REDECODE-ERR " + err.Error()) }; b2, _ := (&pmetric.JSONMarshaler{}).MarshalMetrics(y); return true, b1, b2 }},
		{"profiles/pb", func() []byte { x := pprofile.NewProfiles(); fill(reflect.ValueOf(x.ResourceProfiles()), 0); b, _ := (&pprofile.ProtoMarshaler{}).MarshalProfiles(x); return b },
			func(in []byte) (bool, []byte, []byte) { x, err := (&pprofile.ProtoUnmarshaler{}).UnmarshalProfiles(in); if err != nil { return false, nil, nil }; b1, _ := (&pprofile.ProtoMarshaler{}).MarshalProfiles(x); y, err := (&pprofile.ProtoUnmarshaler{}).UnmarshalProfiles(b1); if err != nil { return true, b1, []byte("REDECODE-ERR " + err.Error()) }; b2, _ := (&pprofile.ProtoMarshaler{}).MarshalProfiles(y); return true, b1, b2 }},
		{"profiles/json", func() []byte { x := pprofile.NewProfiles(); fill(reflect.ValueOf(x.ResourceProfiles()), 0); b, _ := (&pprofile.JSONMarshaler{}).MarshalProfiles(x); return b },
			func(in []byte) (bool, []byte, []byte) { x, err := (&pprofile.JSONUnmarshaler{}).UnmarshalProfiles(in); if err != nil { return false, nil, nil }; b1, _ := (&pprofile.JSONMarshaler{}).MarshalProfiles(x); y, err := (&pprofile.JSONUnmarshaler{}).UnmarshalProfiles(b1); if err != nil { return true, b1, []byte("REDECODE-ERR " + err.Error()) }; b2, _ := (&pprofile.JSONMarshaler{}).MarshalProfiles(y); return true, b1, b2 }},
	}
	stats := map[string]int{}
	examples := map[string]string{}
	for _, c := range codecs {
		for s := 0; s < 6; s++ {
			seed := c.seed()
			for m := 0; m < 1500; m++ {
				in := append([]byte(nil), seed...)
				switch rng.Intn(6) {
				case 0: in = in[:rng.Intn(len(in)+1)]
				case 1: for k := 0; k < 1+rng.Intn(3); k++ { if len(in) > 0 { in[rng.Intn(len(in))] ^= 1 << rng.Intn(8) } }
				case 2: if len(in) > 2 { a, b := rng.Intn(len(in)), rng.Intn(len(in)); if a > b { a, b = b, a }; in = append(append([]byte(nil), in[:a]...), in[b:]...) }
				case 3: if len(in) > 0 { in[rng.Intn(len(in))] = byte(rng.Intn(256)) }
				case 4: in = make([]byte, rng.Intn(64)); rng.Read(in)
				case 5: if len(in) > 4 { a := rng.Intn(len(in) - 2); in = append(append(append([]byte(nil), in[:a]...), in[a:a+rng.Intn(len(in)-a)]...), in[a:]...) }
				}
				var ok bool; var b1, b2 []byte
				var pan any
				t0 := time.Now()
				func() { defer func() { pan = recover() }(); ok, b1, b2 = c.rt(in) }()
				if d := time.Since(t0); d > 2*time.Second { stats[c.name+" SLOW"]++ }
				switch {
				case pan != nil: k := c.name + " PANIC " + fmt.Sprint(pan)[:min(60, len(fmt.Sprint(pan)))]; stats[k]++; if examples[k] == "" { examples[k] = fmt.Sprintf("%q", in[:min(len(in), 120)]) }
				case !ok: stats[c.name+" rejected"]++
				case !bytes.Equal(b1, b2): k := c.name + " NOT-FIXED-POINT"; if bytes.HasPrefix(b2, []byte("REDECODE-ERR")) { k = c.name + " " + string(b2[:min(len(b2), 70)]) }; stats[k]++; if examples[k] == "" { i := 0; for i < len(b1) && i < len(b2) && b1[i] == b2[i] { i++ }; lo := max(0, i-60); examples[k] = fmt.Sprintf("first diff at %d:\n            b1=...%q\n            b2=...%q", i, b1[lo:min(len(b1), i+60)], b2[lo:min(len(b2), i+60)]) }
				default: stats[c.name+" fixed-point ok"]++
				}
			}
		}
	}
	ks := []string{}; for k := range stats { ks = append(ks, k) }; sort.Strings(ks)
	for _, k := range ks { fmt.Printf("%7d %s\n", stats[k], k); if e, ok := examples[k]; ok { fmt.Println("          e.g.", e) } }
}
