package main

import (
	"bytes"
	"context"
	"crypto/rand"
	"fmt"
	"io"
	"net"
	"net/http"
	"sync"

	"go.opentelemetry.io/collector/component/componenttest"
	"go.opentelemetry.io/collector/config/configcompression"
	"go.opentelemetry.io/collector/config/confighttp"
)

func main() {
	var mu sync.Mutex
	var last []byte
	var lastErr error
	calls := 0
	h := http.HandlerFunc(func(w http.ResponseWriter, r *http.Request) {
		b, err := io.ReadAll(r.Body)
		mu.Lock(); last, lastErr = b, err; calls++; mu.Unlock()
		if err != nil { http.Error(w, err.Error(), 413); return }
		w.WriteHeader(200)
	})
	problems := 0
	for _, limit := range []int64{1, 100, 65536, 1 << 20} {
		sc := confighttp.ServerConfig{Endpoint: "127.0.0.1:0", MaxRequestBodySize: limit}
		ln, err := sc.ToListener(context.Background())
		if err != nil { panic(err) }
		srv, err := sc.ToServer(context.Background(), componenttest.NewNopHost(), componenttest.NewNopTelemetrySettings(), h)
		if err != nil { panic(err) }
		go srv.Serve(ln)
		url := "http://" + ln.Addr().(*net.TCPAddr).String()
		for _, ct := range []configcompression.Type{"", "none", "gzip", "zlib", "deflate", "zstd", "snappy", "lz4"} {
			cc := confighttp.NewDefaultClientConfig()
			cc.Compression = ct
			cl, err := cc.ToClient(context.Background(), componenttest.NewNopHost(), componenttest.NewNopTelemetrySettings())
			if err != nil { fmt.Println("client err", ct, err); continue }
			for _, n := range []int64{0, 1, limit - 1, limit, limit + 1, 2 * limit, 65535, 65536, 65537, 200000} {
				if n < 0 { continue }
				for _, kind := range []string{"zeros", "rand"} {
					body := make([]byte, n)
					if kind == "rand" { rand.Read(body) }
					before := calls
					resp, err := cl.Post(url, "application/x", bytes.NewReader(body))
					if err != nil { fmt.Println("post err", ct, n, err); problems++; continue }
					io.Copy(io.Discard, resp.Body); resp.Body.Close()
					mu.Lock()
					got, gerr, called := last, lastErr, calls > before
					mu.Unlock()
					if n <= limit {
						if resp.StatusCode != 200 || !called || !bytes.Equal(got, body) {
							problems++
							fmt.Printf("PROBLEM within-limit: ct=%q limit=%d n=%d kind=%s status=%d called=%v gotlen=%d err=%v\n", ct, limit, n, kind, resp.StatusCode, called, len(got), gerr)
						}
					} else {
						if called && (int64(len(got)) > limit || gerr == nil) {
							problems++
							fmt.Printf("PROBLEM over-limit: ct=%q limit=%d n=%d kind=%s status=%d read=%d err=%v\n", ct, limit, n, kind, resp.StatusCode, len(got), gerr)
						}
					}
				}
			}
		}
		srv.Close()
	}
	fmt.Println("problems:", problems)
}
