package main

import (
	"context"
	"fmt"
	"math/rand"
	"sync"
	"sync/atomic"
	"time"

	"github.com/anishathalye/porcupine"
	"go.opentelemetry.io/collector/component"
	"go.opentelemetry.io/collector/component/componenttest"
	"go.opentelemetry.io/collector/exporter/exporterhelper"
	"go.opentelemetry.io/collector/exporter/exportertest"
	"go.opentelemetry.io/collector/pdata/plog"
	"go.opentelemetry.io/otel/sdk/metric/metricdata"
)

type in struct{ kind string; size int64 } // offer | done | size
type out struct{ accepted bool; n int64 }

var clock atomic.Int64

func now() int64 { return clock.Add(1) }

func mk(id, k int) plog.Logs {
	ld := plog.NewLogs(); rl := ld.ResourceLogs().AppendEmpty(); rl.Resource().Attributes().PutInt("id", int64(id))
	sl := rl.ScopeLogs().AppendEmpty(); for i := 0; i < k; i++ { sl.LogRecords().AppendEmpty() }
	return ld
}

func main() {
	rng := rand.New(rand.NewSource(12))
	res := map[porcupine.CheckResult]int{}
	sigs := map[string]bool{}
	ops := 0
	for iter := 0; iter < 300; iter++ {
		capacity := int64(2 + rng.Intn(6))
		model := porcupine.Model{
			Init: func() interface{} { return int64(0) },
			Step: func(state, input, output interface{}) (bool, interface{}) {
				s := state.(int64); i := input.(in); o := output.(out)
				switch i.kind {
				case "offer":
					if o.accepted { return s+i.size <= capacity, s + i.size }
					return s+i.size > capacity, s
				case "done": return true, s - i.size
				default: return o.n == s, s
				}
			},
			DescribeOperation: func(input, output interface{}) string { return fmt.Sprint(input, output) },
		}
		tel := componenttest.NewTelemetry()
		set := exportertest.NewNopSettings(component.MustNewType("p")); set.TelemetrySettings = tel.NewTelemetrySettings()
		cfg := exporterhelper.NewDefaultQueueConfig(); cfg.NumConsumers = 1 + rng.Intn(3); cfg.QueueSize = capacity; cfg.Sizer = exporterhelper.RequestSizerTypeItems
		var hmu sync.Mutex
		var hist []porcupine.Operation
		add := func(o porcupine.Operation) { hmu.Lock(); hist = append(hist, o); hmu.Unlock() }
		var pending sync.Map // id -> call ts of done (open until end)
		exp, err := exporterhelper.NewLogs(context.Background(), set, struct{}{}, func(_ context.Context, ld plog.Logs) error {
			time.Sleep(time.Duration(50+rand.Intn(200)) * time.Microsecond)
			// the size is released after we return: record an open "done" op starting now
			v, _ := ld.ResourceLogs().At(0).Resource().Attributes().Get("id")
			pending.Store(v.Int(), [2]int64{now(), int64(ld.LogRecordCount())})
			return nil
		}, exporterhelper.WithQueue(cfg), exporterhelper.WithTimeout(exporterhelper.TimeoutConfig{}))
		if err != nil { panic(err) }
		exp.Start(context.Background(), componenttest.NewNopHost())
		var wg sync.WaitGroup
		var idc atomic.Int64
		for p := 0; p < 3; p++ {
			wg.Add(1)
			go func(p int) {
				defer wg.Done()
				r := rand.New(rand.NewSource(int64(iter*7 + p)))
				for k := 0; k < 5; k++ {
					sz := int64(1 + r.Intn(3))
					id := int(idc.Add(1))
					c := now(); err := exp.ConsumeLogs(context.Background(), mk(id, int(sz))); rt := now()
					add(porcupine.Operation{ClientId: p, Input: in{"offer", sz}, Call: c, Output: out{accepted: err == nil}, Return: rt})
					if r.Intn(2) == 0 { time.Sleep(time.Duration(r.Intn(150)) * time.Microsecond) }
				}
			}(p)
		}
		wg.Add(1)
		go func() { // size reader
			defer wg.Done()
			for k := 0; k < 6; k++ {
				c := now(); m, err := tel.GetMetric("otelcol_exporter_queue_size"); rt := now()
				if err == nil { add(porcupine.Operation{ClientId: 3, Input: in{"size", 0}, Call: c, Output: out{n: m.Data.(metricdata.Gauge[int64]).DataPoints[0].Value}, Return: rt}) }
				time.Sleep(100 * time.Microsecond)
			}
		}()
		wg.Wait()
		// quiesce: wait until gauge is 0
		for i := 0; i < 20000; i++ { m, err := tel.GetMetric("otelcol_exporter_queue_size"); if err == nil && m.Data.(metricdata.Gauge[int64]).DataPoints[0].Value == 0 { break }; time.Sleep(50 * time.Microsecond) }
		end := now()
		cid := 4
		pending.Range(func(k, v any) bool { x := v.([2]int64); add(porcupine.Operation{ClientId: cid, Input: in{"done", x[1]}, Call: x[0], Output: out{}, Return: end}); cid++; return true })
		c := now(); m, _ := tel.GetMetric("otelcol_exporter_queue_size"); add(porcupine.Operation{ClientId: 3, Input: in{"size", 0}, Call: end + 1, Output: out{n: m.Data.(metricdata.Gauge[int64]).DataPoints[0].Value}, Return: now()}); _ = c
		exp.Shutdown(context.Background())
		ops += len(hist)
		r, _ := porcupine.CheckOperationsVerbose(model, hist, 20*time.Second)
		res[r]++
		sig := ""
		for _, o := range hist { sig += fmt.Sprint(o.Input.(in).kind[0:1], o.Output.(out).accepted) }
		sigs[sig] = true
		if r == porcupine.Illegal && res[r] < 3 { fmt.Println("ILLEGAL history, capacity", capacity, "consumers", cfg.NumConsumers); for _, o := range hist { fmt.Println("   ", o.ClientId, o.Input, o.Output, o.Call, o.Return) } }
	}
	fmt.Println("histories:", 300, "ops:", ops, "results:", res, "distinct signatures:", len(sigs))
}
