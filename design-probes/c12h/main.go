package main

import (
	"context"
	"fmt"
	"math/rand"
	"reflect"
	"strings"

	"go.opentelemetry.io/collector/confmap"
	yaml "gopkg.in/yaml.v3"
)

var table = map[string]string{
	"a": "A", "b": "B", "int": "123", "oct": "0123", "bool": "true", "map": "{x: 1, y: [1, 2]}", "list": "[1, 2]",
	"ref": "${vv:a}", "ref2": "p${vv:ref}q", "esc": "$${vv:a}", "dd": "x$$y", "null": "", "quoted": "\"q\"", "name": "a", "float": "1.50",
	"cyc1": "${vv:cyc2}", "cyc2": "${vv:cyc1}", "str": "plain text", "hex": "0xff", "neg": "-7",
}

type prov struct{ root string }

func (p prov) Retrieve(_ context.Context, uri string, _ confmap.WatcherFunc) (*confmap.Retrieved, error) {
	k := strings.TrimPrefix(uri, "vv:")
	if k == "ROOT" { return confmap.NewRetrievedFromYAML([]byte(p.root)) }
	v, ok := table[k]
	if !ok { return nil, fmt.Errorf("no such key %q", k) }
	return confmap.NewRetrievedFromYAML([]byte(v))
}
func (prov) Scheme() string                 { return "vv" }
func (prov) Shutdown(context.Context) error { return nil }

// ---------- reference interpreter (from docs/rfcs/env-vars.md + property text)
type refResult struct {
	typed     any    // value when decoded into an untyped field
	str       string // value when decoded into a string field
	isErr     bool
	ambiguous bool
	dupEscaped bool
}

func findRef(s string) (start, end int, escaped bool, found bool) {
	off := 0
	for {
		ci := strings.Index(s[off:], "}")
		if ci < 0 { return 0, 0, false, false }
		ci += off
		oi := strings.LastIndex(s[off:ci+1], "${")
		if oi >= 0 { oi += off }
		if oi < 0 || !strings.Contains(s[oi:ci+1], ":") { off = ci + 1; continue }
		n := 0
		for i := oi - 1; i >= 0 && s[i] == '$'; i-- { n++ }
		if n%2 == 1 { off = ci + 1; continue } // escaped: protected, keep looking after it
		return oi, ci + 1, false, true
	}
}

func anyUnescapedRef(s string) bool {
	for off := 0; ; {
		ci := strings.Index(s[off:], "}")
		if ci < 0 { return false }
		ci += off
		oi := strings.LastIndex(s[off:ci+1], "${")
		if oi >= 0 { oi += off }
		if oi >= 0 && strings.Contains(s[oi:ci+1], ":") {
			n := 0
			for i := oi - 1; i >= 0 && s[i] == '$'; i-- { n++ }
			if n%2 == 0 { return true }
		}
		off = ci + 1
	}
}

func refExpand(s string) refResult {
	res := refResult{}
	whole := false
	var typed any
	for round := 0; ; round++ {
		if round > 200 { return refResult{isErr: true} }
		st, en, esc, ok := findRef(s)
		if !ok { break }
		if esc {
			if anyUnescapedRef(s) { res.ambiguous = true }
			break
		}
		uri := s[st+2 : en-1]
		key := strings.TrimPrefix(uri, "vv:")
		if strings.Contains(key, "$") || !strings.HasPrefix(uri, "vv:") { return refResult{isErr: true} }
		v, ok := table[key]
		if !ok { return refResult{isErr: true} }
		if st == 0 && en == len(s) {
			// whole value: typed
			var y any
			if err := yaml.Unmarshal([]byte(v), &y); err != nil { y = v }
			if ys, isStr := y.(string); isStr {
				_ = ys
				s = v // strings keep raw text and are expanded further
				whole = false; typed = nil
				if s == "" { break }
				continue
			}
			whole = true; typed = y
			s = v
			break
		}
		if strings.HasSuffix(v, "$") || strings.HasPrefix(v, "{") { res.ambiguous = true }
		s = s[:st] + v + s[en:]
	}
	un := strings.ReplaceAll(s, "$$", "$")
	if whole { res.typed = typed; res.str = un; return res }
	res.typed = un; res.str = un
	return res
}

// ---------- generator
func gen(rng *rand.Rand) string {
	keys := []string{"a", "b", "int", "oct", "bool", "map", "list", "ref", "ref2", "esc", "dd", "null", "quoted", "float", "str", "hex", "neg", "cyc1", "nope", "$a"}
	var sb strings.Builder
	n := 1 + rng.Intn(4)
	for i := 0; i < n; i++ {
		switch rng.Intn(9) {
		case 0, 1: sb.WriteString([]string{"a", "b-", " ", ":", "/x", ".", "{", "}", "lit"}[rng.Intn(9)])
		case 2: sb.WriteString("$$")
		case 3: sb.WriteString("$")
		case 4, 5: sb.WriteString("${vv:" + keys[rng.Intn(len(keys))] + "}")
		case 6: sb.WriteString(strings.Repeat("$", 1+rng.Intn(5)) + "{vv:" + keys[rng.Intn(4)] + "}")
		case 7: sb.WriteString("${vv:${vv:name}}")
		case 8: sb.WriteString([]string{"${", "${vv:a", "${}", "${X}", "$}"}[rng.Intn(5)])
		}
	}
	return sb.String()
}

func norm(v any) any {
	switch x := v.(type) {
	case map[string]any: o := map[string]any{}; for k, e := range x { o[k] = norm(e) }; return o
	case []any: o := make([]any, len(x)); for i, e := range x { o[i] = norm(e) }; return o
	case int: return int64(x)
	}
	return v
}

func main() {
	rng := rand.New(rand.NewSource(5))
	stats := map[string]int{}
	seen := map[string]bool{}
	for iter := 0; iter < 30000; iter++ {
		in := gen(rng)
		if seen[in] { continue }
		seen[in] = true
		q := "'" + strings.ReplaceAll(in, "'", "''") + "'"
		root := "k: " + q + "\ns: " + q
		r, err := confmap.NewResolver(confmap.ResolverSettings{URIs: []string{"vv:ROOT"}, ProviderFactories: []confmap.ProviderFactory{confmap.NewProviderFactory(func(confmap.ProviderSettings) confmap.Provider { return prov{root} })}})
		if err != nil { panic(err) }
		want := refExpand(in)
		conf, err := r.Resolve(context.Background())
		if conf == nil { conf = confmap.New() }
		if want.ambiguous { stats["ambiguous"]++; continue }
		if want.dupEscaped {
			got := fmt.Sprint(conf.ToStringMap()["k"])
			if err == nil && got != fmt.Sprint(want.typed) { stats["known-defect ReplaceAll expands escaped duplicate"]++ } else { stats["dupEscaped-but-equal"]++ }
			continue
		}
		if want.isErr != (err != nil) {
			stats["BAD"]++
			if stats["BAD"] < 10 { fmt.Printf("ERR mismatch %q: impl err=%v want err=%v\n", in, err, want.isErr) }
			continue
		}
		if err != nil { stats["both-error"]++; continue }
		got := conf.ToStringMap()["k"]
		var out struct{ S string `mapstructure:"s"` }
		uerr := conf.Unmarshal(&out, confmap.WithIgnoreUnused())
		if !reflect.DeepEqual(norm(got), norm(want.typed)) {
			stats["BAD"]++
			if stats["BAD"] < 10 { fmt.Printf("TYPED mismatch %q: impl %#v want %#v\n", in, got, want.typed) }
			continue
		}
		if uerr != nil || out.S != want.str {
			stats["BAD"]++
			if stats["BAD"] < 10 { fmt.Printf("STRING-FIELD mismatch %q: impl %q (err %v) want %q\n", in, out.S, uerr, want.str) }
			continue
		}
		stats["ok"]++
		if strings.Contains(in, "$") { stats["ok-with-dollar"]++ }
	}
	fmt.Println(stats)
}
