package main

import (
	"context"
	"errors"
	"fmt"
	"time"

	"go.opentelemetry.io/collector/component"
	"go.opentelemetry.io/collector/component/componenttest"
	"go.opentelemetry.io/collector/config/configretry"
	"go.opentelemetry.io/collector/consumer/consumererror"
	"go.opentelemetry.io/collector/exporter/exporterhelper"
	"go.opentelemetry.io/collector/exporter/exportertest"
	"go.opentelemetry.io/collector/pdata/plog"
	"go.uber.org/zap"
	"go.uber.org/zap/zaptest/observer"
)

// outcomes: 0 ok, 1 transient, 2 permanent, 3 throttle(8ms), 4 partial (keeps last half), 
const nOut = 5

func mk(n int) plog.Logs {
	ld := plog.NewLogs(); s := ld.ResourceLogs().AppendEmpty().ScopeLogs().AppendEmpty()
	for i := 0; i < n; i++ { s.LogRecords().AppendEmpty().Body().SetStr(fmt.Sprint("r", i)) }
	return ld
}
func bodies(ld plog.Logs) []string {
	var out []string
	for i := 0; i < ld.ResourceLogs().Len(); i++ { rl := ld.ResourceLogs().At(i); for j := 0; j < rl.ScopeLogs().Len(); j++ { l := rl.ScopeLogs().At(j).LogRecords(); for k := 0; k < l.Len(); k++ { out = append(out, l.At(k).Body().Str()) } } }
	return out
}

func main() {
	bad, seqs, retriesSeen := 0, 0, 0
	var rec func(prefix []int, depth int)
	run := func(script []int, initial time.Duration, mult float64, maxIv time.Duration) {
		seqs++
		core, logs := observer.New(zap.InfoLevel)
		set := exportertest.NewNopSettings(component.MustNewType("p")); set.Logger = zap.New(core)
		rc := configretry.NewDefaultBackOffConfig()
		rc.InitialInterval = initial; rc.Multiplier = mult; rc.MaxInterval = maxIv; rc.RandomizationFactor = 0; rc.MaxElapsedTime = 0
		var payloads [][]string
		var times []time.Time
		step := 0
		exp, err := exporterhelper.NewLogs(context.Background(), set, struct{}{}, func(_ context.Context, ld plog.Logs) error {
			payloads = append(payloads, bodies(ld)); times = append(times, time.Now())
			o := 0; if step < len(script) { o = script[step] }; step++
			switch o {
			case 1: return errors.New("transient")
			case 2: return consumererror.NewPermanent(errors.New("perm"))
			case 3: return exporterhelper.NewThrottleRetry(errors.New("thr"), 8*time.Millisecond)
			case 4:
				rem := plog.NewLogs(); ld.CopyTo(rem)
				n := rem.LogRecordCount(); k := 0
				rem.ResourceLogs().At(0).ScopeLogs().At(0).LogRecords().RemoveIf(func(plog.LogRecord) bool { k++; return k <= n/2 })
				return consumererror.NewLogs(errors.New("partial"), rem)
			}
			return nil
		}, exporterhelper.WithRetry(rc), exporterhelper.WithTimeout(exporterhelper.TimeoutConfig{}))
		if err != nil { panic(err) }
		exp.Start(context.Background(), componenttest.NewNopHost())
		final := exp.ConsumeLogs(context.Background(), mk(8))
		exp.Shutdown(context.Background())
		// expected attempts: prefix up to first ok/permanent (script padded with ok)
		wantAttempts := 0
		cur := bodies(mk(8))
		var wantPayloads [][]string
		var wantDelays []time.Duration
		iv := initial
		var wantFinalOK, wantPermanent bool
		for i := 0; ; i++ {
			o := 0; if i < len(script) { o = script[i] }
			wantAttempts++
			wantPayloads = append(wantPayloads, cur)
			if o == 0 { wantFinalOK = true; break }
			if o == 2 { wantPermanent = true; break }
			if o == 4 { cur = cur[len(cur)/2:] }
			d := iv
			if o == 3 && 8*time.Millisecond > d { d = 8 * time.Millisecond }
			wantDelays = append(wantDelays, d)
			// next interval
			if float64(iv) >= float64(maxIv)/mult { iv = maxIv } else { iv = time.Duration(float64(iv) * mult) }
		}
		prob := ""
		if len(payloads) != wantAttempts { prob += fmt.Sprintf(" attempts=%d want %d;", len(payloads), wantAttempts) }
		for i := range payloads { if i < len(wantPayloads) && fmt.Sprint(payloads[i]) != fmt.Sprint(wantPayloads[i]) { prob += fmt.Sprintf(" attempt %d payload %v want %v;", i, payloads[i], wantPayloads[i]); break } }
		if wantFinalOK != (final == nil) { prob += fmt.Sprintf(" final err=%v wantOK=%v;", final, wantFinalOK) }
		if wantPermanent && !consumererror.IsPermanent(final) { prob += " final error not permanent;" }
		var gotDelays []time.Duration
		for _, e := range logs.All() { if e.Message == "Exporting failed. Will retry the request after interval." { d, _ := time.ParseDuration(e.ContextMap()["interval"].(string)); gotDelays = append(gotDelays, d) } }
		retriesSeen += len(gotDelays)
		if fmt.Sprint(gotDelays) != fmt.Sprint(wantDelays) { prob += fmt.Sprintf(" logged delays %v want %v;", gotDelays, wantDelays) }
		for i := 1; i < len(times) && i-1 < len(gotDelays); i++ { if gap := times[i].Sub(times[i-1]); gap < gotDelays[i-1] { prob += fmt.Sprintf(" gap %v shorter than delay %v;", gap, gotDelays[i-1]) } }
		if prob != "" { bad++; if bad < 8 { fmt.Printf("script=%v initial=%v mult=%v max=%v:%s\n", script, initial, mult, maxIv, prob) } }
	}
	rec = func(prefix []int, depth int) {
		if depth == 0 { run(prefix, time.Millisecond, 2, 3*time.Millisecond); run(prefix, 0, 1.5, 0); return }
		for o := 0; o < nOut; o++ { rec(append(append([]int(nil), prefix...), o), depth-1) }
	}
	for d := 0; d <= 3; d++ { rec(nil, d) }
	fmt.Println("sequences:", seqs, "retry decisions observed:", retriesSeen, "bad:", bad)
}
