package main

import (
	"context"
	"fmt"
	"strings"

	"go.opentelemetry.io/collector/confmap"
)

type prov struct{ vals map[string]string }

func (p prov) Retrieve(_ context.Context, uri string, _ confmap.WatcherFunc) (*confmap.Retrieved, error) {
	k := strings.TrimPrefix(uri, "vv:")
	if k == "ROOT" {
		return confmap.NewRetrievedFromYAML([]byte(p.vals[k]))
	}
	v, ok := p.vals[k]
	if !ok {
		return nil, fmt.Errorf("no such key %q", k)
	}
	return confmap.NewRetrievedFromYAML([]byte(v))
}
func (prov) Scheme() string                 { return "vv" }
func (prov) Shutdown(context.Context) error { return nil }

func main() {
	vals := map[string]string{
		"a": "A", "b": "B", "int": "123", "oct": "0123", "bool": "true", "map": "{x: 1, y: [1,2]}", "list": "[1,2]",
		"ref": "${vv:a}", "esc": "$${vv:a}", "dollar": "x$$y", "null": "", "str2": "\"quoted\"", "name": "a", "float": "1.50",
		"cyc1": "${vv:cyc2}", "cyc2": "${vv:cyc1}", "selfdollar": "$", "nested": "pre-${vv:ref}-post",
	}
	tests := []string{
		"${vv:a}", "x${vv:a}y", "${vv:a}${vv:b}", "$${vv:a}", "$$${vv:a}", "$$$${vv:a}", "$$$$${vv:a}", "$${vv:a} ${vv:b}", "${vv:a} $${vv:b}",
		"a$$b ${vv:a}", "$$", "$$$", "$", "${vv:int}", "x${vv:int}", "${vv:oct}", "x${vv:oct}", "${vv:map}", "x${vv:map}", "${vv:list}",
		"${vv:ref}", "${vv:esc}", "x${vv:esc}", "${vv:dollar}", "${vv:${vv:name}}", "${vv:null}", "x${vv:null}y", "${vv:str2}", "x${vv:str2}",
		"${vv:float}", "x${vv:float}", "${vv:cyc1}", "${vv:$a}", "${vv:nope}", "${", "${}", "${vv:a", "}${vv:a}", "${vv:a}}", "{${vv:a}}", "$${", "$}", "${vv:selfdollar}", "x${vv:selfdollar}",
		"${vv:nested}", "${vv:bool}", "x${vv:bool}", "${A}", "${env:HOME}x",
	}
	for _, t := range tests {
		vals["ROOT"] = "k: '" + strings.ReplaceAll(t, "'", "''") + "'\ns: '" + strings.ReplaceAll(t, "'", "''") + "'"
		r, err := confmap.NewResolver(confmap.ResolverSettings{URIs: []string{"vv:ROOT"}, ProviderFactories: []confmap.ProviderFactory{confmap.NewProviderFactory(func(confmap.ProviderSettings) confmap.Provider { return prov{vals} })}})
		if err != nil {
			panic(err)
		}
		c, err := r.Resolve(context.Background())
		if err != nil {
			fmt.Printf("%-22q => ERR %v\n", t, err)
			continue
		}
		var out struct {
			S string `mapstructure:"s"`
		}
		uerr := c.Unmarshal(&out)
		fmt.Printf("%-22q => any=%#v  str=%q uerr=%v\n", t, c.ToStringMap()["k"], out.S, uerr)
	}
}
