#!/bin/bash
# tools/process_seed.sh <cNN> [tier]  — confirm both seeded changes of /tmp/seed/cNN-out and run the property's check against them
P=$1; TIER=${2:-quick}; ID=$(echo $P | tr a-z A-Z)
for k in 1 2; do
  d=${SEED_ROOT:-/tmp/seed}/$P-out/$k
  [ -f $d/patch.diff ] || { echo "== $P/$k: no patch"; continue; }
  echo "== $P/$k"
  eval $(python3 - $d <<'PY'
import json,sys,shlex
m=json.load(open(sys.argv[1]+'/meta.json'))
import re
m['run']=re.sub(r'^-run[ =]+','',m['run'].strip()).strip("'\"")
m['module_dir']=m['module_dir'].rstrip('/') or '.'
print('DEMO_TO=%s MOD=%s PKG=%s RUN=%s' % tuple(shlex.quote(str(m[k])) for k in ('demo_copy_to','module_dir','package','run')))
PY
)
  /verif/tools/confirm_seed.sh $d "$DEMO_TO" "$MOD" "$PKG" "$RUN" 2>&1 | grep -E "RESULT|CONFIRMED|APPLY"
  SEED_LINES=${SEED_LINES:-5} SEED_COLS=${SEED_COLS:-260} /verif/tools/seeded_run.sh $d/patch.diff $ID $TIER | grep -v "^KNOWN"
done
