#!/usr/bin/env python3
"""Regenerates MANIFEST.json from tools/checks.json (one entry per claimed property) — keeps the file valid at all times.
Properties in properties.jsonl without an entry are listed under not_applicable with the reason in tools/not_applicable.json."""
import json, os
here = os.path.dirname(os.path.abspath(__file__))
root = os.path.dirname(here)
checks = json.load(open(os.path.join(here, "checks.json")))
na = json.load(open(os.path.join(here, "not_applicable.json")))
props = [json.loads(l)["id"] for l in open(os.path.join(root, "properties.jsonl")) if l.strip()]
m = {
    "version": 1,
    "setup_cmd": "./setup.sh",
    "hooks": {
        "guard": "verif",
        "enable": "the checks build /repo's packages with -tags verif. One hook file exists: service/verif_hooks.go (build tag verif) re-exports, unchanged, the constructors of service/internal/obsconsumer, which Go's internal rule keeps an out-of-tree module from importing (used by C19). Everything else needs no hook: the monitors live in the out-of-tree Go module /verif/harness (module path go.opentelemetry.io/collector/verifharness, `replace` directives onto /repo's working tree) and are built with -tags verif; injection/observation points are the interfaces the code under test already calls (storage client, export function, context, sizer, providers, test components)",
        "baseline_off_cmd": "./baseline_off.sh",
        "source_commits": ["613b719e5"],
        "add_only": True,
    },
    "engines": [
        {"name": "verifharness", "path": "harness", "serves_properties": [c["property_id"] for c in checks],
         "kind_free_text": "Go programs (one per property) that drive the real packages of /repo under generated hostile workloads with monitors: reference-model oracles, offline history checkers, crash/fault/delay injection through harness-supplied interfaces, Go race detector builds; parent/child runner in harness/lib/driver"},
    ],
    "checks": [],
    "notes": "Runtime monitoring only. ./check <id> <tier> rebuilds the check from /repo's working tree on every invocation. known_findings.json lists recorded genuine defects (narrow signatures) and fixed: entries; see DESIGN.md.",
    "not_applicable": [],
}
for c in checks:
    pid = c["property_id"]
    m["checks"].append({
        "property_id": pid,
        "quick_cmd": "./check %s quick" % pid,
        "thorough_cmd": "./check %s thorough" % pid,
        "evidence_file": "evidence/%s.json" % pid,
        "replay_cmd_template": "./check %s --replay {path}" % pid,
        "engine": "verifharness",
        "level_claimed": {"category": c["level"], "text": c["text"], "design_ref": c["design_ref"]},
        "level_note": c["note"],
        "technique": c["technique"],
    })
claimed = {c["property_id"] for c in checks}
for p in props:
    if p not in claimed:
        m["not_applicable"].append({"property_id": p, "reason": na.get(p, "check not built yet in this round (designed in DESIGN.md section 5; runtime monitoring applies)")})
json.dump(m, open(os.path.join(root, "MANIFEST.json"), "w"), indent=1)
print("claimed:", sorted(claimed), "not_applicable:", len(m["not_applicable"]))
