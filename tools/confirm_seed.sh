#!/bin/bash
# tools/confirm_seed.sh <outdir> <demo-copy-to (repo-relative file)> <module-dir> <pkg> <run-regex>
# Confirms a seeded change in a scratch worktree of /repo HEAD: demo passes on the pristine tree; with the patch the
# module builds, the existing tests of the package pass (demo skipped) and the demo fails. Removes the worktree.
set -u
OUT=$(realpath "$1"); DEMO_TO=$2; MOD=$3; PKG=$4; RUN=$5
export GOFLAGS=-mod=mod GOPROXY=off GOSUMDB=off GOTOOLCHAIN=local
W=$(mktemp -d /tmp/confirm.XXXXXX); rmdir "$W"
git -C /repo worktree add -q --detach "$W" HEAD || exit 2
trap 'git -C /repo worktree remove --force "$W" >/dev/null 2>&1; rm -rf "$W"' EXIT
cp "$OUT/demo_test.go" "$W/$DEMO_TO"
cd "$W/$MOD"
echo "--- pristine: demo (expect ok)"
go test -count=1 -run "$RUN" "$PKG" 2>&1 | tail -2; P1=${PIPESTATUS[0]}
( cd "$W" && git apply "$OUT/patch.diff" ) || { echo "PATCH DOES NOT APPLY"; exit 3; }
echo "--- patched: build"
go build ./... 2>&1 | tail -3; B=${PIPESTATUS[0]}
echo "--- patched: existing tests of $PKG (demo skipped)"
go test -count=1 -skip "$RUN" "$PKG" 2>&1 | tail -2; T=${PIPESTATUS[0]}
if [ "$T" != 0 ]; then echo "(re-run once: flaky?)"; go test -count=1 -skip "$RUN" "$PKG" 2>&1 | tail -2; T=${PIPESTATUS[0]}; fi
echo "--- patched: demo (expect FAIL)"
go test -count=1 -run "$RUN" "$PKG" 2>&1 | tail -2; P2=${PIPESTATUS[0]}
echo "RESULT pristine_demo=$P1 build=$B existing_tests=$T patched_demo=$P2"
[ "$P1" = 0 ] && [ "$B" = 0 ] && [ "$T" = 0 ] && [ "$P2" != 0 ] && echo CONFIRMED || echo NOT-CONFIRMED
