#!/bin/bash
# tools/sweep.sh "<ids>" "<seeds>" [tier]  — runs checks one after another, one summary line per run
IDS=$1; SEEDS=$2; TIER=${3:-quick}
cd "$(dirname "$0")/.."
for s in $SEEDS; do for id in $IDS; do
  t0=$(date +%s)
  out=$(VERIF_SEED=$s ./check $id $TIER 2>&1); rc=$?
  t1=$(date +%s)
  echo "$id seed=$s tier=$TIER exit=$rc wall=$((t1-t0))s $(echo "$out" | grep -c '^VIOLATION') violations, $(echo "$out" | grep -c '^KNOWN-FINDING') known | $(echo "$out" | grep -E "^$id $TIER" | cut -c1-140)"
  [ $rc != 0 ] && echo "$out" | grep -E "^(VIOLATION|  \[|INFRA)" | head -6 | cut -c1-300
done; done
