#!/bin/bash
# tools/store5.sh <cNN> <k> "<outcome>" — store a confirmed round-5 seeded change (change/needs text taken from the author's meta.json);
# the stored id is the next free number for that property.
P=$1; K=$2; OUT=$3
ID=$(echo $P | tr a-z A-Z)
n=$(ls -d /verif/seeded/$ID-* 2>/dev/null | sed 's/.*-//' | sort -n | tail -1); n=${n:-0}
src=${SEED_ROOT:-/tmp/seed}/$P-out/$K
change=$(python3 -c "import json,sys;print(json.load(open('$src/meta.json'))['change'])")
needs=$(python3 -c "import json,sys;print(json.load(open('$src/meta.json'))['needs'])")
STORE_OFFSET=$((n + 1 - K)) python3 /verif/tools/store_seed.py $P $K "$change" "$needs" "$OUT"
python3 - <<PY
import json
p='/verif/seeded/$ID-$((n+1))/meta.json'
m=json.load(open(p)); m['round']=int(__import__('os').environ.get('SEED_ROUND','6')); json.dump(m,open(p,'w'),indent=1)
PY
