#!/usr/bin/env python3
"""tools/seed_prompts.py <round> [ids...] — writes /tmp/seed/prompts/cNN.txt (the only text a seeding sub-agent is given)
and creates its scratch worktree /tmp/seed/cNN-wt (detached at /repo HEAD). Nothing from /verif except the property text
and one-line descriptions of the changes earlier authors already tried (so that a new author picks other sites)."""
import json, os, subprocess, sys, glob
rnd = sys.argv[1]
want = [a.upper() for a in sys.argv[2:]]
props = [json.loads(l) for l in open('/verif/properties.jsonl')]
os.makedirs('/tmp/seed/prompts', exist_ok=True)
for p in props:
    if want and p['id'] not in want:
        continue
    low = p['id'].lower()
    wt = '/tmp/seed/%s-wt' % low
    out = '/tmp/seed/%s-out' % low
    if not os.path.isdir(wt):
        subprocess.check_call(['git', '-C', '/repo', 'worktree', 'add', '-q', '--detach', wt, 'HEAD'])
    os.makedirs(out + '/1', exist_ok=True)
    os.makedirs(out + '/2', exist_ok=True)
    earlier = []
    for m in sorted(glob.glob('/verif/seeded/%s-*/meta.json' % p['id'])):
        earlier.append('- ' + json.load(open(m))['change'][:260])
    text = f"""You are helping to evaluate a verification effort for the Go project open-telemetry/opentelemetry-collector
(pinned near v0.124.0). You get ONE semantic property of that code base and your own scratch git worktree of it at
{wt} (work only there; never touch /repo or /verif, and do not read anything under /verif).

Environment for every shell call (no network): export GOFLAGS=-mod=mod GOPROXY=off GOSUMDB=off GOTOOLCHAIN=local
The repository is multi-module (each directory with a go.mod is its own module: exporter/, service/, pdata/, confmap/, ...);
run go commands from inside the module directory.

THE PROPERTY (this is all you are told about what is being checked):
{json.dumps({k: p[k] for k in ('id', 'title', 'statement', 'quantifier', 'anchors')}, indent=1)}

YOUR TASK: produce TWO different, realistic changes to the collector's non-test source that each BREAK this property while
 (a) the touched module still compiles (go build ./... and go vet of the package),
 (b) the EXISTING tests of every package you touch still pass (go test -count=1 <pkg>), unedited,
 (c) the change looks like something a maintainer could plausibly merge (a refactoring, an optimisation, a simplification,
     an "obvious" clean-up, a re-ordering, a new fast path) — not sabotage such as deleting a feature outright,
 (d) the breakage needs something SPECIFIC to manifest: a particular interleaving, a crash or fault at a particular point,
     a multi-step sequence of operations, an unusual input or configuration, or two cooperating sites that each look fine
     alone. Changes that ordinary use would expose at once are not wanted.
Each change must be small (typically 1-30 changed lines, non-test files only; do not touch *_test.go, generated-code
templates are fine if you regenerate nothing — edit the generated .go files directly).

Earlier authors already tried the following for this property; choose DIFFERENT sites and mechanisms (another file, another
clause of the statement, another configuration, another code path):
{chr(10).join(earlier) if earlier else '- (none)'}

FOR EACH change k in {{1,2}} write into {out}/k/ :
  patch.diff     — `git diff` of the worktree for the change alone (must apply with `git apply` to a clean checkout of HEAD)
  demo_test.go   — ONE new Go test file (own unique file name when copied; own unique Test function names) that PASSES on the
                   unchanged tree and FAILS with the change applied. It is copied into an existing package directory, so it
                   must use that package's name and may use its unexported identifiers. It must be deterministic
                   (no flaky sleeps: if timing is needed use generous bounds and synchronisation) and finish in < 60 s.
  meta.json      — {{"demo_copy_to": "<repo-relative path the demo file is copied to, e.g. exporter/exporterhelper/internal/seed_{low}_r{rnd}_1_demo_test.go>",
                     "module_dir": "<repo-relative module directory, e.g. exporter>",
                     "package": "<package path relative to the module, e.g. ./exporterhelper/internal/>",
                     "run": "<regexp for go test -run selecting exactly the demo tests, e.g. ^TestSeed...$>",
                     "change": "<one sentence: what was changed>",
                     "needs": "<one sentence: what is needed for the breakage to manifest>"}}
  README.md      — a short note: what the change is, why it compiles and passes the existing tests, which clause of the
                   property it breaks and the exact steps/conditions under which it shows.

VERIFY YOURSELF before finishing, for each change: on a clean worktree (git -C {wt} checkout -- . && git -C {wt} clean -fdq)
copy the demo in and run it (must pass); apply patch.diff; go build ./... in the module; run the package's existing tests
with the demo skipped (go test -count=1 -skip '<run>' <package>) — must pass; run the demo (must FAIL). Reset the worktree
between the two changes (each patch is against pristine HEAD, independent of the other). Leave the worktree clean at the end.

While you read the code: if you notice behaviour of the UNCHANGED tree that already looks like a violation of the property
(you can show an input / sequence for it), do not use it for your changes, but describe it in 3 lines at the end of your report.

Report back only: for each change one line (files touched, mechanism), and whether every verification step gave the expected
result. If you could only produce one solid change, say so — one solid change beats two weak ones.
"""
    open('/tmp/seed/prompts/%s.txt' % low, 'w').write(text)
    print(low, len(earlier), 'earlier changes listed')
