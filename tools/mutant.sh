#!/bin/bash
# tools/mutant.sh <Cnn> <repo-relative-file> <python-expr old=>new ...>  — mount an edited copy of one file over /repo via -overlay
# usage: tools/mutant.sh C14 config/configopaque/opaque.go 'OLD' 'NEW' [tier]
set -eu
ID=$1; F=$2; OLD=$3; NEW=$4; TIER=${5:-quick}
D=$(mktemp -d /tmp/mut.XXXXXX)
trap 'rm -rf "$D"' EXIT
python3 - "$F" "$OLD" "$NEW" "$D" <<'PY'
import sys, json, os
f, old, new, d = sys.argv[1:5]
src = open("/repo/" + f).read()
if old not in src:
    sys.exit("pattern not found in " + f)
out = os.path.join(d, os.path.basename(f))
open(out, "w").write(src.replace(old, new, 1))
json.dump({"Replace": {"/repo/" + f: out}}, open(os.path.join(d, "ov.json"), "w"))
PY
VERIF_OVERLAY=$D/ov.json "$(dirname "$0")/../check" "$ID" "$TIER" 2>&1 | cut -c1-400 | grep -E "^(VIOLATION|  \[|C[0-9]+ |INFRA|build)" | head -${MUT_LINES:-8}
echo "exit=${PIPESTATUS[0]}"
