#!/bin/bash
# tools/patch_overlay.sh <outdir> <patch>...  — applies unified diffs to copies of /repo files and writes <outdir>/ov.json
# (a `go build -overlay` file) so that trial fixes / multi-file mutants can be mounted without touching /repo.
set -eu
OUT=$1; shift
mkdir -p "$OUT/tree"
for p in "$@"; do p=$(realpath "$p")
  for f in $(grep -E '^\+\+\+ b/' "$p" | sed 's#^+++ b/##'); do
    mkdir -p "$OUT/tree/$(dirname "$f")"
    [ -f "$OUT/tree/$f" ] || { [ -f "/repo/$f" ] && cp "/repo/$f" "$OUT/tree/$f" || : > "$OUT/tree/$f"; }
  done
  (cd "$OUT/tree" && patch -s -p1 < "$p")
done
python3 - "$OUT" <<'PY'
import os, sys, json
out = sys.argv[1]; rep = {}
for root, _, files in os.walk(os.path.join(out, "tree")):
    for f in files:
        if f.endswith(".orig") or f.endswith(".rej"): continue
        p = os.path.join(root, f)
        rep["/repo/" + os.path.relpath(p, os.path.join(out, "tree"))] = p
json.dump({"Replace": rep}, open(os.path.join(out, "ov.json"), "w"), indent=1)
print("overlay:", os.path.join(out, "ov.json"), len(rep), "files")
PY
