#!/usr/bin/env python3
"""tools/store_seed.py <cNN> <k> <change> <needs> <outcome> — copy a confirmed seeded change from /tmp/seed/cNN-out/k into /verif/seeded/CNN-k/"""
import json, os, shutil, sys
p, k, change, needs, outcome = sys.argv[1:6]
src = os.environ.get('SRC_DIR') or (os.environ.get('SEED_ROOT') or '/tmp/seed') + '/%s-out/%s' % (p, k)
# round 2 outputs (again numbered 1, 2 by their authors) are stored as -3, -4: STORE_OFFSET=2
sid = '%s-%d' % (p.upper(), int(k) + int(os.environ.get('STORE_OFFSET', '0')))
d = '/verif/seeded/' + sid
os.makedirs(d, exist_ok=True)
for f in ('patch.diff', 'demo_test.go'):
    shutil.copy(os.path.join(src, f), os.path.join(d, f))
shutil.copy(os.path.join(src, 'README.md'), os.path.join(d, 'AUTHOR_NOTES.md'))
m = json.load(open(os.path.join(src, 'meta.json')))
import re
m['run'] = re.sub(r'^-run[ =]+', '', m['run'].strip()).strip("'\"")
m['module_dir'] = m['module_dir'].rstrip('/') or '.'
meta = {"id": sid, "breaks_property": p.upper(), "change": change, "needs_to_manifest": needs,
  "demo": {"copy_demo_test_go_to": m['demo_copy_to'], "module_dir": m['module_dir'], "package": m['package'], "run": m['run'],
           "command": "tools/confirm_seed.sh seeded/%s %s %s %s '%s'" % (sid, m['demo_copy_to'], m['module_dir'], m['package'], m['run'])},
  "confirmed": {"how": "tools/confirm_seed.sh in a scratch worktree of /repo HEAD (removed afterwards)", "pristine_demo": "pass", "patched_build": "ok", "patched_existing_package_tests": "pass", "patched_demo": "FAIL"},
  "checks_run": "tools/seeded_run.sh seeded/%s/patch.diff %s quick  (git -C /repo apply, ./check, git -C /repo checkout -- . ; or SEED_OVERLAY=1 to mount the patched files through go build -overlay instead)" % (sid, p.upper()),
  "outcome": outcome,
  "author": "independent sub-agent that was given only the property text and a scratch worktree"}
json.dump(meta, open(os.path.join(d, 'meta.json'), 'w'), indent=1)
print("stored", sid)
