#!/usr/bin/env python3
"""Regenerates the generated tables of DESIGN.md (between <!-- BEGIN x --> / <!-- END x --> markers) from
known_findings.json and seeded/*/meta.json."""
import json, glob, os, re
root = os.path.dirname(os.path.dirname(os.path.abspath(__file__)))
def short(s, n):
    s = re.sub(r'^fixed: property=\S+ \S+ ', '', s).replace('|', '/').replace('\n', ' ')
    return s if len(s) <= n else s[:n - 1].rstrip() + '…'
kf = json.load(open(os.path.join(root, 'known_findings.json')))['findings']
rows, seen = [], set()
for f in sorted(kf, key=lambda f: (f['property'], f['id'])):
    if (f['property'], f['id']) in seen: continue
    seen.add((f['property'], f['id']))
    disp = 'fixed in /repo: `%s`' % f['commit'] if f['status'] == 'fixed' else '**known finding** (check prints KNOWN-FINDING, exits 0)'
    rows.append('| %s | %s | %s | %s |' % (f['property'], f['id'], short(f['what'], 260), disp))
findings = '| property | id | what failed (witness) | disposition |\n|---|---|---|---|\n' + '\n'.join(rows)
rows = []
for m in sorted(glob.glob(os.path.join(root, 'seeded', '*', 'meta.json'))):
    m = json.load(open(m))
    rows.append('| %s | %s | %s | %s |' % (m['id'], short(m['change'], 200), short(m['needs_to_manifest'], 200), short(m['outcome'], 260)))
seeded = '| id | change (compiles, existing tests pass) | needs to manifest | outcome against my checks |\n|---|---|---|---|\n' + '\n'.join(rows)
# tally per seeding round (ids -1,-2 = round 1; -3,-4 = round 2; ...), classified by the recorded outcome
def klass(o):
    if o.startswith('NOT caught'): return 'not caught'
    if o.startswith('caught'): return 'caught by the check as first built'
    if re.match(r'missed by (the first version of )?C\d\d.*?; caught by C\d\d', o): return 'caught by a sibling check'
    if 'caught after' in o or 'caught since' in o: return 'caught after an extension'
    return 'other'
tally = {}
for m in sorted(glob.glob(os.path.join(root, 'seeded', '*', 'meta.json'))):
    m = json.load(open(m))
    rnd = m.get('round') or (int(m['id'].split('-')[1]) + 1) // 2
    tally.setdefault(rnd, {}).setdefault(klass(m['outcome']), []).append(m['id'])
cols = ['caught by the check as first built', 'caught by a sibling check', 'caught after an extension', 'not caught', 'other']
trows = []
tot = {c: 0 for c in cols}
for rnd in sorted(tally):
    t = tally[rnd]
    n = sum(len(v) for v in t.values())
    for c in cols: tot[c] += len(t.get(c, []))
    trows.append('| %d | %d | %s |' % (rnd, n, ' | '.join(str(len(t.get(c, []))) + ((' (' + ', '.join(t[c]) + ')') if c in ('not caught', 'other', 'caught by a sibling check') and t.get(c) else '') for c in cols)))
trows.append('| all | %d | %s |' % (sum(tot.values()), ' | '.join(str(tot[c]) for c in cols)))
tallytab = '| round | changes | ' + ' | '.join(cols) + ' |\n|---|---|' + '---|' * len(cols) + '\n' + '\n'.join(trows)
p = os.path.join(root, 'DESIGN.md')
s = open(p).read()
for name, body in (('FINDINGS', findings), ('SEEDED', seeded), ('TALLY', tallytab)):
    s = re.sub(r'(<!-- BEGIN %s -->\n).*?(<!-- END %s -->)' % (name, name), lambda mo: mo.group(1) + body + '\n' + mo.group(2), s, flags=re.S)
open(p, 'w').write(s)
print('tables regenerated:', len(seen), 'findings,', len(rows), 'seeded')
