#!/usr/bin/env python3
"""Regenerates the generated tables of DESIGN.md (between <!-- BEGIN x --> / <!-- END x --> markers) from
known_findings.json and seeded/*/meta.json."""
import json, glob, os, re
root = os.path.dirname(os.path.dirname(os.path.abspath(__file__)))
def short(s, n):
    s = re.sub(r'^fixed: property=\S+ \S+ ', '', s).replace('|', '/').replace('\n', ' ')
    return s if len(s) <= n else s[:n - 1].rstrip() + '…'
kf = json.load(open(os.path.join(root, 'known_findings.json')))['findings']
rows, seen = [], set()
for f in sorted(kf, key=lambda f: (f['property'], f['id'])):
    if (f['property'], f['id']) in seen: continue
    seen.add((f['property'], f['id']))
    disp = 'fixed in /repo: `%s`' % f['commit'] if f['status'] == 'fixed' else '**known finding** (check prints KNOWN-FINDING, exits 0)'
    rows.append('| %s | %s | %s | %s |' % (f['property'], f['id'], short(f['what'], 260), disp))
findings = '| property | id | what failed (witness) | disposition |\n|---|---|---|---|\n' + '\n'.join(rows)
rows = []
for m in sorted(glob.glob(os.path.join(root, 'seeded', '*', 'meta.json'))):
    m = json.load(open(m))
    rows.append('| %s | %s | %s | %s |' % (m['id'], short(m['change'], 200), short(m['needs_to_manifest'], 200), short(m['outcome'], 260)))
seeded = '| id | change (compiles, existing tests pass) | needs to manifest | outcome against my checks |\n|---|---|---|---|\n' + '\n'.join(rows)
p = os.path.join(root, 'DESIGN.md')
s = open(p).read()
for name, body in (('FINDINGS', findings), ('SEEDED', seeded)):
    s = re.sub(r'(<!-- BEGIN %s -->\n).*?(<!-- END %s -->)' % (name, name), lambda mo: mo.group(1) + body + '\n' + mo.group(2), s, flags=re.S)
open(p, 'w').write(s)
print('tables regenerated:', len(seen), 'findings,', len(rows), 'seeded')
