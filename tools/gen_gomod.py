#!/usr/bin/env python3
"""Generate harness/go.mod + harness/go.sum against the repository working tree.

usage: gen_gomod.py <harness-dir> [repo-root]
The harness module is named go.opentelemetry.io/collector/verifharness so that Go's internal rule
lets it import go.opentelemetry.io/collector/internal/... ; every module found under the repository
is mapped onto its directory with a replace directive; go.sum is the union of the repository's go.sum
files (nothing is fetched).
"""
import os, re, sys, glob

target = sys.argv[1]
repo = sys.argv[2] if len(sys.argv) > 2 else "/repo"
os.makedirs(target, exist_ok=True)
mods = {}
for root, dirs, files in os.walk(repo):
    dirs[:] = [d for d in dirs if d not in (".git", "node_modules")
               and not (d == "testdata" and not os.path.exists(os.path.join(root, d, "go.mod")))]
    if "go.mod" in files:
        m = re.search(r"^module\s+(\S+)", open(os.path.join(root, "go.mod")).read(), re.M)
        if m:
            mods[m.group(1)] = root
req = {}
for gm in ["internal/e2e", "cmd/otelcorecol", "otelcol", "service", "exporter", "processor/batchprocessor",
           "processor/memorylimiterprocessor", "scraper/scraperhelper", "exporter/exporterhelper/xexporterhelper",
           "extension/memorylimiterextension", "receiver/otlpreceiver", "exporter/otlpexporter",
           "exporter/otlphttpexporter", "exporter/debugexporter", "extension/zpagesextension"]:
    p = os.path.join(repo, gm, "go.mod")
    if not os.path.exists(p):
        continue
    for line in open(p):
        mm = re.match(r"\s*(go\.opentelemetry\.io/collector\S*)\s+(v\S+)", line)
        if mm and mm.group(1) in mods:
            req.setdefault(mm.group(1), mm.group(2))
out = ["module go.opentelemetry.io/collector/verifharness", "", "go 1.23.0", "", "require ("]
req.setdefault("go.opentelemetry.io/collector/pdata/testdata", "v0.124.0")
for m in sorted(mods):
    if m in req and not m.startswith("go.opentelemetry.io/collector/cmd") and "internal/tools" not in m:
        out.append("\t%s %s" % (m, req[m]))
out.append("\tgithub.com/anishathalye/porcupine v1.3.0")
out.append("\tgopkg.in/yaml.v2 v2.4.0")
out.append(")")
out.append("")
for m in sorted(mods):
    out.append("replace %s => %s" % (m, mods[m]))
open(os.path.join(target, "go.mod"), "w").write("\n".join(out) + "\n")
sums = set()
for p in glob.glob(os.path.join(repo, "**", "go.sum"), recursive=True):
    sums.update(l for l in open(p).read().splitlines() if l.strip())
# porcupine is not a dependency of the repository: take its sums from the module cache
extra = os.path.join(os.path.dirname(os.path.abspath(__file__)), "extra.go.sum")
if os.path.exists(extra):
    sums.update(l for l in open(extra).read().splitlines() if l.strip())
open(os.path.join(target, "go.sum"), "w").write("\n".join(sorted(sums)) + "\n")
print("wrote", os.path.join(target, "go.mod"), "with", len(mods), "replace directives;", len(sums), "go.sum lines")
