#!/bin/bash
# tools/seeded_run.sh <patch.diff> <Cnn> [tier]  — apply a seeded change to /repo, run the check, undo it straight afterwards.
set -u
P=$(realpath "$1"); ID=$2; TIER=${3:-quick}
if [ -n "${SEED_OVERLAY:-}" ]; then
  # same effect for the build without touching /repo (used while other work is reading /repo): mount the patched files
  D=$(mktemp -d /tmp/seedov.XXXXXX); trap 'rm -rf "$D"' EXIT
  /verif/tools/patch_overlay.sh "$D" "$P" >/dev/null || { echo "patch does not apply" >&2; exit 2; }
  cd /verif && VERIF_OVERLAY=$D/ov.json ./check "$ID" "$TIER" 2>&1 | grep -E "^(VIOLATION|  \[|C[0-9]+ |INFRA|build)" | cut -c1-${SEED_COLS:-330} | head -${SEED_LINES:-8}
  echo "exit=${PIPESTATUS[0]}"
  exit 0
fi
cd /repo || exit 2
[ -z "$(git status --porcelain --untracked-files=no)" ] || { echo "/repo has uncommitted changes" >&2; exit 2; }
git apply "$P" || { echo "patch does not apply" >&2; exit 2; }
trap 'git -C /repo checkout -- . ; git -C /repo clean -fdq -e cmd/otelcorecol/otelcorecol >/dev/null 2>&1' EXIT
cd /verif && ./check "$ID" "$TIER" 2>&1 | grep -E "^(VIOLATION|  \[|C[0-9]+ |INFRA|build)" | cut -c1-${SEED_COLS:-330} | head -${SEED_LINES:-8}
echo "exit=${PIPESTATUS[0]}"
