#!/bin/bash
# tools/seeded_run.sh <patch.diff> <Cnn> [tier]  — apply a seeded change to /repo, run the check, undo it straight afterwards.
set -u
P=$(realpath "$1"); ID=$2; TIER=${3:-quick}
cd /repo || exit 2
[ -z "$(git status --porcelain --untracked-files=no)" ] || { echo "/repo has uncommitted changes" >&2; exit 2; }
git apply "$P" || { echo "patch does not apply" >&2; exit 2; }
trap 'git -C /repo checkout -- . ; git -C /repo clean -fdq -e cmd/otelcorecol/otelcorecol >/dev/null 2>&1' EXIT
cd /verif && ./check "$ID" "$TIER" 2>&1 | grep -E "^(VIOLATION|  \[|KNOWN|C[0-9]+ |INFRA|build)" | cut -c1-${SEED_COLS:-330} | head -${SEED_LINES:-8}
echo "exit=${PIPESTATUS[0]}"
