module go.opentelemetry.io/collector/verifharness

go 1.23.0

require (
	github.com/anishathalye/porcupine v1.3.0
	github.com/golang/snappy v1.0.0
	github.com/klauspost/compress v1.18.0
	github.com/pierrec/lz4/v4 v4.1.22
	go.opentelemetry.io/collector v0.124.0
	go.opentelemetry.io/collector/client v1.30.0
	go.opentelemetry.io/collector/component v1.30.0
	go.opentelemetry.io/collector/component/componentstatus v0.124.0
	go.opentelemetry.io/collector/component/componenttest v0.124.0
	go.opentelemetry.io/collector/config/configauth v0.124.0
	go.opentelemetry.io/collector/config/configcompression v1.30.0
	go.opentelemetry.io/collector/config/configgrpc v0.124.0
	go.opentelemetry.io/collector/config/confighttp v0.124.0
	go.opentelemetry.io/collector/config/configmiddleware v0.0.0-00010101000000-000000000000
	go.opentelemetry.io/collector/config/confignet v1.30.0
	go.opentelemetry.io/collector/config/configopaque v1.30.0
	go.opentelemetry.io/collector/config/configretry v1.30.0
	go.opentelemetry.io/collector/config/configtelemetry v0.124.0
	go.opentelemetry.io/collector/config/configtls v1.30.0
	go.opentelemetry.io/collector/confmap v1.30.0
	go.opentelemetry.io/collector/confmap/provider/envprovider v1.30.0
	go.opentelemetry.io/collector/confmap/provider/fileprovider v1.30.0
	go.opentelemetry.io/collector/confmap/provider/httpprovider v1.30.0
	go.opentelemetry.io/collector/confmap/provider/httpsprovider v1.30.0
	go.opentelemetry.io/collector/confmap/provider/yamlprovider v1.30.0
	go.opentelemetry.io/collector/confmap/xconfmap v0.124.0
	go.opentelemetry.io/collector/connector v0.124.0
	go.opentelemetry.io/collector/connector/connectortest v0.124.0
	go.opentelemetry.io/collector/connector/forwardconnector v0.124.0
	go.opentelemetry.io/collector/connector/xconnector v0.124.0
	go.opentelemetry.io/collector/consumer v1.30.0
	go.opentelemetry.io/collector/consumer/consumererror v0.124.0
	go.opentelemetry.io/collector/consumer/consumererror/xconsumererror v0.124.0
	go.opentelemetry.io/collector/consumer/consumertest v0.124.0
	go.opentelemetry.io/collector/consumer/xconsumer v0.124.0
	go.opentelemetry.io/collector/exporter v0.124.0
	go.opentelemetry.io/collector/exporter/debugexporter v0.124.0
	go.opentelemetry.io/collector/exporter/exporterhelper/xexporterhelper v0.124.0
	go.opentelemetry.io/collector/exporter/exportertest v0.124.0
	go.opentelemetry.io/collector/exporter/nopexporter v0.124.0
	go.opentelemetry.io/collector/exporter/otlpexporter v0.124.0
	go.opentelemetry.io/collector/exporter/otlphttpexporter v0.124.0
	go.opentelemetry.io/collector/exporter/xexporter v0.124.0
	go.opentelemetry.io/collector/extension v1.30.0
	go.opentelemetry.io/collector/extension/extensionauth v1.30.0
	go.opentelemetry.io/collector/extension/extensioncapabilities v0.124.0
	go.opentelemetry.io/collector/extension/extensionmiddleware v1.30.0
	go.opentelemetry.io/collector/extension/extensiontest v0.124.0
	go.opentelemetry.io/collector/extension/memorylimiterextension v0.124.0
	go.opentelemetry.io/collector/extension/xextension v0.124.0
	go.opentelemetry.io/collector/extension/zpagesextension v0.124.0
	go.opentelemetry.io/collector/featuregate v1.30.0
	go.opentelemetry.io/collector/internal/fanoutconsumer v0.124.0
	go.opentelemetry.io/collector/internal/memorylimiter v0.124.0
	go.opentelemetry.io/collector/internal/sharedcomponent v0.124.0
	go.opentelemetry.io/collector/internal/telemetry v0.124.0
	go.opentelemetry.io/collector/otelcol v0.124.0
	go.opentelemetry.io/collector/pdata v1.30.0
	go.opentelemetry.io/collector/pdata/pprofile v0.124.0
	go.opentelemetry.io/collector/pdata/testdata v0.124.0
	go.opentelemetry.io/collector/pipeline v0.124.0
	go.opentelemetry.io/collector/pipeline/xpipeline v0.124.0
	go.opentelemetry.io/collector/processor v1.30.0
	go.opentelemetry.io/collector/processor/batchprocessor v0.124.0
	go.opentelemetry.io/collector/processor/memorylimiterprocessor v0.124.0
	go.opentelemetry.io/collector/processor/processorhelper v0.124.0
	go.opentelemetry.io/collector/processor/processorhelper/xprocessorhelper v0.124.0
	go.opentelemetry.io/collector/processor/processortest v0.124.0
	go.opentelemetry.io/collector/processor/xprocessor v0.124.0
	go.opentelemetry.io/collector/receiver v1.30.0
	go.opentelemetry.io/collector/receiver/nopreceiver v0.124.0
	go.opentelemetry.io/collector/receiver/otlpreceiver v0.124.0
	go.opentelemetry.io/collector/receiver/receiverhelper v0.124.0
	go.opentelemetry.io/collector/receiver/receivertest v0.124.0
	go.opentelemetry.io/collector/receiver/xreceiver v0.124.0
	go.opentelemetry.io/collector/scraper v0.124.0
	go.opentelemetry.io/collector/scraper/scraperhelper v0.0.0-00010101000000-000000000000
	go.opentelemetry.io/collector/semconv v0.124.0
	go.opentelemetry.io/collector/service v0.124.0
	go.opentelemetry.io/collector/service/hostcapabilities v0.124.0
	go.opentelemetry.io/otel v1.35.0
	go.opentelemetry.io/otel/sdk/metric v1.35.0
	go.uber.org/multierr v1.11.0
	go.uber.org/zap v1.27.0
	google.golang.org/genproto/googleapis/rpc v0.0.0-20250218202821-56aae31c358a
	google.golang.org/grpc v1.71.1
	google.golang.org/protobuf v1.36.6
	gopkg.in/yaml.v2 v2.4.0
	gopkg.in/yaml.v3 v3.0.1
)

require (
	github.com/beorn7/perks v1.0.1 // indirect
	github.com/cenkalti/backoff/v4 v4.3.0 // indirect
	github.com/cenkalti/backoff/v5 v5.0.2 // indirect
	github.com/cespare/xxhash/v2 v2.3.0 // indirect
	github.com/davecgh/go-spew v1.1.1 // indirect
	github.com/felixge/httpsnoop v1.0.4 // indirect
	github.com/fsnotify/fsnotify v1.9.0 // indirect
	github.com/go-logr/logr v1.4.2 // indirect
	github.com/go-logr/stdr v1.2.2 // indirect
	github.com/go-viper/mapstructure/v2 v2.2.1 // indirect
	github.com/gogo/protobuf v1.3.2 // indirect
	github.com/google/uuid v1.6.0 // indirect
	github.com/grpc-ecosystem/grpc-gateway/v2 v2.26.1 // indirect
	github.com/hashicorp/go-version v1.7.0 // indirect
	github.com/json-iterator/go v1.1.12 // indirect
	github.com/knadh/koanf/maps v0.1.2 // indirect
	github.com/knadh/koanf/providers/confmap v1.0.0 // indirect
	github.com/knadh/koanf/v2 v2.2.0 // indirect
	github.com/mitchellh/copystructure v1.2.0 // indirect
	github.com/mitchellh/reflectwalk v1.0.2 // indirect
	github.com/modern-go/concurrent v0.0.0-20180306012644-bacd9c7ef1dd // indirect
	github.com/modern-go/reflect2 v1.0.2 // indirect
	github.com/mostynb/go-grpc-compression v1.2.3 // indirect
	github.com/munnerz/goautoneg v0.0.0-20191010083416-a7dc8b61c822 // indirect
	github.com/pmezard/go-difflib v1.0.0 // indirect
	github.com/prometheus/client_golang v1.21.1 // indirect
	github.com/prometheus/client_model v0.6.1 // indirect
	github.com/prometheus/common v0.62.0 // indirect
	github.com/prometheus/procfs v0.15.1 // indirect
	github.com/rs/cors v1.11.1 // indirect
	github.com/shirou/gopsutil/v4 v4.25.3 // indirect
	github.com/spf13/cobra v1.9.1 // indirect
	github.com/spf13/pflag v1.0.6 // indirect
	github.com/stretchr/testify v1.10.0 // indirect
	github.com/tklauser/go-sysconf v0.3.12 // indirect
	github.com/tklauser/numcpus v0.6.1 // indirect
	go.opentelemetry.io/auto/sdk v1.1.0 // indirect
	go.opentelemetry.io/contrib/bridges/otelzap v0.10.0 // indirect
	go.opentelemetry.io/contrib/instrumentation/google.golang.org/grpc/otelgrpc v0.60.0 // indirect
	go.opentelemetry.io/contrib/instrumentation/net/http/otelhttp v0.60.0 // indirect
	go.opentelemetry.io/contrib/otelconf v0.15.0 // indirect
	go.opentelemetry.io/contrib/propagators/b3 v1.35.0 // indirect
	go.opentelemetry.io/contrib/zpages v0.60.0 // indirect
	go.opentelemetry.io/otel/exporters/otlp/otlplog/otlploggrpc v0.11.0 // indirect
	go.opentelemetry.io/otel/exporters/otlp/otlplog/otlploghttp v0.11.0 // indirect
	go.opentelemetry.io/otel/exporters/otlp/otlpmetric/otlpmetricgrpc v1.35.0 // indirect
	go.opentelemetry.io/otel/exporters/otlp/otlpmetric/otlpmetrichttp v1.35.0 // indirect
	go.opentelemetry.io/otel/exporters/otlp/otlptrace v1.35.0 // indirect
	go.opentelemetry.io/otel/exporters/otlp/otlptrace/otlptracegrpc v1.35.0 // indirect
	go.opentelemetry.io/otel/exporters/otlp/otlptrace/otlptracehttp v1.35.0 // indirect
	go.opentelemetry.io/otel/exporters/prometheus v0.57.0 // indirect
	go.opentelemetry.io/otel/exporters/stdout/stdoutlog v0.11.0 // indirect
	go.opentelemetry.io/otel/exporters/stdout/stdoutmetric v1.35.0 // indirect
	go.opentelemetry.io/otel/exporters/stdout/stdouttrace v1.35.0 // indirect
	go.opentelemetry.io/otel/log v0.11.0 // indirect
	go.opentelemetry.io/otel/metric v1.35.0 // indirect
	go.opentelemetry.io/otel/sdk v1.35.0 // indirect
	go.opentelemetry.io/otel/sdk/log v0.11.0 // indirect
	go.opentelemetry.io/otel/trace v1.35.0 // indirect
	go.opentelemetry.io/proto/otlp v1.5.0 // indirect
	golang.org/x/exp v0.0.0-20240506185415-9bf2ced13842 // indirect
	golang.org/x/net v0.39.0 // indirect
	golang.org/x/sys v0.32.0 // indirect
	golang.org/x/text v0.24.0 // indirect
	gonum.org/v1/gonum v0.16.0 // indirect
	google.golang.org/genproto/googleapis/api v0.0.0-20250218202821-56aae31c358a // indirect
	sigs.k8s.io/yaml v1.4.0 // indirect
)

replace go.opentelemetry.io/collector => /repo

replace go.opentelemetry.io/collector/client => /repo/client

replace go.opentelemetry.io/collector/cmd/builder => /repo/cmd/builder

replace go.opentelemetry.io/collector/cmd/mdatagen => /repo/cmd/mdatagen

replace go.opentelemetry.io/collector/cmd/otelcorecol => /repo/cmd/otelcorecol

replace go.opentelemetry.io/collector/component => /repo/component

replace go.opentelemetry.io/collector/component/componentstatus => /repo/component/componentstatus

replace go.opentelemetry.io/collector/component/componenttest => /repo/component/componenttest

replace go.opentelemetry.io/collector/config/configauth => /repo/config/configauth

replace go.opentelemetry.io/collector/config/configcompression => /repo/config/configcompression

replace go.opentelemetry.io/collector/config/configgrpc => /repo/config/configgrpc

replace go.opentelemetry.io/collector/config/confighttp => /repo/config/confighttp

replace go.opentelemetry.io/collector/config/confighttp/xconfighttp => /repo/config/confighttp/xconfighttp

replace go.opentelemetry.io/collector/config/configmiddleware => /repo/config/configmiddleware

replace go.opentelemetry.io/collector/config/confignet => /repo/config/confignet

replace go.opentelemetry.io/collector/config/configopaque => /repo/config/configopaque

replace go.opentelemetry.io/collector/config/configretry => /repo/config/configretry

replace go.opentelemetry.io/collector/config/configtelemetry => /repo/config/configtelemetry

replace go.opentelemetry.io/collector/config/configtls => /repo/config/configtls

replace go.opentelemetry.io/collector/confmap => /repo/confmap

replace go.opentelemetry.io/collector/confmap/internal/e2e => /repo/confmap/internal/e2e

replace go.opentelemetry.io/collector/confmap/provider/envprovider => /repo/confmap/provider/envprovider

replace go.opentelemetry.io/collector/confmap/provider/fileprovider => /repo/confmap/provider/fileprovider

replace go.opentelemetry.io/collector/confmap/provider/httpprovider => /repo/confmap/provider/httpprovider

replace go.opentelemetry.io/collector/confmap/provider/httpsprovider => /repo/confmap/provider/httpsprovider

replace go.opentelemetry.io/collector/confmap/provider/yamlprovider => /repo/confmap/provider/yamlprovider

replace go.opentelemetry.io/collector/confmap/xconfmap => /repo/confmap/xconfmap

replace go.opentelemetry.io/collector/connector => /repo/connector

replace go.opentelemetry.io/collector/connector/connectortest => /repo/connector/connectortest

replace go.opentelemetry.io/collector/connector/forwardconnector => /repo/connector/forwardconnector

replace go.opentelemetry.io/collector/connector/xconnector => /repo/connector/xconnector

replace go.opentelemetry.io/collector/consumer => /repo/consumer

replace go.opentelemetry.io/collector/consumer/consumererror => /repo/consumer/consumererror

replace go.opentelemetry.io/collector/consumer/consumererror/xconsumererror => /repo/consumer/consumererror/xconsumererror

replace go.opentelemetry.io/collector/consumer/consumertest => /repo/consumer/consumertest

replace go.opentelemetry.io/collector/consumer/xconsumer => /repo/consumer/xconsumer

replace go.opentelemetry.io/collector/exporter => /repo/exporter

replace go.opentelemetry.io/collector/exporter/debugexporter => /repo/exporter/debugexporter

replace go.opentelemetry.io/collector/exporter/exporterhelper/xexporterhelper => /repo/exporter/exporterhelper/xexporterhelper

replace go.opentelemetry.io/collector/exporter/exportertest => /repo/exporter/exportertest

replace go.opentelemetry.io/collector/exporter/nopexporter => /repo/exporter/nopexporter

replace go.opentelemetry.io/collector/exporter/otlpexporter => /repo/exporter/otlpexporter

replace go.opentelemetry.io/collector/exporter/otlphttpexporter => /repo/exporter/otlphttpexporter

replace go.opentelemetry.io/collector/exporter/xexporter => /repo/exporter/xexporter

replace go.opentelemetry.io/collector/extension => /repo/extension

replace go.opentelemetry.io/collector/extension/extensionauth => /repo/extension/extensionauth

replace go.opentelemetry.io/collector/extension/extensionauth/extensionauthtest => /repo/extension/extensionauth/extensionauthtest

replace go.opentelemetry.io/collector/extension/extensioncapabilities => /repo/extension/extensioncapabilities

replace go.opentelemetry.io/collector/extension/extensionmiddleware => /repo/extension/extensionmiddleware

replace go.opentelemetry.io/collector/extension/extensionmiddleware/extensionmiddlewaretest => /repo/extension/extensionmiddleware/extensionmiddlewaretest

replace go.opentelemetry.io/collector/extension/extensiontest => /repo/extension/extensiontest

replace go.opentelemetry.io/collector/extension/memorylimiterextension => /repo/extension/memorylimiterextension

replace go.opentelemetry.io/collector/extension/xextension => /repo/extension/xextension

replace go.opentelemetry.io/collector/extension/zpagesextension => /repo/extension/zpagesextension

replace go.opentelemetry.io/collector/featuregate => /repo/featuregate

replace go.opentelemetry.io/collector/filter => /repo/filter

replace go.opentelemetry.io/collector/internal/e2e => /repo/internal/e2e

replace go.opentelemetry.io/collector/internal/fanoutconsumer => /repo/internal/fanoutconsumer

replace go.opentelemetry.io/collector/internal/memorylimiter => /repo/internal/memorylimiter

replace go.opentelemetry.io/collector/internal/sharedcomponent => /repo/internal/sharedcomponent

replace go.opentelemetry.io/collector/internal/telemetry => /repo/internal/telemetry

replace go.opentelemetry.io/collector/internal/tools => /repo/internal/tools

replace go.opentelemetry.io/collector/otelcol => /repo/otelcol

replace go.opentelemetry.io/collector/otelcol/otelcoltest => /repo/otelcol/otelcoltest

replace go.opentelemetry.io/collector/pdata => /repo/pdata

replace go.opentelemetry.io/collector/pdata/pprofile => /repo/pdata/pprofile

replace go.opentelemetry.io/collector/pdata/testdata => /repo/pdata/testdata

replace go.opentelemetry.io/collector/pipeline => /repo/pipeline

replace go.opentelemetry.io/collector/pipeline/xpipeline => /repo/pipeline/xpipeline

replace go.opentelemetry.io/collector/processor => /repo/processor

replace go.opentelemetry.io/collector/processor/batchprocessor => /repo/processor/batchprocessor

replace go.opentelemetry.io/collector/processor/memorylimiterprocessor => /repo/processor/memorylimiterprocessor

replace go.opentelemetry.io/collector/processor/processorhelper => /repo/processor/processorhelper

replace go.opentelemetry.io/collector/processor/processorhelper/xprocessorhelper => /repo/processor/processorhelper/xprocessorhelper

replace go.opentelemetry.io/collector/processor/processortest => /repo/processor/processortest

replace go.opentelemetry.io/collector/processor/xprocessor => /repo/processor/xprocessor

replace go.opentelemetry.io/collector/receiver => /repo/receiver

replace go.opentelemetry.io/collector/receiver/nopreceiver => /repo/receiver/nopreceiver

replace go.opentelemetry.io/collector/receiver/otlpreceiver => /repo/receiver/otlpreceiver

replace go.opentelemetry.io/collector/receiver/receiverhelper => /repo/receiver/receiverhelper

replace go.opentelemetry.io/collector/receiver/receivertest => /repo/receiver/receivertest

replace go.opentelemetry.io/collector/receiver/xreceiver => /repo/receiver/xreceiver

replace go.opentelemetry.io/collector/scraper => /repo/scraper

replace go.opentelemetry.io/collector/scraper/scraperhelper => /repo/scraper/scraperhelper

replace go.opentelemetry.io/collector/scraper/scrapertest => /repo/scraper/scrapertest

replace go.opentelemetry.io/collector/semconv => /repo/semconv

replace go.opentelemetry.io/collector/service => /repo/service

replace go.opentelemetry.io/collector/service/hostcapabilities => /repo/service/hostcapabilities
