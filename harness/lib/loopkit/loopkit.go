// Package loopkit holds the small pieces shared by the loop-back checks (C15, C16): a component.Host
// with extensions, a thread-safe zap capture core with an optional synchronous hook, helpers to classify
// transport errors and to find the repository frame of a panic logged by net/http.
package loopkit

import (
	"context"
	"errors"
	"net"
	"os"
	"strings"
	"sync"
	"syscall"

	"go.uber.org/zap"
	"go.uber.org/zap/zapcore"

	"go.opentelemetry.io/collector/component"
)

// Host is a component.Host exposing a fixed extension map.
type Host struct {
	Ext map[component.ID]component.Component
}

func (h Host) GetExtensions() map[component.ID]component.Component { return h.Ext }

// Entry is one captured log entry.
type Entry struct {
	Level  zapcore.Level
	Msg    string
	Fields map[string]any
}

// LogCapture is a zapcore.Core that stores entries (bounded) and calls Hook synchronously from the
// logging goroutine after the entry was stored.
type LogCapture struct {
	mu      sync.Mutex
	entries []Entry
	with    []zapcore.Field
	root    *LogCapture
	Hook    func(Entry)
	Min     zapcore.Level
}

// NewLogCapture returns the capture and a logger writing into it.
func NewLogCapture(min zapcore.Level) (*LogCapture, *zap.Logger) {
	lc := &LogCapture{Min: min}
	lc.root = lc
	return lc, zap.New(lc)
}

func (l *LogCapture) Enabled(lv zapcore.Level) bool { return lv >= l.root.Min }

func (l *LogCapture) With(f []zapcore.Field) zapcore.Core {
	n := &LogCapture{root: l.root}
	n.with = append(append([]zapcore.Field{}, l.with...), f...)
	return n
}

func (l *LogCapture) Check(e zapcore.Entry, ce *zapcore.CheckedEntry) *zapcore.CheckedEntry {
	if l.Enabled(e.Level) {
		return ce.AddCore(e, l)
	}
	return ce
}

func (l *LogCapture) Write(e zapcore.Entry, fields []zapcore.Field) error {
	enc := zapcore.NewMapObjectEncoder()
	for _, f := range l.with {
		f.AddTo(enc)
	}
	for _, f := range fields {
		f.AddTo(enc)
	}
	ent := Entry{Level: e.Level, Msg: e.Message, Fields: enc.Fields}
	r := l.root
	r.mu.Lock()
	if len(r.entries) < 4096 {
		r.entries = append(r.entries, ent)
	}
	hook := r.Hook
	r.mu.Unlock()
	if hook != nil {
		hook(ent)
	}
	return nil
}

func (l *LogCapture) Sync() error { return nil }

// SetHook installs (or removes) the synchronous hook.
func (l *LogCapture) SetHook(h func(Entry)) {
	l.root.mu.Lock()
	l.root.Hook = h
	l.root.mu.Unlock()
}

// Drain returns and removes everything captured so far.
func (l *LogCapture) Drain() []Entry {
	r := l.root
	r.mu.Lock()
	defer r.mu.Unlock()
	out := r.entries
	r.entries = nil
	return out
}

// PanicIn looks for a "http: panic serving" line (net/http recovers handler panics and logs them through
// the server's ErrorLog) and returns the message, or "".
func PanicIn(es []Entry) string {
	for _, e := range es {
		if strings.Contains(e.Msg, "panic serving") || strings.Contains(e.Msg, "panic:") {
			return e.Msg
		}
	}
	return ""
}

// RepoFrame returns the innermost go.opentelemetry.io/collector frame (not the harness) named in a
// panic text, or "".
func RepoFrame(text string) string {
	for _, l := range strings.Split(text, "\n") {
		l = strings.TrimSpace(l)
		if !strings.HasPrefix(l, "go.opentelemetry.io/collector/") || strings.Contains(l, "/verifharness/") {
			continue
		}
		if i := strings.LastIndex(l, "("); i > 0 {
			l = l[:i] // drop the argument list, keep "(*T).method"
		}
		return strings.TrimPrefix(l, "go.opentelemetry.io/collector/")
	}
	return ""
}

// IsTimeout tells whether a client-side error is a deadline/timeout (an infrastructure guard firing).
func IsTimeout(err error) bool {
	if err == nil {
		return false
	}
	if errors.Is(err, context.DeadlineExceeded) || errors.Is(err, os.ErrDeadlineExceeded) {
		return true
	}
	var ne net.Error
	if errors.As(err, &ne) && ne.Timeout() {
		return true
	}
	return strings.Contains(err.Error(), "Client.Timeout")
}

// IsEarlyClose tells whether a client-side error is what a client sees when the server answered (or
// closed) before the request body was written completely.
func IsEarlyClose(err error) bool {
	if err == nil {
		return false
	}
	if errors.Is(err, syscall.EPIPE) || errors.Is(err, syscall.ECONNRESET) {
		return true
	}
	s := err.Error()
	return strings.Contains(s, "broken pipe") || strings.Contains(s, "connection reset") || strings.Contains(s, "EOF") ||
		strings.Contains(s, "server closed") || strings.Contains(s, "use of closed network connection")
}
