// Package qstore is the storage extension the queue checks hand to the exporter helper: an in-memory
// key/value store whose every call is one atomic operation, numbered by a global counter, that can
// "die" at a chosen operation boundary (the durable image is frozen, every later call fails and
// changes nothing) and that logs the shape of every operation.
package qstore

import (
	"context"
	"crypto/sha256"
	"encoding/hex"
	"errors"
	"sort"
	"sync"

	"go.opentelemetry.io/collector/component"
	"go.opentelemetry.io/collector/extension/xextension/storage"
)

// ErrDead is returned by every operation at and after the death boundary.
var ErrDead = errors.New("storage: process died (injected)")

// OpRec describes one executed storage call.
type OpRec struct {
	N       int // 1-based number of the call among executed calls
	Kind    string
	Sets    int
	Gets    int
	Deletes int
}

// Store is the durable medium shared by successive incarnations.
type Store struct {
	mu      sync.Mutex
	live    map[string][]byte
	ops     int
	crashAt int // death happens instead of executing call number crashAt+1 (boundary after crashAt calls); -1 never
	dead    bool
	snap    map[string][]byte
	deadCh  chan struct{}
	opCh    chan OpRec
	closed  int
	afterCl int
	failN   map[int]error // transient error injected at call number n (call is not executed, store stays alive)
	Log     []OpRec

	// pause: delay injection INSIDE a storage call (before it executes): the next call matching pausePred
	// announces itself on PausedCh and waits for Resume. Code that holds its lock across the call keeps
	// everybody else out meanwhile; code that dropped the lock around its storage I/O lets other calls through.
	honorCtx bool // calls whose context has ended fail with the context's error (off by default)

	pausePred func(kind string, sets, gets, dels int) bool
	pausedCh  chan struct{}
	resumeCh  chan struct{}
}

// New returns a store with the given initial content that dies at boundary crashAt (-1: never).
func New(initial map[string][]byte, crashAt int) *Store {
	return &Store{live: Copy(initial), crashAt: crashAt, deadCh: make(chan struct{}), opCh: make(chan OpRec, 4096)}
}

// Copy deep-copies a key/value image.
func Copy(m map[string][]byte) map[string][]byte {
	o := make(map[string][]byte, len(m))
	for k, v := range m {
		o[k] = append([]byte(nil), v...)
	}
	return o
}

// Hash is a canonical digest of an image.
func Hash(m map[string][]byte) string {
	ks := make([]string, 0, len(m))
	for k := range m {
		ks = append(ks, k)
	}
	sort.Strings(ks)
	h := sha256.New()
	for _, k := range ks {
		h.Write([]byte(k))
		h.Write([]byte{0})
		h.Write(m[k])
		h.Write([]byte{1})
	}
	return hex.EncodeToString(h.Sum(nil)[:8])
}

// HonorContext makes every later call check its context first, like a storage client backed by a remote
// service or a database driver does: a call whose context has ended returns the context's error and is not
// executed (it is not counted as an operation either).
func (s *Store) HonorContext(on bool) { s.mu.Lock(); s.honorCtx = on; s.mu.Unlock() }

func (s *Store) ctxErr(ctx context.Context) error {
	s.mu.Lock()
	h := s.honorCtx
	s.mu.Unlock()
	if h && ctx != nil {
		return ctx.Err()
	}
	return nil
}

// PauseNext arms the delay: the next call for which pred holds blocks (before executing) until Resume.
// Returns the channel on which that call announces itself.
func (s *Store) PauseNext(pred func(kind string, sets, gets, dels int) bool) <-chan struct{} {
	s.mu.Lock()
	defer s.mu.Unlock()
	s.pausePred = pred
	s.pausedCh = make(chan struct{})
	s.resumeCh = make(chan struct{})
	return s.pausedCh
}

// Resume lets the paused call (if any) proceed and disarms the delay.
func (s *Store) Resume() {
	s.mu.Lock()
	s.pausePred = nil
	rc := s.resumeCh
	s.resumeCh = nil
	s.mu.Unlock()
	if rc != nil {
		close(rc)
	}
}

// maybePause is called at the start of every storage call, without the store's lock.
func (s *Store) maybePause(kind string, sets, gets, dels int) {
	s.mu.Lock()
	if s.pausePred == nil || s.dead || !s.pausePred(kind, sets, gets, dels) {
		s.mu.Unlock()
		return
	}
	s.pausePred = nil
	pc, rc := s.pausedCh, s.resumeCh
	s.mu.Unlock()
	close(pc)
	<-rc
}

func (s *Store) pre(kind string, sets, gets, dels int) error {
	if s.dead {
		return ErrDead
	}
	if s.crashAt >= 0 && s.ops == s.crashAt {
		s.dead = true
		s.snap = Copy(s.live)
		close(s.deadCh)
		return ErrDead
	}
	if s.closed > 0 {
		s.afterCl++
	}
	s.ops++
	if err, ok := s.failN[s.ops]; ok {
		return err
	}
	r := OpRec{N: s.ops, Kind: kind, Sets: sets, Gets: gets, Deletes: dels}
	if len(s.Log) < 4096 {
		s.Log = append(s.Log, r)
	}
	select {
	case s.opCh <- r:
	default:
	}
	return nil
}

// Ops returns the number of executed calls.
func (s *Store) Ops() int { s.mu.Lock(); defer s.mu.Unlock(); return s.ops }

// Dead reports whether the death boundary was reached.
func (s *Store) Dead() bool { s.mu.Lock(); defer s.mu.Unlock(); return s.dead }

// DeadCh is closed at the death.
func (s *Store) DeadCh() <-chan struct{} { return s.deadCh }

// OpCh delivers a record per executed call (best effort, buffered).
func (s *Store) OpCh() <-chan OpRec { return s.opCh }

// Image returns the durable image: the snapshot frozen at the death, or a copy of the live content.
func (s *Store) Image() map[string][]byte {
	s.mu.Lock()
	defer s.mu.Unlock()
	if s.snap != nil {
		return Copy(s.snap)
	}
	return Copy(s.live)
}

// UseAfterClose counts calls made after Close.
func (s *Store) UseAfterClose() int { s.mu.Lock(); defer s.mu.Unlock(); return s.afterCl }

// FailAt makes call number n return err without being executed (the store stays alive).
func (s *Store) FailAt(n int, err error) {
	s.mu.Lock()
	if s.failN == nil {
		s.failN = map[int]error{}
	}
	s.failN[n] = err
	s.mu.Unlock()
}

// Reopen clears the closed flag (a new incarnation obtained a client).
func (s *Store) Reopen() { s.mu.Lock(); s.closed = 0; s.mu.Unlock() }

func (s *Store) Get(ctx context.Context, k string) ([]byte, error) {
	if err := s.ctxErr(ctx); err != nil {
		return nil, err
	}
	s.maybePause("get", 0, 1, 0)
	s.mu.Lock()
	defer s.mu.Unlock()
	if err := s.pre("get", 0, 1, 0); err != nil {
		return nil, err
	}
	v, ok := s.live[k]
	if !ok {
		return nil, nil
	}
	return append([]byte(nil), v...), nil
}

func (s *Store) Set(ctx context.Context, k string, v []byte) error {
	if err := s.ctxErr(ctx); err != nil {
		return err
	}
	s.maybePause("set", 1, 0, 0)
	s.mu.Lock()
	defer s.mu.Unlock()
	if err := s.pre("set", 1, 0, 0); err != nil {
		return err
	}
	s.live[k] = append([]byte(nil), v...)
	return nil
}

func (s *Store) Delete(ctx context.Context, k string) error {
	if err := s.ctxErr(ctx); err != nil {
		return err
	}
	s.maybePause("delete", 0, 0, 1)
	s.mu.Lock()
	defer s.mu.Unlock()
	if err := s.pre("delete", 0, 0, 1); err != nil {
		return err
	}
	delete(s.live, k)
	return nil
}

func (s *Store) Batch(ctx context.Context, ops ...*storage.Operation) error {
	if err := s.ctxErr(ctx); err != nil {
		return err
	}
	var sets, gets, dels int
	for _, op := range ops {
		switch op.Type {
		case storage.Get:
			gets++
		case storage.Set:
			sets++
		case storage.Delete:
			dels++
		}
	}
	s.maybePause("batch", sets, gets, dels)
	s.mu.Lock()
	defer s.mu.Unlock()
	if err := s.pre("batch", sets, gets, dels); err != nil {
		return err
	}
	for _, op := range ops {
		switch op.Type {
		case storage.Get:
			if v, ok := s.live[op.Key]; ok {
				op.Value = append([]byte(nil), v...)
			} else {
				op.Value = nil
			}
		case storage.Set:
			s.live[op.Key] = append([]byte(nil), op.Value...)
		case storage.Delete:
			delete(s.live, op.Key)
		}
	}
	return nil
}

func (s *Store) Close(context.Context) error {
	s.mu.Lock()
	s.closed++
	s.mu.Unlock()
	return nil
}

// Ext is a storage.Extension serving one Store.
type Ext struct {
	component.StartFunc
	component.ShutdownFunc
	S *Store
}

func (e *Ext) GetClient(context.Context, component.Kind, component.ID, string) (storage.Client, error) {
	e.S.Reopen()
	return e.S, nil
}

// ID is the component id under which the host exposes the extension.
var ID = component.MustNewID("verifstore")

// Host exposes the storage extension.
type Host struct{ E *Ext }

func (h Host) GetExtensions() map[component.ID]component.Component {
	return map[component.ID]component.Component{ID: h.E}
}

// NewHost wraps a store.
func NewHost(s *Store) Host { return Host{E: &Ext{S: s}} }
