package statuskit

import (
	"context"
	"errors"
	"fmt"
	"runtime"
	"sort"
	"strings"
	"sync"
	"sync/atomic"

	"go.uber.org/zap/zapcore"

	"go.opentelemetry.io/collector/component"
	"go.opentelemetry.io/collector/component/componentstatus"
	"go.opentelemetry.io/collector/config/configtelemetry"
	"go.opentelemetry.io/collector/connector"
	"go.opentelemetry.io/collector/consumer"
	"go.opentelemetry.io/collector/exporter"
	"go.opentelemetry.io/collector/extension"
	"go.opentelemetry.io/collector/internal/sharedcomponent"
	"go.opentelemetry.io/collector/pdata/plog"
	"go.opentelemetry.io/collector/pdata/pmetric"
	"go.opentelemetry.io/collector/pdata/ptrace"
	"go.opentelemetry.io/collector/pipeline"
	"go.opentelemetry.io/collector/processor"
	"go.opentelemetry.io/collector/receiver"
	"go.opentelemetry.io/collector/service"
	"go.opentelemetry.io/collector/service/extensions"
	"go.opentelemetry.io/collector/service/pipelines"
	"go.opentelemetry.io/collector/service/telemetry"
)

// Script is what one scripted component reports, and where.
//
// Start[0] is reported inline from inside Start; Start[1:] are goroutines spawned just before Start
// returns (they race with the service's automatic OK and are joined after service.Start returned).
// Run threads report between start and shutdown, each on its own goroutine. Stop is like Start, inside
// Shutdown (Stop[1:] race with the automatic Stopped). After threads report after service.Shutdown.
type Script struct {
	Start    [][]S `json:"start,omitempty"`
	Run      [][]S `json:"run,omitempty"`
	Stop     [][]S `json:"stop,omitempty"`
	After    [][]S `json:"after,omitempty"`
	StartErr bool  `json:"start_err,omitempty"`
	StopErr  bool  `json:"stop_err,omitempty"`
	Yields   int   `json:"yields,omitempty"` // Gosched calls between two reports of a spawned thread
}

func threads(t [][]S) string {
	p := make([]string, len(t))
	for i, x := range t {
		p[i] = Names(x)
	}
	return strings.Join(p, "|")
}

// String is the canonical identity of a script.
func (s Script) String() string {
	r := fmt.Sprintf("start{%s} run{%s} stop{%s} after{%s}", threads(s.Start), threads(s.Run), threads(s.Stop), threads(s.After))
	if s.StartErr {
		r += " startErr"
	}
	if s.StopErr {
		r += " stopErr"
	}
	return r
}

// Concurrent reports whether some phase has more than one reporting thread for the instance.
func (s Script) Concurrent() bool {
	return len(s.Start) > 1 || len(s.Run) > 1 || len(s.Stop) > 1 || len(s.After) > 1
}

// Reports is the number of scripted reports.
func (s Script) Reports() int {
	n := 0
	for _, ph := range [][][]S{s.Start, s.Run, s.Stop, s.After} {
		for _, t := range ph {
			n += len(t)
		}
	}
	return n
}

// Kinds of scripted instances.
const (
	KReceiver  = "receiver"
	KProcessor = "processor"
	KExporter  = "exporter"
	KConnector = "connector"
	KExtension = "extension"
	KShared    = "shared-receiver" // one underlying component behind 2–3 per-signal receiver instances (internal/sharedcomponent)
)

// Spec is one scripted component of a service lifetime.
type Spec struct {
	Kind    string `json:"kind"`
	Signals int    `json:"signals,omitempty"` // KShared: 2 (logs, traces) or 3 (+ metrics)
	Script  Script `json:"script"`
}

// Delivered is one event seen by a watcher.
type Delivered struct {
	Ev  *componentstatus.Event
	Seq int64
}

// watcherExt records every ComponentStatusChanged call.
type watcherExt struct {
	w   *World
	idx int
	mu  sync.Mutex
	got map[*componentstatus.InstanceID][]Delivered
}

func (x *watcherExt) Start(context.Context, component.Host) error { return nil }
func (x *watcherExt) Shutdown(context.Context) error              { return nil }
func (x *watcherExt) ComponentStatusChanged(src *componentstatus.InstanceID, ev *componentstatus.Event) {
	seq := x.w.seq.Add(1)
	x.mu.Lock()
	x.got[src] = append(x.got[src], Delivered{ev, seq})
	x.mu.Unlock()
}

// member is one service-level instance (what the watcher sees as one InstanceID).
type member struct {
	key      string // kind:id[@signal]
	owner    *scripted
	signal   string
	startSeq int64 // order of the Start call on this instance, 0 = never
	stopSeq  int64
}

// scripted is one scripted component (for KShared: the single underlying component).
type scripted struct {
	w       *World
	idx     int
	spec    *Spec
	id      component.ID
	members []*member
	shared  *sharedcomponent.Component[*scripted]

	mu          sync.Mutex
	host        component.Host
	noReporter  bool // the host handed to Start does not implement componentstatus.Reporter: ReportStatus is documented to do nothing
	startCalls  int
	stopCalls   int
	reported    map[*componentstatus.Event]struct{}
	nReported   int
	startFailed bool
}

var errInjected = errors.New("injected failure")

func (c *scripted) report(s S) {
	ev := NewEvent(s, c.id.String())
	c.mu.Lock()
	h := c.host
	if h != nil {
		c.reported[ev] = struct{}{}
		c.nReported++
	}
	c.mu.Unlock()
	if h == nil {
		return
	}
	componentstatus.ReportStatus(h, ev)
}

func (c *scripted) thread(seq []S, yields int) {
	for _, s := range seq {
		for i := 0; i < yields; i++ {
			runtime.Gosched()
		}
		c.report(s)
	}
}

func (c *scripted) Start(_ context.Context, host component.Host) error {
	_, isReporter := host.(componentstatus.Reporter)
	c.mu.Lock()
	c.host = host
	c.noReporter = !isReporter
	c.startCalls++
	c.mu.Unlock()
	sc := &c.spec.Script
	if len(sc.Start) > 0 {
		c.thread(sc.Start[0], 0)
		for _, th := range sc.Start[1:] {
			th := th
			c.w.bg.Add(1)
			go func() { defer c.w.bg.Done(); c.thread(th, sc.Yields) }()
		}
	}
	if sc.StartErr {
		c.mu.Lock()
		c.startFailed = true
		c.mu.Unlock()
		return errInjected
	}
	return nil
}

func (c *scripted) Shutdown(context.Context) error {
	c.mu.Lock()
	c.stopCalls++
	c.mu.Unlock()
	sc := &c.spec.Script
	if len(sc.Stop) > 0 {
		c.thread(sc.Stop[0], 0)
		for _, th := range sc.Stop[1:] {
			th := th
			c.w.bg.Add(1)
			go func() { defer c.w.bg.Done(); c.thread(th, sc.Yields) }()
		}
	}
	if sc.StopErr {
		return errInjected
	}
	return nil
}

func (c *scripted) Capabilities() consumer.Capabilities                { return consumer.Capabilities{} }
func (c *scripted) ConsumeLogs(context.Context, plog.Logs) error       { return nil }
func (c *scripted) ConsumeTraces(context.Context, ptrace.Traces) error { return nil }
func (c *scripted) ConsumeMetrics(context.Context, pmetric.Metrics) error {
	return nil
}

// memberComp is what the service holds for one member: it forwards to the scripted component (directly,
// or through the sharedcomponent wrapper) and notes the order of the lifecycle calls per instance.
type memberComp struct {
	*scripted
	m *member
}

func (mc *memberComp) Start(ctx context.Context, host component.Host) error {
	mc.m.startSeq = mc.w.seq.Add(1)
	if mc.shared != nil {
		return mc.shared.Start(ctx, host)
	}
	return mc.scripted.Start(ctx, host)
}

func (mc *memberComp) Shutdown(ctx context.Context) error {
	mc.m.stopSeq = mc.w.seq.Add(1)
	if mc.shared != nil {
		return mc.shared.Shutdown(ctx)
	}
	return mc.scripted.Shutdown(ctx)
}

// World is one service lifetime hosting many scripted instances.
type World struct {
	Specs     []Spec
	NWatchers int
	// WatcherPos places the watcher extensions among the scripted extensions: 0 first, 1 last.
	WatcherPos int
	// ExtRepeat makes service::extensions list some ids more than once (nothing validates against that; the
	// service is expected to collapse them: one instance, every status event delivered once per watcher):
	// 0 none; 1 the first watcher twice, adjacent; 2 the first watcher twice, other extensions in between;
	// 3 a non-watcher extension twice; 4 the first watcher three times; 5 every watcher twice and a non-watcher twice.
	ExtRepeat int

	seq      atomic.Int64
	bg       sync.WaitGroup
	comps    []*scripted
	byID     map[component.ID]*scripted
	watchers []*watcherExt
	plain    []*member // unscripted instances (sink exporter per signal, watcher extensions)

}

// One process-wide, never closed, continuously drained channel serves as AsyncErrorChannel of every
// lifetime (a FatalError report is forwarded to it while the reporter's mutex is held; with the C20-a
// repair the send happens on a goroutine of its own, which must never meet a closed channel).
var (
	asyncOnce  sync.Once
	asyncCh    chan error
	asyncCount atomic.Int64
)

func asyncChannel() chan error {
	asyncOnce.Do(func() {
		asyncCh = make(chan error, 256)
		go func() {
			for range asyncCh {
				asyncCount.Add(1)
			}
		}()
	})
	return asyncCh
}

type cfg struct{}

var (
	tRecv   = component.MustNewType("sr")
	tShared = component.MustNewType("sh")
	tProc   = component.MustNewType("sp")
	tExp    = component.MustNewType("se")
	tSink   = component.MustNewType("sink")
	tConn   = component.MustNewType("sc")
	tExt    = component.MustNewType("sx")
	tWatch  = component.MustNewType("zw")
)

var signalNames = []string{"logs", "traces", "metrics"}

// Result is what one lifetime produced.
type Result struct {
	Instances  []*InstanceResult
	StartErr   error
	Events     int64 // events delivered to watcher 0
	AsyncErrs  int64
	FatalSeen  int64
	Unexpected []string // events for instances the harness did not create
}

// InstanceResult is the verdict input for one InstanceID.
type InstanceResult struct {
	Key       string
	Kind      string
	Mode      string // seq | conc
	Spec      *Spec
	SpecIdx   int
	Phases    []Phase
	Delivered [][]S // per watcher
	Problems  []Problem
	Rejected  int // scripted reports the reference rejects (sequential order)
	Late      bool
	NoReport  bool    // host is no status Reporter (scripted reports are documented no-ops)
	BeyondBuf bool    // shared, attached late, after more reports than sharedcomponent's replay buffer (5) holds
	Last5     []Phase // BeyondBuf: what the known defect C11-a predicts (replay of exactly the last 5 reports)
}

// Problem is one refutation found by Verify.
type Problem struct {
	Sub  string
	What string
	Sig  []string
}

func newComp(w *World, idx int, sp *Spec, t component.Type) *scripted {
	c := &scripted{w: w, idx: idx, spec: sp, id: component.MustNewIDWithName(t.String(), fmt.Sprintf("i%d", idx)), reported: map[*componentstatus.Event]struct{}{}}
	w.comps = append(w.comps, c)
	w.byID[c.id] = c
	return c
}

func (c *scripted) addMember(kind component.Kind, signal string) *member {
	k := strings.ToLower(kind.String()) + ":" + c.id.String()
	if signal != "" {
		k += "@" + signal
	}
	m := &member{key: k, owner: c, signal: signal}
	c.members = append(c.members, m)
	return m
}

func (c *scripted) memberFor(signal string) *memberComp {
	if signal == "" && len(c.members) == 1 {
		return &memberComp{c, c.members[0]}
	}
	for _, m := range c.members {
		if m.signal == signal {
			return &memberComp{c, m}
		}
	}
	panic("statuskit: no member for signal " + signal + " of " + c.id.String())
}

// Execute runs the lifetime: build, start, run phase, shutdown, after phase; then builds the reference
// inputs per instance from what was observed (which instances were started, in which order).
func (w *World) Execute() (*Result, error) {
	w.byID = map[component.ID]*scripted{}
	ctx := context.Background()
	rcfg := map[component.ID]component.Config{}
	pcfg := map[component.ID]component.Config{}
	ecfg := map[component.ID]component.Config{}
	ccfg := map[component.ID]component.Config{}
	xcfg := map[component.ID]component.Config{}
	var logsR, logsP, logsE, tracesR, metricsR []component.ID
	var exts []component.ID
	for i := range w.Specs {
		sp := &w.Specs[i]
		switch sp.Kind {
		case KReceiver:
			c := newComp(w, i, sp, tRecv)
			c.addMember(component.KindReceiver, "logs")
			rcfg[c.id] = &cfg{}
			logsR = append(logsR, c.id)
		case KShared:
			c := newComp(w, i, sp, tShared)
			n := sp.Signals
			if n < 2 {
				n = 2
			}
			for _, sg := range signalNames[:n] {
				c.addMember(component.KindReceiver, sg)
			}
			rcfg[c.id] = &cfg{}
			logsR = append(logsR, c.id)
			tracesR = append(tracesR, c.id)
			if n > 2 {
				metricsR = append(metricsR, c.id)
			}
		case KProcessor:
			c := newComp(w, i, sp, tProc)
			c.addMember(component.KindProcessor, "logs")
			pcfg[c.id] = &cfg{}
			logsP = append(logsP, c.id)
		case KExporter:
			c := newComp(w, i, sp, tExp)
			c.addMember(component.KindExporter, "logs")
			ecfg[c.id] = &cfg{}
			logsE = append(logsE, c.id)
		case KConnector:
			c := newComp(w, i, sp, tConn)
			c.addMember(component.KindConnector, "logs")
			ccfg[c.id] = &cfg{}
			logsE = append(logsE, c.id)
			tracesR = append(tracesR, c.id)
		case KExtension:
			c := newComp(w, i, sp, tExt)
			c.addMember(component.KindExtension, "")
			xcfg[c.id] = &cfg{}
			exts = append(exts, c.id)
		default:
			return nil, fmt.Errorf("unknown kind %q", sp.Kind)
		}
	}
	sinkID := component.NewID(tSink)
	ecfg[sinkID] = &cfg{}
	logsE = append(logsE, sinkID)
	plainRecv := component.MustNewIDWithName("sr", "plain")
	if len(logsR) == 0 {
		rcfg[plainRecv] = &cfg{}
		logsR = append(logsR, plainRecv)
	}
	nw := w.NWatchers
	if nw < 1 {
		nw = 1
	}
	var wids []component.ID
	for i := 0; i < nw; i++ {
		id := component.MustNewIDWithName("zw", fmt.Sprintf("w%d", i))
		wx := &watcherExt{w: w, idx: i, got: map[*componentstatus.InstanceID][]Delivered{}}
		w.watchers = append(w.watchers, wx)
		xcfg[id] = &cfg{}
		wids = append(wids, id)
	}
	if w.ExtRepeat != 0 && len(exts) == 0 {
		// something that is not a watcher, to repeat or to stand in between
		id := component.MustNewIDWithName("sx", "plain")
		xcfg[id] = &cfg{}
		exts = append(exts, id)
	}
	other := component.ID{}
	if len(exts) > 0 {
		other = exts[len(exts)/2]
	}
	if w.WatcherPos == 0 {
		exts = append(append([]component.ID{}, wids...), exts...)
	} else {
		exts = append(exts, wids...)
	}
	insertAfter := func(list []component.ID, id component.ID) []component.ID {
		for i, x := range list {
			if x == id {
				out := append([]component.ID{}, list[:i+1]...)
				out = append(out, id)
				return append(out, list[i+1:]...)
			}
		}
		return list
	}
	farEnd := func(list []component.ID, id component.ID) []component.ID {
		if w.WatcherPos == 0 {
			return append(list, id)
		}
		return append([]component.ID{id}, list...)
	}
	switch w.ExtRepeat {
	case 1:
		exts = insertAfter(exts, wids[0])
	case 2:
		exts = farEnd(exts, wids[0])
	case 3:
		if w.WatcherPos == 0 {
			exts = append(exts, other)
		} else {
			exts = insertAfter(exts, other)
		}
	case 4:
		exts = farEnd(insertAfter(exts, wids[0]), wids[0])
	case 5:
		for _, id := range wids {
			exts = farEnd(exts, id)
		}
		exts = insertAfter(exts, other)
	}

	mk := func() component.Config { return &cfg{} }
	st := component.StabilityLevelStable
	sharedMap := sharedcomponent.NewMap[component.ID, *scripted]()
	getShared := func(id component.ID, signal string) (*memberComp, error) {
		c := w.byID[id]
		if c == nil {
			return nil, fmt.Errorf("no scripted component %s", id)
		}
		sc, err := sharedMap.LoadOrStore(id, func() (*scripted, error) { return c, nil })
		if err != nil {
			return nil, err
		}
		c.shared = sc
		return c.memberFor(signal), nil
	}
	plainComp := func() *scripted {
		return &scripted{w: w, spec: &Spec{}, reported: map[*componentstatus.Event]struct{}{}}
	}
	ch := asyncChannel()
	async0 := asyncCount.Load()
	set := service.Settings{
		BuildInfo:         component.NewDefaultBuildInfo(),
		AsyncErrorChannel: ch,
		ReceiversConfigs:  rcfg,
		ReceiversFactories: map[component.Type]receiver.Factory{
			tRecv: receiver.NewFactory(tRecv, mk, receiver.WithLogs(func(_ context.Context, s receiver.Settings, _ component.Config, _ consumer.Logs) (receiver.Logs, error) {
				if c := w.byID[s.ID]; c != nil {
					return c.memberFor(""), nil
				}
				return plainComp(), nil
			}, st)),
			tShared: receiver.NewFactory(tShared, mk,
				receiver.WithLogs(func(_ context.Context, s receiver.Settings, _ component.Config, _ consumer.Logs) (receiver.Logs, error) {
					return getShared(s.ID, "logs")
				}, st),
				receiver.WithTraces(func(_ context.Context, s receiver.Settings, _ component.Config, _ consumer.Traces) (receiver.Traces, error) {
					return getShared(s.ID, "traces")
				}, st),
				receiver.WithMetrics(func(_ context.Context, s receiver.Settings, _ component.Config, _ consumer.Metrics) (receiver.Metrics, error) {
					return getShared(s.ID, "metrics")
				}, st)),
		},
		ProcessorsConfigs: pcfg,
		ProcessorsFactories: map[component.Type]processor.Factory{
			tProc: processor.NewFactory(tProc, mk, processor.WithLogs(func(_ context.Context, s processor.Settings, _ component.Config, _ consumer.Logs) (processor.Logs, error) {
				return w.byID[s.ID].memberFor(""), nil
			}, st)),
		},
		ExportersConfigs: ecfg,
		ExportersFactories: map[component.Type]exporter.Factory{
			tExp: exporter.NewFactory(tExp, mk, exporter.WithLogs(func(_ context.Context, s exporter.Settings, _ component.Config) (exporter.Logs, error) {
				return w.byID[s.ID].memberFor(""), nil
			}, st)),
			tSink: exporter.NewFactory(tSink, mk,
				exporter.WithLogs(func(context.Context, exporter.Settings, component.Config) (exporter.Logs, error) {
					return plainComp(), nil
				}, st),
				exporter.WithTraces(func(context.Context, exporter.Settings, component.Config) (exporter.Traces, error) {
					return plainComp(), nil
				}, st),
				exporter.WithMetrics(func(context.Context, exporter.Settings, component.Config) (exporter.Metrics, error) {
					return plainComp(), nil
				}, st)),
		},
		ConnectorsConfigs: ccfg,
		ConnectorsFactories: map[component.Type]connector.Factory{
			tConn: connector.NewFactory(tConn, mk, connector.WithLogsToTraces(func(_ context.Context, s connector.Settings, _ component.Config, _ consumer.Traces) (connector.Logs, error) {
				return w.byID[s.ID].memberFor(""), nil
			}, st)),
		},
		ExtensionsConfigs: xcfg,
		ExtensionsFactories: map[component.Type]extension.Factory{
			tExt: extension.NewFactory(tExt, mk, func(_ context.Context, s extension.Settings, _ component.Config) (extension.Extension, error) {
				if c := w.byID[s.ID]; c != nil {
					return c.memberFor(""), nil
				}
				return plainComp(), nil
			}, st),
			tWatch: extension.NewFactory(tWatch, mk, func(_ context.Context, s extension.Settings, _ component.Config) (extension.Extension, error) {
				for i, id := range wids {
					if id == s.ID {
						return w.watchers[i], nil
					}
				}
				return nil, errors.New("unknown watcher")
			}, st),
		},
	}
	pl := pipelines.Config{pipeline.NewID(pipeline.SignalLogs): {Receivers: logsR, Processors: logsP, Exporters: logsE}}
	if len(tracesR) > 0 {
		pl[pipeline.NewID(pipeline.SignalTraces)] = &pipelines.PipelineConfig{Receivers: tracesR, Exporters: []component.ID{sinkID}}
	}
	if len(metricsR) > 0 {
		pl[pipeline.NewID(pipeline.SignalMetrics)] = &pipelines.PipelineConfig{Receivers: metricsR, Exporters: []component.ID{sinkID}}
	}
	scfg := service.Config{
		Telemetry: telemetry.Config{
			Logs:    telemetry.LogsConfig{Level: zapcore.FatalLevel, Encoding: "console", OutputPaths: []string{"/dev/null"}, ErrorOutputPaths: []string{"/dev/null"}},
			Metrics: telemetry.MetricsConfig{Level: configtelemetry.LevelNone},
		},
		Extensions: extensions.Config(exts),
		Pipelines:  pl,
	}
	srv, err := service.New(ctx, set, scfg)
	if err != nil {
		return nil, fmt.Errorf("service.New: %w", err)
	}
	res := &Result{}
	res.StartErr = srv.Start(ctx)
	w.bg.Wait()
	if res.StartErr == nil {
		w.parallel(func(c *scripted) [][]S { return c.spec.Script.Run })
	}
	_ = srv.Shutdown(ctx)
	w.bg.Wait()
	w.parallel(func(c *scripted) [][]S { return c.spec.Script.After })
	for i := 0; i < 1000 && len(ch) > 0; i++ { // observation only: let the drainer catch up
		runtime.Gosched()
	}
	res.AsyncErrs = asyncCount.Load() - async0
	w.collect(res)
	return res, nil
}

// parallel runs the selected threads of every scripted component, all released together.
func (w *World) parallel(sel func(*scripted) [][]S) {
	var wg sync.WaitGroup
	release := make(chan struct{})
	for _, c := range w.comps {
		for _, th := range sel(c) {
			if len(th) == 0 {
				continue
			}
			c, th := c, th
			wg.Add(1)
			go func() {
				defer wg.Done()
				<-release
				c.thread(th, c.spec.Script.Yields)
			}()
		}
	}
	close(release)
	wg.Wait()
}

func in(seq []S) []Input {
	out := make([]Input, len(seq))
	for i, s := range seq {
		out[i] = Input{St: s}
	}
	return out
}

func ins(ths [][]S) Phase {
	var p Phase
	for _, t := range ths {
		if len(t) > 0 {
			p = append(p, in(t))
		}
	}
	return p
}

func first(ths [][]S) []S {
	if len(ths) == 0 {
		return nil
	}
	return ths[0]
}

func rest(ths [][]S) [][]S {
	if len(ths) <= 1 {
		return nil
	}
	return ths[1:]
}

// model builds the reference inputs of one member from the script and from what was observed about the
// lifecycle calls (the documented automation: Starting before Start, PermanentError on a Start error, OK
// if still Starting; Stopping before Shutdown, PermanentError or Stopped after; a shared component
// reports its lifecycle and every scripted report to each instance attached to it and replays what was
// reported so far to an instance that attaches later).
func (w *World) model(m *member, serviceStarted bool) (phases []Phase, late bool) {
	return w.modelOpt(m, serviceStarted, 0)
}

// modelOpt with replayCap > 0 is not the reference but the prediction of the KNOWN defect C11-a: an
// instance attached late is replayed only the last replayCap reports made through the shared host before
// it attached (sharedcomponent's ring of 5 remembers every report, illegal and no-op ones included).
func (w *World) modelOpt(m *member, serviceStarted bool, replayCap int) (phases []Phase, late bool) {
	c := m.owner
	sc := &c.spec.Script
	if c.noReporter {
		// componentstatus.ReportStatus: "if the host has not implemented Reporter nothing happens" — the
		// scripted reports never reached the reporting machinery and are no inputs
		sc = &Script{StartErr: sc.StartErr, StopErr: sc.StopErr}
	}
	stopAuto := A(Stopped)
	if sc.StopErr {
		stopAuto = A(Perm)
	}
	if len(c.members) == 1 {
		if m.startSeq == 0 {
			// never started: only the shutdown automation reaches it
			if m.stopSeq != 0 {
				phases = append(phases, Seq(A(Stopping)), Seq(stopAuto))
			}
			return phases, false
		}
		phases = append(phases, Seq(A(Starting)), Seq(in(first(sc.Start))...))
		auto := AOKIfStarting()
		if sc.StartErr {
			auto = A(Perm)
		}
		phases = append(phases, append(ins(rest(sc.Start)), []Input{auto}))
		if serviceStarted {
			phases = append(phases, ins(sc.Run))
		}
		if m.stopSeq != 0 {
			phases = append(phases, Seq(A(Stopping)), Seq(in(first(sc.Stop))...))
			phases = append(phases, append(ins(rest(sc.Stop)), []Input{stopAuto}))
		}
		phases = append(phases, ins(sc.After))
		return phases, false
	}
	// shared component
	var firstStart, firstStop *member
	for _, x := range c.members {
		if x.startSeq != 0 && (firstStart == nil || x.startSeq < firstStart.startSeq) {
			firstStart = x
		}
		if x.stopSeq != 0 && (firstStop == nil || x.stopSeq < firstStop.stopSeq) {
			firstStop = x
		}
	}
	underlyingStarted := firstStart != nil
	if m.startSeq == 0 {
		// never attached: only the graph's automation for this instance
		if m.stopSeq != 0 {
			auto := A(Stopped)
			if m == firstStop && sc.StopErr {
				auto = A(Perm)
			}
			phases = append(phases, Seq(A(Stopping)), Seq(auto))
		}
		return phases, false
	}
	late = m != firstStart
	phases = append(phases, Seq(A(Starting)))                      // graph
	before := append([]Input{A(Starting)}, in(first(sc.Start))...) // wrapper's Starting + inline reports (direct or replayed)
	if late && replayCap > 0 && len(before) > replayCap {
		before = before[len(before)-replayCap:]
	}
	phases = append(phases, Seq(before...))
	if sc.StartErr {
		phases = append(phases, append(ins(rest(sc.Start)), []Input{A(Perm), A(Perm)}))
	} else {
		phases = append(phases, append(ins(rest(sc.Start)), []Input{AOKIfStarting()}))
	}
	if serviceStarted {
		phases = append(phases, ins(sc.Run))
	}
	if firstStop != nil && underlyingStarted {
		if m == firstStop {
			phases = append(phases, Seq(A(Stopping), A(Stopping)), Seq(in(first(sc.Stop))...))
			phases = append(phases, append(ins(rest(sc.Stop)), []Input{stopAuto, stopAuto}))
		} else {
			phases = append(phases, Seq(A(Stopping)), Seq(in(first(sc.Stop))...))
			tail := []Input{stopAuto}
			if m.stopSeq != 0 {
				tail = append(tail, A(Stopping), A(Stopped))
			}
			phases = append(phases, append(ins(rest(sc.Stop)), tail))
		}
	}
	phases = append(phases, ins(sc.After))
	return phases, late
}

func instKey(id *componentstatus.InstanceID) string {
	k := strings.ToLower(id.Kind().String()) + ":" + id.ComponentID().String()
	sig := ""
	id.AllPipelineIDs(func(p pipeline.ID) bool { sig = p.Signal().String(); return false })
	if sig != "" {
		k += "@" + sig
	}
	return k
}

func (w *World) collect(res *Result) {
	serviceStarted := res.StartErr == nil
	// index what the watchers saw by key; one key must be one InstanceID pointer
	type seen struct {
		ids []*componentstatus.InstanceID
		del [][]Delivered
	}
	byKey := map[string]*seen{}
	for wi, wx := range w.watchers {
		wx.mu.Lock()
		for id, d := range wx.got {
			k := instKey(id)
			s := byKey[k]
			if s == nil {
				s = &seen{del: make([][]Delivered, len(w.watchers))}
				byKey[k] = s
			}
			dup := false
			for _, x := range s.ids {
				if x == id {
					dup = true
				}
			}
			if !dup {
				s.ids = append(s.ids, id)
			}
			s.del[wi] = append(s.del[wi], d...)
			if wi == 0 {
				res.Events += int64(len(d))
			}
		}
		wx.mu.Unlock()
	}
	known := map[string]bool{}
	for _, c := range w.comps {
		for _, m := range c.members {
			known[m.key] = true
			ir := &InstanceResult{Key: m.key, Kind: c.spec.Kind, Spec: c.spec, SpecIdx: c.idx, Mode: "seq"}
			if c.spec.Script.Concurrent() {
				ir.Mode = "conc"
			}
			ir.Phases, ir.Late = w.model(m, serviceStarted)
			ir.NoReport = c.noReporter
			ir.BeyondBuf = ir.Late && 1+len(first(c.spec.Script.Start)) > 5
			if ir.BeyondBuf {
				ir.Last5, _ = w.modelOpt(m, serviceStarted, 5)
			}
			_, ir.Rejected = Expected(ir.Phases)
			s := byKey[m.key]
			ir.Delivered = make([][]S, len(w.watchers))
			if s != nil {
				if len(s.ids) > 1 {
					ir.Problems = append(ir.Problems, Problem{"instance-identity", fmt.Sprintf("%s is reported under %d different InstanceID values", m.key, len(s.ids)), []string{"kind", c.spec.Kind}})
				}
				for wi := range w.watchers {
					d := s.del[wi]
					sort.Slice(d, func(a, b int) bool { return d[a].Seq < d[b].Seq })
					for _, e := range d {
						ir.Delivered[wi] = append(ir.Delivered[wi], e.Ev.Status())
						if e.Ev.Status() == Fatal && wi == 0 {
							res.FatalSeen++
						}
					}
					w.verify(ir, c, d, wi)
				}
			} else {
				for wi := range w.watchers {
					w.verify(ir, c, nil, wi)
				}
			}
			res.Instances = append(res.Instances, ir)
		}
	}
	// unscripted instances (sink exporters, watcher extensions, plain receiver): default automation only
	for k, s := range byKey {
		if known[k] {
			continue
		}
		ir := &InstanceResult{Key: k, Kind: "unscripted", Spec: &Spec{}, SpecIdx: -1, Mode: "seq"}
		ir.Phases = []Phase{Seq(A(Starting)), Seq(AOKIfStarting())}
		if !serviceStarted {
			// it may or may not have been started before the failure: both automata are accepted below
			ir.Phases = nil
		}
		ir.Delivered = make([][]S, len(w.watchers))
		for wi := range w.watchers {
			d := s.del[wi]
			sort.Slice(d, func(a, b int) bool { return d[a].Seq < d[b].Seq })
			var seq []S
			for _, e := range d {
				seq = append(seq, e.Ev.Status())
				if e.Ev.Status() == Fatal && wi == 0 {
					res.FatalSeen++
				}
			}
			ir.Delivered[wi] = seq
			full := []Phase{Seq(A(Starting)), Seq(AOKIfStarting()), Seq(A(Stopping)), Seq(A(Stopped))}
			if !(Accepts(full, seq) || (!serviceStarted && (len(seq) == 0 || Accepts(full[:2], seq)))) {
				st, want, got := Diverge(full, seq)
				ir.Problems = append(ir.Problems, Problem{"fsm-equality", fmt.Sprintf("unscripted instance %s: delivered %s, the documented automation gives [Starting OK Stopping Stopped]", k, Names(seq)),
					[]string{"kind", "unscripted", "mode", "seq", "state", st, "want", want, "got", got}})
			}
		}
		res.Instances = append(res.Instances, ir)
	}
}

// verify applies the oracles to what watcher wi saw for one instance.
func (w *World) verify(ir *InstanceResult, c *scripted, d []Delivered, wi int) {
	seq := ir.Delivered[wi]
	kind := ir.Kind
	if ir.Late {
		kind += "/late"
	}
	replay, explained := "n/a", "n/a"
	if ir.Late {
		replay = "within-buffer"
		if ir.BeyondBuf {
			replay = "beyond-buffer"
			// the known defect explains exactly one wrong history: the reference machine fed with the last 5
			// reports made before the attachment, then everything that was reported later
			explained = "no"
			if exp, _ := Expected(ir.Last5); fmt.Sprint(exp) == fmt.Sprint(seq) {
				explained = "last5"
			}
		}
	}
	// 1. the statement's path rules on the delivered sequence alone
	if from, to, ok := LegalPath(seq); !ok {
		ir.Problems = append(ir.Problems, Problem{"legality", fmt.Sprintf("%s: delivered %s contains the illegal step %s -> %s (script %s)", ir.Key, Names(seq), Name(from), Name(to), c.spec.Script),
			[]string{"from", Name(from), "to", Name(to), "mode", ir.Mode}})
	}
	// 2. provenance: every delivered event was reported (same *Event) by this component, at most once,
	//    or is one of the automatic reports
	autoBudget := map[S]int{}
	for _, ph := range ir.Phases {
		for _, t := range ph {
			for _, x := range t {
				if x.Auto {
					autoBudget[x.St]++
				}
			}
		}
	}
	seenEv := map[*componentstatus.Event]bool{}
	for _, e := range d {
		c.mu.Lock()
		_, mine := c.reported[e.Ev]
		c.mu.Unlock()
		switch {
		case seenEv[e.Ev]:
			ir.Problems = append(ir.Problems, Problem{"provenance", fmt.Sprintf("%s: the same event (%s) was delivered twice to one watcher", ir.Key, Name(e.Ev.Status())),
				[]string{"class", "delivered-twice", "status", Name(e.Ev.Status()), "mode", ir.Mode}})
		case mine:
		case autoBudget[e.Ev.Status()] > 0:
			autoBudget[e.Ev.Status()]--
		default:
			ir.Problems = append(ir.Problems, Problem{"provenance", fmt.Sprintf("%s: delivered event %s was reported by nobody (not by the script, and the automation does not report it that often); delivered %s", ir.Key, Name(e.Ev.Status()), Names(seq)),
				[]string{"class", "never-reported", "status", Name(e.Ev.Status()), "mode", ir.Mode}})
		}
		seenEv[e.Ev] = true
	}
	// 3. equality with the reference machine (for concurrent scripts: with some interleaving)
	if !Accepts(ir.Phases, seq) {
		st, want, got := Diverge(ir.Phases, seq)
		exp, _ := Expected(ir.Phases)
		what := fmt.Sprintf("%s (%s): delivered %s is not an output of the reference machine; sequential reference output %s; script %s", ir.Key, ir.Mode, Names(seq), Names(exp), c.spec.Script)
		if ir.Mode == "conc" {
			ir.Problems = append(ir.Problems, Problem{"fsm-interleaving", what, []string{"kind", kind, "mode", ir.Mode}})
		} else {
			ir.Problems = append(ir.Problems, Problem{"fsm-equality", what, []string{"kind", kind, "mode", ir.Mode, "replay", replay, "explained", explained, "state", st, "want", want, "got", got}})
		}
	}
}

// DescribePhases renders reference inputs.
func DescribePhases(ph []Phase) string {
	var b strings.Builder
	for i, p := range ph {
		if i > 0 {
			b.WriteString(" ; ")
		}
		for j, t := range p {
			if j > 0 {
				b.WriteString(" || ")
			}
			for k, x := range t {
				if k > 0 {
					b.WriteString(",")
				}
				b.WriteString(x.String())
			}
		}
	}
	return b.String()
}
