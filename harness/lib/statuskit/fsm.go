// Package statuskit holds the private helpers of the C11 check (component status state machine):
// the reference transition table written from docs/component-status.md, a small acceptor that decides
// whether a delivered event sequence is an output of the reference machine for a (possibly concurrent)
// report script, a recording status-watcher extension and scripted test components.
package statuskit

import (
	"errors"
	"fmt"
	"strings"

	"go.opentelemetry.io/collector/component/componentstatus"
)

// S is a component status.
type S = componentstatus.Status

const (
	None      = componentstatus.StatusNone
	Starting  = componentstatus.StatusStarting
	OK        = componentstatus.StatusOK
	Recov     = componentstatus.StatusRecoverableError
	Perm      = componentstatus.StatusPermanentError
	Fatal     = componentstatus.StatusFatalError
	Stopping  = componentstatus.StatusStopping
	Stopped   = componentstatus.StatusStopped
	NStatuses = 8
)

// Alphabet is every value a report can carry (StatusNone included: it is a valid argument of NewEvent).
var Alphabet = [NStatuses]S{None, Starting, OK, Recov, Perm, Fatal, Stopping, Stopped}

var short = [NStatuses]string{"None", "Starting", "OK", "Recoverable", "Permanent", "Fatal", "Stopping", "Stopped"}

// Name is a short printable name.
func Name(s S) string {
	if int(s) >= 0 && int(s) < NStatuses {
		return short[s]
	}
	return fmt.Sprintf("Status(%d)", int(s))
}

// Names renders a sequence.
func Names(seq []S) string {
	p := make([]string, len(seq))
	for i, s := range seq {
		p[i] = Name(s)
	}
	return "[" + strings.Join(p, " ") + "]"
}

// Edge classes of the reference table.
const (
	Illegal   = 0
	Mandatory = 1 // drawn in docs/img/component-status-state-diagram.png (or stated in the text): a report along it must produce an event
	Tolerated = 2 // neither drawn nor forbidden by text/statement: accepted if delivered, not demanded
)

// Ref is the reference table, written by hand from the drawing and the text of docs/component-status.md
// and reconciled with the property statement (DESIGN §5 C11):
//   - the drawing's "!Stopped -> Fatal" would allow PermanentError -> FatalError and FatalError -> FatalError;
//     the statement says PermanentError is left only to Stopping and nothing repeats: both are illegal;
//   - Starting -> Stopping and Stopping -> RecoverableError are not drawn and not forbidden: tolerated.
var Ref [NStatuses][NStatuses]int

func init() {
	m := func(from S, to ...S) {
		for _, t := range to {
			Ref[from][t] = Mandatory
		}
	}
	m(None, Starting)
	m(Starting, OK, Recov, Perm, Fatal)
	m(OK, Recov, Perm, Fatal, Stopping)
	m(Recov, OK, Perm, Fatal, Stopping)
	m(Perm, Stopping)
	m(Stopping, Perm, Fatal, Stopped)
	Ref[Starting][Stopping] = Tolerated
	Ref[Stopping][Recov] = Tolerated
}

// Input is one report fed to the reporting machinery for one instance.
type Input struct {
	St         S
	IfStarting bool // the service's automatic "OK only if the component is still Starting"
	Auto       bool // reported by the service / shared-component wrapper, not by the script
}

func (in Input) String() string {
	s := Name(in.St)
	if in.IfStarting {
		s += "?ifStarting"
	}
	if in.Auto {
		s = "auto:" + s
	}
	return s
}

// Phase is a set of threads that report concurrently; phases follow one another (barrier in between).
// A sequential script is a list of one-thread phases.
type Phase [][]Input

// Seq turns one input sequence into a sequential phase.
func Seq(in ...Input) Phase { return Phase{in} }

// A is an automatic input.
func A(s S) Input { return Input{St: s, Auto: true} }

// AOKIfStarting is the service's conditional OK.
func AOKIfStarting() Input { return Input{St: OK, IfStarting: true, Auto: true} }

type conf struct {
	cur S
	idx int
}

// step returns the successor configurations of c for one input against the delivered sequence.
func step(c conf, in Input, delivered []S, out map[conf]struct{}) {
	if in.IfStarting && c.cur != Starting {
		out[c] = struct{}{}
		return
	}
	cls := Illegal
	if int(c.cur) < NStatuses && int(in.St) >= 0 && int(in.St) < NStatuses {
		cls = Ref[c.cur][in.St]
	}
	if cls == Illegal || cls == Tolerated {
		// no event, no state change
		out[c] = struct{}{}
	}
	if cls == Mandatory || cls == Tolerated {
		if c.idx < len(delivered) && delivered[c.idx] == in.St {
			out[conf{in.St, c.idx + 1}] = struct{}{}
		}
	}
}

// Accepts reports whether delivered is an output of the reference machine (started in StatusNone) for
// some interleaving of the threads of each phase. With one-thread phases this is plain equality with the
// reference output (up to the two tolerated edges, which may or may not produce an event).
func Accepts(phases []Phase, delivered []S) bool {
	cur := map[conf]struct{}{{None, 0}: {}}
	for _, ph := range phases {
		cur = runPhase(ph, cur, delivered)
		if len(cur) == 0 {
			return false
		}
	}
	for c := range cur {
		if c.idx == len(delivered) {
			return true
		}
	}
	return false
}

type pconf struct {
	pos uint64 // mixed-radix positions of the threads
	c   conf
}

func runPhase(ph Phase, start map[conf]struct{}, delivered []S) map[conf]struct{} {
	// drop empty threads
	var th [][]Input
	for _, t := range ph {
		if len(t) > 0 {
			th = append(th, t)
		}
	}
	if len(th) == 0 {
		return start
	}
	if len(th) == 1 {
		cur := start
		for _, in := range th[0] {
			next := map[conf]struct{}{}
			for c := range cur {
				step(c, in, delivered, next)
			}
			cur = next
		}
		return cur
	}
	radix := make([]uint64, len(th))
	mul := make([]uint64, len(th))
	m := uint64(1)
	for i, t := range th {
		radix[i] = uint64(len(t) + 1)
		mul[i] = m
		m *= radix[i]
	}
	final := m - 1 // every thread at its end
	seen := map[pconf]struct{}{}
	var stack []pconf
	for c := range start {
		p := pconf{0, c}
		seen[p] = struct{}{}
		stack = append(stack, p)
	}
	out := map[conf]struct{}{}
	tmp := map[conf]struct{}{}
	for len(stack) > 0 {
		p := stack[len(stack)-1]
		stack = stack[:len(stack)-1]
		if p.pos == final {
			out[p.c] = struct{}{}
			continue
		}
		for i, t := range th {
			pi := (p.pos / mul[i]) % radix[i]
			if int(pi) >= len(t) {
				continue
			}
			for k := range tmp {
				delete(tmp, k)
			}
			step(p.c, t[pi], delivered, tmp)
			for c := range tmp {
				np := pconf{p.pos + mul[i], c}
				if _, ok := seen[np]; !ok {
					seen[np] = struct{}{}
					stack = append(stack, np)
				}
			}
		}
	}
	return out
}

// Expected is the reference output when every tolerated edge produces an event and the threads of a
// phase run one after the other (used for messages and for the "contains a rejected report" rule).
func Expected(phases []Phase) (out []S, rejected int) {
	cur := None
	for _, ph := range phases {
		for _, t := range ph {
			for _, in := range t {
				if in.IfStarting {
					if cur != Starting {
						continue
					}
				}
				if int(in.St) < NStatuses && Ref[cur][in.St] != Illegal {
					cur = in.St
					out = append(out, in.St)
				} else if !in.Auto {
					rejected++
				}
			}
		}
	}
	return out, rejected
}

// Diverge describes the first point where delivered leaves the sequential reference output.
func Diverge(phases []Phase, delivered []S) (state, want, got string) {
	exp, _ := Expected(phases)
	i := 0
	for i < len(exp) && i < len(delivered) && exp[i] == delivered[i] {
		i++
	}
	state = "None"
	if i > 0 {
		state = Name(exp[i-1])
	}
	want, got = "end", "end"
	if i < len(exp) {
		want = Name(exp[i])
	}
	if i < len(delivered) {
		got = Name(delivered[i])
	}
	return
}

// LegalPath checks the statement's path rules on a delivered sequence alone; it returns the first
// offending step, or ok.
func LegalPath(delivered []S) (from, to S, ok bool) {
	cur := None
	for _, s := range delivered {
		if int(s) >= NStatuses || Ref[cur][s] == Illegal {
			return cur, s, false
		}
		cur = s
	}
	return 0, 0, true
}

// NewEvent builds the event of a scripted report; error statuses carry a recognisable error.
func NewEvent(s S, tag string) *componentstatus.Event {
	switch s {
	case Recov:
		return componentstatus.NewRecoverableErrorEvent(errors.New("scripted recoverable " + tag))
	case Perm:
		return componentstatus.NewPermanentErrorEvent(errors.New("scripted permanent " + tag))
	case Fatal:
		return componentstatus.NewFatalErrorEvent(errors.New("scripted fatal " + tag))
	}
	return componentstatus.NewEvent(s)
}
