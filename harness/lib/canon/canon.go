// Package canon turns a telemetry payload into its canonical item multiset.
//
// A payload is flattened to one Record per leaf item (log record, span, metric data point, profile
// sample). A record is (snapshot of the item, context parts): the resource and its schema URL, the
// scope and its schema URL and, for metrics, the identity of the metric the point belongs to (name,
// unit, description, type, temporality, monotonic, metadata); for profiles the profile the sample
// belongs to. "Nothing lost, duplicated, invented or changed" is multiset equality of the records;
// how the items are grouped into containers is deliberately not part of a record, so merging and
// splitting are free to regroup.
//
// Snapshots are taken reflectively through the public getters of pdata (Snap), so a field added to
// pdata later is part of the snapshot without editing this package.
package canon

import (
	"fmt"
	"reflect"
	"sort"
	"strconv"
	"strings"
	"sync"

	"go.opentelemetry.io/collector/pdata/pcommon"
	"go.opentelemetry.io/collector/pdata/plog"
	"go.opentelemetry.io/collector/pdata/pmetric"
	"go.opentelemetry.io/collector/pdata/pprofile"
	"go.opentelemetry.io/collector/pdata/ptrace"
)

// IDAttr is the attribute under which package gen stores the unique id of a leaf item.
const IDAttr = "vid"

// Part is one named piece of the context of an item.
type Part struct {
	Name string
	Val  string
}

// Record is one leaf item with its full context.
type Record struct {
	ID   string // unique id of the leaf when the generator stored one, else ""
	Item string // snapshot of everything observable on the item itself
	Ctx  []Part // shared between the records of one container
	key  string
}

// Key is the canonical string of the record (item and context).
func (r *Record) Key() string {
	if r.key == "" {
		var b strings.Builder
		b.WriteString(r.Item)
		for _, p := range r.Ctx {
			b.WriteString("\x1e")
			b.WriteString(p.Name)
			b.WriteString("\x1f")
			b.WriteString(p.Val)
		}
		r.key = b.String()
	}
	return r.key
}

// Owner returns the id up to (not including) its last dot-separated element: gen ids are
// "<owner>.<seq>", the owner naming the request / producer call the leaf was generated for.
func (r *Record) Owner() string {
	if i := strings.LastIndexByte(r.ID, '.'); i > 0 {
		return r.ID[:i]
	}
	return r.ID
}

// ---------------------------------------------------------------------------------------------
// reflective snapshot

type methodPlan struct {
	idx  int
	name string
}

type typePlan struct {
	kind    int // 0 struct with getters, 1 slice (At/Len), 2 AsRaw
	getters []methodPlan
}

var (
	planMu sync.RWMutex
	plans  = map[reflect.Type]*typePlan{}
)

var skipPrefixes = []string{"Set", "Append", "Remove", "Move", "Mark", "Clear", "All", "Copy", "Ensure", "Sort", "From", "Put", "Upsert", "Range", "Equal"}

func isPdata(t reflect.Type) bool {
	return t.Kind() == reflect.Struct && strings.HasPrefix(t.PkgPath(), "go.opentelemetry.io/collector/pdata/")
}

func planOf(t reflect.Type) *typePlan {
	planMu.RLock()
	p := plans[t]
	planMu.RUnlock()
	if p != nil {
		return p
	}
	p = &typePlan{}
	if _, ok := t.MethodByName("AsRaw"); ok {
		p.kind = 2
	} else if _, ok := t.MethodByName("At"); ok {
		p.kind = 1
	} else {
		for i := 0; i < t.NumMethod(); i++ {
			m := t.Method(i)
			// method expression type: receiver is In(0)
			if m.Type.NumIn() != 1 || m.Type.NumOut() != 1 {
				continue
			}
			skip := m.Name == "IsReadOnly" || m.Name == "String" || m.Name == "Len"
			for _, pre := range skipPrefixes {
				if strings.HasPrefix(m.Name, pre) {
					skip = true
				}
			}
			if skip {
				continue
			}
			p.getters = append(p.getters, methodPlan{i, m.Name})
		}
	}
	planMu.Lock()
	plans[t] = p
	planMu.Unlock()
	return p
}

// Snap renders everything observable through the public getters of a pdata value, in a fixed order.
// Methods named in except (top level only) are left out.
func Snap(v any, except ...string) string {
	var b strings.Builder
	snap(&b, reflect.ValueOf(v), except)
	return b.String()
}

func writeRaw(b *strings.Builder, x any) {
	switch y := x.(type) {
	case nil:
		b.WriteString("nil")
	case string:
		b.WriteString(strconv.Quote(y))
	case []byte:
		fmt.Fprintf(b, "bytes(%x)", y)
	case map[string]any:
		ks := make([]string, 0, len(y))
		for k := range y {
			ks = append(ks, k)
		}
		sort.Strings(ks)
		b.WriteString("{")
		for _, k := range ks {
			b.WriteString(strconv.Quote(k))
			b.WriteString(":")
			writeRaw(b, y[k])
			b.WriteString(",")
		}
		b.WriteString("}")
	case []any:
		b.WriteString("[")
		for _, e := range y {
			writeRaw(b, e)
			b.WriteString(",")
		}
		b.WriteString("]")
	case float64:
		b.WriteString("f" + strconv.FormatFloat(y, 'g', -1, 64))
	case int64:
		b.WriteString("i" + strconv.FormatInt(y, 10))
	default:
		fmt.Fprintf(b, "%T(%v)", x, x)
	}
}

func snap(b *strings.Builder, v reflect.Value, except []string) {
	switch x := v.Interface().(type) {
	case pcommon.Map:
		writeRaw(b, x.AsRaw())
		return
	case pcommon.Value:
		b.WriteString(x.Type().String())
		b.WriteString(":")
		writeRaw(b, x.AsRaw())
		return
	}
	t := v.Type()
	p := planOf(t)
	switch p.kind {
	case 2:
		fmt.Fprintf(b, "%v", v.MethodByName("AsRaw").Call(nil)[0].Interface())
		return
	case 1:
		n := int(v.MethodByName("Len").Call(nil)[0].Int())
		at := v.MethodByName("At")
		b.WriteString("[")
		for i := 0; i < n; i++ {
			snap(b, at.Call([]reflect.Value{reflect.ValueOf(i)})[0], nil)
			b.WriteString(",")
		}
		b.WriteString("]")
		return
	}
	b.WriteString("{")
	for _, g := range p.getters {
		skip := false
		for _, e := range except {
			if e == g.name {
				skip = true
			}
		}
		if skip {
			continue
		}
		r := v.Method(g.idx).Call(nil)[0]
		if isPdata(r.Type()) {
			if r.IsZero() { // accessor of a one-of alternative that is not the selected one
				continue
			}
			b.WriteString(g.name)
			b.WriteString("=")
			snap(b, r, nil)
		} else {
			b.WriteString(g.name)
			b.WriteString("=")
			switch r.Kind() {
			case reflect.String:
				b.WriteString(strconv.Quote(r.String()))
			case reflect.Array: // trace / span / profile ids
				fmt.Fprintf(b, "%x", r.Interface())
			case reflect.Int, reflect.Int32, reflect.Int64:
				b.WriteString(strconv.FormatInt(r.Int(), 10))
			case reflect.Uint32, reflect.Uint64, reflect.Uint8:
				b.WriteString(strconv.FormatUint(r.Uint(), 10))
			case reflect.Float64:
				b.WriteString(strconv.FormatFloat(r.Float(), 'g', -1, 64))
			case reflect.Bool:
				b.WriteString(strconv.FormatBool(r.Bool()))
			default:
				fmt.Fprintf(b, "%v", r.Interface())
			}
		}
		b.WriteString(";")
	}
	b.WriteString("}")
}

func idOf(m pcommon.Map) string {
	if v, ok := m.Get(IDAttr); ok {
		return v.AsString()
	}
	return ""
}

// ---------------------------------------------------------------------------------------------
// flatteners. Each returns the records and a shape string (the nesting with all contents erased).

func resCtx(res pcommon.Resource, schema string) []Part {
	return []Part{{"resource", Snap(res)}, {"resource.schema_url", schema}}
}

func FlattenLogs(ld plog.Logs) (recs []Record, shape string) {
	var sh strings.Builder
	rls := ld.ResourceLogs()
	for i := 0; i < rls.Len(); i++ {
		rl := rls.At(i)
		rc := resCtx(rl.Resource(), rl.SchemaUrl())
		sh.WriteString("R[")
		for j := 0; j < rl.ScopeLogs().Len(); j++ {
			sl := rl.ScopeLogs().At(j)
			ctx := append(append([]Part{}, rc...), Part{"scope", Snap(sl.Scope())}, Part{"scope.schema_url", sl.SchemaUrl()})
			n := sl.LogRecords().Len()
			fmt.Fprintf(&sh, "S%d,", n)
			for k := 0; k < n; k++ {
				lr := sl.LogRecords().At(k)
				recs = append(recs, Record{ID: idOf(lr.Attributes()), Item: Snap(lr), Ctx: ctx})
			}
		}
		sh.WriteString("]")
	}
	return recs, sh.String()
}

func FlattenTraces(td ptrace.Traces) (recs []Record, shape string) {
	var sh strings.Builder
	rss := td.ResourceSpans()
	for i := 0; i < rss.Len(); i++ {
		rs := rss.At(i)
		rc := resCtx(rs.Resource(), rs.SchemaUrl())
		sh.WriteString("R[")
		for j := 0; j < rs.ScopeSpans().Len(); j++ {
			ss := rs.ScopeSpans().At(j)
			ctx := append(append([]Part{}, rc...), Part{"scope", Snap(ss.Scope())}, Part{"scope.schema_url", ss.SchemaUrl()})
			n := ss.Spans().Len()
			fmt.Fprintf(&sh, "S%d,", n)
			for k := 0; k < n; k++ {
				sp := ss.Spans().At(k)
				recs = append(recs, Record{ID: idOf(sp.Attributes()), Item: Snap(sp), Ctx: ctx})
			}
		}
		sh.WriteString("]")
	}
	return recs, sh.String()
}

// MetricIdentity returns the identity parts of a metric.
func MetricIdentity(m pmetric.Metric) []Part {
	temp, mono := "-", "-"
	switch m.Type() {
	case pmetric.MetricTypeSum:
		temp, mono = m.Sum().AggregationTemporality().String(), strconv.FormatBool(m.Sum().IsMonotonic())
	case pmetric.MetricTypeHistogram:
		temp = m.Histogram().AggregationTemporality().String()
	case pmetric.MetricTypeExponentialHistogram:
		temp = m.ExponentialHistogram().AggregationTemporality().String()
	}
	return []Part{{"metric.name", m.Name()}, {"metric.unit", m.Unit()}, {"metric.description", m.Description()},
		{"metric.type", m.Type().String()}, {"metric.temporality", temp}, {"metric.monotonic", mono},
		{"metric.metadata", Snap(m.Metadata())}}
}

func FlattenMetrics(md pmetric.Metrics) (recs []Record, shape string) {
	var sh strings.Builder
	rms := md.ResourceMetrics()
	for i := 0; i < rms.Len(); i++ {
		rm := rms.At(i)
		rc := resCtx(rm.Resource(), rm.SchemaUrl())
		sh.WriteString("R[")
		for j := 0; j < rm.ScopeMetrics().Len(); j++ {
			sm := rm.ScopeMetrics().At(j)
			sc := append(append([]Part{}, rc...), Part{"scope", Snap(sm.Scope())}, Part{"scope.schema_url", sm.SchemaUrl()})
			sh.WriteString("S[")
			for k := 0; k < sm.Metrics().Len(); k++ {
				m := sm.Metrics().At(k)
				ctx := append(append([]Part{}, sc...), MetricIdentity(m)...)
				add := func(attrs pcommon.Map, dp any) {
					recs = append(recs, Record{ID: idOf(attrs), Item: Snap(dp), Ctx: ctx})
				}
				n := 0
				switch m.Type() {
				case pmetric.MetricTypeGauge:
					dps := m.Gauge().DataPoints()
					for n = 0; n < dps.Len(); n++ {
						add(dps.At(n).Attributes(), dps.At(n))
					}
				case pmetric.MetricTypeSum:
					dps := m.Sum().DataPoints()
					for n = 0; n < dps.Len(); n++ {
						add(dps.At(n).Attributes(), dps.At(n))
					}
				case pmetric.MetricTypeHistogram:
					dps := m.Histogram().DataPoints()
					for n = 0; n < dps.Len(); n++ {
						add(dps.At(n).Attributes(), dps.At(n))
					}
				case pmetric.MetricTypeExponentialHistogram:
					dps := m.ExponentialHistogram().DataPoints()
					for n = 0; n < dps.Len(); n++ {
						add(dps.At(n).Attributes(), dps.At(n))
					}
				case pmetric.MetricTypeSummary:
					dps := m.Summary().DataPoints()
					for n = 0; n < dps.Len(); n++ {
						add(dps.At(n).Attributes(), dps.At(n))
					}
				}
				fmt.Fprintf(&sh, "%c%d,", "EGSHXY"[int(m.Type())%6], n)
			}
			sh.WriteString("]")
		}
		sh.WriteString("]")
	}
	return recs, sh.String()
}

// FlattenProfiles: the leaf is the sample; the profile that holds it (everything but its samples) is
// part of the context. The id of a sample is the value of the attribute-table entry IDAttr it refers to.
func FlattenProfiles(pd pprofile.Profiles) (recs []Record, shape string) {
	var sh strings.Builder
	rps := pd.ResourceProfiles()
	for i := 0; i < rps.Len(); i++ {
		rp := rps.At(i)
		rc := resCtx(rp.Resource(), rp.SchemaUrl())
		sh.WriteString("R[")
		for j := 0; j < rp.ScopeProfiles().Len(); j++ {
			sp := rp.ScopeProfiles().At(j)
			sc := append(append([]Part{}, rc...), Part{"scope", Snap(sp.Scope())}, Part{"scope.schema_url", sp.SchemaUrl()})
			sh.WriteString("S[")
			for k := 0; k < sp.Profiles().Len(); k++ {
				p := sp.Profiles().At(k)
				ctx := append(append([]Part{}, sc...), Part{"profile", Snap(p, "Sample")})
				n := p.Sample().Len()
				fmt.Fprintf(&sh, "P%d,", n)
				for q := 0; q < n; q++ {
					s := p.Sample().At(q)
					// gen stores the id as an attribute-table entry of the profile; resolve it through the table
					id := ""
					tbl := p.AttributeTable()
					for a := 0; a < s.AttributeIndices().Len(); a++ {
						if ix := int(s.AttributeIndices().At(a)); ix >= 0 && ix < tbl.Len() && tbl.At(ix).Key() == IDAttr {
							id = tbl.At(ix).Value().AsString()
						}
					}
					recs = append(recs, Record{ID: id, Item: Snap(s) + "id=" + id, Ctx: ctx})
				}
			}
			sh.WriteString("]")
		}
		sh.WriteString("]")
	}
	return recs, sh.String()
}

// ---------------------------------------------------------------------------------------------
// multiset comparison

// Mismatch is one class of difference between two multisets.
type Mismatch struct {
	Kind   string   `json:"kind"`   // lost | duplicated | invented | changed
	Fields []string `json:"fields"` // for changed: the parts that differ ("item" for the item itself)
	Count  int      `json:"count"`
	ID     string   `json:"id"`            // one example leaf
	In     string   `json:"in,omitempty"`  // example: the differing parts on the input side
	Out    string   `json:"out,omitempty"` // … and on the output side
}

// FieldsKey is the low-cardinality rendering of the differing fields.
func (m *Mismatch) FieldsKey() string { return strings.Join(m.Fields, ",") }

func clip(s string, n int) string {
	if len(s) > n {
		return s[:n] + "…"
	}
	return s
}

func leafKey(r *Record) string {
	if r.ID != "" {
		return r.ID
	}
	return r.Item
}

// Diff compares the multiset of records that entered with the multiset that left. An empty result
// means the two are equal. Differences are classified per leaf (by its unique id): a leaf that is
// present on both sides the same number of times but with a different item snapshot or context is
// "changed" (with the list of differing parts); otherwise it is lost, duplicated or invented.
func Diff(in, out []Record) []Mismatch {
	cnt := make(map[string]int, len(in))
	for i := range in {
		cnt[in[i].Key()]++
	}
	var extraOut []*Record
	for i := range out {
		k := out[i].Key()
		if cnt[k] > 0 {
			cnt[k]--
		} else {
			extraOut = append(extraOut, &out[i])
		}
	}
	var extraIn []*Record
	seenIn := make(map[string]bool, len(in))
	for i := range in {
		seenIn[leafKey(&in[i])] = true
		k := in[i].Key()
		if cnt[k] > 0 {
			cnt[k]--
			extraIn = append(extraIn, &in[i])
		}
	}
	if len(extraIn) == 0 && len(extraOut) == 0 {
		return nil
	}
	byLeafIn := map[string][]*Record{}
	for _, r := range extraIn {
		byLeafIn[leafKey(r)] = append(byLeafIn[leafKey(r)], r)
	}
	byLeafOut := map[string][]*Record{}
	var order []string
	for _, r := range extraOut {
		k := leafKey(r)
		if _, ok := byLeafOut[k]; !ok {
			order = append(order, k)
		}
		byLeafOut[k] = append(byLeafOut[k], r)
	}
	for _, r := range extraIn {
		k := leafKey(r)
		if _, ok := byLeafOut[k]; !ok {
			byLeafOut[k] = nil
			order = append(order, k)
		}
	}
	agg := map[string]*Mismatch{}
	var keys []string
	add := func(kind string, fields []string, id, a, b string) {
		k := kind + "|" + strings.Join(fields, ",")
		m := agg[k]
		if m == nil {
			m = &Mismatch{Kind: kind, Fields: fields, ID: id, In: clip(a, 400), Out: clip(b, 400)}
			agg[k] = m
			keys = append(keys, k)
		}
		m.Count++
	}
	for _, k := range order {
		a, b := byLeafIn[k], byLeafOut[k]
		n := len(a)
		if len(b) < n {
			n = len(b)
		}
		for i := 0; i < n; i++ {
			var fields []string
			var da, db []string
			if a[i].Item != b[i].Item {
				fields = append(fields, "item")
				da, db = append(da, a[i].Item), append(db, b[i].Item)
			}
			pm := map[string]string{}
			for _, p := range a[i].Ctx {
				pm[p.Name] = p.Val
			}
			seen := map[string]bool{}
			for _, p := range b[i].Ctx {
				seen[p.Name] = true
				if v, ok := pm[p.Name]; !ok || v != p.Val {
					fields = append(fields, p.Name)
					da, db = append(da, p.Name+"="+pm[p.Name]), append(db, p.Name+"="+p.Val)
				}
			}
			for _, p := range a[i].Ctx {
				if !seen[p.Name] {
					fields = append(fields, p.Name)
					da = append(da, p.Name+"="+p.Val)
				}
			}
			sort.Strings(fields)
			add("changed", fields, k, strings.Join(da, " | "), strings.Join(db, " | "))
		}
		for i := n; i < len(a); i++ {
			add("lost", nil, k, a[i].Item, "")
		}
		for i := n; i < len(b); i++ {
			if seenIn[k] {
				add("duplicated", nil, k, "", b[i].Item)
			} else {
				add("invented", nil, k, "", b[i].Item)
			}
		}
	}
	sort.Strings(keys)
	res := make([]Mismatch, 0, len(keys))
	for _, k := range keys {
		res = append(res, *agg[k])
	}
	return res
}

// Owners returns the distinct owners (see Record.Owner) of a list of records, sorted.
func Owners(recs []Record) []string {
	set := map[string]struct{}{}
	for i := range recs {
		set[recs[i].Owner()] = struct{}{}
	}
	out := make([]string, 0, len(set))
	for k := range set {
		out = append(out, k)
	}
	sort.Strings(out)
	return out
}
