// Package driver is the parent/child runner shared by all checks.
//
// A check binary is both parent and child. The parent (no -child flag) splits the seed-determined
// work list into shards, runs each shard as a child process of one of the build variants (race /
// plain) with stdout+stderr in a file and a wall-clock watchdog whose firing is an infrastructure
// outcome (exit 2), never a verdict, parses race-detector logs, merges shard results, matches
// violations against known_findings.json, writes replay witnesses and the evidence file and sets the
// exit code: 0 held (known findings allowed), 1 unmatched violation, 2 infrastructure problem or
// "observed nothing".
package driver

import (
	"bytes"
	"crypto/sha256"
	"encoding/hex"
	"encoding/json"
	"flag"
	"fmt"
	"hash/fnv"
	"io"
	"math/rand"
	"os"
	"os/exec"
	"path/filepath"
	"regexp"
	"runtime"
	"runtime/debug"
	"sort"
	"strconv"
	"strings"
	"sync"
	"sync/atomic"
	"syscall"
	"time"
)

// Violation is one refutation observed by a monitor.
type Violation struct {
	Sub     string            `json:"sub"`  // sub-check (oracle) that fired
	What    string            `json:"what"` // human readable description
	Sig     map[string]string `json:"sig"`  // signature fields used for known-finding matching
	Witness any               `json:"witness,omitempty"`
	Shard   int               `json:"shard"`
	Case    int64             `json:"case"`
	Variant string            `json:"variant"`
	Count   int64             `json:"count"` // how many cases produced this (sub, sig)
}

func (v *Violation) key() string {
	ks := make([]string, 0, len(v.Sig))
	for k := range v.Sig {
		ks = append(ks, k)
	}
	sort.Strings(ks)
	var b strings.Builder
	b.WriteString(v.Sub)
	for _, k := range ks {
		b.WriteString("|" + k + "=" + v.Sig[k])
	}
	return b.String()
}

// ShardResult is what a child writes.
type ShardResult struct {
	Shard        int                 `json:"shard"`
	Variant      string              `json:"variant"`
	Evaluations  int64               `json:"evaluations"`
	Nontrivial   []uint64            `json:"nontrivial"`
	Sets         map[string][]uint64 `json:"sets"`
	Samples      []any               `json:"samples"`
	Observed     map[string]int64    `json:"observed"`
	Violations   []*Violation        `json:"violations"`
	Inconclusive int64               `json:"inconclusive"`
	Notes        []string            `json:"notes"`
	Done         bool                `json:"done"`
}

// Ctx is handed to the shard function in the child.
type Ctx struct {
	Tier    string
	Seed    int64
	Shard   int
	NShards int
	Variant string // "race" or "plain"
	Only    int64  // >=0: replay exactly this case
	Part    string // optional part selector for replays

	mu       sync.Mutex
	res      ShardResult
	nontriv  map[uint64]struct{}
	sets     map[string]map[uint64]struct{}
	vio      map[string]*Violation
	curCase  int64
	maxSampl int
	progress atomic.Int64
}

// Thorough reports whether the thorough tier runs.
func (c *Ctx) Thorough() bool { return c.Tier == "thorough" }

// N picks the size for the tier.
func (c *Ctx) N(quick, thorough int) int {
	if c.Thorough() {
		return thorough
	}
	return quick
}

// CaseRand returns the PRNG of case i of this shard: a function of (seed, shard, i) only.
func (c *Ctx) CaseRand(i int64) *rand.Rand {
	h := fnv.New64a()
	fmt.Fprintf(h, "%d/%d/%d/%d", c.Seed, c.Shard, c.NShards, i)
	return rand.New(rand.NewSource(int64(h.Sum64())))
}

// Want tells whether case i must be executed (always, except in replay mode), and makes i current.
func (c *Ctx) Want(i int64) bool {
	if c.Only >= 0 && c.Only != i {
		return false
	}
	c.mu.Lock()
	c.curCase = i
	c.mu.Unlock()
	return true
}

// Mine tells whether global case index g belongs to this shard (round robin) and makes it current.
func (c *Ctx) Mine(g int64) bool {
	if int(g%int64(c.NShards)) != c.Shard {
		return false
	}
	return c.Want(g)
}

func (c *Ctx) Eval() { c.mu.Lock(); c.res.Evaluations++; c.mu.Unlock(); c.progress.Add(1) }

func (c *Ctx) EvalN(n int64) { c.mu.Lock(); c.res.Evaluations += n; c.mu.Unlock(); c.progress.Add(1) }

// Progress marks logical progress for the shard watchdog.
func (c *Ctx) Progress() { c.progress.Add(1) }

// Hash64 hashes any printable description.
func Hash64(parts ...any) uint64 {
	h := fnv.New64a()
	for _, p := range parts {
		fmt.Fprintf(h, "%v\x00", p)
	}
	return h.Sum64()
}

// Nontrivial records a distinct non-trivial case by its canonical hash.
func (c *Ctx) Nontrivial(parts ...any) {
	h := Hash64(parts...)
	c.mu.Lock()
	c.nontriv[h] = struct{}{}
	c.mu.Unlock()
}

// Distinct adds a hash to a named set ("interleavings", "states", …); the parent reports set sizes.
func (c *Ctx) Distinct(set string, parts ...any) {
	h := Hash64(parts...)
	c.mu.Lock()
	m := c.sets[set]
	if m == nil {
		m = map[uint64]struct{}{}
		c.sets[set] = m
	}
	m[h] = struct{}{}
	c.mu.Unlock()
}

// Observe adds n to a named counter.
func (c *Ctx) Observe(name string, n int64) {
	c.mu.Lock()
	c.res.Observed[name] += n
	c.mu.Unlock()
}

// ObserveMax keeps the maximum of a named gauge.
func (c *Ctx) ObserveMax(name string, n int64) {
	c.mu.Lock()
	if n > c.res.Observed[name] {
		c.res.Observed[name] = n
	}
	c.mu.Unlock()
}

// Sample keeps a few actual cases for the evidence file.
func (c *Ctx) Sample(s any) {
	c.mu.Lock()
	if len(c.res.Samples) < c.maxSampl {
		c.res.Samples = append(c.res.Samples, s)
	}
	c.mu.Unlock()
}

func (c *Ctx) Inconclusive(why string) {
	c.mu.Lock()
	c.res.Inconclusive++
	c.res.Observed["inconclusive:"+why]++
	c.mu.Unlock()
}

func (c *Ctx) Note(format string, a ...any) {
	c.mu.Lock()
	if len(c.res.Notes) < 50 {
		c.res.Notes = append(c.res.Notes, fmt.Sprintf(format, a...))
	}
	c.mu.Unlock()
}

// Violation records a refutation. sig are key/value pairs.
func (c *Ctx) Violation(sub, what string, witness any, sig ...string) {
	v := &Violation{Sub: sub, What: what, Sig: map[string]string{}, Witness: witness, Shard: c.Shard, Variant: c.Variant}
	for i := 0; i+1 < len(sig); i += 2 {
		v.Sig[sig[i]] = sig[i+1]
	}
	c.mu.Lock()
	v.Case = c.curCase
	k := v.key()
	if old, ok := c.vio[k]; ok {
		old.Count++
	} else if len(c.vio) < 400 {
		v.Count = 1
		c.vio[k] = v
	} else {
		c.res.Observed["violations_dropped_over_cap"]++
	}
	c.mu.Unlock()
}

// TotalViolations returns the number of violating cases so far (occurrences, not distinct signatures):
// checks use it to stop early on a tree that is plainly broken.
func (c *Ctx) TotalViolations() int64 {
	c.mu.Lock()
	defer c.mu.Unlock()
	var n int64
	for _, v := range c.vio {
		n += v.Count
	}
	return n
}

// NViolations returns the number of distinct violations so far.
func (c *Ctx) NViolations() int { c.mu.Lock(); defer c.mu.Unlock(); return len(c.vio) }

// Stuck is returned by Guard when the guarded function did not finish.
type Stuck struct {
	Dump       string
	RepoFrames []string
}

// Guard runs fn with a generous wall-clock watchdog that never decides by itself: when it fires it
// takes two goroutine dumps dt apart and reports "stuck" only if the case's logical progress counter
// did not move in between; the caller decides (from the blocked frames) whether that is a violation.
// A nil result means fn returned. The goroutine running fn is abandoned when stuck.
func (c *Ctx) Guard(limit time.Duration, progress func() int64, fn func()) *Stuck {
	done := make(chan struct{})
	var pv any
	go func() {
		defer close(done)
		defer func() {
			if r := recover(); r != nil {
				pv = fmt.Sprintf("panic: %v\n%s", r, debug.Stack())
			}
		}()
		fn()
	}()
	deadline := time.NewTimer(limit)
	defer deadline.Stop()
	for {
		select {
		case <-done:
			if pv != nil {
				return &Stuck{Dump: pv.(string), RepoFrames: []string{"panic"}}
			}
			return nil
		case <-deadline.C:
			p0 := progress()
			time.Sleep(limit / 4)
			select {
			case <-done:
				if pv != nil {
					return &Stuck{Dump: pv.(string), RepoFrames: []string{"panic"}}
				}
				return nil
			default:
			}
			if progress() != p0 {
				deadline.Reset(limit)
				continue
			}
			buf := make([]byte, 1<<22)
			n := runtime.Stack(buf, true)
			d := string(buf[:n])
			return &Stuck{Dump: d, RepoFrames: BlockedRepoFrames(d)}
		}
	}
}

var frameRe = regexp.MustCompile(`^(go\.opentelemetry\.io/collector/.+)\([^()]*\)$`)

// BlockedRepoFrames extracts, per goroutine of a dump, the innermost frame inside the repository
// (not the harness) together with the goroutine's wait reason; sorted, de-duplicated.
func BlockedRepoFrames(dump string) []string {
	set := map[string]struct{}{}
	for _, g := range strings.Split(dump, "\n\n") {
		lines := strings.Split(g, "\n")
		if len(lines) == 0 || !strings.HasPrefix(lines[0], "goroutine ") {
			continue
		}
		reason := ""
		if i := strings.Index(lines[0], "["); i >= 0 {
			reason = strings.TrimSuffix(lines[0][i:], ":")
			reason = regexp.MustCompile(`, \d+ minutes`).ReplaceAllString(reason, "")
		}
		for _, l := range lines[1:] {
			l = strings.TrimSpace(l)
			if strings.Contains(l, "/verifharness/") || strings.HasPrefix(l, "/") {
				continue
			}
			if strings.HasPrefix(l, "created by") {
				break
			}
			if m := frameRe.FindStringSubmatch(l); m != nil {
				fn := m[1]
				fn = regexp.MustCompile(`\[\.\.\.\]`).ReplaceAllString(fn, "")
				set[shortFn(fn)+" "+reason] = struct{}{}
				break
			}
		}
	}
	out := make([]string, 0, len(set))
	for k := range set {
		out = append(out, k)
	}
	sort.Strings(out)
	return out
}

func shortFn(fn string) string {
	fn = strings.TrimPrefix(fn, "go.opentelemetry.io/collector/")
	return fn
}

// Spec describes a check.
type Spec struct {
	ID          string
	Level       string // exploration | fault_enumeration
	Rule        string
	Assumptions []string
	TrustedBase []string
	// Shards returns the number of shards per variant for a tier.
	Shards func(tier string) int
	// Variants lists build variants to run children with ("plain", "race"); the binary paths come
	// from the -bins flag. Default: {"plain"}.
	Variants func(tier string) []string
	// Run executes one shard.
	Run func(c *Ctx)
	// MinNontrivial is the floor under which the run "observed nothing" (exit 2).
	MinNontrivial func(tier string) int
	// ShardTimeout is the infrastructure watchdog per child.
	ShardTimeout func(tier string) time.Duration
	// Parallel children at a time (default 16/GOMAXPROCS-of-child).
	Parallel    int
	ChildProcs  int // GOMAXPROCS of children (0 = leave)
	MaxSamples  int
	ExtraEnv    []string
	Exhaustive  bool
	Explanation string
}

type knownFinding struct {
	Property string            `json:"property"`
	ID       string            `json:"id"`
	Status   string            `json:"status"` // known | fixed
	Commit   string            `json:"commit,omitempty"`
	What     string            `json:"what"`
	Sub      string            `json:"sub"`
	Sig      map[string]string `json:"sig"` // key -> regexp over the violation's signature value
}

func (k *knownFinding) matches(v *Violation) bool {
	if k.Status != "known" || k.Sub != v.Sub {
		return false
	}
	for key, re := range k.Sig {
		val, ok := v.Sig[key]
		if !ok {
			return false
		}
		m, err := regexp.MatchString("^(?:"+re+")$", val)
		if err != nil || !m {
			return false
		}
	}
	return true
}

func verifDir() string {
	if d := os.Getenv("VERIF_DIR"); d != "" {
		return d
	}
	exe, err := os.Executable()
	if err == nil {
		d := filepath.Dir(filepath.Dir(exe)) // <verif>/bin/<exe>
		if _, err := os.Stat(filepath.Join(d, "properties.jsonl")); err == nil {
			return d
		}
	}
	return "/verif"
}

// Main is the entry point of every check binary.
func Main(spec Spec) {
	var (
		child   = flag.Bool("child", false, "run one shard")
		shard   = flag.Int("shard", 0, "")
		nshards = flag.Int("nshards", 1, "")
		tier    = flag.String("tier", "quick", "")
		seed    = flag.Int64("seed", 1, "")
		variant = flag.String("variant", "plain", "")
		result  = flag.String("result", "", "")
		only    = flag.Int64("only", -1, "")
		part    = flag.String("part", "", "")
		bins    = flag.String("bins", "", "variant=path,...")
		replay  = flag.String("replay", "", "replay a witness file")
	)
	flag.Parse()
	if *child {
		runChild(spec, *shard, *nshards, *tier, *seed, *variant, *result, *only, *part)
		return
	}
	os.Exit(runParent(spec, *tier, *seed, *bins, *replay))
}

func runChild(spec Spec, shard, nshards int, tier string, seed int64, variant, result string, only int64, part string) {
	c := &Ctx{Tier: tier, Seed: seed, Shard: shard, NShards: nshards, Variant: variant, Only: only, Part: part,
		nontriv: map[uint64]struct{}{}, sets: map[string]map[uint64]struct{}{}, vio: map[string]*Violation{}, maxSampl: 3}
	if spec.MaxSamples > 0 {
		c.maxSampl = spec.MaxSamples
	}
	c.res.Shard, c.res.Variant = shard, variant
	c.res.Observed = map[string]int64{}
	flush := func(done bool) {
		c.mu.Lock()
		defer c.mu.Unlock()
		c.res.Done = done
		c.res.Nontrivial = c.res.Nontrivial[:0]
		for h := range c.nontriv {
			c.res.Nontrivial = append(c.res.Nontrivial, h)
		}
		c.res.Sets = map[string][]uint64{}
		for k, m := range c.sets {
			for h := range m {
				c.res.Sets[k] = append(c.res.Sets[k], h)
			}
		}
		c.res.Violations = c.res.Violations[:0]
		for _, v := range c.vio {
			c.res.Violations = append(c.res.Violations, v)
		}
		b, err := json.Marshal(&c.res)
		if err != nil {
			// a witness that cannot be marshalled must not lose the verdict
			for _, v := range c.res.Violations {
				v.Witness = fmt.Sprintf("%+v", v.Witness)
			}
			c.res.Samples = nil
			b, _ = json.Marshal(&c.res)
		}
		tmp := result + ".tmp"
		if os.WriteFile(tmp, b, 0o644) == nil {
			os.Rename(tmp, result)
		}
	}
	// periodic flush so that a crash of the child keeps what was observed so far
	stop := make(chan struct{})
	stopped := make(chan struct{})
	go func() {
		defer close(stopped)
		t := time.NewTicker(2 * time.Second)
		defer t.Stop()
		for {
			select {
			case <-t.C:
				flush(false)
			case <-stop:
				return
			}
		}
	}()
	spec.Run(c)
	close(stop)
	<-stopped // the periodic flusher must not overwrite the final result
	flush(true)
}

type childRun struct {
	variant string
	shard   int
	res     *ShardResult
	exit    int
	timeout bool
	logPath string
	raceLog string
	dur     time.Duration
	// raceFlood: the race detector's log of this child outgrew raceLogCap and the child was stopped; what had been
	// logged (and the child's last periodic result) is judged, the early end itself is no infrastructure failure
	raceFlood bool
	races     []raceReport
	racesRead bool
}

// A tree that really has a data race on a hot path makes the detector write gigabytes (seen: 2.3 GB per shard,
// 33 GB per run, and a parent that needed 25 GB to read them). The first reports already decide the verdict.
const (
	raceLogCap     = 48 << 20 // bytes of race log per child after which the child is stopped
	raceLogReadCap = 8 << 20  // bytes the parent reads of each log file
	raceReportCap  = 4000     // reports parsed per child
)

func (j *childRun) raceReports() []raceReport {
	if !j.racesRead {
		j.races, j.racesRead = parseRaceLogs(j.raceLog), true
	}
	return j.races
}

func raceLogSize(prefix string) int64 {
	files, _ := filepath.Glob(prefix + ".*")
	var n int64
	for _, f := range files {
		if st, err := os.Stat(f); err == nil {
			n += st.Size()
		}
	}
	return n
}

func runParent(spec Spec, tier string, seed int64, bins, replay string) int {
	t0 := time.Now()
	vd := verifDir()
	if tier != "quick" && tier != "thorough" {
		fmt.Fprintf(os.Stderr, "unknown tier %q\n", tier)
		return 2
	}
	binOf := map[string]string{}
	for _, kv := range strings.Split(bins, ",") {
		if i := strings.Index(kv, "="); i > 0 {
			binOf[kv[:i]] = kv[i+1:]
		}
	}
	self, _ := os.Executable()
	variants := []string{"plain"}
	if spec.Variants != nil {
		variants = spec.Variants(tier)
	}
	for _, v := range variants {
		if binOf[v] == "" {
			if len(binOf) == 0 {
				binOf[v] = self
			} else {
				fmt.Fprintf(os.Stderr, "no binary for variant %s\n", v)
				return 2
			}
		}
	}
	nshards := 16
	if spec.Shards != nil {
		nshards = spec.Shards(tier)
	}
	timeout := 20 * time.Minute
	if spec.ShardTimeout != nil {
		timeout = spec.ShardTimeout(tier)
	}
	workDir, err := os.MkdirTemp("", "verif-"+spec.ID+"-")
	if err != nil {
		fmt.Fprintln(os.Stderr, err)
		return 2
	}
	keepWork := false
	defer func() {
		if !keepWork {
			os.RemoveAll(workDir)
		}
	}()

	var jobs []*childRun
	var onlyCase int64 = -1
	part := ""
	if replay != "" {
		b, err := os.ReadFile(replay)
		if err != nil {
			fmt.Fprintln(os.Stderr, err)
			return 2
		}
		var w struct {
			Tier      string     `json:"tier"`
			Seed      int64      `json:"seed"`
			NShards   int        `json:"nshards"`
			Violation *Violation `json:"violation"`
		}
		if err := json.Unmarshal(b, &w); err != nil || w.Violation == nil {
			fmt.Fprintln(os.Stderr, "bad replay file", err)
			return 2
		}
		tier, seed, nshards = w.Tier, w.Seed, w.NShards
		onlyCase = w.Violation.Case
		v := w.Violation.Variant
		if binOf[v] == "" {
			binOf[v] = self
		}
		jobs = append(jobs, &childRun{variant: v, shard: w.Violation.Shard})
	} else {
		for _, v := range variants {
			for s := 0; s < nshards; s++ {
				jobs = append(jobs, &childRun{variant: v, shard: s})
			}
		}
	}
	par := spec.Parallel
	if par <= 0 {
		par = runtime.NumCPU()
		if spec.ChildProcs > 0 {
			par = runtime.NumCPU() / spec.ChildProcs
			if par < 1 {
				par = 1
			}
		}
	}
	sem := make(chan struct{}, par)
	var wg sync.WaitGroup
	for _, j := range jobs {
		wg.Add(1)
		go func(j *childRun) {
			defer wg.Done()
			sem <- struct{}{}
			defer func() { <-sem }()
			runOne(spec, j, binOf[j.variant], workDir, tier, seed, nshards, timeout, onlyCase, part)
		}(j)
	}
	wg.Wait()

	// merge
	infra := []string{}
	var evals, inconcl int64
	nontriv := map[uint64]struct{}{}
	sets := map[string]map[uint64]struct{}{}
	observed := map[string]int64{}
	var samples []any
	var notes []string
	vio := map[string]*Violation{}
	maxS := 6
	for _, j := range jobs {
		r := j.res
		if r != nil {
			evals += r.Evaluations
			inconcl += r.Inconclusive
			for _, h := range r.Nontrivial {
				nontriv[h] = struct{}{}
			}
			for k, hs := range r.Sets {
				m := sets[k]
				if m == nil {
					m = map[uint64]struct{}{}
					sets[k] = m
				}
				for _, h := range hs {
					m[h] = struct{}{}
				}
			}
			for k, n := range r.Observed {
				if strings.HasPrefix(k, "max:") {
					if n > observed[k] {
						observed[k] = n
					}
				} else {
					observed[k] += n
				}
			}
			for _, s := range r.Samples {
				if len(samples) < maxS {
					samples = append(samples, s)
				}
			}
			notes = append(notes, r.Notes...)
			for _, v := range r.Violations {
				k := v.key()
				if old, ok := vio[k]; ok {
					old.Count += v.Count
				} else {
					vio[k] = v
				}
			}
		}
		// race reports
		for _, rr := range j.raceReports() {
			observed["race_reports"]++
			f1, f2 := rr.frames[0], rr.frames[1]
			if !rr.repo {
				infra = append(infra, fmt.Sprintf("data race inside the harness itself (%s / %s), see %s", f1, f2, j.raceLog))
				keepWork = true
				continue
			}
			v := &Violation{Sub: "race", What: "data race reported by the Go race detector: " + f1 + " <-> " + f2,
				Sig: map[string]string{"a": f1, "b": f2}, Witness: rr.text, Shard: j.shard, Variant: j.variant, Case: -1, Count: 1}
			k := v.key()
			if old, ok := vio[k]; ok {
				old.Count++
			} else {
				vio[k] = v
			}
		}
		switch {
		case j.timeout:
			infra = append(infra, fmt.Sprintf("shard %d/%s: wall-clock watchdog (%s) fired — inconclusive, log %s", j.shard, j.variant, timeout, j.logPath))
			keepWork = true
		case j.raceFlood:
			observed["shards_stopped_after_a_flood_of_race_reports"]++
		case r == nil || !r.Done:
			// the child died: a crash inside the code under test is a violation with the log as witness
			tail := tailFile(j.logPath, 6000)
			repoCrash := crashInRepo(tail)
			v := &Violation{Sub: "crash", What: "child process died: " + firstCrashLine(tail), Sig: map[string]string{"where": repoCrash},
				Witness: tail, Shard: j.shard, Variant: j.variant, Case: -1, Count: 1}
			if repoCrash == "" {
				infra = append(infra, fmt.Sprintf("shard %d/%s died (exit %d) outside repository code, log %s", j.shard, j.variant, j.exit, j.logPath))
				keepWork = true
			} else {
				vio[v.key()] = v
			}
		case j.exit != 0 && len(j.raceReports()) == 0:
			infra = append(infra, fmt.Sprintf("shard %d/%s exit %d, log %s", j.shard, j.variant, j.exit, j.logPath))
			keepWork = true
		}
	}

	// known findings
	var known []knownFinding
	kfFiles := []string{filepath.Join(vd, "known_findings.json")}
	more, _ := filepath.Glob(filepath.Join(vd, "known_findings.d", "*.json"))
	kfFiles = append(kfFiles, more...)
	for _, kf := range kfFiles {
		b, err := os.ReadFile(kf)
		if err != nil {
			continue
		}
		var f struct {
			Findings []knownFinding `json:"findings"`
		}
		if err := json.Unmarshal(b, &f); err != nil {
			fmt.Fprintln(os.Stderr, kf+":", err)
			return 2
		}
		for _, k := range f.Findings {
			if k.Property == spec.ID {
				known = append(known, k)
			}
		}
	}
	keys := make([]string, 0, len(vio))
	for k := range vio {
		keys = append(keys, k)
	}
	sort.Strings(keys)
	matched := map[string]int64{}
	matchedWhat := map[string]string{}
	var unmatched []*Violation
	for _, k := range keys {
		v := vio[k]
		hit := false
		for i := range known {
			if known[i].matches(v) {
				matched[known[i].ID] += v.Count
				matchedWhat[known[i].ID] = known[i].What
				hit = true
				break
			}
		}
		if !hit {
			unmatched = append(unmatched, v)
		}
	}
	ids := make([]string, 0, len(matched))
	for id := range matched {
		ids = append(ids, id)
	}
	sort.Strings(ids)
	for _, id := range ids {
		fmt.Printf("KNOWN-FINDING: property=%s %s: %s (observed %d times in this run)\n", spec.ID, id, matchedWhat[id], matched[id])
	}
	for _, k := range known {
		if k.Status == "known" && matched[k.ID] == 0 && replay == "" {
			fmt.Printf("note: known finding %s was not reproduced in this run (repaired, or its reproducer did not run)\n", k.ID)
		}
	}
	repDir := filepath.Join(vd, "replays", spec.ID)
	maxList := 25
	if n, err := strconv.Atoi(os.Getenv("VERIF_MAXLIST")); err == nil && n > 0 {
		maxList = n
	}
	for i, v := range unmatched {
		if i >= maxList {
			fmt.Printf("… %d further distinct violations not listed\n", len(unmatched)-i)
			break
		}
		os.MkdirAll(repDir, 0o755)
		w := map[string]any{"property": spec.ID, "tier": tier, "seed": seed, "nshards": nshards, "violation": v}
		b, _ := json.MarshalIndent(w, "", " ")
		sum := sha256.Sum256([]byte(v.key()))
		p := filepath.Join(repDir, hex.EncodeToString(sum[:6])+".json")
		os.WriteFile(p, b, 0o644)
		fmt.Printf("VIOLATION property=%s replay=%s\n", spec.ID, p)
		fmt.Printf("  [%s] %s (x%d) sig=%v\n", v.Sub, v.What, v.Count, v.Sig)
	}

	// evidence
	setSizes := map[string]int{}
	for k, m := range sets {
		setSizes[k] = len(m)
	}
	cov := map[string]any{
		"evaluations":         evals,
		"distinct_nontrivial": len(nontriv),
		"rule":                spec.Rule,
		"samples":             samples,
		"observed":            observed,
		"distinct_sets":       setSizes,
		"inconclusive":        inconcl,
		"known_findings_seen": matched,
		"shards":              len(jobs),
		"variants":            variants,
		"trusted_base":        spec.TrustedBase,
	}
	if spec.Exhaustive {
		cov["exhaustive"] = true
	}
	if spec.Explanation != "" {
		cov["explanation"] = spec.Explanation
	}
	if len(notes) > 0 {
		if len(notes) > 30 {
			notes = notes[:30]
		}
		cov["notes"] = notes
	}
	if len(samples) == 0 {
		cov["samples"] = []any{}
	}
	ev := map[string]any{
		"property_id": spec.ID,
		"tier":        tier,
		"seed":        seed,
		"level":       spec.Level,
		"coverage":    cov,
		"assumptions": spec.Assumptions,
		"wall_s":      float64(int(time.Since(t0).Seconds()*10)) / 10,
		"violations":  len(unmatched),
	}
	if replay == "" {
		os.MkdirAll(filepath.Join(vd, "evidence"), 0o755)
		b, _ := json.MarshalIndent(ev, "", " ")
		if err := os.WriteFile(filepath.Join(vd, "evidence", spec.ID+".json"), append(b, '\n'), 0o644); err != nil {
			infra = append(infra, err.Error())
		}
	}
	obsKeys := make([]string, 0, len(observed))
	for k := range observed {
		obsKeys = append(obsKeys, k)
	}
	sort.Strings(obsKeys)
	var ob strings.Builder
	for _, k := range obsKeys {
		fmt.Fprintf(&ob, " %s=%d", k, observed[k])
	}
	for k, n := range setSizes {
		fmt.Fprintf(&ob, " distinct_%s=%d", k, n)
	}
	fmt.Printf("%s %s seed=%d: evaluations=%d distinct_nontrivial=%d inconclusive=%d violations=%d known=%d wall=%.1fs;%s\n",
		spec.ID, tier, seed, evals, len(nontriv), inconcl, len(unmatched), len(matched), time.Since(t0).Seconds(), ob.String())
	if len(unmatched) > 0 {
		return 1
	}
	for _, s := range infra {
		fmt.Fprintln(os.Stderr, "INFRA:", s)
	}
	if len(infra) > 0 {
		fmt.Fprintln(os.Stderr, "work dir kept:", workDir)
		return 2
	}
	if replay == "" {
		floor := 2
		if spec.MinNontrivial != nil {
			floor = spec.MinNontrivial(tier)
		}
		if len(nontriv) < floor {
			fmt.Fprintf(os.Stderr, "INFRA: observed only %d distinct non-trivial cases (floor %d): the monitors saw too little to decide\n", len(nontriv), floor)
			return 2
		}
	}
	return 0
}

func runOne(spec Spec, j *childRun, bin, workDir, tier string, seed int64, nshards int, timeout time.Duration, only int64, part string) {
	tag := fmt.Sprintf("%s-%d", j.variant, j.shard)
	resPath := filepath.Join(workDir, tag+".json")
	j.logPath = filepath.Join(workDir, tag+".log")
	j.raceLog = filepath.Join(workDir, tag+".race")
	lf, err := os.Create(j.logPath)
	if err != nil {
		return
	}
	defer lf.Close()
	args := []string{"-child", "-shard", strconv.Itoa(j.shard), "-nshards", strconv.Itoa(nshards), "-tier", tier,
		"-seed", strconv.FormatInt(seed, 10), "-variant", j.variant, "-result", resPath, "-only", strconv.FormatInt(only, 10), "-part", part}
	cmd := exec.Command(bin, args...)
	cmd.Stdout, cmd.Stderr = lf, lf
	cmd.Env = append(os.Environ(), "GORACE=halt_on_error=0 log_path="+j.raceLog, "GOTRACEBACK=all")
	if spec.ChildProcs > 0 {
		cmd.Env = append(cmd.Env, "GOMAXPROCS="+strconv.Itoa(spec.ChildProcs))
	}
	cmd.Env = append(cmd.Env, spec.ExtraEnv...)
	cmd.SysProcAttr = &syscall.SysProcAttr{Setpgid: true}
	t0 := time.Now()
	if err := cmd.Start(); err != nil {
		fmt.Fprintln(lf, "start:", err)
		j.exit = 127
		return
	}
	done := make(chan error, 1)
	go func() { done <- cmd.Wait() }()
	flood := make(chan struct{})
	stopWatch := make(chan struct{})
	defer close(stopWatch)
	go func() {
		tk := time.NewTicker(500 * time.Millisecond)
		defer tk.Stop()
		for {
			select {
			case <-stopWatch:
				return
			case <-tk.C:
				if raceLogSize(j.raceLog) > raceLogCap {
					close(flood)
					return
				}
			}
		}
	}()
	select {
	case err := <-done:
		if err != nil {
			j.exit = 1
			if ee, ok := err.(*exec.ExitError); ok {
				j.exit = ee.ExitCode()
			}
		}
	case <-flood:
		j.raceFlood = true
		syscall.Kill(-cmd.Process.Pid, syscall.SIGKILL)
		<-done
	case <-time.After(timeout):
		j.timeout = true
		syscall.Kill(-cmd.Process.Pid, syscall.SIGQUIT)
		select {
		case <-done:
		case <-time.After(10 * time.Second):
			syscall.Kill(-cmd.Process.Pid, syscall.SIGKILL)
			<-done
		}
	}
	j.dur = time.Since(t0)
	if b, err := os.ReadFile(resPath); err == nil {
		var r ShardResult
		if json.Unmarshal(b, &r) == nil {
			j.res = &r
		}
	}
}

// readHead returns at most the first n bytes of a file.
func readHead(path string, n int64) ([]byte, error) {
	f, err := os.Open(path)
	if err != nil {
		return nil, err
	}
	defer f.Close()
	return io.ReadAll(io.LimitReader(f, n))
}

type raceReport struct {
	text   string
	frames [2]string
	repo   bool
}

var raceFrameRe = regexp.MustCompile(`^\s{2}(\S+)\(\)$`)

// parseRaceLogs reads <prefix>.<pid> files and returns the reports; attribution by the innermost
// non-stdlib, non-runtime frame of each of the first two access stacks.
func parseRaceLogs(prefix string) []raceReport {
	files, _ := filepath.Glob(prefix + ".*")
	var out []raceReport
	for _, f := range files {
		b, err := readHead(f, raceLogReadCap)
		if err != nil {
			continue
		}
		if int64(len(b)) >= raceLogReadCap {
			// cut in the middle of a report (or the writer was killed): the incomplete tail is not judged
			if i := bytes.LastIndex(b, []byte("==================")); i >= 0 {
				b = b[:i]
			}
		}
		blks := strings.Split(string(b), "==================")
		// a report is closed by a separator line: whatever follows the last separator is incomplete (writer killed)
		for _, blk := range blks[:len(blks)-1] {
			if !strings.Contains(blk, "WARNING: DATA RACE") {
				continue
			}
			if len(out) >= raceReportCap {
				return out
			}
			rr := raceReport{text: strings.TrimSpace(blk)}
			if len(rr.text) > 6000 {
				rr.text = rr.text[:6000]
			}
			// sections are separated by blank lines; first two sections are the two accesses
			secs := strings.Split(strings.TrimSpace(blk), "\n\n")
			n := 0
			for _, s := range secs {
				if n >= 2 {
					break
				}
				head := strings.TrimSpace(strings.SplitN(s, "\n", 2)[0])
				head = strings.TrimPrefix(head, "WARNING: DATA RACE\n")
				if !(strings.Contains(s, "Read at") || strings.Contains(s, "Write at") || strings.Contains(s, "Previous read") || strings.Contains(s, "Previous write") || strings.Contains(s, "Previous atomic") || strings.Contains(s, "Atomic ")) {
					continue
				}
				_ = head
				fr := "?"
				for _, l := range strings.Split(s, "\n") {
					m := raceFrameRe.FindStringSubmatch(l)
					if m == nil {
						continue
					}
					fn := m[1]
					if isStdlib(fn) {
						continue
					}
					fr = fn
					break
				}
				rr.frames[n] = fr
				n++
			}
			for i := 0; i < 2; i++ {
				if strings.HasPrefix(rr.frames[i], "go.opentelemetry.io/collector/") && !strings.Contains(rr.frames[i], "/verifharness/") {
					rr.repo = true
				}
				rr.frames[i] = shortFn(rr.frames[i])
			}
			if rr.frames[0] > rr.frames[1] {
				rr.frames[0], rr.frames[1] = rr.frames[1], rr.frames[0]
			}
			out = append(out, rr)
		}
	}
	return out
}

// isStdlib reports whether a frame is "neutral" for race attribution: the standard library / runtime and
// third-party libraries (a racy access inside e.g. a back-off library is attributed to whoever called it:
// the innermost frame that belongs to the repository or to the harness).
func isStdlib(fn string) bool {
	if strings.HasPrefix(fn, "go.opentelemetry.io/collector/") {
		return false // repository or harness (…/verifharness/…)
	}
	if strings.HasPrefix(fn, "main.") {
		return false // a check's main package
	}
	return true
}

func tailFile(p string, n int) string {
	b, err := os.ReadFile(p)
	if err != nil {
		return ""
	}
	// keep the beginning of the crash (panic line and first stack) rather than the end
	s := string(b)
	for _, marker := range []string{"panic: ", "fatal error: ", "SIGQUIT"} {
		if i := strings.Index(s, marker); i >= 0 {
			s = s[i:]
			break
		}
	}
	if len(s) > n {
		s = s[:n]
	}
	return s
}

func firstCrashLine(s string) string {
	l := strings.SplitN(s, "\n", 2)[0]
	if len(l) > 200 {
		l = l[:200]
	}
	return l
}

// crashInRepo returns the innermost repository frame of the first goroutine of a crash log, or ""
// when the crash is not attributable to repository code (harness bug, OOM kill …).
func crashInRepo(s string) string {
	if !strings.Contains(s, "panic: ") && !strings.Contains(s, "fatal error: ") {
		return ""
	}
	for _, l := range strings.Split(s, "\n") {
		l = strings.TrimSpace(l)
		if strings.Contains(l, "/verifharness/") {
			// harness frame reached before any repository frame: still a crash in a callback of the
			// code under test only if a repository frame panicked first, which we did not see.
			return ""
		}
		if m := frameRe.FindStringSubmatch(l); m != nil {
			return shortFn(m[1])
		}
	}
	return ""
}

// Catch runs fn and returns the recovered panic value (nil if none) and its stack.
func Catch(fn func()) (pv any, stack string) {
	defer func() {
		if r := recover(); r != nil {
			pv = r
			stack = string(debug.Stack())
		}
	}()
	fn()
	return nil, ""
}

// PanicSite returns the innermost repository (non-harness) frame of a stack produced by Catch, e.g.
// "pdata/plog.LogRecordSlice.CopyTo", or "" when no repository frame is on the stack.
func PanicSite(stack string) string {
	for _, l := range strings.Split(stack, "\n") {
		l = strings.TrimSpace(l)
		if strings.Contains(l, "/verifharness/") {
			continue
		}
		if m := frameRe.FindStringSubmatch(l); m != nil {
			return shortFn(regexp.MustCompile(`\[\.\.\.\]`).ReplaceAllString(m[1], ""))
		}
	}
	return ""
}
