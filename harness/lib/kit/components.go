package kit

import (
	"context"
	"errors"
	"fmt"
	"math/rand"
	"runtime"
	"strings"
	"sync/atomic"

	"go.opentelemetry.io/collector/component"
	"go.opentelemetry.io/collector/connector"
	"go.opentelemetry.io/collector/connector/xconnector"
	"go.opentelemetry.io/collector/consumer"
	"go.opentelemetry.io/collector/consumer/xconsumer"
	"go.opentelemetry.io/collector/exporter"
	"go.opentelemetry.io/collector/exporter/xexporter"
	"go.opentelemetry.io/collector/extension"
	"go.opentelemetry.io/collector/otelcol"
	"go.opentelemetry.io/collector/pdata/plog"
	"go.opentelemetry.io/collector/pdata/pmetric"
	"go.opentelemetry.io/collector/pdata/pprofile"
	"go.opentelemetry.io/collector/pdata/ptrace"
	"go.opentelemetry.io/collector/pipeline"
	"go.opentelemetry.io/collector/pipeline/xpipeline"
	"go.opentelemetry.io/collector/processor"
	"go.opentelemetry.io/collector/processor/xprocessor"
	"go.opentelemetry.io/collector/receiver"
	"go.opentelemetry.io/collector/receiver/xreceiver"
)

// Component type names.
const (
	TypeReceiver  = "krecv"
	TypeShared    = "kshared"
	TypeProcessor = "kproc"
	TypeExporter  = "kexp"
	TypeExtension = "kext"
)

var stable = component.StabilityLevelStable

// ReceiverConfig is the (empty) configuration of krecv and kshared.
type ReceiverConfig struct{}

// ProcessorConfig configures kproc.
type ProcessorConfig struct {
	// Mutates (default true): declare MutatesData and append "<id>#<inst>" to the trail.
	Mutates bool `mapstructure:"mutates"`
}

// ExporterConfig configures kexp.
type ExporterConfig struct {
	Mutates   bool `mapstructure:"mutates"`    // declare MutatesData and apply the exporter's unique mutation
	Async     bool `mapstructure:"async"`      // mutate from a goroutine after Consume returned
	Keep      bool `mapstructure:"keep"`       // retain payload and bytes at call time
	ReadAsync bool `mapstructure:"read_async"` // re-read the payload from a goroutine after Consume returned
	Fail      bool `mapstructure:"fail"`       // Consume returns an error (after recording the delivery)
	// FailFirst: the very first Consume call of the instance is refused (Delivery.Refused; the refused
	// payload is neither kept nor touched afterwards — a consumer that rejects data must let go of it),
	// later calls succeed: what a retrying receiver meets.
	FailFirst bool `mapstructure:"fail_first"`
}

// ConnectorConfig configures the kit connectors.
type ConnectorConfig struct {
	// Mode: "convert" (default; new payload of the destination signal), "mutate" or "pass"
	// (same-signal pairs only; any other pair converts).
	Mode string `mapstructure:"mode"`
	// Routes makes the connector a routing connector: for a destination signal present as key, every
	// Consume asks the router it was given for Consumer(ids...) with exactly the listed pipeline ids
	// (verbatim: repeated ids, ids of pipelines the connector is not connected to and the empty list
	// are requested as written) and forwards to what it gets. A router error is recorded in the Env
	// (RouteErrors), nothing is forwarded and Consume returns an error naming the instance key and
	// "cannot route". Destination signals without a key are broadcast to all connected pipelines.
	Routes map[string][]string `mapstructure:"routes"`
	// RouteSequence (per destination signal, takes precedence over Routes) makes the connector send
	// the SAME outgoing payload to several routes one after another, as a connector does that
	// serves several routes from one payload: every entry is a route requested through
	// Consumer(ids...), the entry ["*"] stands for the default consumer (all connected pipelines).
	// Use it together with MarkReadOnly and a mode other than pass: a payload that goes to several
	// consumers in turn must be read-only, otherwise a mutating pipeline behind an earlier route
	// legitimately changes what the later routes receive.
	RouteSequence map[string][][]string `mapstructure:"route_sequence"`
	// MarkReadOnly makes the connector mark its outgoing payload read-only before forwarding
	// (convert and mutate modes: the payload is the connector's own; ignored in pass mode) and retain
	// it with its bytes for the non-interference oracle (Env.Retained).
	MarkReadOnly bool `mapstructure:"mark_read_only"`
}

// ExtensionConfig configures kext.
type ExtensionConfig struct {
	Deps []string `mapstructure:"deps"`
}

// comp is the lifecycle-logging base of every kit component.
type comp struct {
	env  *Env
	key  string
	inst int
}

func (c *comp) Start(context.Context, component.Host) error {
	c.env.log(EvStartCall, c.key, c.inst, nil, "")
	err := c.env.startErr(c.key)
	c.env.log(EvStartReturn, c.key, c.inst, err, "")
	return err
}

func (c *comp) Shutdown(context.Context) error {
	c.env.log(EvShutdownCall, c.key, c.inst, nil, "")
	err := c.env.stopErr(c.key)
	c.env.log(EvShutdownReturn, c.key, c.inst, err, "")
	return err
}

// ---- receiver ----------------------------------------------------------------------------------

// Injector is the handle of one receiver instance.
type Injector struct {
	Signal Signal
	ID     string // component id as written in the configuration
	Key    string // RecvKey
	Inst   int
	Next   Next // the consumer the receiver was given
}

// Tag is the tag Inject uses: "<signal>/<id>".
func (in *Injector) Tag() string { return string(in.Signal) + "/" + in.ID }

// Inject builds a payload tagged Tag() with an empty trail (rich when rng != nil), hands it to the
// receiver's consumer and returns the payload (which the caller may inspect afterwards) and the error.
func (in *Injector) Inject(ctx context.Context, rng *rand.Rand) (Payload, error) {
	p := NewPayload(in.Signal, Msg{Tag: in.Tag()}, rng)
	return p, in.Next.Consume(ctx, p)
}

// SendOptions describe how a receiver hands one payload to its consumer.
type SendOptions struct {
	// MarkReadOnly: the receiver marks its payload read-only before sending (it keeps the payload,
	// e.g. to send it elsewhere too); nobody may change it.
	MarkReadOnly bool
	// Resend: after a downstream error the receiver sends the VERY SAME payload object again, up to
	// this many times (consumerretry style).
	Resend int
}

// Attempt is one send of a payload: the trail the payload carried when it was sent (empty for the
// first attempt unless an earlier attempt's mutating pipeline worked on the original) and the result.
type Attempt struct {
	Trail []string
	Err   error
}

// SendPayload hands p to the receiver's consumer as the options say and returns the attempts.
func (in *Injector) SendPayload(ctx context.Context, p Payload, o SendOptions) []Attempt {
	if o.MarkReadOnly {
		p.MarkReadOnly()
	}
	var out []Attempt
	for i := 0; i <= o.Resend; i++ {
		a := Attempt{Trail: p.Msg().Trail}
		a.Err = in.Next.Consume(ctx, p)
		out = append(out, a)
		if a.Err == nil {
			break
		}
	}
	return out
}

type receiverC struct{ comp }

func (e *Env) newReceiver(sig Signal, id component.ID, next Next) *receiverC {
	key := RecvKey(sig, id.String())
	r := &receiverC{comp{env: e, key: key, inst: e.created(key)}}
	e.register(&Injector{Signal: sig, ID: id.String(), Key: key, Inst: r.inst, Next: next})
	return r
}

func (e *Env) receiverFactory() receiver.Factory {
	return xreceiver.NewFactory(component.MustNewType(TypeReceiver), func() component.Config { return &ReceiverConfig{} },
		xreceiver.WithLogs(func(_ context.Context, s receiver.Settings, _ component.Config, n consumer.Logs) (receiver.Logs, error) {
			return e.newReceiver(Logs, s.ID, NextLogs(n)), nil
		}, stable),
		xreceiver.WithTraces(func(_ context.Context, s receiver.Settings, _ component.Config, n consumer.Traces) (receiver.Traces, error) {
			return e.newReceiver(Traces, s.ID, NextTraces(n)), nil
		}, stable),
		xreceiver.WithMetrics(func(_ context.Context, s receiver.Settings, _ component.Config, n consumer.Metrics) (receiver.Metrics, error) {
			return e.newReceiver(Metrics, s.ID, NextMetrics(n)), nil
		}, stable),
		xreceiver.WithProfiles(func(_ context.Context, s receiver.Settings, _ component.Config, n xconsumer.Profiles) (xreceiver.Profiles, error) {
			return e.newReceiver(Profiles, s.ID, NextProfiles(n)), nil
		}, stable))
}

// ---- processor ---------------------------------------------------------------------------------

type processorC struct {
	comp
	id      string
	mutates bool
	next    Next
}

func (p *processorC) Capabilities() consumer.Capabilities {
	return consumer.Capabilities{MutatesData: p.mutates}
}

func (p *processorC) consume(ctx context.Context, pl Payload) error {
	if p.mutates {
		pl.AppendTrail(fmt.Sprintf("%s#%d", p.id, p.inst))
		seq.Add(1)
	} else {
		m := pl.Msg()
		p.env.visit(Visit{Key: p.key, Inst: p.inst, Tag: m.Tag, Trail: m.Trail})
	}
	return p.next.Consume(ctx, pl)
}

func (p *processorC) ConsumeLogs(ctx context.Context, v plog.Logs) error {
	return p.consume(ctx, OfLogs(v))
}
func (p *processorC) ConsumeTraces(ctx context.Context, v ptrace.Traces) error {
	return p.consume(ctx, OfTraces(v))
}
func (p *processorC) ConsumeMetrics(ctx context.Context, v pmetric.Metrics) error {
	return p.consume(ctx, OfMetrics(v))
}
func (p *processorC) ConsumeProfiles(ctx context.Context, v pprofile.Profiles) error {
	return p.consume(ctx, OfProfiles(v))
}

func (e *Env) newProcessor(sig Signal, id component.ID, cfg component.Config, next Next) *processorC {
	key := ProcKey(sig, id.String())
	return &processorC{comp: comp{env: e, key: key, inst: e.created(key)}, id: id.String(), mutates: cfg.(*ProcessorConfig).Mutates, next: next}
}

func (e *Env) processorFactory() processor.Factory {
	return xprocessor.NewFactory(component.MustNewType(TypeProcessor), func() component.Config { return &ProcessorConfig{Mutates: true} },
		xprocessor.WithLogs(func(_ context.Context, s processor.Settings, c component.Config, n consumer.Logs) (processor.Logs, error) {
			return e.newProcessor(Logs, s.ID, c, NextLogs(n)), nil
		}, stable),
		xprocessor.WithTraces(func(_ context.Context, s processor.Settings, c component.Config, n consumer.Traces) (processor.Traces, error) {
			return e.newProcessor(Traces, s.ID, c, NextTraces(n)), nil
		}, stable),
		xprocessor.WithMetrics(func(_ context.Context, s processor.Settings, c component.Config, n consumer.Metrics) (processor.Metrics, error) {
			return e.newProcessor(Metrics, s.ID, c, NextMetrics(n)), nil
		}, stable),
		xprocessor.WithProfiles(func(_ context.Context, s processor.Settings, c component.Config, n xconsumer.Profiles) (xprocessor.Profiles, error) {
			return e.newProcessor(Profiles, s.ID, c, NextProfiles(n)), nil
		}, stable))
}

// ---- exporter ----------------------------------------------------------------------------------

type exporterC struct {
	comp
	cfg   *ExporterConfig
	calls atomic.Int64
}

func (x *exporterC) Capabilities() consumer.Capabilities {
	return consumer.Capabilities{MutatesData: x.cfg.Mutates}
}

func (x *exporterC) consume(_ context.Context, pl Payload) error {
	m := pl.Msg()
	d := &Delivery{Exporter: x.key, Inst: x.inst, Tag: m.Tag, Trail: m.Trail, ReadOnly: pl.IsReadOnly(), Items: pl.Items()}
	if x.calls.Add(1) == 1 && x.cfg.FailFirst {
		d.Refused = true
		x.env.deliver(d)
		return fmt.Errorf("kit: %s refuses (first attempt)", x.key)
	}
	if x.cfg.Keep {
		d.AtCall = pl.Marshal()
		d.Kept, d.HasKept = pl, true
	}
	x.env.deliver(d)
	switch {
	case x.cfg.Mutates && x.cfg.Async:
		x.env.Go(func() { runtime.Gosched(); pl.Mutate(x.key) })
	case x.cfg.Mutates:
		pl.Mutate(x.key)
	case x.cfg.ReadAsync:
		x.env.Go(func() {
			for i := 0; i < 3; i++ {
				_ = pl.Marshal()
				runtime.Gosched()
			}
		})
	}
	if x.cfg.Fail {
		return fmt.Errorf("kit: %s refuses", x.key)
	}
	return nil
}

func (x *exporterC) ConsumeLogs(ctx context.Context, v plog.Logs) error {
	return x.consume(ctx, OfLogs(v))
}
func (x *exporterC) ConsumeTraces(ctx context.Context, v ptrace.Traces) error {
	return x.consume(ctx, OfTraces(v))
}
func (x *exporterC) ConsumeMetrics(ctx context.Context, v pmetric.Metrics) error {
	return x.consume(ctx, OfMetrics(v))
}
func (x *exporterC) ConsumeProfiles(ctx context.Context, v pprofile.Profiles) error {
	return x.consume(ctx, OfProfiles(v))
}

func (e *Env) newExporter(sig Signal, id component.ID, cfg component.Config) *exporterC {
	key := ExpKey(sig, id.String())
	return &exporterC{comp: comp{env: e, key: key, inst: e.created(key)}, cfg: cfg.(*ExporterConfig)}
}

func (e *Env) exporterFactory() exporter.Factory {
	return xexporter.NewFactory(component.MustNewType(TypeExporter), func() component.Config { return &ExporterConfig{} },
		xexporter.WithLogs(func(_ context.Context, s exporter.Settings, c component.Config) (exporter.Logs, error) {
			return e.newExporter(Logs, s.ID, c), nil
		}, stable),
		xexporter.WithTraces(func(_ context.Context, s exporter.Settings, c component.Config) (exporter.Traces, error) {
			return e.newExporter(Traces, s.ID, c), nil
		}, stable),
		xexporter.WithMetrics(func(_ context.Context, s exporter.Settings, c component.Config) (exporter.Metrics, error) {
			return e.newExporter(Metrics, s.ID, c), nil
		}, stable),
		xexporter.WithProfiles(func(_ context.Context, s exporter.Settings, c component.Config) (xexporter.Profiles, error) {
			return e.newExporter(Profiles, s.ID, c), nil
		}, stable))
}

// ---- connector ---------------------------------------------------------------------------------

type connectorC struct {
	comp
	id       string
	from, to Signal
	mode     string // convert | mutate | pass
	next     Next
	routing  bool     // a route is configured for the destination signal
	route    []string // the route as written
	seq      [][]string
	markRO   bool
}

func (c *connectorC) Capabilities() consumer.Capabilities {
	return consumer.Capabilities{MutatesData: c.mode == "mutate"}
}

// TrailEntry is the trail entry of a connector instance without the "#inst" suffix.
func ConnTrailEntry(id string, from, to Signal) string {
	return fmt.Sprintf("%s[%s>%s]", id, from, to)
}

func (c *connectorC) consume(ctx context.Context, pl Payload) error {
	entry := fmt.Sprintf("%s#%d", ConnTrailEntry(c.id, c.from, c.to), c.inst)
	out := pl
	switch c.mode {
	case "mutate":
		pl.AppendTrail(entry)
		seq.Add(1)
	case "pass":
		m := pl.Msg()
		c.env.visit(Visit{Key: c.key, Inst: c.inst, Tag: m.Tag, Trail: m.Trail})
	default:
		m := pl.Msg()
		out = NewPayload(c.to, Msg{Tag: m.Tag, Trail: append(append([]string(nil), m.Trail...), entry)}, nil)
		seq.Add(1)
	}
	if c.markRO && c.mode != "pass" {
		out.MarkReadOnly()
		m := out.Msg()
		c.env.retain(&Retained{Key: c.key, Inst: c.inst, Tag: m.Tag, AtSend: out.Marshal(), Kept: out})
	}
	if len(c.seq) > 0 {
		var errs []error
		// every second connector instance resolves ALL its routes first and keeps the consumers it was given, then
		// forwards through them (a connector that caches its routes); the others resolve a route when they use it
		keep := c.inst%2 == 0
		nexts := make([]*Next, len(c.seq))
		resolve := func(i int, route []string) {
			next := c.next
			if !(len(route) == 1 && route[0] == "*") {
				n, err := requestRoute(c.next, route)
				if err != nil {
					m := out.Msg()
					c.env.routeError(RouteError{Key: c.key, Inst: c.inst, Tag: m.Tag, Trail: m.Trail, Route: route, Err: err.Error()})
					errs = append(errs, fmt.Errorf("kit: %s cannot route to %v: %w", c.key, route, err))
					return
				}
				next = n
			}
			nexts[i] = &next
		}
		if keep {
			for i, route := range c.seq {
				resolve(i, route)
			}
		}
		for i, route := range c.seq {
			if !keep {
				resolve(i, route)
			}
			if nexts[i] != nil {
				errs = append(errs, nexts[i].Consume(ctx, out))
			}
		}
		return errors.Join(errs...)
	}
	next := c.next
	if c.routing {
		n, err := requestRoute(c.next, c.route)
		if err != nil {
			m := out.Msg()
			c.env.routeError(RouteError{Key: c.key, Inst: c.inst, Tag: m.Tag, Trail: m.Trail, Route: c.route, Err: err.Error()})
			return fmt.Errorf("kit: %s cannot route to %v: %w", c.key, c.route, err)
		}
		next = n
	}
	return next.Consume(ctx, out)
}

func (c *connectorC) ConsumeLogs(ctx context.Context, v plog.Logs) error {
	return c.consume(ctx, OfLogs(v))
}
func (c *connectorC) ConsumeTraces(ctx context.Context, v ptrace.Traces) error {
	return c.consume(ctx, OfTraces(v))
}
func (c *connectorC) ConsumeMetrics(ctx context.Context, v pmetric.Metrics) error {
	return c.consume(ctx, OfMetrics(v))
}
func (c *connectorC) ConsumeProfiles(ctx context.Context, v pprofile.Profiles) error {
	return c.consume(ctx, OfProfiles(v))
}

// ParsePipelineID parses "signal[/name]".
func ParsePipelineID(s string) (pipeline.ID, error) {
	sigs := map[string]pipeline.Signal{"logs": pipeline.SignalLogs, "traces": pipeline.SignalTraces, "metrics": pipeline.SignalMetrics, "profiles": xpipeline.SignalProfiles}
	sig, name, _ := strings.Cut(s, "/")
	ps, ok := sigs[sig]
	if !ok {
		return pipeline.ID{}, fmt.Errorf("kit: bad pipeline id %q", s)
	}
	if name == "" {
		return pipeline.NewID(ps), nil
	}
	return pipeline.NewIDWithName(ps, name), nil
}

// requestRoute asks the router behind next for Consumer(ids...) with the ids exactly as written.
func requestRoute(next Next, route []string) (Next, error) {
	ids := make([]pipeline.ID, 0, len(route))
	for _, s := range route {
		id, err := ParsePipelineID(s)
		if err != nil {
			return next, err
		}
		ids = append(ids, id)
	}
	switch next.Signal {
	case Logs:
		r, ok := next.l.(connector.LogsRouterAndConsumer)
		if !ok {
			return next, fmt.Errorf("kit: logs consumer of a connector is not a router: %T", next.l)
		}
		c, err := r.Consumer(ids...)
		return NextLogs(c), err
	case Traces:
		r, ok := next.t.(connector.TracesRouterAndConsumer)
		if !ok {
			return next, fmt.Errorf("kit: traces consumer of a connector is not a router: %T", next.t)
		}
		c, err := r.Consumer(ids...)
		return NextTraces(c), err
	case Metrics:
		r, ok := next.m.(connector.MetricsRouterAndConsumer)
		if !ok {
			return next, fmt.Errorf("kit: metrics consumer of a connector is not a router: %T", next.m)
		}
		c, err := r.Consumer(ids...)
		return NextMetrics(c), err
	default:
		r, ok := next.p.(xconnector.ProfilesRouterAndConsumer)
		if !ok {
			return next, fmt.Errorf("kit: profiles consumer of a connector is not a router: %T", next.p)
		}
		c, err := r.Consumer(ids...)
		return NextProfiles(c), err
	}
}

func (e *Env) newConnector(from, to Signal, id component.ID, cfg component.Config, next Next) (*connectorC, error) {
	cc := cfg.(*ConnectorConfig)
	mode := cc.Mode
	if mode == "" || from != to {
		mode = "convert"
	}
	if mode != "convert" && mode != "mutate" && mode != "pass" {
		return nil, fmt.Errorf("kit: connector mode %q", cc.Mode)
	}
	key := ConnKey(from, to, id.String())
	inst := e.created(key)
	route, routing := cc.Routes[string(to)]
	return &connectorC{comp: comp{env: e, key: key, inst: inst}, id: id.String(), from: from, to: to, mode: mode, next: next, routing: routing, route: route,
		seq: cc.RouteSequence[string(to)], markRO: cc.MarkReadOnly}, nil
}

func (e *Env) connectorFactory(typ string, pairs []Pair) connector.Factory {
	sup := map[Pair]bool{}
	for _, p := range pairs {
		sup[p] = true
	}
	var opts []xconnector.FactoryOption
	add := func(p Pair, o xconnector.FactoryOption) {
		if sup[p] {
			opts = append(opts, o)
		}
	}
	type (
		cs = connector.Settings
		cc = component.Config
	)
	// destination logs
	add(Pair{Logs, Logs}, xconnector.WithLogsToLogs(func(_ context.Context, s cs, c cc, n consumer.Logs) (connector.Logs, error) {
		x, err := e.newConnector(Logs, Logs, s.ID, c, NextLogs(n))
		return x, err
	}, stable))
	add(Pair{Traces, Logs}, xconnector.WithTracesToLogs(func(_ context.Context, s cs, c cc, n consumer.Logs) (connector.Traces, error) {
		x, err := e.newConnector(Traces, Logs, s.ID, c, NextLogs(n))
		return x, err
	}, stable))
	add(Pair{Metrics, Logs}, xconnector.WithMetricsToLogs(func(_ context.Context, s cs, c cc, n consumer.Logs) (connector.Metrics, error) {
		x, err := e.newConnector(Metrics, Logs, s.ID, c, NextLogs(n))
		return x, err
	}, stable))
	add(Pair{Profiles, Logs}, xconnector.WithProfilesToLogs(func(_ context.Context, s cs, c cc, n consumer.Logs) (xconnector.Profiles, error) {
		x, err := e.newConnector(Profiles, Logs, s.ID, c, NextLogs(n))
		return x, err
	}, stable))
	// destination traces
	add(Pair{Logs, Traces}, xconnector.WithLogsToTraces(func(_ context.Context, s cs, c cc, n consumer.Traces) (connector.Logs, error) {
		x, err := e.newConnector(Logs, Traces, s.ID, c, NextTraces(n))
		return x, err
	}, stable))
	add(Pair{Traces, Traces}, xconnector.WithTracesToTraces(func(_ context.Context, s cs, c cc, n consumer.Traces) (connector.Traces, error) {
		x, err := e.newConnector(Traces, Traces, s.ID, c, NextTraces(n))
		return x, err
	}, stable))
	add(Pair{Metrics, Traces}, xconnector.WithMetricsToTraces(func(_ context.Context, s cs, c cc, n consumer.Traces) (connector.Metrics, error) {
		x, err := e.newConnector(Metrics, Traces, s.ID, c, NextTraces(n))
		return x, err
	}, stable))
	add(Pair{Profiles, Traces}, xconnector.WithProfilesToTraces(func(_ context.Context, s cs, c cc, n consumer.Traces) (xconnector.Profiles, error) {
		x, err := e.newConnector(Profiles, Traces, s.ID, c, NextTraces(n))
		return x, err
	}, stable))
	// destination metrics
	add(Pair{Logs, Metrics}, xconnector.WithLogsToMetrics(func(_ context.Context, s cs, c cc, n consumer.Metrics) (connector.Logs, error) {
		x, err := e.newConnector(Logs, Metrics, s.ID, c, NextMetrics(n))
		return x, err
	}, stable))
	add(Pair{Traces, Metrics}, xconnector.WithTracesToMetrics(func(_ context.Context, s cs, c cc, n consumer.Metrics) (connector.Traces, error) {
		x, err := e.newConnector(Traces, Metrics, s.ID, c, NextMetrics(n))
		return x, err
	}, stable))
	add(Pair{Metrics, Metrics}, xconnector.WithMetricsToMetrics(func(_ context.Context, s cs, c cc, n consumer.Metrics) (connector.Metrics, error) {
		x, err := e.newConnector(Metrics, Metrics, s.ID, c, NextMetrics(n))
		return x, err
	}, stable))
	add(Pair{Profiles, Metrics}, xconnector.WithProfilesToMetrics(func(_ context.Context, s cs, c cc, n consumer.Metrics) (xconnector.Profiles, error) {
		x, err := e.newConnector(Profiles, Metrics, s.ID, c, NextMetrics(n))
		return x, err
	}, stable))
	// destination profiles
	add(Pair{Logs, Profiles}, xconnector.WithLogsToProfiles(func(_ context.Context, s cs, c cc, n xconsumer.Profiles) (connector.Logs, error) {
		x, err := e.newConnector(Logs, Profiles, s.ID, c, NextProfiles(n))
		return x, err
	}, stable))
	add(Pair{Traces, Profiles}, xconnector.WithTracesToProfiles(func(_ context.Context, s cs, c cc, n xconsumer.Profiles) (connector.Traces, error) {
		x, err := e.newConnector(Traces, Profiles, s.ID, c, NextProfiles(n))
		return x, err
	}, stable))
	add(Pair{Metrics, Profiles}, xconnector.WithMetricsToProfiles(func(_ context.Context, s cs, c cc, n xconsumer.Profiles) (connector.Metrics, error) {
		x, err := e.newConnector(Metrics, Profiles, s.ID, c, NextProfiles(n))
		return x, err
	}, stable))
	add(Pair{Profiles, Profiles}, xconnector.WithProfilesToProfiles(func(_ context.Context, s cs, c cc, n xconsumer.Profiles) (xconnector.Profiles, error) {
		x, err := e.newConnector(Profiles, Profiles, s.ID, c, NextProfiles(n))
		return x, err
	}, stable))
	return xconnector.NewFactory(component.MustNewType(typ), func() component.Config { return &ConnectorConfig{} }, opts...)
}

// ---- extension ---------------------------------------------------------------------------------

type extensionC struct {
	comp
	deps []component.ID
}

// Dependencies implements extensioncapabilities.Dependent.
func (x *extensionC) Dependencies() []component.ID { return x.deps }

func (e *Env) extensionFactory() extension.Factory {
	return extension.NewFactory(component.MustNewType(TypeExtension), func() component.Config { return &ExtensionConfig{} },
		func(_ context.Context, s extension.Settings, c component.Config) (extension.Extension, error) {
			var deps []component.ID
			for _, d := range c.(*ExtensionConfig).Deps {
				var id component.ID
				if err := id.UnmarshalText([]byte(d)); err != nil {
					return nil, err
				}
				deps = append(deps, id)
			}
			key := ExtKey(s.ID.String())
			return &extensionC{comp: comp{env: e, key: key, inst: e.created(key)}, deps: deps}, nil
		}, stable)
}

// Factories returns the factories of this environment (suitable as CollectorSettings.Factories).
func (e *Env) Factories() (otelcol.Factories, error) {
	f := otelcol.Factories{
		Receivers:  map[component.Type]receiver.Factory{},
		Processors: map[component.Type]processor.Factory{},
		Exporters:  map[component.Type]exporter.Factory{},
		Connectors: map[component.Type]connector.Factory{},
		Extensions: map[component.Type]extension.Factory{},
	}
	for _, rf := range append([]receiver.Factory{e.receiverFactory(), e.sharedFactory()}, e.opts.ExtraReceivers...) {
		f.Receivers[rf.Type()] = rf
	}
	for _, pf := range append([]processor.Factory{e.processorFactory()}, e.opts.ExtraProcessors...) {
		f.Processors[pf.Type()] = pf
	}
	for _, xf := range append([]exporter.Factory{e.exporterFactory()}, e.opts.ExtraExporters...) {
		f.Exporters[xf.Type()] = xf
	}
	for typ, pairs := range e.opts.ConnectorTypes {
		cf := e.connectorFactory(typ, pairs)
		f.Connectors[cf.Type()] = cf
	}
	for _, cf := range e.opts.ExtraConnectors {
		f.Connectors[cf.Type()] = cf
	}
	for _, xf := range append([]extension.Factory{e.extensionFactory()}, e.opts.ExtraExtensions...) {
		f.Extensions[xf.Type()] = xf
	}
	return f, nil
}
