// Package kit is the shared component kit of the graph-level checks (C06 L2, C09, C10 and later
// C11/C19/C20): public-API test components, a global lifecycle event log, a configuration model with
// an independent routing/ordering oracle, and a runner for in-process collectors.
//
// Everything goes through the public API of the collector (component factories, confmap.Provider,
// otelcol.NewCollector(...).Run); the only internal package used is internal/sharedcomponent, for the
// multi-signal receiver that follows the pattern of the OTLP receiver.
//
// # Environment
//
// An [Env] is the observation context of one collector lifetime (it may be reused for several
// lifetimes after [Env.Reset]). All components created by the factories of an Env report into it:
//
//   - [Env.Events]: the lifecycle log. Every event carries a sequence number drawn from one
//     process-wide atomic counter ([Seq]), so events of different Envs are totally ordered as well.
//     Event types: create, start-call, start-return, shutdown-call, shutdown-return, log (see
//     [Env.TapLogs]).
//   - [Env.Creates]: factory create-call counters per instance key.
//   - [Env.Deliveries]: what every exporter instance received: (exporter key, instance ordinal, tag,
//     trail, read-only flag[, bytes at call time and the payload itself when the exporter keeps it]).
//   - [Env.Visits]: what every non-mutating processor / pass-through connector saw.
//   - [Env.Injector]: the handle of a receiver instance, to inject a tagged payload on demand.
//   - [Env.FailStart] / [Env.FailShutdown]: failure injection per instance key.
//   - [Env.Go] / [Env.Settle]: asynchronous work of mutating / reading exporters and the join point;
//     a panic of such work (a mutator that was handed read-only data) is kept in [Env.AsyncPanics].
//
// Instance keys are plain strings (see [RecvKey], [ProcKey], [ExpKey], [ConnKey], [ExtKey],
// [SharedKey]): "receiver:logs:krecv/1", "processor:logs:kproc/a", "exporter:traces:kexp/2",
// "connector:logs>metrics:kconn/x", "extension:kext/e0", "shared:kshared/1" (the single underlying
// component of a multi-signal receiver). A processor cannot learn its pipeline from its settings, so
// two pipelines of one signal using the same processor id produce two instances with the same key and
// different instance ordinals; checks that need instance==pipeline use unique processor ids.
//
// # Components (all types start with "k"; all support the four signals, profiles via the x* packages)
//
//   - receiver "krecv": one instance per (signal, id); does nothing by itself, see [Injector]:
//     Inject sends a fresh payload; [Injector.SendPayload] can mark the payload read-only before
//     sending and re-send the very same payload object after a downstream error ([SendOptions]).
//   - receiver "kshared": sharedcomponent-based; one underlying component per id for all signals.
//   - processor "kproc": config {mutates: bool (default true)}. A mutating processor appends
//     "<id>#<instance>" to the trail attribute of the payload and declares MutatesData; a non-mutating
//     one records a visit and forwards the payload untouched.
//   - exporter "kexp": records a [Delivery]. Config {mutates, async, keep, read_async, fail}: a
//     mutating exporter declares MutatesData and really mutates the payload it was given (marker
//     "kit.mark.<key>;", synchronously or from a goroutine after returning); read_async re-reads the
//     payload from a goroutine after returning; keep retains the payload and its bytes at call time for
//     non-interference oracles; fail makes Consume return an error (after recording); fail_first
//     refuses only the instance's first call (for retrying receivers, see [AddSoloPipeline]).
//   - connectors: the types in [ConnectorTypes] differ in the signal pairs their factory supports
//     ("kconn" all 16, "ksame" the 4 same-signal pairs, "kl2m" logs→metrics only, ...). Config
//     {mode: convert|mutate|pass, routes: {<destination signal>: [pipeline ids]}}: convert builds a
//     new payload of the destination signal carrying tag and trail extended by
//     "<id>[from>to]#<instance>"; mutate (same-signal only) extends the trail in place and declares
//     MutatesData; pass (same-signal only) forwards the very same payload and records a visit.
//     routes makes it a routing connector: on every Consume it asks the router it was given for
//     Consumer(ids...) with the ids exactly as written (repeated ids, unconnected pipelines and the
//     empty route included); a refused route is recorded in [Env.RouteErrors], nothing is forwarded
//     and Consume returns a "cannot route" error. See [RouteClasses] / [MakeRoute]. route_sequence
//     sends the same outgoing payload to several routes in turn (["*"] = the default consumer) and
//     mark_read_only marks the outgoing payload read-only first and retains it ([Env.Retained]).
//   - extension "kext": config {deps: [ids]} returned from Dependencies().
//
// # Configuration model and oracle
//
// A [Topology] is the configuration a user would write (pipelines, component configs, service
// extensions); [Topology.YAML] renders it. The functions in oracle.go compute, from the Topology alone
// and independently of service/internal/graph: validity ([Topology.Validate]: connector usage,
// connector cycles, extension dependency cycles), connector instances, the multiset of delivery paths
// per receiver instance with the expected trail ([Topology.Paths]), expected create counts
// ([Topology.ExpectedCreates]) and the data-flow edges between instance keys ([Topology.Edges]).
// gen.go builds random valid topologies constructively ([GenTopology]).
//
// # Running
//
// [Env.Launch] builds otelcol.NewCollector with the Env's factories and a [Provider] serving the
// YAML, and calls Run on a goroutine. [Running.AwaitRunning] waits (without deciding anything) until
// the collector is Running or Run returned; [Running.Stop] requests shutdown and returns Run's error.
// A panic that escapes Collector.Run is recovered on the runner's goroutine and re-raised as *[RunPanic]
// by AwaitRunning / Wait / Stop on the caller's goroutine (see [UnwrapPanic]).
// No OS signal handling is requested (DisableGracefulShutdown). Callers must wrap a case in
// driver.Ctx.Guard with [Seq] as progress function so that a collector that never stops cannot hang
// the check. [Provider.Fire] delivers at most one change event per Retrieve and never after the
// provider was shut down or the run was stopped (the resolver closes its channel on shutdown).
//
// Profiles pipelines need the service.profilesSupport feature gate; [EnableProfiles] sets it (done
// by NewEnv).
package kit
