package kit

import (
	"context"

	"go.opentelemetry.io/collector/component"
	"go.opentelemetry.io/collector/consumer"
	"go.opentelemetry.io/collector/consumer/xconsumer"
	"go.opentelemetry.io/collector/internal/sharedcomponent"
	"go.opentelemetry.io/collector/receiver"
	"go.opentelemetry.io/collector/receiver/xreceiver"
)

// sharedRecv is the single underlying component of a "kshared" receiver id: it serves all signals
// the id is used for, exactly like the OTLP receiver (one server for traces, metrics, logs, profiles).
// Its lifecycle events are logged under SharedKey(id).
type sharedRecv struct{ comp }

// sharedInst is what the service sees for one signal of a kshared receiver: it logs the
// instance-level events under RecvKey(signal, id) and delegates to the sharedcomponent wrapper, which
// starts / stops the underlying component once.
type sharedInst struct {
	comp
	inner *sharedcomponent.Component[*sharedRecv]
}

func (s *sharedInst) Start(ctx context.Context, host component.Host) error {
	s.env.log(EvStartCall, s.key, s.inst, nil, "")
	err := s.env.startErr(s.key)
	if err == nil {
		err = s.inner.Start(ctx, host)
	}
	s.env.log(EvStartReturn, s.key, s.inst, err, "")
	return err
}

func (s *sharedInst) Shutdown(ctx context.Context) error {
	s.env.log(EvShutdownCall, s.key, s.inst, nil, "")
	err := s.inner.Shutdown(ctx)
	if err == nil {
		err = s.env.stopErr(s.key)
	}
	s.env.log(EvShutdownReturn, s.key, s.inst, err, "")
	return err
}

func (e *Env) newShared(sig Signal, id component.ID, next Next) (*sharedInst, error) {
	e.mu.Lock()
	shared := e.shared
	e.mu.Unlock()
	inner, err := shared.LoadOrStore(id, func() (*sharedRecv, error) {
		key := SharedKey(id.String())
		return &sharedRecv{comp{env: e, key: key, inst: e.created(key)}}, nil
	})
	if err != nil {
		return nil, err
	}
	key := RecvKey(sig, id.String())
	s := &sharedInst{comp: comp{env: e, key: key, inst: e.created(key)}, inner: inner}
	e.register(&Injector{Signal: sig, ID: id.String(), Key: key, Inst: s.inst, Next: next})
	return s, nil
}

func (e *Env) sharedFactory() receiver.Factory {
	return xreceiver.NewFactory(component.MustNewType(TypeShared), func() component.Config { return &ReceiverConfig{} },
		xreceiver.WithLogs(func(_ context.Context, s receiver.Settings, _ component.Config, n consumer.Logs) (receiver.Logs, error) {
			x, err := e.newShared(Logs, s.ID, NextLogs(n))
			return x, err
		}, stable),
		xreceiver.WithTraces(func(_ context.Context, s receiver.Settings, _ component.Config, n consumer.Traces) (receiver.Traces, error) {
			x, err := e.newShared(Traces, s.ID, NextTraces(n))
			return x, err
		}, stable),
		xreceiver.WithMetrics(func(_ context.Context, s receiver.Settings, _ component.Config, n consumer.Metrics) (receiver.Metrics, error) {
			x, err := e.newShared(Metrics, s.ID, NextMetrics(n))
			return x, err
		}, stable),
		xreceiver.WithProfiles(func(_ context.Context, s receiver.Settings, _ component.Config, n xconsumer.Profiles) (xreceiver.Profiles, error) {
			x, err := e.newShared(Profiles, s.ID, NextProfiles(n))
			return x, err
		}, stable))
}

// IsSharedID tells whether a receiver id is of the kshared type.
func IsSharedID(id string) bool {
	return id == TypeShared || len(id) > len(TypeShared) && id[:len(TypeShared)+1] == TypeShared+"/"
}
