package kit

import (
	"fmt"
	"math/rand"
	"sort"
)

// GenOptions steers GenTopology. Zero values select the defaults given in the comments.
type GenOptions struct {
	MaxPipelines int      // 6
	Signals      []Signal // all four
	RecvPool     int      // 3: receivers are drawn from krecv/1..RecvPool
	ProcPool     int      // 3: processors from kproc/a.. (ignored with UniqueProcessors)
	ExpPool      int      // 3: exporters from kexp/1..ExpPool
	MaxConnUses  int      // 6: attempted connector placements

	UniqueProcessors bool    // every pipeline gets its own processor ids (instance == key)
	SharedReceivers  bool    // also draw receivers from kshared/1..2 (one underlying component for all signals)
	NonMutatingProcs float64 // probability that a processor is configured mutates:false
	ConnModes        bool    // same-signal connector instances may use mode mutate / pass
	RouteTo          float64 // probability that a connector with >= 2 destination pipelines of a signal gets a route (class drawn from RouteClasses)
	FailingExporters float64 // probability that an exporter is configured fail:true
	ExporterModes    bool    // randomise exporter mutates / async / keep / read_async (C06)
	MaxExtensions    int     // 0: none; else 0..MaxExtensions extensions with a random dependency DAG
	// CaseTwins: the id pools consist mostly of pairs that differ ONLY in letter case (krecv/A vs
	// krecv/a, kshared/R vs kshared/r, kproc/X vs kproc/x, kexp/EU vs kexp/eu, kconn/C vs kconn/c,
	// ksame/S vs ksame/s, kext/E0 vs kext/e0) and pipelines of one signal are named Blue, blue, Red,
	// red, …: such ids are valid and distinct, the graph must keep them apart.
	CaseTwins bool
	// RepeatedExtensions: some extension ids are listed more than once under service::extensions
	// (validation accepts that): adjacent or non-adjacent repeats of an extension that depends on
	// another one, of one that others depend on, or of an independent one. The service has one
	// component per id; it must be started and shut down exactly once, in dependency order.
	RepeatedExtensions bool
	// RepeatedMentions: some pipelines list one of their receivers or exporters twice (validation only rejects a
	// repeated processor): it is one component, reached once per path
	RepeatedMentions bool
}

func (o *GenOptions) defaults() {
	if o.MaxPipelines == 0 {
		o.MaxPipelines = 6
	}
	if len(o.Signals) == 0 {
		o.Signals = Signals
	}
	if o.RecvPool == 0 {
		o.RecvPool = 3
	}
	if o.ProcPool == 0 {
		o.ProcPool = 3
	}
	if o.ExpPool == 0 {
		o.ExpPool = 3
	}
	if o.MaxConnUses == 0 {
		o.MaxConnUses = 6
	}
}

func pick(rng *rand.Rand, pool []string, min, max int) []string {
	if max > len(pool) {
		max = len(pool)
	}
	if min > max {
		min = max
	}
	n := min + rng.Intn(max-min+1)
	out := make([]string, 0, n)
	for _, i := range rng.Perm(len(pool))[:n] {
		out = append(out, pool[i])
	}
	return out
}

// ConnectorPool is the set of connector ids GenTopology draws from: two of the universal type and
// one of every restricted type.
func ConnectorPool(pairs map[string][]Pair) []string {
	if pairs == nil {
		pairs = ConnectorTypes
	}
	var types []string
	for t := range pairs {
		types = append(types, t)
	}
	sort.Strings(types)
	var out []string
	for _, t := range types {
		out = append(out, t+"/1")
		if len(pairs[t]) == 16 {
			out = append(out, t+"/2")
		}
	}
	return out
}

// connectorProblems tells whether connector usage is invalid or cyclic (pipeline emptiness ignored).
func (t *Topology) connectorProblems() bool {
	v := t.Validate()
	for _, r := range v.Reasons {
		if len(r) > 5 && r[:5] == "conn-" {
			return true
		}
	}
	return false
}

// GenTopology builds a random valid configuration. Connector usage is built constructively: a
// placement (connector id, source pipeline, destination pipeline with a supported signal pair) is kept
// only if the reference model still finds the usage valid and acyclic; further sources / destinations
// are added the same way, so chains, fan-in, fan-out and DAGs whose pipeline order is not the index
// order all occur. Pipelines left without a receiver / exporter get one from the pools.
func GenTopology(rng *rand.Rand, o GenOptions) *Topology {
	o.defaults()
	t := NewTopology()
	// a run uses 1..3 of the signals so that same-signal sharing is frequent
	sigs := append([]Signal(nil), o.Signals...)
	rng.Shuffle(len(sigs), func(i, j int) { sigs[i], sigs[j] = sigs[j], sigs[i] })
	if k := 1 + rng.Intn(3); k < len(sigs) {
		sigs = sigs[:k]
	}
	var recvPool, procPool, expPool []string
	for i := 1; i <= o.RecvPool; i++ {
		recvPool = append(recvPool, fmt.Sprintf("%s/%d", TypeReceiver, i))
	}
	if o.SharedReceivers {
		recvPool = append(recvPool, TypeShared+"/1", TypeShared+"/2")
	}
	for i := 0; i < o.ProcPool; i++ {
		procPool = append(procPool, fmt.Sprintf("%s/%c", TypeProcessor, 'a'+i))
	}
	for i := 1; i <= o.ExpPool; i++ {
		expPool = append(expPool, fmt.Sprintf("%s/%d", TypeExporter, i))
	}
	if o.CaseTwins {
		recvPool = []string{TypeReceiver + "/A", TypeReceiver + "/a", TypeReceiver + "/1"}
		if o.SharedReceivers {
			recvPool = append(recvPool, TypeShared+"/R", TypeShared+"/r")
		}
		procPool = []string{TypeProcessor + "/X", TypeProcessor + "/x", TypeProcessor + "/a"}
		expPool = []string{TypeExporter + "/EU", TypeExporter + "/eu", TypeExporter + "/1"}
	}
	twinNames := []string{"Blue", "blue", "Red", "red", "Green", "green", "Grey", "grey"}
	perSignal := map[Signal]int{}
	np := 1 + rng.Intn(o.MaxPipelines)
	for i := 0; i < np; i++ {
		p := Pipeline{Signal: sigs[rng.Intn(len(sigs))], Name: fmt.Sprintf("p%d", i)}
		if o.CaseTwins {
			p.Name = twinNames[perSignal[p.Signal]%len(twinNames)]
			perSignal[p.Signal]++
		}
		p.Receivers = pick(rng, recvPool, 0, 3)
		if o.UniqueProcessors {
			for k, n := 0, rng.Intn(4); k < n; k++ {
				p.Processors = append(p.Processors, fmt.Sprintf("%s/p%d_%d", TypeProcessor, i, k))
			}
		} else {
			p.Processors = pick(rng, procPool, 0, 3)
		}
		p.Exporters = pick(rng, expPool, 0, 3)
		t.Pipelines = append(t.Pipelines, p)
	}
	// connectors
	pool := ConnectorPool(t.ConnPairs)
	if o.CaseTwins {
		pool = append([]string{"kconn/C", "kconn/c", "ksame/S", "ksame/s", "kconn/C", "kconn/c"}, pool[:2]...)
	}
	for _, id := range pool {
		if rng.Intn(3) == 0 { // some connectors are configured but never used
			t.Connectors[id] = nil
		}
	}
	tryAdd := func(id string, a, b int) bool {
		pa, pb := &t.Pipelines[a], &t.Pipelines[b]
		ea, rb := contains(pa.Exporters, id), contains(pb.Receivers, id)
		if ea && rb {
			return false
		}
		oldE, oldR := pa.Exporters, pb.Receivers
		_, had := t.Connectors[id]
		t.Connectors[id] = nil
		if !ea {
			pa.Exporters = append(append([]string(nil), pa.Exporters...), id)
		}
		if !rb {
			pb.Receivers = append(append([]string(nil), pb.Receivers...), id)
		}
		if t.connectorProblems() {
			pa.Exporters, pb.Receivers = oldE, oldR
			if !had {
				delete(t.Connectors, id)
			}
			return false
		}
		return true
	}
	if np >= 2 {
		var fed []int // pipelines already fed by a connector: preferred sources, so that chains form
		for u, n := 0, rng.Intn(o.MaxConnUses+1); u < n; u++ {
			id := pool[rng.Intn(len(pool))]
			a, b := rng.Intn(np), rng.Intn(np)
			if len(fed) > 0 && rng.Intn(2) == 0 {
				a = fed[rng.Intn(len(fed))]
			}
			if a == b || !t.Supports(id, t.Pipelines[a].Signal, t.Pipelines[b].Signal) {
				// look for any supported ordered pair for this connector
				found := false
				for _, i := range rng.Perm(np) {
					for _, j := range rng.Perm(np) {
						if i != j && t.Supports(id, t.Pipelines[i].Signal, t.Pipelines[j].Signal) {
							a, b, found = i, j, true
							break
						}
					}
					if found {
						break
					}
				}
				if !found {
					continue
				}
			}
			if !tryAdd(id, a, b) {
				continue
			}
			fed = append(fed, b)
			// fan-in / fan-out on the same connector
			for extra := rng.Intn(3); extra > 0; extra-- {
				x := rng.Intn(np)
				if rng.Intn(2) == 0 {
					tryAdd(id, x, b)
				} else {
					tryAdd(id, a, x)
				}
			}
		}
	}
	// every pipeline needs a receiver and an exporter
	for i := range t.Pipelines {
		p := &t.Pipelines[i]
		if len(p.Receivers) == 0 {
			p.Receivers = pick(rng, recvPool, 1, 2)
		}
		if len(p.Exporters) == 0 {
			p.Exporters = pick(rng, expPool, 1, 2)
		}
	}
	if o.RepeatedMentions {
		for i := range t.Pipelines {
			p := &t.Pipelines[i]
			if rng.Intn(3) == 0 && len(p.Exporters) > 0 {
				p.Exporters = append(p.Exporters, p.Exporters[rng.Intn(len(p.Exporters))])
			}
			if rng.Intn(4) == 0 && len(p.Receivers) > 0 {
				p.Receivers = append(p.Receivers, p.Receivers[rng.Intn(len(p.Receivers))])
			}
		}
	}
	// component sections: the whole pools are configured, so unused components exist too
	for _, id := range recvPool {
		t.Receivers[id] = nil
	}
	for _, p := range t.Pipelines {
		for _, id := range p.Processors {
			t.Processors[id] = nil
		}
	}
	if !o.UniqueProcessors {
		for _, id := range procPool {
			t.Processors[id] = nil
		}
	}
	procIDs := make([]string, 0, len(t.Processors))
	for id := range t.Processors {
		procIDs = append(procIDs, id)
	}
	sort.Strings(procIDs) // map order must not leak into the PRNG stream: a case is a function of its seed
	for _, id := range procIDs {
		if rng.Float64() < o.NonMutatingProcs {
			t.Processors[id] = map[string]any{"mutates": false}
		}
	}
	for _, id := range expPool {
		t.Exporters[id] = nil
		cfg := map[string]any{}
		if rng.Float64() < o.FailingExporters {
			cfg["fail"] = true
		}
		if o.ExporterModes {
			cfg["keep"] = true
			switch rng.Intn(4) {
			case 0:
				cfg["mutates"] = true
			case 1:
				cfg["mutates"], cfg["async"] = true, true
			case 2:
				cfg["read_async"] = true
			}
		}
		if len(cfg) > 0 {
			t.Exporters[id] = cfg
		}
	}
	// connector modes and routing
	for _, ci := range t.ConnInstances() {
		cfg := t.Connectors[ci.ID]
		if o.ConnModes && ci.From == ci.To && cfg == nil && rng.Intn(2) == 0 {
			cfg = map[string]any{"mode": []string{"mutate", "pass"}[rng.Intn(2)]}
		}
		if len(ci.Dests) >= 2 && rng.Float64() < o.RouteTo {
			if cfg == nil {
				cfg = map[string]any{}
			}
			routes, _ := cfg["routes"].(map[string]any)
			if routes == nil {
				routes = map[string]any{}
			}
			if _, done := routes[string(ci.To)]; !done { // one route per (connector id, destination signal)
				class := RouteClasses[rng.Intn(len(RouteClasses))]
				routes[string(ci.To)] = MakeRoute(rng, class, t, ci)
				cfg["routes"] = routes
			}
		}
		t.Connectors[ci.ID] = cfg
	}
	// extensions with a dependency DAG; listed in random order
	if o.MaxExtensions > 0 {
		n := rng.Intn(o.MaxExtensions + 1)
		var ids []string
		for i := 0; i < n; i++ {
			id := fmt.Sprintf("%s/e%d", TypeExtension, i)
			if o.CaseTwins {
				id = fmt.Sprintf("%s/%c%d", TypeExtension, "Ee"[i%2], i/2)
			}
			ids = append(ids, id)
			var deps []string
			for j := 0; j < i; j++ {
				if rng.Intn(3) == 0 {
					deps = append(deps, ids[j])
				}
			}
			if len(deps) > 0 {
				t.Extensions[id] = map[string]any{"deps": deps}
			} else {
				t.Extensions[id] = nil
			}
		}
		for _, i := range rng.Perm(n) {
			t.ServiceExtensions = append(t.ServiceExtensions, ids[i])
		}
		if o.RepeatedExtensions && n > 0 {
			RepeatExtensions(rng, t)
		}
	}
	return t
}

// RepeatExtensions lists one or two of the service extensions a second (sometimes a third) time:
// preferably one that has dependencies or one that others depend on; the repeat is inserted right
// after an existing listing (adjacent), or at the start / end / a random position (non-adjacent).
func RepeatExtensions(rng *rand.Rand, t *Topology) {
	if len(t.ServiceExtensions) == 0 {
		return
	}
	var dependents, dependencies, all []string
	seen := map[string]bool{}
	for _, id := range t.ServiceExtensions {
		if seen[id] {
			continue
		}
		seen[id] = true
		all = append(all, id)
		if d := cfgStrings(t.Extensions[id], "deps"); len(d) > 0 {
			dependents = append(dependents, id)
			for _, x := range d {
				if !contains(dependencies, x) {
					dependencies = append(dependencies, x)
				}
			}
		}
	}
	sort.Strings(dependencies)
	for k, n := 0, 1+rng.Intn(2); k < n; k++ {
		pool := all
		switch c := rng.Intn(3); {
		case c == 0 && len(dependents) > 0:
			pool = dependents
		case c == 1 && len(dependencies) > 0:
			pool = dependencies
		}
		id := pool[rng.Intn(len(pool))]
		for r, reps := 0, 1+rng.Intn(4)/3; r < reps; r++ {
			l := t.ServiceExtensions
			pos := 0
			switch rng.Intn(4) {
			case 0: // adjacent: right after an existing listing of id
				for i, x := range l {
					if x == id {
						pos = i + 1
						break
					}
				}
			case 1:
				pos = 0
			case 2:
				pos = len(l)
			default:
				pos = rng.Intn(len(l) + 1)
			}
			t.ServiceExtensions = append(l[:pos:pos], append([]string{id}, l[pos:]...)...)
		}
	}
}

// RepeatedExtensionIDs returns the ids listed more than once under service::extensions with their counts.
func (t *Topology) RepeatedExtensionIDs() map[string]int {
	n := map[string]int{}
	for _, id := range t.ServiceExtensions {
		n[id]++
	}
	for id, c := range n {
		if c < 2 {
			delete(n, id)
		}
	}
	return n
}

// RouteClasses are the kinds of routes a routing connector with N >= 2 downstream pipelines requests.
//
//	full        all N downstream pipelines, distinct
//	subset      1..N-1 distinct downstream pipelines
//	repeated    exactly N entries, all downstream pipelines of the instance, at least one repeated
//	unconnected exactly N entries, one of them a pipeline the instance is not connected to: another
//	            pipeline of the destination signal, a pipeline of another signal, or a name that does
//	            not exist (the router must refuse)
//	empty       no entry (the router must refuse)
var RouteClasses = []string{"full", "subset", "repeated", "unconnected", "empty"}

// MakeRoute builds a route of the class for a connector instance with at least 2 downstream pipelines.
func MakeRoute(rng *rand.Rand, class string, t *Topology, ci ConnInst) []string {
	var dests []string
	for _, q := range ci.Dests {
		dests = append(dests, t.Pipelines[q].ID())
	}
	n := len(dests)
	perm := func() []string {
		out := make([]string, 0, n)
		for _, i := range rng.Perm(n) {
			out = append(out, dests[i])
		}
		return out
	}
	switch class {
	case "subset":
		if n == 1 { // a single destination has no proper non-empty subset: the full route
			return perm()
		}
		return perm()[:1+rng.Intn(n-1)]
	case "repeated":
		if n == 1 {
			return []string{dests[0], dests[0]}
		}
		base := perm()[:1+rng.Intn(n-1)] // the distinct ids used; the rest of the N entries repeat them
		out := append([]string(nil), base...)
		for len(out) < n {
			out = append(out, base[rng.Intn(len(base))])
		}
		rng.Shuffle(n, func(i, j int) { out[i], out[j] = out[j], out[i] })
		return out
	case "unconnected":
		var cand []string
		for _, p := range t.Pipelines {
			if !contains(dests, p.ID()) {
				cand = append(cand, p.ID())
			}
		}
		cand = append(cand, string(ci.To)+"/nosuch", string(ci.To))
		var bad string
		for _, i := range rng.Perm(len(cand)) {
			if !contains(dests, cand[i]) {
				bad = cand[i]
				break
			}
		}
		out := append(perm()[:n-1], bad)
		rng.Shuffle(n, func(i, j int) { out[i], out[j] = out[j], out[i] })
		return out
	case "empty":
		return []string{}
	}
	return perm()
}

// SoloReceiverID is the receiver of the structure AddSoloPipeline appends.
const SoloReceiverID = TypeReceiver + "/solo"

// AddSoloPipeline appends a receiver that feeds exactly ONE pipeline of the signal whose first
// processor declares MutatesData and really mutates (plus 0–1 further processors) and that has one or
// two exporters of its own; with refuseFirst the first exporter refuses its first call (fail_first),
// so that a receiver which re-sends the same payload object meets a pipeline that has already seen —
// and, with two exporters, marked read-only — that object. Exporters keep what they accept.
func AddSoloPipeline(rng *rand.Rand, t *Topology, sig Signal, refuseFirst bool) {
	t.Receivers[SoloReceiverID] = nil
	t.Processors[TypeProcessor+"/solo"] = nil // mutates: true by default
	p := Pipeline{Signal: sig, Name: "solo", Receivers: []string{SoloReceiverID}, Processors: []string{TypeProcessor + "/solo"}}
	if rng.Intn(2) == 0 {
		t.Processors[TypeProcessor+"/solo2"] = map[string]any{"mutates": rng.Intn(2) == 0}
		p.Processors = append(p.Processors, TypeProcessor+"/solo2")
	}
	first := map[string]any{"keep": true}
	if refuseFirst {
		first["fail_first"] = true
	}
	t.Exporters[TypeExporter+"/solo1"] = first
	p.Exporters = []string{TypeExporter + "/solo1"}
	if rng.Intn(3) > 0 {
		t.Exporters[TypeExporter+"/solo2"] = map[string]any{"keep": true, "read_async": rng.Intn(2) == 0}
		p.Exporters = append(p.Exporters, TypeExporter+"/solo2")
	}
	t.Pipelines = append(t.Pipelines, p)
}
