package kit

import (
	"fmt"
	"sort"
	"strings"
)

// This file is the reference model: everything here is computed from the configuration (Topology)
// alone, by plain reachability, and shares no code with service/internal/graph.

func (t *Topology) pairs(typ string) []Pair {
	m := t.ConnPairs
	if m == nil {
		m = ConnectorTypes
	}
	return m[typ]
}

// Supports tells whether the factory of connector id supports the pair.
func (t *Topology) Supports(id string, from, to Signal) bool {
	for _, p := range t.pairs(TypeOf(id)) {
		if p.From == from && p.To == to {
			return true
		}
	}
	return false
}

func contains(l []string, s string) bool {
	for _, x := range l {
		if x == s {
			return true
		}
	}
	return false
}

func uniq(l []string) []string {
	var out []string
	for _, x := range l {
		if !contains(out, x) {
			out = append(out, x)
		}
	}
	return out
}

// ConnInst is one connector instance: (id, exporter-side signal, receiver-side signal).
type ConnInst struct {
	ID       string
	From, To Signal
	Sources  []int // indices of the pipelines of signal From that list ID as exporter
	Dests    []int // indices of the pipelines of signal To that list ID as receiver (graph edges)
	// Deliver lists the pipelines one payload is delivered to, with multiplicity and in route order:
	// == Dests when no route is configured for To; the route's pipelines (a repeated id delivers
	// twice: the router builds a fan-out over the listed consumers) when the route is well-formed;
	// empty when the router must refuse the route (RouteErr).
	Deliver     []int
	Routing     bool       // a route (or a route sequence) is configured for signal To
	RouteSeq    [][]string // route_sequence for signal To: the payload goes to each route in turn (["*"] = all)
	Route       []string   // the route as written
	RouteErr    bool       // the route is empty or names a pipeline the instance is not connected to
	SeqRefusals int        // route_sequence: number of entries the router must refuse
	Mode        string
}

// Key is the instance key.
func (c ConnInst) Key() string { return ConnKey(c.From, c.To, c.ID) }

// connUse returns, for a connector id, the pipelines listing it as exporter and as receiver.
func (t *Topology) connUse(id string) (asExp, asRecv []int) {
	for i, p := range t.Pipelines {
		if contains(p.Exporters, id) {
			asExp = append(asExp, i)
		}
		if contains(p.Receivers, id) {
			asRecv = append(asRecv, i)
		}
	}
	return
}

// UsedConnectors returns the sorted ids of configured connectors referenced by some pipeline.
func (t *Topology) UsedConnectors() []string {
	set := map[string]bool{}
	for _, p := range t.Pipelines {
		for _, id := range append(append([]string(nil), p.Receivers...), p.Exporters...) {
			if t.IsConnector(id) {
				set[id] = true
			}
		}
	}
	out := make([]string, 0, len(set))
	for id := range set {
		out = append(out, id)
	}
	sort.Strings(out)
	return out
}

// ConnInstances returns the connector instances the configuration calls for: one per (id, source
// signal, destination signal) with a supported pair and at least one pipeline on either side.
func (t *Topology) ConnInstances() []ConnInst {
	var out []ConnInst
	for _, id := range t.UsedConnectors() {
		asExp, asRecv := t.connUse(id)
		for _, from := range Signals {
			for _, to := range Signals {
				if !t.Supports(id, from, to) {
					continue
				}
				ci := ConnInst{ID: id, From: from, To: to}
				for _, i := range asExp {
					if t.Pipelines[i].Signal == from {
						ci.Sources = append(ci.Sources, i)
					}
				}
				for _, i := range asRecv {
					if t.Pipelines[i].Signal == to {
						ci.Dests = append(ci.Dests, i)
					}
				}
				if len(ci.Sources) == 0 || len(ci.Dests) == 0 {
					continue
				}
				cfg := t.Connectors[id]
				ci.Mode = cfgString(cfg, "mode")
				if ci.Mode == "" || from != to {
					ci.Mode = "convert"
				}
				ci.Deliver = ci.Dests
				if seq := cfgRouteSeq(cfg)[string(to)]; len(seq) > 0 {
					// the same payload is sent to every route in turn; a bad entry is refused, the others still deliver
					ci.Routing, ci.RouteSeq, ci.Deliver = true, seq, nil
					for _, route := range seq {
						if len(route) == 1 && route[0] == "*" {
							ci.Deliver = append(ci.Deliver, ci.Dests...)
							continue
						}
						var d []int
						bad := len(route) == 0
						for _, r := range route {
							found := false
							for _, i := range ci.Dests {
								if t.Pipelines[i].ID() == r {
									d = append(d, i)
									found = true
								}
							}
							bad = bad || !found
						}
						if bad {
							ci.SeqRefusals++
						} else {
							ci.Deliver = append(ci.Deliver, d...)
						}
					}
				} else if route, ok := cfgRoutes(cfg)[string(to)]; ok {
					ci.Routing, ci.Route, ci.Deliver = true, route, nil
					ci.RouteErr = len(route) == 0
					for _, r := range route {
						found := false
						for _, i := range ci.Dests {
							if t.Pipelines[i].ID() == r {
								ci.Deliver = append(ci.Deliver, i)
								found = true
							}
						}
						ci.RouteErr = ci.RouteErr || !found
					}
					if ci.RouteErr {
						ci.Deliver = nil
					}
				}
				out = append(out, ci)
			}
		}
	}
	return out
}

// Verdict is the reference decision about a configuration.
type Verdict struct {
	Valid   bool
	Reasons []string // classes: conn-exporter-only, conn-receiver-only, conn-unsupported-pair, conn-cycle, ext-cycle, ext-missing-dep, pipeline-no-receiver, pipeline-no-exporter
	// CycleLen is the number of connector hops of the shortest connector cycle (0: none);
	// CycleConnectors are the connector ids lying on some cycle.
	CycleLen        int
	CycleConnectors []string
}

func (v *Verdict) add(r string) {
	if !contains(v.Reasons, r) {
		v.Reasons = append(v.Reasons, r)
	}
}

// Has tells whether the verdict lists the reason class.
func (v Verdict) Has(r string) bool { return contains(v.Reasons, r) }

// Validate decides, from the configuration alone, whether the service must accept it.
func (t *Topology) Validate() Verdict {
	var v Verdict
	for _, p := range t.Pipelines {
		if len(p.Receivers) == 0 {
			v.add("pipeline-no-receiver")
		}
		if len(p.Exporters) == 0 {
			v.add("pipeline-no-exporter")
		}
	}
	// connector usage: every signal a connector is used for on one side needs a supported
	// counterpart on the other side
	for _, id := range t.UsedConnectors() {
		asExp, asRecv := t.connUse(id)
		for _, i := range asExp {
			ok := false
			for _, j := range asRecv {
				ok = ok || t.Supports(id, t.Pipelines[i].Signal, t.Pipelines[j].Signal)
			}
			if !ok {
				if len(asRecv) == 0 {
					v.add("conn-exporter-only")
				} else {
					v.add("conn-unsupported-pair")
				}
			}
		}
		for _, j := range asRecv {
			ok := false
			for _, i := range asExp {
				ok = ok || t.Supports(id, t.Pipelines[i].Signal, t.Pipelines[j].Signal)
			}
			if !ok {
				if len(asExp) == 0 {
					v.add("conn-receiver-only")
				} else {
					v.add("conn-unsupported-pair")
				}
			}
		}
	}
	// connector cycles: pipeline digraph with one edge per (source pipeline, instance, dest pipeline)
	n := len(t.Pipelines)
	type edge struct {
		a, b int
		id   string
	}
	var edges []edge
	adj := make([][]int, n)
	for _, ci := range t.ConnInstances() {
		for _, a := range ci.Sources {
			for _, b := range ci.Dests {
				edges = append(edges, edge{a, b, ci.ID})
				adj[a] = append(adj[a], b)
			}
		}
	}
	dist := func(from int) []int { // BFS hop counts, -1 unreachable; dist[from] = 0
		d := make([]int, n)
		for i := range d {
			d[i] = -1
		}
		d[from] = 0
		q := []int{from}
		for len(q) > 0 {
			x := q[0]
			q = q[1:]
			for _, y := range adj[x] {
				if d[y] < 0 {
					d[y] = d[x] + 1
					q = append(q, y)
				}
			}
		}
		return d
	}
	for _, e := range edges {
		if d := dist(e.b)[e.a]; d >= 0 { // edge a->b closes a cycle of d+1 hops
			v.add("conn-cycle")
			if v.CycleLen == 0 || d+1 < v.CycleLen {
				v.CycleLen = d + 1
			}
			if !contains(v.CycleConnectors, e.id) {
				v.CycleConnectors = append(v.CycleConnectors, e.id)
			}
		}
	}
	// extensions
	listed := map[string]bool{}
	for _, id := range t.ServiceExtensions {
		listed[id] = true
	}
	deps := map[string][]string{}
	for _, id := range t.ServiceExtensions {
		for _, d := range cfgStrings(t.Extensions[id], "deps") {
			if !listed[d] {
				v.add("ext-missing-dep")
				continue
			}
			deps[id] = append(deps[id], d)
		}
	}
	color := map[string]int{}
	var dfs func(string)
	dfs = func(x string) {
		color[x] = 1
		for _, d := range deps[x] {
			switch color[d] {
			case 1:
				v.add("ext-cycle")
			case 0:
				dfs(d)
			}
		}
		color[x] = 2
	}
	for _, id := range t.ServiceExtensions {
		if color[id] == 0 {
			dfs(id)
		}
	}
	sort.Strings(v.Reasons)
	sort.Strings(v.CycleConnectors)
	v.Valid = len(v.Reasons) == 0
	return v
}

// Step is one trail-relevant hop of a path.
type Step struct {
	Kind     string // "processor" | "connector"
	Key      string // instance key (processors: ProcKey, ambiguous across pipelines of one signal)
	Node     string // unique node name: processors "processor:<pipeline id>:<id>", connectors the instance key
	Pipeline int    // processors: the pipeline; connectors: the source pipeline
	Entry    string // expected trail entry without "#inst"; "" when the component leaves the trail alone
}

// Path is one configured route from a receiver instance to an exporter instance.
type Path struct {
	Tag      string // "<signal>/<receiver id>"
	Receiver string // RecvKey
	Exporter string // ExpKey
	Steps    []Step
}

// Trail is the expected trail of the path.
func (p Path) Trail() []string {
	var out []string
	for _, s := range p.Steps {
		if s.Entry != "" {
			out = append(out, s.Entry)
		}
	}
	return out
}

// DeliveryID is the canonical identity of a delivery: exporter, tag and trail (instance ordinals removed).
func DeliveryID(exporter, tag string, trail []string) string {
	return exporter + " <= " + tag + " via [" + strings.Join(trail, " > ") + "]"
}

// StripInst removes the "#inst" suffix of a trail entry and returns the ordinal text.
func StripInst(entry string) (string, string) {
	if i := strings.LastIndexByte(entry, '#'); i >= 0 {
		return entry[:i], entry[i+1:]
	}
	return entry, ""
}

// RecvInstance names one receiver instance of the configuration.
type RecvInstance struct {
	Signal Signal
	ID     string
	Pipes  []int // pipelines of Signal listing ID
}

// RecvInstances returns the receiver instances (one per (signal, id), connectors excluded), sorted.
func (t *Topology) RecvInstances() []RecvInstance {
	idx := map[string]int{}
	var out []RecvInstance
	for i, p := range t.Pipelines {
		for _, r := range uniq(p.Receivers) {
			if t.IsConnector(r) {
				continue
			}
			k := string(p.Signal) + "/" + r
			j, ok := idx[k]
			if !ok {
				j = len(out)
				idx[k] = j
				out = append(out, RecvInstance{Signal: p.Signal, ID: r})
			}
			out[j].Pipes = append(out[j].Pipes, i)
		}
	}
	sort.Slice(out, func(a, b int) bool {
		return string(out[a].Signal)+"/"+out[a].ID < string(out[b].Signal)+"/"+out[b].ID
	})
	return out
}

// Expectation is what one injection at every receiver instance must produce.
type Expectation struct {
	Paths      []Path
	Deliveries map[string]int // DeliveryID -> multiplicity
	Visits     map[string]int // DeliveryID(visitor key, tag, trail so far) -> multiplicity
	// FailingReachable: tag -> keys of exporters configured with fail:true that a path from the
	// receiver instance reaches (their errors must come back to the injector).
	FailingReachable map[string][]string
	// RouteErrors: DeliveryID(connector instance key, tag, trail of the refused payload) -> multiplicity;
	// RouteRefusals: tag -> keys of the connector instances that refuse a payload of that injection
	// (their "cannot route" errors must come back to the injector).
	RouteErrors   map[string]int
	RouteRefusals map[string][]string

	items []expItem // every expected delivery / visit, for ApplyAttempts
}

type expItem struct {
	visit bool
	key   string
	tag   string
	trail []string
}

// ApplyAttempts rewrites what is expected for the injection tag when its payload was sent several
// times (Injector.SendPayload with Resend): every attempt reaches every path again, and the trail an
// attempt's payload already carried when it was sent (left there by a mutating pipeline that worked
// on the original in an earlier attempt) precedes the path's own trail.
func (ex *Expectation) ApplyAttempts(tag string, attempts []Attempt) {
	for _, it := range ex.items {
		if it.tag != tag {
			continue
		}
		m := ex.Deliveries
		if it.visit {
			m = ex.Visits
		}
		k := DeliveryID(it.key, tag, it.trail)
		if m[k]--; m[k] <= 0 {
			delete(m, k)
		}
		for _, a := range attempts {
			var pre []string
			for _, e := range a.Trail {
				s, _ := StripInst(e)
				pre = append(pre, s)
			}
			m[DeliveryID(it.key, tag, append(pre, it.trail...))]++
		}
	}
}

// maxPaths bounds the enumeration (a generator bug must not hang a check).
const maxPaths = 20000

// Expect enumerates every path of the (valid, acyclic) configuration.
func (t *Topology) Expect() *Expectation {
	ex := &Expectation{Deliveries: map[string]int{}, Visits: map[string]int{}, FailingReachable: map[string][]string{}, RouteErrors: map[string]int{}, RouteRefusals: map[string][]string{}}
	insts := t.ConnInstances()
	var walk func(pi int, tag, recv string, steps []Step, trail []string)
	walk = func(pi int, tag, recv string, steps []Step, trail []string) {
		if len(ex.Paths) > maxPaths {
			return
		}
		p := t.Pipelines[pi]
		steps = append([]Step(nil), steps...)
		trail = append([]string(nil), trail...)
		for _, id := range p.Processors {
			st := Step{Kind: "processor", Key: ProcKey(p.Signal, id), Node: "processor:" + p.ID() + ":" + id, Pipeline: pi}
			if cfgBool(t.Processors[id], "mutates", true) {
				st.Entry = id
				trail = append(trail, id)
			} else {
				ex.Visits[DeliveryID(st.Key, tag, trail)]++
				ex.items = append(ex.items, expItem{true, st.Key, tag, append([]string(nil), trail...)})
			}
			steps = append(steps, st)
		}
		for _, id := range uniq(p.Exporters) {
			if !t.IsConnector(id) {
				key := ExpKey(p.Signal, id)
				ex.Paths = append(ex.Paths, Path{Tag: tag, Receiver: recv, Exporter: key, Steps: steps})
				ex.Deliveries[DeliveryID(key, tag, trail)]++
				ex.items = append(ex.items, expItem{false, key, tag, append([]string(nil), trail...)})
				if cfgBool(t.Exporters[id], "fail", false) && !contains(ex.FailingReachable[tag], key) {
					ex.FailingReachable[tag] = append(ex.FailingReachable[tag], key)
				}
				continue
			}
			for _, ci := range insts {
				if ci.ID != id || ci.From != p.Signal {
					continue
				}
				st := Step{Kind: "connector", Key: ci.Key(), Node: ci.Key(), Pipeline: pi}
				tr := trail
				if ci.Mode == "pass" {
					ex.Visits[DeliveryID(ci.Key(), tag, trail)]++
					ex.items = append(ex.items, expItem{true, ci.Key(), tag, append([]string(nil), trail...)})
				} else {
					st.Entry = ConnTrailEntry(id, ci.From, ci.To)
					tr = append(append([]string(nil), trail...), st.Entry)
				}
				if ci.SeqRefusals > 0 {
					ex.RouteErrors[DeliveryID(ci.Key(), tag, tr)] += ci.SeqRefusals
					if !contains(ex.RouteRefusals[tag], ci.Key()) {
						ex.RouteRefusals[tag] = append(ex.RouteRefusals[tag], ci.Key())
					}
				}
				if ci.RouteErr {
					ex.RouteErrors[DeliveryID(ci.Key(), tag, tr)]++
					if !contains(ex.RouteRefusals[tag], ci.Key()) {
						ex.RouteRefusals[tag] = append(ex.RouteRefusals[tag], ci.Key())
					}
					continue
				}
				for _, q := range ci.Deliver {
					walk(q, tag, recv, append(steps, st), tr)
				}
			}
		}
	}
	for _, ri := range t.RecvInstances() {
		tag := string(ri.Signal) + "/" + ri.ID
		for _, pi := range ri.Pipes {
			walk(pi, tag, RecvKey(ri.Signal, ri.ID), nil, nil)
		}
	}
	for _, l := range ex.FailingReachable {
		sort.Strings(l)
	}
	for _, l := range ex.RouteRefusals {
		sort.Strings(l)
	}
	return ex
}

// ExpectedCreates returns the factory create calls the configuration calls for: one receiver and one
// exporter per (signal, id), one processor per (pipeline, id) (booked under the signal-level key), one
// connector per instance, one extension per service extension, one underlying component per kshared id.
func (t *Topology) ExpectedCreates() map[string]int {
	want := map[string]int{}
	for _, p := range t.Pipelines {
		for _, r := range uniq(p.Receivers) {
			if t.IsConnector(r) {
				continue
			}
			want[RecvKey(p.Signal, r)] = 1
			if IsSharedID(r) {
				want[SharedKey(r)] = 1
			}
		}
		for _, id := range p.Processors {
			want[ProcKey(p.Signal, id)]++
		}
		for _, x := range uniq(p.Exporters) {
			if !t.IsConnector(x) {
				want[ExpKey(p.Signal, x)] = 1
			}
		}
	}
	for _, ci := range t.ConnInstances() {
		want[ci.Key()] = 1
	}
	for _, id := range t.ServiceExtensions {
		want[ExtKey(id)] = 1
	}
	return want
}

// Edge is a data-flow edge between two component instances: From sends data to To.
type Edge struct{ From, To string }

// Flow is the data-flow relation between instance keys.
type Flow struct {
	Nodes []string // all pipeline component instance keys (extensions and shared underlying excluded), sorted
	Edges []Edge
	// Ambiguous lists processor keys that denote more than one instance (same id in two pipelines of
	// one signal); ordering rules cannot be applied to them by key.
	Ambiguous []string
	// Shared maps SharedKey(id) to the receiver instance keys backed by that underlying component.
	Shared map[string][]string
}

// Flow computes the instance-level data-flow edges: receiver -> first component of every pipeline
// listing it, processor -> next processor, last processor -> every exporter / connector instance of
// the pipeline, connector instance -> first component of every destination pipeline.
func (t *Topology) Flow() *Flow {
	f := &Flow{Shared: map[string][]string{}}
	nodes := map[string]bool{}
	insts := t.ConnInstances()
	procCount := map[string]int{}
	exits := func(pi int) []string { // exporter-side nodes of a pipeline
		p := t.Pipelines[pi]
		var out []string
		for _, id := range uniq(p.Exporters) {
			if !t.IsConnector(id) {
				out = append(out, ExpKey(p.Signal, id))
				continue
			}
			for _, ci := range insts {
				if ci.ID == id && ci.From == p.Signal {
					out = append(out, ci.Key())
				}
			}
		}
		return out
	}
	first := func(pi int) []string {
		p := t.Pipelines[pi]
		if len(p.Processors) > 0 {
			return []string{ProcKey(p.Signal, p.Processors[0])}
		}
		return exits(pi)
	}
	seen := map[Edge]bool{}
	add := func(a, b string) {
		e := Edge{a, b}
		if !seen[e] {
			seen[e] = true
			f.Edges = append(f.Edges, e)
		}
	}
	for pi, p := range t.Pipelines {
		for _, r := range uniq(p.Receivers) {
			if t.IsConnector(r) {
				continue
			}
			k := RecvKey(p.Signal, r)
			nodes[k] = true
			if IsSharedID(r) && !contains(f.Shared[SharedKey(r)], k) {
				f.Shared[SharedKey(r)] = append(f.Shared[SharedKey(r)], k)
			}
			for _, n := range first(pi) {
				add(k, n)
			}
		}
		for i, id := range p.Processors {
			k := ProcKey(p.Signal, id)
			nodes[k] = true
			procCount[k]++
			if i+1 < len(p.Processors) {
				add(k, ProcKey(p.Signal, p.Processors[i+1]))
			} else {
				for _, n := range exits(pi) {
					add(k, n)
				}
			}
		}
		for _, n := range exits(pi) {
			nodes[n] = true
		}
	}
	for _, ci := range insts {
		for _, q := range ci.Dests {
			for _, n := range first(q) {
				add(ci.Key(), n)
			}
		}
	}
	for k := range nodes {
		f.Nodes = append(f.Nodes, k)
	}
	sort.Strings(f.Nodes)
	for k, c := range procCount {
		if c > 1 {
			f.Ambiguous = append(f.Ambiguous, k)
		}
	}
	sort.Strings(f.Ambiguous)
	for _, l := range f.Shared {
		sort.Strings(l)
	}
	return f
}

// Downstream returns the direct successors of a node.
func (f *Flow) Downstream(key string) []string {
	var out []string
	for _, e := range f.Edges {
		if e.From == key {
			out = append(out, e.To)
		}
	}
	return out
}

// ExtDeps returns, for every service extension key, the keys of the extensions it depends on.
func (t *Topology) ExtDeps() map[string][]string {
	out := map[string][]string{}
	for _, id := range t.ServiceExtensions {
		k := ExtKey(id)
		out[k] = nil
		for _, d := range cfgStrings(t.Extensions[id], "deps") {
			out[k] = append(out[k], ExtKey(d))
		}
	}
	return out
}

// Describe renders a topology compactly for messages.
func (t *Topology) Describe() string {
	var b strings.Builder
	for _, p := range t.Pipelines {
		fmt.Fprintf(&b, "%s{r:%s p:%s e:%s} ", p.ID(), strings.Join(p.Receivers, ","), strings.Join(p.Processors, ","), strings.Join(p.Exporters, ","))
	}
	return strings.TrimSpace(b.String())
}
