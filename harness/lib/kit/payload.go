package kit

import (
	"context"
	"fmt"
	"math/rand"
	"regexp"
	"sort"
	"strings"

	"go.opentelemetry.io/collector/consumer"
	"go.opentelemetry.io/collector/consumer/xconsumer"
	"go.opentelemetry.io/collector/pdata/pcommon"
	"go.opentelemetry.io/collector/pdata/plog"
	"go.opentelemetry.io/collector/pdata/pmetric"
	"go.opentelemetry.io/collector/pdata/pprofile"
	"go.opentelemetry.io/collector/pdata/ptrace"
)

// Signal is one of the four pipeline signals, spelled as in a pipeline id.
type Signal string

const (
	Logs     Signal = "logs"
	Traces   Signal = "traces"
	Metrics  Signal = "metrics"
	Profiles Signal = "profiles"
)

// Signals lists the four signals in a fixed order.
var Signals = []Signal{Logs, Traces, Metrics, Profiles}

// Pair is a connector signal pair (exporter side, receiver side).
type Pair struct{ From, To Signal }

// AllPairs returns the 16 signal pairs.
func AllPairs() []Pair {
	var out []Pair
	for _, a := range Signals {
		for _, b := range Signals {
			out = append(out, Pair{a, b})
		}
	}
	return out
}

const (
	// AttrTag is the resource attribute (first resource) carrying the tag of the injection.
	AttrTag = "kit.tag"
	// AttrTrail is the resource attribute (first resource) carrying the trail: a slice of strings.
	AttrTrail = "kit.trail"
	// MarkPrefix starts every mutation marker; a marker is MarkPrefix + name + ";".
	MarkPrefix = "kit.mark."
)

// Msg is the signal-independent content the kit routes: a tag naming the injection and the trail of
// trail-extending components the payload went through.
type Msg struct {
	Tag   string
	Trail []string
}

// Payload is one pdata value of any of the four signals.
type Payload struct {
	Signal Signal
	l      plog.Logs
	t      ptrace.Traces
	m      pmetric.Metrics
	p      pprofile.Profiles
}

func OfLogs(v plog.Logs) Payload             { return Payload{Signal: Logs, l: v} }
func OfTraces(v ptrace.Traces) Payload       { return Payload{Signal: Traces, t: v} }
func OfMetrics(v pmetric.Metrics) Payload    { return Payload{Signal: Metrics, m: v} }
func OfProfiles(v pprofile.Profiles) Payload { return Payload{Signal: Profiles, p: v} }

func (p Payload) Logs() plog.Logs             { return p.l }
func (p Payload) Traces() ptrace.Traces       { return p.t }
func (p Payload) Metrics() pmetric.Metrics    { return p.m }
func (p Payload) Profiles() pprofile.Profiles { return p.p }

// Resources returns the number of resource entries.
func (p Payload) Resources() int {
	switch p.Signal {
	case Logs:
		return p.l.ResourceLogs().Len()
	case Traces:
		return p.t.ResourceSpans().Len()
	case Metrics:
		return p.m.ResourceMetrics().Len()
	default:
		return p.p.ResourceProfiles().Len()
	}
}

// Attrs returns the attributes of the first resource (every kit payload has one).
func (p Payload) Attrs() pcommon.Map {
	switch p.Signal {
	case Logs:
		return p.l.ResourceLogs().At(0).Resource().Attributes()
	case Traces:
		return p.t.ResourceSpans().At(0).Resource().Attributes()
	case Metrics:
		return p.m.ResourceMetrics().At(0).Resource().Attributes()
	default:
		return p.p.ResourceProfiles().At(0).Resource().Attributes()
	}
}

// Msg reads tag and trail.
func (p Payload) Msg() Msg {
	var m Msg
	if p.Resources() == 0 {
		return m
	}
	a := p.Attrs()
	if v, ok := a.Get(AttrTag); ok {
		m.Tag = v.Str()
	}
	if v, ok := a.Get(AttrTrail); ok && v.Type() == pcommon.ValueTypeSlice {
		s := v.Slice()
		for i := 0; i < s.Len(); i++ {
			m.Trail = append(m.Trail, s.At(i).Str())
		}
	}
	return m
}

// AppendTrail mutates the payload: one more trail entry.
func (p Payload) AppendTrail(entry string) {
	a := p.Attrs()
	v, ok := a.Get(AttrTrail)
	if !ok || v.Type() != pcommon.ValueTypeSlice {
		a.PutEmptySlice(AttrTrail).AppendEmpty().SetStr(entry)
		return
	}
	v.Slice().AppendEmpty().SetStr(entry)
}

// Mutate applies the unique mutation of the named mutator. It works on any payload shape, also on
// item-less and completely empty ones: it makes sure a resource and a scope exist (appending them when
// missing), OVERWRITES every existing primitive attribute value of the first resource, of its last
// scope and of that scope's first item with a value of the same type (also a string log body, number
// data point values and profile attribute-table values; strings get the marker appended), puts a
// marker attribute on the first resource, changes the name of that resource's last scope (and puts a
// marker attribute on it), changes the first metric's name / the first item, and appends one leaf
// item carrying the marker.
func (p Payload) Mutate(name string) {
	mk := MarkPrefix + name + ";"
	switch p.Signal {
	case Logs:
		if p.l.ResourceLogs().Len() == 0 {
			p.l.ResourceLogs().AppendEmpty()
		}
		rl := p.l.ResourceLogs().At(0)
		overwriteAttrs(rl.Resource().Attributes(), mk)
		rl.Resource().Attributes().PutStr(mk, "x")
		if rl.ScopeLogs().Len() == 0 {
			rl.ScopeLogs().AppendEmpty()
		}
		sl := rl.ScopeLogs().At(rl.ScopeLogs().Len() - 1)
		sl.Scope().SetName(sl.Scope().Name() + mk)
		overwriteAttrs(sl.Scope().Attributes(), mk)
		sl.Scope().Attributes().PutStr(mk, "x")
		if sl.LogRecords().Len() > 0 {
			lr := sl.LogRecords().At(0)
			overwriteValue(lr.Body(), mk)
			overwriteAttrs(lr.Attributes(), mk)
			lr.Attributes().PutStr(mk, "x")
		}
		sl.LogRecords().AppendEmpty().Body().SetStr(mk)
	case Traces:
		if p.t.ResourceSpans().Len() == 0 {
			p.t.ResourceSpans().AppendEmpty()
		}
		rs := p.t.ResourceSpans().At(0)
		overwriteAttrs(rs.Resource().Attributes(), mk)
		rs.Resource().Attributes().PutStr(mk, "x")
		if rs.ScopeSpans().Len() == 0 {
			rs.ScopeSpans().AppendEmpty()
		}
		ss := rs.ScopeSpans().At(rs.ScopeSpans().Len() - 1)
		ss.Scope().SetName(ss.Scope().Name() + mk)
		overwriteAttrs(ss.Scope().Attributes(), mk)
		ss.Scope().Attributes().PutStr(mk, "x")
		if ss.Spans().Len() > 0 {
			s0 := ss.Spans().At(0)
			overwriteAttrs(s0.Attributes(), mk)
			s0.SetName(s0.Name() + mk)
			s0.Events().AppendEmpty().SetName(mk)
		}
		ss.Spans().AppendEmpty().SetName(mk)
	case Metrics:
		if p.m.ResourceMetrics().Len() == 0 {
			p.m.ResourceMetrics().AppendEmpty()
		}
		rm := p.m.ResourceMetrics().At(0)
		overwriteAttrs(rm.Resource().Attributes(), mk)
		rm.Resource().Attributes().PutStr(mk, "x")
		if rm.ScopeMetrics().Len() == 0 {
			rm.ScopeMetrics().AppendEmpty()
		}
		sm := rm.ScopeMetrics().At(rm.ScopeMetrics().Len() - 1)
		sm.Scope().SetName(sm.Scope().Name() + mk)
		overwriteAttrs(sm.Scope().Attributes(), mk)
		sm.Scope().Attributes().PutStr(mk, "x")
		if sm.Metrics().Len() > 0 {
			m0 := sm.Metrics().At(0)
			m0.SetName(m0.Name() + mk)
			m0.SetDescription(mk)
			var dps pmetric.NumberDataPointSlice
			switch m0.Type() {
			case pmetric.MetricTypeGauge:
				dps = m0.Gauge().DataPoints()
			case pmetric.MetricTypeSum:
				dps = m0.Sum().DataPoints()
			default:
				dps = pmetric.NewNumberDataPointSlice()
			}
			for i := 0; i < dps.Len(); i++ { // same-typed overwrite of the point value and its attributes
				dp := dps.At(i)
				switch dp.ValueType() {
				case pmetric.NumberDataPointValueTypeInt:
					dp.SetIntValue(dp.IntValue() + 1)
				case pmetric.NumberDataPointValueTypeDouble:
					dp.SetDoubleValue(dp.DoubleValue() + 0.5)
				}
				overwriteAttrs(dp.Attributes(), mk)
			}
		}
		nm := sm.Metrics().AppendEmpty()
		nm.SetName(mk)
		nm.SetEmptySum().DataPoints().AppendEmpty().SetIntValue(1)
	default:
		if p.p.ResourceProfiles().Len() == 0 {
			p.p.ResourceProfiles().AppendEmpty()
		}
		rp := p.p.ResourceProfiles().At(0)
		overwriteAttrs(rp.Resource().Attributes(), mk)
		rp.Resource().Attributes().PutStr(mk, "x")
		if rp.ScopeProfiles().Len() == 0 {
			rp.ScopeProfiles().AppendEmpty()
		}
		sp := rp.ScopeProfiles().At(rp.ScopeProfiles().Len() - 1)
		sp.Scope().SetName(sp.Scope().Name() + mk)
		overwriteAttrs(sp.Scope().Attributes(), mk)
		sp.Scope().Attributes().PutStr(mk, "x")
		if sp.Profiles().Len() > 0 {
			p0 := sp.Profiles().At(0)
			for i := 0; i < p0.AttributeTable().Len(); i++ {
				overwriteValue(p0.AttributeTable().At(i).Value(), mk)
			}
			p0.SetOriginalPayloadFormat(p0.OriginalPayloadFormat() + mk)
			p0.StringTable().Append(mk)
		}
		np := sp.Profiles().AppendEmpty()
		np.SetOriginalPayloadFormat(mk)
		np.Sample().AppendEmpty().Value().Append(1)
	}
}

var markRe = regexp.MustCompile(regexp.QuoteMeta(MarkPrefix) + `([^;\x00-\x1f]+);`)

// MarkersIn returns the sorted set of mutator names whose marker occurs in marshalled bytes.
func MarkersIn(b []byte) []string {
	set := map[string]struct{}{}
	for _, m := range markRe.FindAllSubmatch(b, -1) {
		set[string(m[1])] = struct{}{}
	}
	out := make([]string, 0, len(set))
	for k := range set {
		out = append(out, k)
	}
	sort.Strings(out)
	return out
}

var (
	lm plog.ProtoMarshaler
	tm ptrace.ProtoMarshaler
	mm pmetric.ProtoMarshaler
	pm pprofile.ProtoMarshaler
)

// Marshal returns the OTLP protobuf bytes (the content equality used by the non-interference oracles).
func (p Payload) Marshal() []byte {
	var b []byte
	var err error
	switch p.Signal {
	case Logs:
		b, err = lm.MarshalLogs(p.l)
	case Traces:
		b, err = tm.MarshalTraces(p.t)
	case Metrics:
		b, err = mm.MarshalMetrics(p.m)
	default:
		b, err = pm.MarshalProfiles(p.p)
	}
	if err != nil {
		panic(fmt.Sprintf("kit: marshal %s: %v", p.Signal, err))
	}
	return b
}

func (p Payload) IsReadOnly() bool {
	switch p.Signal {
	case Logs:
		return p.l.IsReadOnly()
	case Traces:
		return p.t.IsReadOnly()
	case Metrics:
		return p.m.IsReadOnly()
	default:
		return p.p.IsReadOnly()
	}
}

func (p Payload) MarkReadOnly() {
	switch p.Signal {
	case Logs:
		p.l.MarkReadOnly()
	case Traces:
		p.t.MarkReadOnly()
	case Metrics:
		p.m.MarkReadOnly()
	default:
		p.p.MarkReadOnly()
	}
}

// Items returns the signal's own item count (log records, spans, data points, samples).
func (p Payload) Items() int {
	switch p.Signal {
	case Logs:
		return p.l.LogRecordCount()
	case Traces:
		return p.t.SpanCount()
	case Metrics:
		return p.m.DataPointCount()
	default:
		return p.p.SampleCount()
	}
}

// fillAttrs always puts one primitive of every kind (string, int, double, bool) — the values a
// mutator overwrites in place with a value of the same type — plus, with a PRNG, nested or bytes values.
func fillAttrs(a pcommon.Map, rng *rand.Rand, id string) {
	a.PutStr("id", id)
	a.PutInt("n", int64(len(id)))
	a.PutDouble("d", 1.5)
	a.PutBool("ok", true)
	if rng == nil {
		return
	}
	switch rng.Intn(4) {
	case 0:
		a.PutInt("n2", rng.Int63n(1000))
	case 1:
		m := a.PutEmptyMap("nested")
		m.PutStr("k", id)
		m.PutEmptySlice("s").AppendEmpty().SetDouble(rng.Float64())
	case 2:
		a.PutEmptyBytes("b").FromRaw([]byte(id))
	}
}

// overwriteValue replaces a primitive value by another value of the SAME type (string, int, double,
// bool), descending into maps and slices: the kind of change a processor makes when it rewrites an
// existing attribute. Keys starting with "kit." (tag, trail, markers) are left alone.
func overwriteValue(v pcommon.Value, mk string) {
	switch v.Type() {
	case pcommon.ValueTypeStr:
		v.SetStr(v.Str() + mk)
	case pcommon.ValueTypeInt:
		v.SetInt(v.Int() + 1)
	case pcommon.ValueTypeDouble:
		v.SetDouble(v.Double() + 0.5)
	case pcommon.ValueTypeBool:
		v.SetBool(!v.Bool())
	case pcommon.ValueTypeMap:
		overwriteAttrs(v.Map(), mk)
	case pcommon.ValueTypeSlice:
		for i := 0; i < v.Slice().Len(); i++ {
			overwriteValue(v.Slice().At(i), mk)
		}
	}
}

func overwriteAttrs(m pcommon.Map, mk string) {
	m.Range(func(k string, v pcommon.Value) bool {
		if !strings.HasPrefix(k, "kit.") {
			overwriteValue(v, mk)
		}
		return true
	})
}

// NewPayload builds a payload of the signal carrying msg. With a nil rng it is minimal (one resource,
// one scope, one item); with a PRNG it has 1–3 resources × 1–2 scopes × 1–3 items with nested
// attribute values, all five metric types, span events and links, profile tables.
func NewPayload(sig Signal, msg Msg, rng *rand.Rand) Payload {
	n := func(max int) int {
		if rng == nil {
			return 1
		}
		return 1 + rng.Intn(max)
	}
	var p Payload
	nres := n(3)
	seq := 0
	next := func() string { seq++; return fmt.Sprintf("%s.%d", msg.Tag, seq) }
	switch sig {
	case Logs:
		ld := plog.NewLogs()
		for r := 0; r < nres; r++ {
			rl := ld.ResourceLogs().AppendEmpty()
			fillAttrs(rl.Resource().Attributes(), rng, next())
			if rng != nil && rng.Intn(2) == 0 {
				rl.SetSchemaUrl("https://schema/" + next())
			}
			for s, ns := 0, n(2); s < ns; s++ {
				sl := rl.ScopeLogs().AppendEmpty()
				sl.Scope().SetName(next())
				fillAttrs(sl.Scope().Attributes(), rng, next())
				for i, ni := 0, n(3); i < ni; i++ {
					lr := sl.LogRecords().AppendEmpty()
					lr.Body().SetStr(next())
					lr.SetSeverityNumber(plog.SeverityNumber(1 + i))
					fillAttrs(lr.Attributes(), rng, next())
				}
			}
		}
		p = OfLogs(ld)
	case Traces:
		td := ptrace.NewTraces()
		for r := 0; r < nres; r++ {
			rs := td.ResourceSpans().AppendEmpty()
			fillAttrs(rs.Resource().Attributes(), rng, next())
			for s, ns := 0, n(2); s < ns; s++ {
				ss := rs.ScopeSpans().AppendEmpty()
				ss.Scope().SetName(next())
				fillAttrs(ss.Scope().Attributes(), rng, next())
				for i, ni := 0, n(3); i < ni; i++ {
					sp := ss.Spans().AppendEmpty()
					sp.SetName(next())
					sp.SetSpanID(pcommon.SpanID{byte(r + 1), byte(s + 1), byte(i + 1)})
					fillAttrs(sp.Attributes(), rng, next())
					if rng != nil && rng.Intn(2) == 0 {
						sp.Events().AppendEmpty().SetName(next())
						sp.Links().AppendEmpty().TraceState().FromRaw(next())
					}
				}
			}
		}
		p = OfTraces(td)
	case Metrics:
		md := pmetric.NewMetrics()
		for r := 0; r < nres; r++ {
			rm := md.ResourceMetrics().AppendEmpty()
			fillAttrs(rm.Resource().Attributes(), rng, next())
			for s, ns := 0, n(2); s < ns; s++ {
				sm := rm.ScopeMetrics().AppendEmpty()
				sm.Scope().SetName(next())
				fillAttrs(sm.Scope().Attributes(), rng, next())
				for i, ni := 0, n(3); i < ni; i++ {
					m := sm.Metrics().AppendEmpty()
					m.SetName(next())
					m.SetUnit("u")
					kind := 0
					if rng != nil {
						kind = rng.Intn(5)
					}
					switch kind {
					case 0:
						dp := m.SetEmptyGauge().DataPoints().AppendEmpty()
						dp.SetIntValue(int64(i))
						fillAttrs(dp.Attributes(), rng, next())
					case 1:
						sum := m.SetEmptySum()
						sum.SetIsMonotonic(true)
						sum.SetAggregationTemporality(pmetric.AggregationTemporalityCumulative)
						sum.DataPoints().AppendEmpty().SetDoubleValue(1.5)
						sum.DataPoints().AppendEmpty().SetIntValue(2)
					case 2:
						dp := m.SetEmptyHistogram().DataPoints().AppendEmpty()
						dp.SetCount(3)
						dp.BucketCounts().FromRaw([]uint64{1, 2})
						dp.ExplicitBounds().FromRaw([]float64{1})
						dp.Exemplars().AppendEmpty().SetIntValue(7)
					case 3:
						dp := m.SetEmptyExponentialHistogram().DataPoints().AppendEmpty()
						dp.SetCount(2)
						dp.Positive().BucketCounts().FromRaw([]uint64{2})
					default:
						dp := m.SetEmptySummary().DataPoints().AppendEmpty()
						dp.SetCount(4)
						dp.QuantileValues().AppendEmpty().SetQuantile(0.5)
					}
				}
			}
		}
		p = OfMetrics(md)
	default:
		pd := pprofile.NewProfiles()
		for r := 0; r < nres; r++ {
			rp := pd.ResourceProfiles().AppendEmpty()
			fillAttrs(rp.Resource().Attributes(), rng, next())
			for s, ns := 0, n(2); s < ns; s++ {
				sp := rp.ScopeProfiles().AppendEmpty()
				sp.Scope().SetName(next())
				fillAttrs(sp.Scope().Attributes(), rng, next())
				for i, ni := 0, n(3); i < ni; i++ {
					pr := sp.Profiles().AppendEmpty()
					pr.SetProfileID(pprofile.ProfileID{byte(r + 1), byte(s + 1), byte(i + 1)})
					pr.StringTable().Append("", next())
					pr.SetPeriod(int64(i + 1))
					sa := pr.Sample().AppendEmpty()
					sa.Value().Append(int64(i), 2)
					at := pr.AttributeTable().AppendEmpty()
					at.SetKey("id")
					at.Value().SetStr(next())
					if rng != nil && rng.Intn(2) == 0 {
						pr.LocationTable().AppendEmpty().SetAddress(uint64(i))
						pr.FunctionTable().AppendEmpty().SetNameStrindex(1)
						pr.AttributeTable().AppendEmpty().SetKey(next())
						sa.TimestampsUnixNano().Append(1, 2, 3)
					}
				}
			}
		}
		p = OfProfiles(pd)
	}
	a := p.Attrs()
	a.PutStr(AttrTag, msg.Tag)
	tr := a.PutEmptySlice(AttrTrail)
	for _, e := range msg.Trail {
		tr.AppendEmpty().SetStr(e)
	}
	return p
}

// Next is the consumer a component was given, of any signal.
type Next struct {
	Signal Signal
	l      consumer.Logs
	t      consumer.Traces
	m      consumer.Metrics
	p      xconsumer.Profiles
}

func NextLogs(c consumer.Logs) Next          { return Next{Signal: Logs, l: c} }
func NextTraces(c consumer.Traces) Next      { return Next{Signal: Traces, t: c} }
func NextMetrics(c consumer.Metrics) Next    { return Next{Signal: Metrics, m: c} }
func NextProfiles(c xconsumer.Profiles) Next { return Next{Signal: Profiles, p: c} }
func (n Next) Logs() consumer.Logs           { return n.l }
func (n Next) Traces() consumer.Traces       { return n.t }
func (n Next) Metrics() consumer.Metrics     { return n.m }
func (n Next) Profiles() xconsumer.Profiles  { return n.p }

// Raw returns the consumer as the interface value the factory received.
func (n Next) Raw() any {
	switch n.Signal {
	case Logs:
		return n.l
	case Traces:
		return n.t
	case Metrics:
		return n.m
	default:
		return n.p
	}
}

// Capabilities is what the consumer advertises.
func (n Next) Capabilities() consumer.Capabilities {
	switch n.Signal {
	case Logs:
		return n.l.Capabilities()
	case Traces:
		return n.t.Capabilities()
	case Metrics:
		return n.m.Capabilities()
	default:
		return n.p.Capabilities()
	}
}

// Consume hands the payload (of the same signal) to the consumer.
func (n Next) Consume(ctx context.Context, p Payload) error {
	if p.Signal != n.Signal {
		panic(fmt.Sprintf("kit: %s payload handed to a %s consumer", p.Signal, n.Signal))
	}
	switch n.Signal {
	case Logs:
		return n.l.ConsumeLogs(ctx, p.l)
	case Traces:
		return n.t.ConsumeTraces(ctx, p.t)
	case Metrics:
		return n.m.ConsumeMetrics(ctx, p.m)
	default:
		return n.p.ConsumeProfiles(ctx, p.p)
	}
}

// PayloadShapes are the shapes NewShapedPayload builds. Only "items" carries leaf items (log records,
// spans, data points, samples); the others are the item-less payloads a pipeline can legally see:
//
//	items          what NewPayload builds
//	empty          no resource at all (cannot carry tag / trail)
//	resource-only  resources with attributes (and schema URL) but no scope
//	scope-only     resources and named scopes with attributes, no item
//	container-only metrics: named metrics (gauge / sum / histogram …) without data points; profiles:
//	               profiles without samples; logs and traces have no such level: same as scope-only
var PayloadShapes = []string{"items", "empty", "resource-only", "scope-only", "container-only"}

// NewShapedPayload builds a payload of the given shape. Tag and trail of msg are stored on the first
// resource (all shapes except "empty").
func NewShapedPayload(sig Signal, shape string, msg Msg, rng *rand.Rand) Payload {
	if shape == "items" || shape == "" {
		return NewPayload(sig, msg, rng)
	}
	n := func(max int) int {
		if rng == nil {
			return 1
		}
		return 1 + rng.Intn(max)
	}
	seq := 0
	next := func() string { seq++; return fmt.Sprintf("%s.%d", msg.Tag, seq) }
	var p Payload
	switch sig {
	case Logs:
		p = OfLogs(plog.NewLogs())
	case Traces:
		p = OfTraces(ptrace.NewTraces())
	case Metrics:
		p = OfMetrics(pmetric.NewMetrics())
	default:
		p = OfProfiles(pprofile.NewProfiles())
	}
	if shape == "empty" {
		return p
	}
	for r, nres := 0, n(3); r < nres; r++ {
		nscopes := 0
		if shape != "resource-only" {
			nscopes = n(2)
		}
		switch sig {
		case Logs:
			rl := p.l.ResourceLogs().AppendEmpty()
			fillAttrs(rl.Resource().Attributes(), rng, next())
			rl.SetSchemaUrl("https://schema/" + next())
			for i := 0; i < nscopes; i++ {
				sc := rl.ScopeLogs().AppendEmpty().Scope()
				sc.SetName(next())
				fillAttrs(sc.Attributes(), rng, next())
			}
		case Traces:
			rs := p.t.ResourceSpans().AppendEmpty()
			fillAttrs(rs.Resource().Attributes(), rng, next())
			rs.SetSchemaUrl("https://schema/" + next())
			for i := 0; i < nscopes; i++ {
				sc := rs.ScopeSpans().AppendEmpty().Scope()
				sc.SetName(next())
				fillAttrs(sc.Attributes(), rng, next())
			}
		case Metrics:
			rm := p.m.ResourceMetrics().AppendEmpty()
			fillAttrs(rm.Resource().Attributes(), rng, next())
			rm.SetSchemaUrl("https://schema/" + next())
			for i := 0; i < nscopes; i++ {
				sm := rm.ScopeMetrics().AppendEmpty()
				sm.Scope().SetName(next())
				fillAttrs(sm.Scope().Attributes(), rng, next())
				if shape != "container-only" {
					continue
				}
				for k, nm := 0, n(3); k < nm; k++ {
					m := sm.Metrics().AppendEmpty()
					m.SetName(next())
					m.SetUnit("u")
					m.SetDescription(next())
					switch k % 5 {
					case 0:
						m.SetEmptyGauge()
					case 1:
						m.SetEmptySum().SetIsMonotonic(true)
					case 2:
						m.SetEmptyHistogram().SetAggregationTemporality(pmetric.AggregationTemporalityDelta)
					case 3:
						m.SetEmptyExponentialHistogram()
					default:
						m.SetEmptySummary()
					}
				}
			}
		default:
			rp := p.p.ResourceProfiles().AppendEmpty()
			fillAttrs(rp.Resource().Attributes(), rng, next())
			rp.SetSchemaUrl("https://schema/" + next())
			for i := 0; i < nscopes; i++ {
				sp := rp.ScopeProfiles().AppendEmpty()
				sp.Scope().SetName(next())
				fillAttrs(sp.Scope().Attributes(), rng, next())
				if shape != "container-only" {
					continue
				}
				for k, np := 0, n(3); k < np; k++ {
					pr := sp.Profiles().AppendEmpty()
					pr.SetProfileID(pprofile.ProfileID{byte(r + 1), byte(i + 1), byte(k + 1)})
					pr.SetOriginalPayloadFormat(next())
					pr.StringTable().Append("", next())
					at := pr.AttributeTable().AppendEmpty()
					at.SetKey("id")
					at.Value().SetStr(next())
				}
			}
		}
	}
	a := p.Attrs()
	a.PutStr(AttrTag, msg.Tag)
	tr := a.PutEmptySlice(AttrTrail)
	for _, e := range msg.Trail {
		tr.AppendEmpty().SetStr(e)
	}
	return p
}
