package kit

import (
	"context"
	"fmt"
	"runtime/debug"
	"strings"
	"sync"
	"time"

	"go.uber.org/zap"
	"go.uber.org/zap/zapcore"

	"go.opentelemetry.io/collector/component"
	"go.opentelemetry.io/collector/confmap"
	"go.opentelemetry.io/collector/otelcol"
)

// Scheme is the URI scheme of the kit's configuration provider.
const Scheme = "kit"

// Provider is a confmap.Provider serving generated YAML. YAML is called on every Retrieve (so a
// reload can see a new configuration).
type Provider struct {
	YAML func() string

	mu        sync.Mutex
	watcher   confmap.WatcherFunc // armed by Retrieve, disarmed by Fire / Shutdown / the runner's Stop
	closed    bool
	retrieves int
	shutdowns int
}

// NewProvider serves a fixed YAML document.
func NewProvider(yaml string) *Provider { return &Provider{YAML: func() string { return yaml }} }

func (p *Provider) Retrieve(_ context.Context, _ string, w confmap.WatcherFunc) (*confmap.Retrieved, error) {
	p.mu.Lock()
	p.retrieves++
	if !p.closed {
		p.watcher = w
	}
	p.mu.Unlock()
	return confmap.NewRetrievedFromYAML([]byte(p.YAML()))
}

func (*Provider) Scheme() string { return Scheme }

func (p *Provider) Shutdown(context.Context) error {
	p.mu.Lock()
	p.closed, p.watcher = true, nil
	p.shutdowns++
	p.mu.Unlock()
	return nil
}

// Retrieves and Shutdowns report how often the collector called the provider.
func (p *Provider) Retrieves() int { p.mu.Lock(); defer p.mu.Unlock(); return p.retrieves }
func (p *Provider) Shutdowns() int { p.mu.Lock(); defer p.mu.Unlock(); return p.shutdowns }

// Fire delivers one change event (or a watch error when err != nil) to the collector. It reports
// false, delivering nothing, when no watcher is armed: before the first Retrieve, after an earlier
// Fire that was not yet followed by a new Retrieve (the resolver's channel holds one event), or after
// the provider was shut down / the run was stopped (the resolver closes its channel on shutdown, a
// late event would panic inside confmap).
func (p *Provider) Fire(err error) bool {
	p.mu.Lock()
	w := p.watcher
	p.watcher = nil
	p.mu.Unlock()
	if w == nil {
		return false
	}
	w(&confmap.ChangeEvent{Error: err})
	return true
}

func (p *Provider) disarm() {
	p.mu.Lock()
	p.closed, p.watcher = true, nil
	p.mu.Unlock()
}

// Running is an in-process collector whose Run executes on its own goroutine.
type Running struct {
	Col  *otelcol.Collector
	Prov *Provider
	Env  *Env

	done     chan struct{}
	err      error
	runPanic *RunPanic
}

// RunPanic is a panic that escaped Collector.Run on the runner's goroutine. Wait, Stop and
// AwaitRunning re-raise it (as *RunPanic) on the caller's goroutine, so that a check's per-case
// recover sees it instead of the process dying; Stack is the stack of the original panic.
type RunPanic struct {
	Value any
	Stack string
}

func (p *RunPanic) Error() string { return fmt.Sprintf("panic in Collector.Run: %v", p.Value) }

// UnwrapPanic returns value and stack of a recovered panic, looking through a re-raised *RunPanic.
func UnwrapPanic(pv any, stack string) (any, string) {
	if rp, ok := pv.(*RunPanic); ok {
		return rp.Value, rp.Stack
	}
	return pv, stack
}

// TelemetryYAML is the service::telemetry section every kit configuration uses: no metrics server,
// no console output (logs can still be observed through Env.TapLogs).
const TelemetryYAML = "{metrics: {level: none}, logs: {level: error, sampling: {enabled: false}, output_paths: [/dev/null], error_output_paths: [/dev/null]}}"

// NewCollector builds a collector over the Env's factories whose configuration comes from prov.
func (e *Env) NewCollector(prov *Provider) (*otelcol.Collector, error) {
	return otelcol.NewCollector(otelcol.CollectorSettings{
		Factories:               e.Factories,
		BuildInfo:               component.NewDefaultBuildInfo(),
		DisableGracefulShutdown: true, // no SIGINT/SIGTERM handling from in-process collectors
		SkipSettingGRPCLogger:   true,
		LoggingOptions:          e.loggingOptions(),
		ConfigProviderSettings: otelcol.ConfigProviderSettings{ResolverSettings: confmap.ResolverSettings{
			URIs: []string{Scheme + ":config"},
			ProviderFactories: []confmap.ProviderFactory{
				confmap.NewProviderFactory(func(confmap.ProviderSettings) confmap.Provider { return prov }),
			},
		}},
	})
}

// Launch builds a collector for the YAML document and calls Run on a new goroutine.
func (e *Env) Launch(yaml string) (*Running, error) { return e.LaunchProvider(NewProvider(yaml)) }

// LaunchProvider is Launch with a caller-supplied provider (reload scenarios).
func (e *Env) LaunchProvider(prov *Provider) (*Running, error) {
	col, err := e.NewCollector(prov)
	if err != nil {
		return nil, err
	}
	r := &Running{Col: col, Prov: prov, Env: e, done: make(chan struct{})}
	go func() {
		defer close(r.done)
		defer func() {
			if v := recover(); v != nil {
				r.runPanic = &RunPanic{Value: v, Stack: string(debug.Stack())}
				r.err = r.runPanic
			}
		}()
		r.err = col.Run(context.Background())
	}()
	return r, nil
}

// Done is closed when Run has returned.
func (r *Running) Done() <-chan struct{} { return r.done }

// Finished tells whether Run has returned.
func (r *Running) Finished() bool {
	select {
	case <-r.done:
		return true
	default:
		return false
	}
}

// AwaitRunning blocks until the collector reports StateRunning (true) or Run has returned (false).
// It only waits; it decides nothing. Wrap the case in Guard.
func (r *Running) AwaitRunning() bool {
	for i := 0; ; i++ {
		select {
		case <-r.done:
			r.reraise()
			return false
		default:
		}
		if r.Col.GetState() == otelcol.StateRunning {
			return true
		}
		if i < 50 {
			time.Sleep(20 * time.Microsecond)
		} else {
			time.Sleep(200 * time.Microsecond)
		}
	}
}

// Stop disarms the provider's watcher, requests shutdown and waits for Run to return; the result is
// Run's error. Safe to call after Run has returned by itself.
func (r *Running) Stop() error {
	r.Prov.disarm()
	r.Col.Shutdown()
	<-r.done
	r.reraise()
	return r.err
}

func (r *Running) reraise() {
	if r.runPanic != nil {
		panic(r.runPanic)
	}
}

// Wait waits for Run to return by itself and returns its error.
func (r *Running) Wait() error {
	<-r.done
	r.Prov.disarm()
	r.reraise()
	return r.err
}

// ---- log tap -----------------------------------------------------------------------------------

// TapLogs makes the collector's service logger copy every line whose message passes filter into the
// event log as an EvLog event (key built from the otelcol.component.* fields of the logger). This is
// how the moment a real component (e.g. the OTLP receiver: "Starting HTTP server") acts is ordered
// against the kit components' lifecycle events. nil switches the tap off.
func (e *Env) TapLogs(filter func(msg string) bool) {
	e.mu.Lock()
	e.logFilter = filter
	e.mu.Unlock()
}

func (e *Env) loggingOptions() []zap.Option {
	e.mu.Lock()
	f := e.logFilter
	e.mu.Unlock()
	if f == nil {
		return nil
	}
	return []zap.Option{zap.WrapCore(func(c zapcore.Core) zapcore.Core {
		return zapcore.NewTee(c, &tapCore{env: e, filter: f})
	})}
}

type tapCore struct {
	env    *Env
	filter func(string) bool
	fields []zapcore.Field
}

func (t *tapCore) Enabled(zapcore.Level) bool { return true }
func (t *tapCore) With(f []zapcore.Field) zapcore.Core {
	return &tapCore{env: t.env, filter: t.filter, fields: append(append([]zapcore.Field(nil), t.fields...), f...)}
}
func (t *tapCore) Check(e zapcore.Entry, ce *zapcore.CheckedEntry) *zapcore.CheckedEntry {
	if t.filter(e.Message) {
		return ce.AddCore(e, t)
	}
	return ce
}
func (t *tapCore) Write(e zapcore.Entry, fields []zapcore.Field) error {
	var kind, sig, id string
	for _, f := range append(append([]zapcore.Field(nil), t.fields...), fields...) {
		if f.Type != zapcore.StringType {
			continue
		}
		switch f.Key {
		case "otelcol.component.kind":
			kind = strings.ToLower(f.String)
		case "otelcol.signal":
			sig = f.String
		case "otelcol.component.id":
			id = f.String
		}
	}
	t.env.log(EvLog, kind+":"+sig+":"+id, 0, nil, e.Message)
	return nil
}
func (t *tapCore) Sync() error { return nil }
