package kit

import (
	"fmt"
	"runtime/debug"
	"sort"
	"strings"
	"sync"
	"sync/atomic"

	"go.opentelemetry.io/collector/component"
	"go.opentelemetry.io/collector/connector"
	"go.opentelemetry.io/collector/exporter"
	"go.opentelemetry.io/collector/extension"
	"go.opentelemetry.io/collector/featuregate"
	"go.opentelemetry.io/collector/internal/sharedcomponent"
	"go.opentelemetry.io/collector/processor"
	"go.opentelemetry.io/collector/receiver"
)

// seq is the one sequence counter of the process: every event of every Env draws from it.
var seq atomic.Int64

// Seq returns the current value of the process-wide event counter. It moves whenever any kit
// component is created, started, stopped, or consumes data: use it as Guard progress function.
func Seq() int64 { return seq.Load() }

// EventType enumerates lifecycle events.
type EventType string

const (
	EvCreate         EventType = "create"
	EvStartCall      EventType = "start-call"
	EvStartReturn    EventType = "start-return"
	EvShutdownCall   EventType = "shutdown-call"
	EvShutdownReturn EventType = "shutdown-return"
	EvLog            EventType = "log" // a tapped service log line (Env.TapLogs)
)

// Event is one entry of the lifecycle log.
type Event struct {
	Seq  int64     `json:"seq"`
	Type EventType `json:"type"`
	Key  string    `json:"key"`            // instance key (for EvLog: "<kind>:<signal>:<id>" from the log fields, possibly partial)
	Inst int       `json:"inst,omitempty"` // instance ordinal (creation order within the Env, from 1)
	Err  string    `json:"err,omitempty"`  // error returned (start-return / shutdown-return)
	Msg  string    `json:"msg,omitempty"`  // EvLog: the message
}

func (e Event) String() string {
	s := fmt.Sprintf("%s %s", e.Type, e.Key)
	if e.Inst != 0 {
		s += fmt.Sprintf("#%d", e.Inst)
	}
	if e.Err != "" {
		s += " err=" + e.Err
	}
	if e.Msg != "" {
		s += " msg=" + e.Msg
	}
	return s
}

// Delivery is what one exporter instance received in one Consume call.
type Delivery struct {
	Seq      int64    `json:"seq"`
	Exporter string   `json:"exporter"` // ExpKey
	Inst     int      `json:"inst"`
	Tag      string   `json:"tag"`
	Trail    []string `json:"trail"`
	ReadOnly bool     `json:"read_only"`
	Items    int      `json:"items"`
	Refused  bool     `json:"refused,omitempty"` // the exporter refused this call (fail_first)
	// Only for exporters configured with keep: bytes at call time, the retained payload and (after
	// Env.Settle) its bytes at the end.
	AtCall  []byte  `json:"-"`
	AtEnd   []byte  `json:"-"`
	Kept    Payload `json:"-"`
	HasKept bool    `json:"-"`
}

// Visit is what a non-mutating processor or a pass-through connector saw.
type Visit struct {
	Seq   int64    `json:"seq"`
	Key   string   `json:"key"`
	Inst  int      `json:"inst"`
	Tag   string   `json:"tag"`
	Trail []string `json:"trail"`
}

// RouteError is a route request of a routing connector that the router refused.
type RouteError struct {
	Seq   int64    `json:"seq"`
	Key   string   `json:"key"` // ConnKey of the instance
	Inst  int      `json:"inst"`
	Tag   string   `json:"tag"`
	Trail []string `json:"trail"` // trail of the payload that could not be routed
	Route []string `json:"route"` // the route as requested
	Err   string   `json:"err"`
}

// Retained is an outgoing payload a connector configured with mark_read_only marked read-only and
// kept: its bytes when it was sent and (after Env.Settle) at the end.
type Retained struct {
	Seq    int64   `json:"seq"`
	Key    string  `json:"key"`
	Inst   int     `json:"inst"`
	Tag    string  `json:"tag"`
	AtSend []byte  `json:"-"`
	AtEnd  []byte  `json:"-"`
	Kept   Payload `json:"-"`
}

// Instance keys.

func RecvKey(sig Signal, id string) string { return "receiver:" + string(sig) + ":" + id }
func ProcKey(sig Signal, id string) string { return "processor:" + string(sig) + ":" + id }
func ExpKey(sig Signal, id string) string  { return "exporter:" + string(sig) + ":" + id }
func ConnKey(from, to Signal, id string) string {
	return "connector:" + string(from) + ">" + string(to) + ":" + id
}
func ExtKey(id string) string    { return "extension:" + id }
func SharedKey(id string) string { return "shared:" + id }

// KeyKind returns the part of a key before the first colon.
func KeyKind(key string) string {
	if i := strings.IndexByte(key, ':'); i >= 0 {
		return key[:i]
	}
	return key
}

// Options configures an Env.
type Options struct {
	// ConnectorTypes maps a connector component type to the signal pairs its factory supports.
	// Defaults to ConnectorTypes.
	ConnectorTypes map[string][]Pair
	// Extra factories registered beside the kit's own (e.g. the real OTLP receiver).
	ExtraReceivers  []receiver.Factory
	ExtraProcessors []processor.Factory
	ExtraExporters  []exporter.Factory
	ExtraConnectors []connector.Factory
	ExtraExtensions []extension.Factory
}

// ConnectorTypes is the default set of kit connector types: what differs is the supported pairs.
var ConnectorTypes = map[string][]Pair{
	"kconn": AllPairs(),
	"ksame": {{Logs, Logs}, {Traces, Traces}, {Metrics, Metrics}, {Profiles, Profiles}},
	"kl2m":  {{Logs, Metrics}},
	"kt2lm": {{Traces, Logs}, {Traces, Metrics}},
	"kx2p":  {{Logs, Profiles}, {Traces, Profiles}, {Metrics, Profiles}, {Profiles, Logs}},
}

// Env is the observation context of a collector lifetime. All methods are safe for concurrent use.
type Env struct {
	opts Options

	mu         sync.Mutex
	events     []Event
	creates    map[string]int
	instances  int
	injectors  map[string]*Injector
	deliveries []*Delivery
	visits     []Visit
	failStart  map[string]error
	failStop   map[string]error
	logFilter  func(msg string) bool

	asyncPanics []AsyncPanic
	routeErrors []RouteError
	retained    []*Retained

	shared *sharedcomponent.Map[component.ID, *sharedRecv]
	async  sync.WaitGroup
}

var gateOnce sync.Once

// EnableProfiles switches the service.profilesSupport feature gate on (idempotent).
func EnableProfiles() {
	gateOnce.Do(func() {
		if err := featuregate.GlobalRegistry().Set("service.profilesSupport", true); err != nil {
			panic("kit: cannot enable service.profilesSupport: " + err.Error())
		}
	})
}

// NewEnv creates an environment (and enables the profiles gate).
func NewEnv(opts Options) *Env {
	EnableProfiles()
	if opts.ConnectorTypes == nil {
		opts.ConnectorTypes = ConnectorTypes
	}
	e := &Env{opts: opts}
	e.Reset()
	return e
}

// Reset forgets everything observed and all injected failures (for reuse after a finished run).
func (e *Env) Reset() {
	e.mu.Lock()
	defer e.mu.Unlock()
	e.events, e.deliveries, e.visits, e.asyncPanics, e.routeErrors, e.retained = nil, nil, nil, nil, nil, nil
	e.creates = map[string]int{}
	e.injectors = map[string]*Injector{}
	e.failStart, e.failStop = map[string]error{}, map[string]error{}
	e.instances = 0
	// a service that failed to build never shuts its receivers down: start from an empty map
	e.shared = sharedcomponent.NewMap[component.ID, *sharedRecv]()
}

func (e *Env) log(t EventType, key string, inst int, err error, msg string) {
	ev := Event{Type: t, Key: key, Inst: inst, Msg: msg}
	if err != nil {
		ev.Err = err.Error()
	}
	e.mu.Lock()
	ev.Seq = seq.Add(1) // drawn under the lock: the slice is in sequence order
	e.events = append(e.events, ev)
	e.mu.Unlock()
}

// created books a factory create call and returns the instance ordinal.
func (e *Env) created(key string) int {
	e.mu.Lock()
	e.creates[key]++
	e.instances++
	inst := e.instances
	ev := Event{Seq: seq.Add(1), Type: EvCreate, Key: key, Inst: inst}
	e.events = append(e.events, ev)
	e.mu.Unlock()
	return inst
}

// Events returns a copy of the lifecycle log in sequence order.
func (e *Env) Events() []Event {
	e.mu.Lock()
	defer e.mu.Unlock()
	return append([]Event(nil), e.events...)
}

// Creates returns a copy of the create-call counters.
func (e *Env) Creates() map[string]int {
	e.mu.Lock()
	defer e.mu.Unlock()
	out := make(map[string]int, len(e.creates))
	for k, v := range e.creates {
		out[k] = v
	}
	return out
}

// Deliveries returns what the exporters received so far (pointers stay valid; AtEnd is filled by Settle).
func (e *Env) Deliveries() []*Delivery {
	e.mu.Lock()
	defer e.mu.Unlock()
	return append([]*Delivery(nil), e.deliveries...)
}

// Visits returns what non-mutating processors and pass-through connectors saw.
func (e *Env) Visits() []Visit {
	e.mu.Lock()
	defer e.mu.Unlock()
	return append([]Visit(nil), e.visits...)
}

func (e *Env) deliver(d *Delivery) {
	e.mu.Lock()
	d.Seq = seq.Add(1)
	e.deliveries = append(e.deliveries, d)
	e.mu.Unlock()
}

func (e *Env) retain(r *Retained) {
	e.mu.Lock()
	r.Seq = seq.Add(1)
	e.retained = append(e.retained, r)
	e.mu.Unlock()
}

// Retained returns the payloads connectors marked read-only and kept (AtEnd is filled by Settle).
func (e *Env) Retained() []*Retained {
	e.mu.Lock()
	defer e.mu.Unlock()
	return append([]*Retained(nil), e.retained...)
}

func (e *Env) routeError(r RouteError) {
	e.mu.Lock()
	r.Seq = seq.Add(1)
	e.routeErrors = append(e.routeErrors, r)
	e.mu.Unlock()
}

// RouteErrors returns the route requests that routers refused so far.
func (e *Env) RouteErrors() []RouteError {
	e.mu.Lock()
	defer e.mu.Unlock()
	return append([]RouteError(nil), e.routeErrors...)
}

func (e *Env) visit(v Visit) {
	e.mu.Lock()
	v.Seq = seq.Add(1)
	e.visits = append(e.visits, v)
	e.mu.Unlock()
}

// FailStart makes Start of every instance with the key return err (nil clears).
func (e *Env) FailStart(key string, err error) {
	e.mu.Lock()
	defer e.mu.Unlock()
	if err == nil {
		delete(e.failStart, key)
	} else {
		e.failStart[key] = err
	}
}

// FailShutdown makes Shutdown of every instance with the key return err (nil clears).
func (e *Env) FailShutdown(key string, err error) {
	e.mu.Lock()
	defer e.mu.Unlock()
	if err == nil {
		delete(e.failStop, key)
	} else {
		e.failStop[key] = err
	}
}

func (e *Env) startErr(key string) error {
	e.mu.Lock()
	defer e.mu.Unlock()
	return e.failStart[key]
}

func (e *Env) stopErr(key string) error {
	e.mu.Lock()
	defer e.mu.Unlock()
	return e.failStop[key]
}

// Injector returns the handle of the receiver instance (signal, id), or nil if it was not created.
func (e *Env) Injector(sig Signal, id string) *Injector {
	e.mu.Lock()
	defer e.mu.Unlock()
	return e.injectors[string(sig)+"/"+id]
}

// Injectors returns all receiver handles sorted by (signal, id).
func (e *Env) Injectors() []*Injector {
	e.mu.Lock()
	defer e.mu.Unlock()
	keys := make([]string, 0, len(e.injectors))
	for k := range e.injectors {
		keys = append(keys, k)
	}
	sort.Strings(keys)
	out := make([]*Injector, 0, len(keys))
	for _, k := range keys {
		out = append(out, e.injectors[k])
	}
	return out
}

func (e *Env) register(in *Injector) {
	e.mu.Lock()
	e.injectors[string(in.Signal)+"/"+in.ID] = in
	e.mu.Unlock()
}

// AsyncPanic is a panic recovered from asynchronous work started with Env.Go (e.g. a declared
// mutating exporter that was handed shared read-only data: "invalid access to shared data").
type AsyncPanic struct {
	Value string `json:"value"`
	Stack string `json:"stack"`
}

// Go runs f on a goroutine that Settle waits for (asynchronous work of exporters). A panic of f is
// recovered and kept for AsyncPanics, it does not kill the process.
func (e *Env) Go(f func()) {
	e.async.Add(1)
	go func() {
		defer e.async.Done()
		defer func() {
			if r := recover(); r != nil {
				p := AsyncPanic{Value: fmt.Sprint(r), Stack: string(debug.Stack())}
				e.mu.Lock()
				e.asyncPanics = append(e.asyncPanics, p)
				e.mu.Unlock()
			}
		}()
		f()
	}()
}

// AsyncPanics returns the panics recovered from asynchronous work so far.
func (e *Env) AsyncPanics() []AsyncPanic {
	e.mu.Lock()
	defer e.mu.Unlock()
	return append([]AsyncPanic(nil), e.asyncPanics...)
}

// Settle waits for all asynchronous work started so far and then re-marshals every kept payload
// into Delivery.AtEnd. Call it when no Consume call is in flight any more.
func (e *Env) Settle() {
	e.async.Wait()
	e.mu.Lock()
	ds := append([]*Delivery(nil), e.deliveries...)
	e.mu.Unlock()
	for _, d := range ds {
		if d.HasKept && d.AtEnd == nil {
			d.AtEnd = d.Kept.Marshal()
		}
	}
	for _, r := range e.Retained() {
		if r.AtEnd == nil {
			r.AtEnd = r.Kept.Marshal()
		}
	}
}

// StartedKeys returns the keys of all instances whose Start was called, in call order.
func StartedKeys(evs []Event) []string {
	var out []string
	for _, ev := range evs {
		if ev.Type == EvStartCall {
			out = append(out, ev.Key)
		}
	}
	return out
}
