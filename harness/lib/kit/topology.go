package kit

import (
	"fmt"
	"sort"
	"strings"

	yaml "gopkg.in/yaml.v3"
)

// Pipeline is one entry of service::pipelines.
type Pipeline struct {
	Signal     Signal   `json:"signal"`
	Name       string   `json:"name"`
	Receivers  []string `json:"receivers"`
	Processors []string `json:"processors"`
	Exporters  []string `json:"exporters"`
}

// ID is the pipeline id as written in the configuration.
func (p Pipeline) ID() string {
	if p.Name == "" {
		return string(p.Signal)
	}
	return string(p.Signal) + "/" + p.Name
}

// Topology is the configuration a user would write, restricted to what the kit understands.
// Component maps go from component id ("type[/name]") to the component's configuration.
type Topology struct {
	Pipelines         []Pipeline                `json:"pipelines"`
	Receivers         map[string]map[string]any `json:"receivers,omitempty"`
	Processors        map[string]map[string]any `json:"processors,omitempty"`
	Exporters         map[string]map[string]any `json:"exporters,omitempty"`
	Connectors        map[string]map[string]any `json:"connectors,omitempty"`
	Extensions        map[string]map[string]any `json:"extensions,omitempty"`
	ServiceExtensions []string                  `json:"service_extensions,omitempty"`

	// ConnPairs maps connector types to supported pairs; nil means ConnectorTypes.
	ConnPairs map[string][]Pair `json:"-"`
}

// NewTopology returns an empty topology with initialised maps.
func NewTopology() *Topology {
	return &Topology{
		Receivers: map[string]map[string]any{}, Processors: map[string]map[string]any{}, Exporters: map[string]map[string]any{},
		Connectors: map[string]map[string]any{}, Extensions: map[string]map[string]any{},
	}
}

// Clone makes a deep copy (configs are copied one level deep, which is all the kit uses).
func (t *Topology) Clone() *Topology {
	c := NewTopology()
	c.ConnPairs = t.ConnPairs
	for _, p := range t.Pipelines {
		c.Pipelines = append(c.Pipelines, Pipeline{Signal: p.Signal, Name: p.Name,
			Receivers: append([]string(nil), p.Receivers...), Processors: append([]string(nil), p.Processors...), Exporters: append([]string(nil), p.Exporters...)})
	}
	cp := func(dst, src map[string]map[string]any) {
		for id, cfg := range src {
			var m map[string]any
			if cfg != nil {
				m = map[string]any{}
				for k, v := range cfg {
					m[k] = v
				}
			}
			dst[id] = m
		}
	}
	cp(c.Receivers, t.Receivers)
	cp(c.Processors, t.Processors)
	cp(c.Exporters, t.Exporters)
	cp(c.Connectors, t.Connectors)
	cp(c.Extensions, t.Extensions)
	c.ServiceExtensions = append([]string(nil), t.ServiceExtensions...)
	return c
}

// TypeOf returns the component type of an id.
func TypeOf(id string) string {
	t, _, _ := strings.Cut(id, "/")
	return t
}

// IsConnector tells whether the id names a configured connector.
func (t *Topology) IsConnector(id string) bool {
	_, ok := t.Connectors[id]
	return ok
}

func section(m map[string]map[string]any) map[string]any {
	out := map[string]any{}
	for id, cfg := range m {
		if cfg == nil {
			cfg = map[string]any{}
		}
		out[id] = cfg
	}
	return out
}

func orEmpty(s []string) []string {
	if s == nil {
		return []string{}
	}
	return s
}

// YAML renders the configuration document.
func (t *Topology) YAML() string {
	pipes := map[string]any{}
	for _, p := range t.Pipelines {
		pm := map[string]any{"receivers": orEmpty(p.Receivers), "exporters": orEmpty(p.Exporters)}
		if len(p.Processors) > 0 {
			pm["processors"] = p.Processors
		}
		pipes[p.ID()] = pm
	}
	var tel map[string]any
	if err := yaml.Unmarshal([]byte(TelemetryYAML), &tel); err != nil {
		panic(err)
	}
	svc := map[string]any{"telemetry": tel, "pipelines": pipes}
	if len(t.ServiceExtensions) > 0 {
		svc["extensions"] = t.ServiceExtensions
	}
	doc := map[string]any{"service": svc}
	for name, m := range map[string]map[string]map[string]any{"receivers": t.Receivers, "processors": t.Processors, "exporters": t.Exporters, "connectors": t.Connectors, "extensions": t.Extensions} {
		if len(m) > 0 {
			doc[name] = section(m)
		}
	}
	b, err := yaml.Marshal(doc)
	if err != nil {
		panic(fmt.Sprintf("kit: yaml: %v", err))
	}
	return string(b)
}

// Canonical is a canonical description of the part of the topology that determines behaviour: the
// pipelines (sorted by id) with their component lists and the configs of the referenced components.
func (t *Topology) Canonical() string {
	var lines []string
	used := map[string]bool{}
	for _, p := range t.Pipelines {
		lines = append(lines, fmt.Sprintf("%s r=%v p=%v e=%v", p.ID(), p.Receivers, p.Processors, p.Exporters))
		for _, l := range [][]string{p.Receivers, p.Processors, p.Exporters} {
			for _, id := range l {
				used[id] = true
			}
		}
	}
	for _, m := range []map[string]map[string]any{t.Receivers, t.Processors, t.Exporters, t.Connectors} {
		for id, cfg := range m {
			if used[id] && len(cfg) > 0 {
				lines = append(lines, fmt.Sprintf("cfg %s %v", id, cfg))
			}
		}
	}
	for _, id := range t.ServiceExtensions {
		lines = append(lines, fmt.Sprintf("ext %s %v", id, t.Extensions[id]))
	}
	sort.Strings(lines)
	return strings.Join(lines, "\n")
}

// Shape is a coarse, low-cardinality description (pipelines per signal, connector instances,
// shared receivers) used for distinct-case statistics.
func (t *Topology) Shape() string {
	n := map[Signal]int{}
	for _, p := range t.Pipelines {
		n[p.Signal]++
	}
	return fmt.Sprintf("L%dT%dM%dP%d/c%d", n[Logs], n[Traces], n[Metrics], n[Profiles], len(t.ConnInstances()))
}

func cfgBool(cfg map[string]any, key string, def bool) bool {
	if v, ok := cfg[key]; ok {
		if b, ok := v.(bool); ok {
			return b
		}
	}
	return def
}

func cfgString(cfg map[string]any, key string) string {
	if v, ok := cfg[key]; ok {
		if s, ok := v.(string); ok {
			return s
		}
	}
	return ""
}

func cfgStrings(cfg map[string]any, key string) []string {
	v, ok := cfg[key]
	if !ok {
		return nil
	}
	switch l := v.(type) {
	case []string:
		return l
	case []any:
		var out []string
		for _, x := range l {
			if s, ok := x.(string); ok {
				out = append(out, s)
			}
		}
		return out
	}
	return nil
}

// cfgRoutes reads the "routes" entry of a connector configuration: destination signal -> route.
func cfgRoutes(cfg map[string]any) map[string][]string {
	out := map[string][]string{}
	switch m := cfg["routes"].(type) {
	case map[string][]string:
		for k, v := range m {
			out[k] = v
		}
	case map[string]any:
		for k := range m {
			out[k] = cfgStrings(m, k)
		}
	}
	return out
}

// cfgRouteSeq reads the "route_sequence" entry of a connector configuration.
func cfgRouteSeq(cfg map[string]any) map[string][][]string {
	out := map[string][][]string{}
	switch m := cfg["route_sequence"].(type) {
	case map[string][][]string:
		for k, v := range m {
			out[k] = v
		}
	case map[string]any:
		for k, v := range m {
			switch l := v.(type) {
			case [][]string:
				out[k] = l
			case []any:
				for _, r := range l {
					out[k] = append(out[k], cfgStrings(map[string]any{"r": r}, "r"))
				}
			}
		}
	}
	return out
}
