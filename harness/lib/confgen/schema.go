package confgen

import (
	"encoding"
	"reflect"
	"strings"
)

// Leaf is one settable key of a configuration struct.
type Leaf struct {
	Path     []string     // mapstructure key path from the component root
	Type     reflect.Type // field type, pointers stripped
	IsPtr    bool         // the field is a pointer to a value (optional value)
	Section  int          // index into Schema.Nodes of the parent struct
	Untagged bool         // the field has no mapstructure name (key = field name)
}

// Key is the path joined with the confmap delimiter.
func (l *Leaf) Key() string { return strings.Join(l.Path, "::") }

// Node is a struct-typed section of a configuration.
type Node struct {
	Path     []string
	Type     reflect.Type
	Optional bool  // reached through a pointer field
	Leaves   []int // direct leaf children
}

func (n *Node) Key() string { return strings.Join(n.Path, "::") }

// Schema is the key universe of one configuration type, obtained by reflection.
type Schema struct {
	Root   reflect.Type
	Leaves []Leaf
	Nodes  []Node
}

var textUnmarshaler = reflect.TypeOf((*encoding.TextUnmarshaler)(nil)).Elem()

// IsScalarStruct tells whether a struct type is a value, not a section.
func IsScalarStruct(t reflect.Type) bool {
	return t.PkgPath() == "time" || reflect.PointerTo(t).Implements(textUnmarshaler) || t.Implements(textUnmarshaler)
}

// TagOf parses the mapstructure tag of a field.
func TagOf(f reflect.StructField) (name string, squash, skip, untagged bool) {
	tag, has := f.Tag.Lookup("mapstructure")
	parts := strings.Split(tag, ",")
	name = parts[0]
	for _, p := range parts[1:] {
		if p == "squash" {
			squash = true
		}
	}
	if name == "-" {
		return "", false, true, false
	}
	if !has || (name == "" && !squash) {
		return f.Name, false, false, true
	}
	return name, squash, false, false
}

// Walk builds the schema of a configuration type.
func Walk(t reflect.Type) *Schema {
	s := &Schema{Root: t}
	for t.Kind() == reflect.Ptr {
		t = t.Elem()
	}
	if t.Kind() == reflect.Struct {
		s.Nodes = append(s.Nodes, Node{Type: t})
		s.walkStruct(t, nil, 0, 0)
	}
	return s
}

func (s *Schema) walkStruct(t reflect.Type, path []string, node int, depth int) {
	if depth > 14 {
		return
	}
	for i := 0; i < t.NumField(); i++ {
		f := t.Field(i)
		if !f.IsExported() {
			continue
		}
		name, squash, skip, untagged := TagOf(f)
		if skip {
			continue
		}
		ft, isPtr := f.Type, false
		for ft.Kind() == reflect.Ptr {
			ft, isPtr = ft.Elem(), true
		}
		if ft.Kind() == reflect.Struct && !IsScalarStruct(ft) {
			if squash {
				s.walkStruct(ft, path, node, depth+1)
				continue
			}
			p := append(append([]string(nil), path...), name)
			s.Nodes = append(s.Nodes, Node{Path: p, Type: ft, Optional: isPtr})
			s.walkStruct(ft, p, len(s.Nodes)-1, depth+1)
			continue
		}
		p := append(append([]string(nil), path...), name)
		s.Leaves = append(s.Leaves, Leaf{Path: p, Type: ft, IsPtr: isPtr, Section: node, Untagged: untagged})
		s.Nodes[node].Leaves = append(s.Nodes[node].Leaves, len(s.Leaves)-1)
	}
}

// Lookup follows a key path through a loaded configuration value. ok=false when a nil pointer or a
// missing field is on the way; the returned value has pointers stripped (nil pointer leaf: ok=true,
// IsValid()==false is signalled through isNil).
func Lookup(v reflect.Value, path []string) (out reflect.Value, isNil bool, ok bool) {
	for v.IsValid() && (v.Kind() == reflect.Ptr || v.Kind() == reflect.Interface) {
		if v.IsNil() {
			return v, true, len(path) == 0
		}
		v = v.Elem()
	}
	if len(path) == 0 {
		return v, false, v.IsValid()
	}
	if !v.IsValid() || v.Kind() != reflect.Struct {
		return v, false, false
	}
	t := v.Type()
	for i := 0; i < t.NumField(); i++ {
		f := t.Field(i)
		if !f.IsExported() {
			continue
		}
		name, squash, skip, _ := TagOf(f)
		if skip {
			continue
		}
		if squash {
			if r, n, ok := Lookup(v.Field(i), path); ok {
				return r, n, true
			}
			continue
		}
		if name == path[0] {
			return Lookup(v.Field(i), path[1:])
		}
	}
	return v, false, false
}

// SetPath stores val at a key path of a nested string map, creating intermediate maps.
func SetPath(m map[string]any, path []string, val any) {
	for _, k := range path[:len(path)-1] {
		n, ok := m[k].(map[string]any)
		if !ok {
			n = map[string]any{}
			m[k] = n
		}
		m = n
	}
	m[path[len(path)-1]] = val
}

// GetPath reads a key path of a nested string map.
func GetPath(m map[string]any, path []string) (any, bool) {
	var cur any = m
	for _, k := range path {
		mm, ok := cur.(map[string]any)
		if !ok {
			return nil, false
		}
		cur, ok = mm[k]
		if !ok {
			return nil, false
		}
	}
	return cur, true
}
