// Package confgen holds the private helpers of the C12 and C13 checks: a resource-limited sub-child
// runner (cases that may not terminate), a small YAML writer, canonical value rendering and the
// reflective configuration-schema walker.
package confgen

import (
	"bufio"
	"encoding/json"
	"fmt"
	"io"
	"math/rand"
	"os"
	"os/exec"
	"runtime"
	"runtime/metrics"
	"strings"
	"sync"
	"sync/atomic"
	"syscall"
	"time"

	"go.opentelemetry.io/collector/verifharness/lib/driver"
)

// WorkerEnv is the environment variable that turns a check binary into a sub-child worker.
const WorkerEnv = "VERIF_SUBWORKER"

// WorkerArgs is what the shard child hands to its worker.
type WorkerArgs struct {
	Seed    int64  `json:"seed"`
	Shard   int    `json:"shard"`
	NShards int    `json:"nshards"`
	Tier    string `json:"tier"`
	From    int64  `json:"from"`
	To      int64  `json:"to"`
	CPUms   int64  `json:"cpu_ms"`  // per-case CPU limit (backstop; the caller treats it as inconclusive)
	HeapMB  int64  `json:"heap_mb"` // per-case live-heap limit (measured after a forced collection)
	Steps   int64  `json:"steps"`   // per-case limit of logical steps reported through Worker.Step
	Extra   string `json:"extra,omitempty"`
}

// Viol is a violation reported by a worker.
type Viol struct {
	Sub     string   `json:"sub"`
	What    string   `json:"what"`
	Witness any      `json:"witness,omitempty"`
	Sig     []string `json:"sig"`
}

// Msg is one line of the worker → shard-child protocol.
type Msg struct {
	K string `json:"k"` // start | case | abort
	I int64  `json:"i"`
	// start: the full input of the case (written before the code under test is called, so that a
	// kill leaves the witness) and what the reference predicts about resource use.
	Input any               `json:"input,omitempty"`
	Pre   map[string]string `json:"pre,omitempty"`
	// case
	Evals        int64               `json:"evals,omitempty"`
	Nontrivial   [][]string          `json:"nontrivial,omitempty"`
	Distinct     map[string][]string `json:"distinct,omitempty"`
	Observe      map[string]int64    `json:"observe,omitempty"`
	ObserveMax   map[string]int64    `json:"observe_max,omitempty"`
	Viol         []Viol              `json:"viol,omitempty"`
	Inconclusive []string            `json:"inconclusive,omitempty"`
	Sample       any                 `json:"sample,omitempty"`
	Notes        []string            `json:"notes,omitempty"`
	// abort
	Why    string `json:"why,omitempty"`
	CPUms  int64  `json:"cpu_ms,omitempty"`
	HeapMB int64  `json:"heap_mb,omitempty"`
	Steps  int64  `json:"steps,omitempty"`
}

// ---------------------------------------------------------------------------------------------
// worker side

// Worker is the context of a sub-child.
type Worker struct {
	Args WorkerArgs
	ctx  *driver.Ctx

	mu     sync.Mutex
	out    *bufio.Writer
	armed  atomic.Int64 // case index being executed, -1 when idle
	cpu0   atomic.Int64 // process CPU (ms) when the case was armed
	cur    *Msg
	maxCPU int64
	limCPU atomic.Int64 // limits of the current case (defaults from Args)
	limMem atomic.Int64
	limStp atomic.Int64
	steps  atomic.Int64 // logical steps of the current case
}

// Step counts one logical step of the code under test (a provider retrieval …). A case that exceeds
// Args.Steps is aborted: this is the load-independent criterion for "does not terminate".
func (w *Worker) Step() {
	n := w.steps.Add(1)
	if lim := w.limStp.Load(); lim > 0 && n > lim {
		if i := w.armed.Load(); i >= 0 {
			w.abort(i, "step-limit")
		}
	}
}

// Steps returns the logical steps of the current case.
func (w *Worker) Steps() int64 { return w.steps.Load() }

func (w *Worker) abort(i int64, why string) {
	w.mu.Lock()
	b, _ := json.Marshal(&Msg{K: "abort", I: i, Why: why, CPUms: cpuMillis() - w.cpu0.Load(), HeapMB: heapMB(), Steps: w.steps.Load()})
	w.out.Write(b)
	w.out.WriteByte('\n')
	w.out.Flush()
	os.Exit(0)
}

// RaiseLimits sets the limits of the next case only (inputs whose terminating cost is known to be high).
func (w *Worker) RaiseLimits(cpuMs, heapMB, steps int64) {
	w.limCPU.Store(cpuMs)
	w.limMem.Store(heapMB)
	w.limStp.Store(steps)
}

func cpuMillis() int64 {
	var ru syscall.Rusage
	if syscall.Getrusage(syscall.RUSAGE_SELF, &ru) != nil {
		return 0
	}
	return (ru.Utime.Sec+ru.Stime.Sec)*1000 + int64(ru.Utime.Usec+ru.Stime.Usec)/1000
}

var heapSample = []metrics.Sample{{Name: "/memory/classes/heap/objects:bytes"}}

func heapMB() int64 {
	metrics.Read(heapSample)
	if heapSample[0].Value.Kind() != metrics.KindUint64 {
		return 0
	}
	return int64(heapSample[0].Value.Uint64() >> 20)
}

// IsWorker tells whether this process was started as a sub-child worker.
func IsWorker() bool { return os.Getenv(WorkerEnv) != "" }

// WorkerMain runs fn as the body of a sub-child. fn iterates over [Args.From, Args.To) and brackets
// every case with Start/Done.
func WorkerMain(fn func(w *Worker)) {
	w := &Worker{out: bufio.NewWriter(os.Stdout)}
	if err := json.Unmarshal([]byte(os.Getenv(WorkerEnv)), &w.Args); err != nil {
		fmt.Fprintln(os.Stderr, "worker: bad args:", err)
		os.Exit(2)
	}
	w.ctx = &driver.Ctx{Seed: w.Args.Seed, Shard: w.Args.Shard, NShards: w.Args.NShards, Tier: w.Args.Tier, Only: -1}
	w.armed.Store(-1)
	w.limCPU.Store(w.Args.CPUms)
	w.limMem.Store(w.Args.HeapMB)
	w.limStp.Store(w.Args.Steps)
	// hard backstops (the per-case decision is taken by the watchdog below on CPU time and live heap,
	// never on wall-clock time): total CPU of the worker and its address space.
	_ = syscall.Setrlimit(syscall.RLIMIT_CPU, &syscall.Rlimit{Cur: 7200, Max: 7200})
	if w.Args.HeapMB > 0 {
		as := uint64(w.Args.HeapMB)*16<<20 + 6<<30
		_ = syscall.Setrlimit(syscall.RLIMIT_AS, &syscall.Rlimit{Cur: as, Max: as})
	}
	go w.watchdog()
	fn(w)
	w.mu.Lock()
	w.out.Flush()
	w.mu.Unlock()
	os.Exit(0)
}

func (w *Worker) watchdog() {
	t := time.NewTicker(10 * time.Millisecond)
	defer t.Stop()
	for range t.C {
		i := w.armed.Load()
		if i < 0 {
			continue
		}
		cpu := cpuMillis() - w.cpu0.Load()
		why := ""
		switch {
		case w.limCPU.Load() > 0 && cpu > w.limCPU.Load():
			why = "cpu-limit"
		case w.limMem.Load() > 0 && heapMB() > w.limMem.Load():
			// garbage of earlier cases is not live memory: collect, then measure again
			runtime.GC()
			if heapMB() > w.limMem.Load() {
				why = "mem-limit"
			}
		}
		if why == "" || w.armed.Load() != i {
			continue
		}
		w.abort(i, why)
	}
}

// CaseRand is driver.Ctx.CaseRand of the parent shard.
func (w *Worker) CaseRand(i int64) *rand.Rand { return w.ctx.CaseRand(i) }

// Thorough tells whether the thorough tier runs.
func (w *Worker) Thorough() bool { return w.Args.Tier == "thorough" }

// Start announces case i with its full input, then arms the resource watchdog. Everything the
// reference interpreter has to compute should be computed before Start.
func (w *Worker) Start(i int64, input any, pre map[string]string) *Msg {
	w.emit(&Msg{K: "start", I: i, Input: input, Pre: pre}, true)
	w.cur = &Msg{K: "case", I: i, Observe: map[string]int64{}, Distinct: map[string][]string{}}
	w.cpu0.Store(cpuMillis())
	w.steps.Store(0)
	w.armed.Store(i)
	return w.cur
}

// Disarm stops the resource accounting of the current case (the code under test has returned).
func (w *Worker) Disarm() {
	if w.armed.Load() >= 0 {
		d := cpuMillis() - w.cpu0.Load()
		if d > w.maxCPU {
			w.maxCPU = d
		}
	}
	w.armed.Store(-1)
}

// Done reports the finished case.
func (w *Worker) Done() {
	w.Disarm()
	if w.cur.ObserveMax == nil {
		w.cur.ObserveMax = map[string]int64{}
	}
	w.cur.ObserveMax["max:case_cpu_ms"] = w.maxCPU
	w.emit(w.cur, false)
	w.cur = nil
	w.limCPU.Store(w.Args.CPUms)
	w.limMem.Store(w.Args.HeapMB)
	w.limStp.Store(w.Args.Steps)
}

func (w *Worker) emit(m *Msg, flush bool) {
	b, err := json.Marshal(m)
	if err != nil {
		// a witness that cannot be marshalled must not lose the verdict
		for k := range m.Viol {
			m.Viol[k].Witness = fmt.Sprintf("%+v", m.Viol[k].Witness)
		}
		m.Sample, m.Input = nil, fmt.Sprintf("%+v", m.Input)
		b, _ = json.Marshal(m)
	}
	w.mu.Lock()
	w.out.Write(b)
	w.out.WriteByte('\n')
	if flush || w.out.Buffered() > 1<<15 {
		w.out.Flush()
	}
	w.mu.Unlock()
}

// Helpers to fill the current case message.
func (m *Msg) AddNontrivial(parts ...string) { m.Nontrivial = append(m.Nontrivial, parts) }
func (m *Msg) AddDistinct(set string, parts ...string) {
	m.Distinct[set] = append(m.Distinct[set], strings.Join(parts, "\x00"))
}
func (m *Msg) Obs(name string, n int64) { m.Observe[name] += n }
func (m *Msg) Violation(sub, what string, witness any, sig ...string) {
	m.Viol = append(m.Viol, Viol{Sub: sub, What: what, Witness: witness, Sig: sig})
}

// ---------------------------------------------------------------------------------------------
// shard-child side

// Limits of one case inside a worker.
type Limits struct {
	CPUms  int64
	HeapMB int64
	Steps  int64
	// MaxUnexplainedAborts ends the shard early after that many resource aborts for which OnAbort
	// returned false (a tree on which many inputs do not terminate would otherwise cost
	// CPU-limit × cases); the remaining cases are counted as not executed.
	MaxUnexplainedAborts int
}

type tailBuf struct {
	mu sync.Mutex
	b  []byte
}

func (t *tailBuf) Write(p []byte) (int, error) {
	t.mu.Lock()
	t.b = append(t.b, p...)
	if len(t.b) > 1<<16 {
		t.b = t.b[len(t.b)-(1<<16):]
	}
	t.mu.Unlock()
	return len(p), nil
}
func (t *tailBuf) String() string { t.mu.Lock(); defer t.mu.Unlock(); return string(t.b) }

// Abort describes a case whose execution did not come back.
type Abort struct {
	I      int64
	Input  json.RawMessage
	Pre    map[string]string
	Why    string // step-limit | mem-limit | cpu-limit | crash
	CPUms  int64
	HeapMB int64
	Steps  int64
	Stderr string
}

// Supervise runs cases [0,n) of the shard in sub-child workers of the same binary and folds their
// reports into c. onAbort turns a case that did not come back into a violation (or not) and tells
// whether the abort is explained by a known class.
func Supervise(c *driver.Ctx, n int64, lim Limits, extra string, onAbort func(a *Abort) (explained bool)) {
	self, err := os.Executable()
	if err != nil {
		panic(err)
	}
	from, to := int64(0), n
	if c.Only >= 0 {
		from, to = c.Only, c.Only+1
	}
	unexplained := 0
	for from < to {
		args := WorkerArgs{Seed: c.Seed, Shard: c.Shard, NShards: c.NShards, Tier: c.Tier, From: from, To: to, CPUms: lim.CPUms, HeapMB: lim.HeapMB, Steps: lim.Steps, Extra: extra}
		ab, _ := json.Marshal(&args)
		cmd := exec.Command(self)
		cmd.Env = append(os.Environ(), WorkerEnv+"="+string(ab), "GOMAXPROCS=2", "GOTRACEBACK=single")
		stderr := &tailBuf{}
		cmd.Stderr = stderr
		stdout, err := cmd.StdoutPipe()
		if err != nil {
			panic(err)
		}
		if err := cmd.Start(); err != nil {
			panic(err)
		}
		c.Observe("worker_processes", 1)
		rd := bufio.NewReaderSize(stdout, 1<<20)
		var open *Msg // start without case yet
		var abort *Abort
		next := from
		for {
			line, err := rd.ReadBytes('\n')
			if len(line) > 0 {
				var m Msg
				if jerr := json.Unmarshal(line, &m); jerr != nil {
					c.Note("worker protocol error: %v in %.200q", jerr, string(line))
				} else {
					switch m.K {
					case "start":
						c.Want(m.I)
						c.Progress()
						mm := m
						open = &mm
					case "case":
						apply(c, &m)
						open = nil
						next = m.I + 1
					case "abort":
						abort = &Abort{I: m.I, Why: m.Why, CPUms: m.CPUms, HeapMB: m.HeapMB, Steps: m.Steps}
					}
				}
			}
			if err != nil {
				if err != io.EOF {
					c.Note("worker pipe: %v", err)
				}
				break
			}
		}
		werr := cmd.Wait()
		if open == nil && abort == nil {
			if next < to && werr != nil {
				// died between two cases: infrastructure problem of the harness
				panic(fmt.Sprintf("worker died outside a case: %v\n%s", werr, stderr.String()))
			}
			if next < to && werr == nil {
				panic(fmt.Sprintf("worker ended early at case %d of [%d,%d)\n%s", next, from, to, stderr.String()))
			}
			from = to
			continue
		}
		if open == nil {
			panic("worker aborted outside a case")
		}
		if abort == nil {
			abort = &Abort{I: open.I, Why: "crash"}
		}
		ib, _ := json.Marshal(open.Input)
		abort.Input, abort.Pre, abort.Stderr = ib, open.Pre, stderr.String()
		c.Want(abort.I)
		c.Eval()
		c.Observe("resource_aborts:"+abort.Why, 1)
		if !onAbort(abort) {
			unexplained++
		}
		from = abort.I + 1
		if lim.MaxUnexplainedAborts > 0 && unexplained >= lim.MaxUnexplainedAborts && from < to {
			c.Note("shard %d stopped after %d unexplained resource aborts; cases %d..%d not executed", c.Shard, unexplained, from, to-1)
			c.Observe("cases_not_executed_after_abort_cap", to-from)
			break
		}
	}
}

func apply(c *driver.Ctx, m *Msg) {
	c.Want(m.I)
	if m.Evals > 0 {
		c.EvalN(m.Evals)
	}
	for _, p := range m.Nontrivial {
		c.Nontrivial(toAny(p)...)
	}
	for set, l := range m.Distinct {
		for _, p := range l {
			c.Distinct(set, p)
		}
	}
	for k, n := range m.Observe {
		c.Observe(k, n)
	}
	for k, n := range m.ObserveMax {
		c.ObserveMax(k, n)
	}
	for _, v := range m.Viol {
		c.Violation(v.Sub, v.What, v.Witness, v.Sig...)
	}
	for _, w := range m.Inconclusive {
		c.Inconclusive(w)
	}
	if m.Sample != nil {
		c.Sample(m.Sample)
	}
	for _, n := range m.Notes {
		c.Note("%s", n)
	}
}

func toAny(p []string) []any {
	o := make([]any, len(p))
	for i := range p {
		o[i] = p[i]
	}
	return o
}

// CrashSite extracts "panic:/fatal error:" line and the innermost repository frame from a worker's stderr.
func CrashSite(stderr string) (line, site string) {
	for _, mk := range []string{"panic: ", "fatal error: "} {
		if i := strings.Index(stderr, mk); i >= 0 {
			s := stderr[i:]
			line = strings.SplitN(s, "\n", 2)[0]
			if len(line) > 160 {
				line = line[:160]
			}
			site = driver.PanicSite(s)
			return line, site
		}
	}
	return "", ""
}
