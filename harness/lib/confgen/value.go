package confgen

import (
	"fmt"
	"math"
	"reflect"
	"regexp"
	"sort"
	"strconv"
	"strings"
	"time"
)

// ---------------------------------------------------------------------------------------------
// canonical rendering of configuration value trees

// Canon renders a value tree (nil, bool, ints, floats, string, time.Time, []any, map[string]any and
// typed slices/maps of those) as a canonical string: integer types are merged, nil and empty slices
// are the same list, map keys are sorted. Values of an unexported wrapper type of the code under test
// are rendered as WRAP<…> so that their presence is visible.
func Canon(v any) string {
	var b strings.Builder
	canon(&b, reflect.ValueOf(v))
	return b.String()
}

func canon(b *strings.Builder, v reflect.Value) {
	if !v.IsValid() {
		b.WriteString("null")
		return
	}
	if t, ok := v.Interface().(time.Time); ok {
		b.WriteString("t:" + t.UTC().Format(time.RFC3339Nano))
		return
	}
	switch v.Kind() {
	case reflect.Interface, reflect.Ptr:
		if v.IsNil() {
			b.WriteString("null")
			return
		}
		canon(b, v.Elem())
	case reflect.String:
		b.WriteString(strconv.Quote(v.String()))
	case reflect.Bool:
		b.WriteString(strconv.FormatBool(v.Bool()))
	case reflect.Int, reflect.Int8, reflect.Int16, reflect.Int32, reflect.Int64:
		b.WriteString("i:" + strconv.FormatInt(v.Int(), 10))
	case reflect.Uint, reflect.Uint8, reflect.Uint16, reflect.Uint32, reflect.Uint64:
		b.WriteString("i:" + strconv.FormatUint(v.Uint(), 10))
	case reflect.Float32, reflect.Float64:
		f := v.Float()
		if math.IsNaN(f) {
			b.WriteString("f:NaN")
		} else {
			b.WriteString("f:" + strconv.FormatFloat(f, 'g', -1, 64))
		}
	case reflect.Slice, reflect.Array:
		b.WriteByte('[')
		for i := 0; i < v.Len(); i++ {
			if i > 0 {
				b.WriteByte(',')
			}
			canon(b, v.Index(i))
		}
		b.WriteByte(']')
	case reflect.Map:
		keys := make([]string, 0, v.Len())
		byKey := map[string]reflect.Value{}
		for _, k := range v.MapKeys() {
			ks := fmt.Sprint(k.Interface())
			keys = append(keys, ks)
			byKey[ks] = v.MapIndex(k)
		}
		sort.Strings(keys)
		b.WriteByte('{')
		for i, k := range keys {
			if i > 0 {
				b.WriteByte(',')
			}
			b.WriteString(strconv.Quote(k) + "=")
			canon(b, byKey[k])
		}
		b.WriteByte('}')
	case reflect.Struct:
		// a struct inside a resolved configuration map is an internal wrapper of the code under test
		b.WriteString("WRAP<" + v.Type().String())
		for i := 0; i < v.NumField(); i++ {
			b.WriteByte(' ')
			b.WriteString(v.Type().Field(i).Name + "=")
			f := v.Field(i)
			if f.CanInterface() {
				canon(b, f)
			} else {
				b.WriteString(fmt.Sprintf("%#v", f))
			}
		}
		b.WriteByte('>')
	default:
		b.WriteString(fmt.Sprintf("?%s:%v", v.Type(), v.Interface()))
	}
}

// Unwrap replaces every wrapper struct (a struct with an exported field "Value") by its Value,
// recursively; used to tell "right value inside a leaked wrapper" from "wrong value".
func Unwrap(v any) any {
	switch x := v.(type) {
	case map[string]any:
		o := make(map[string]any, len(x))
		for k, e := range x {
			o[k] = Unwrap(e)
		}
		return o
	case []any:
		o := make([]any, len(x))
		for i, e := range x {
			o[i] = Unwrap(e)
		}
		return o
	case nil, string, bool, int, int64, float64, time.Time:
		return v
	}
	rv := reflect.ValueOf(v)
	if rv.Kind() == reflect.Struct {
		if f := rv.FieldByName("Value"); f.IsValid() && f.CanInterface() {
			return Unwrap(f.Interface())
		}
	}
	return v
}

// KindName is a low-cardinality name of the kind of a value (for signatures).
func KindName(v any) string {
	switch v.(type) {
	case nil:
		return "null"
	case string:
		return "string"
	case bool:
		return "bool"
	case int, int32, int64, uint64, uint32:
		return "int"
	case float32, float64:
		return "float"
	case time.Time:
		return "time"
	case []any, []string:
		return "list"
	case map[string]any, map[string]string:
		return "map"
	}
	rv := reflect.ValueOf(v)
	switch rv.Kind() {
	case reflect.Struct:
		return "wrapper"
	case reflect.Slice:
		return "list"
	case reflect.Map:
		return "map"
	case reflect.Ptr:
		return "ptr"
	}
	return rv.Kind().String()
}

// ---------------------------------------------------------------------------------------------
// a small YAML writer (block style) whose output the harness re-parses as a self-check

// Plain is written verbatim as a plain scalar.
type Plain string

var plainOK = regexp.MustCompile(`^[A-Za-z$][A-Za-z0-9$_./{}:-]*$`)
var yamlWords = map[string]bool{"true": true, "false": true, "null": true, "yes": true, "no": true, "on": true, "off": true, "y": true, "n": true}

// PlainSafe tells whether s can be written as a plain YAML scalar that parses back to the string s.
func PlainSafe(s string) bool {
	if !plainOK.MatchString(s) || strings.HasSuffix(s, ":") || strings.Contains(s, ":{") || strings.Contains(s, "{{") {
		return false
	}
	return !yamlWords[strings.ToLower(s)]
}

// QuoteYAML renders a string scalar; plain (when allowed and safe), else single-quoted, else double-quoted.
func QuoteYAML(s string, allowPlain bool) string {
	if allowPlain && PlainSafe(s) {
		return s
	}
	ctl := false
	for _, r := range s {
		if r < 0x20 || r == 0x7f || r == 0xfffd {
			ctl = true
			break
		}
	}
	if !ctl {
		return "'" + strings.ReplaceAll(s, "'", "''") + "'"
	}
	var b strings.Builder
	b.WriteByte('"')
	for _, c := range s {
		switch {
		case c == '"':
			b.WriteString(`\"`)
		case c == '\\':
			b.WriteString(`\\`)
		case c == '\n':
			b.WriteString(`\n`)
		case c == '\t':
			b.WriteString(`\t`)
		case c < 0x20 || c == 0x7f:
			fmt.Fprintf(&b, `\x%02x`, c)
		default:
			b.WriteRune(c)
		}
	}
	b.WriteByte('"')
	return b.String()
}

func yamlKey(k string) string {
	if regexp.MustCompile(`^[A-Za-z_][A-Za-z0-9_/-]*(::[A-Za-z_][A-Za-z0-9_/-]*)*$`).MatchString(k) && !yamlWords[strings.ToLower(k)] {
		return k
	}
	return QuoteYAML(k, false)
}

// YAMLOpts controls the writer.
type YAMLOpts struct {
	PlainStrings bool // write safe strings without quotes
}

// YAML renders v (map[string]any, []any, scalars, Plain) as a block-style document.
func YAML(v any, o YAMLOpts) string {
	var b strings.Builder
	switch x := v.(type) {
	case map[string]any:
		if len(x) == 0 {
			return "{}\n"
		}
	case []any:
		if len(x) == 0 {
			return "[]\n"
		}
	}
	writeYAML(&b, v, 0, o)
	return b.String()
}

func scalarYAML(v any, o YAMLOpts) (string, bool) {
	switch x := v.(type) {
	case nil:
		return "null", true
	case Plain:
		return string(x), true
	case string:
		return QuoteYAML(x, o.PlainStrings), true
	case bool:
		return strconv.FormatBool(x), true
	case int:
		return strconv.Itoa(x), true
	case int64:
		return strconv.FormatInt(x, 10), true
	case uint32:
		return strconv.FormatUint(uint64(x), 10), true
	case uint64:
		return strconv.FormatUint(x, 10), true
	case float64:
		s := strconv.FormatFloat(x, 'f', -1, 64)
		if !strings.Contains(s, ".") {
			s += ".0"
		}
		return s, true
	case map[string]any:
		if len(x) == 0 {
			return "{}", true
		}
	case []any:
		if len(x) == 0 {
			return "[]", true
		}
	}
	return "", false
}

func writeYAML(b *strings.Builder, v any, ind int, o YAMLOpts) {
	pad := strings.Repeat(" ", ind)
	switch x := v.(type) {
	case map[string]any:
		keys := make([]string, 0, len(x))
		for k := range x {
			keys = append(keys, k)
		}
		sort.Strings(keys)
		for _, k := range keys {
			if s, ok := scalarYAML(x[k], o); ok {
				b.WriteString(pad + yamlKey(k) + ": " + s + "\n")
			} else {
				b.WriteString(pad + yamlKey(k) + ":\n")
				writeYAML(b, x[k], ind+2, o)
			}
		}
	case []any:
		for _, e := range x {
			if s, ok := scalarYAML(e, o); ok {
				b.WriteString(pad + "- " + s + "\n")
			} else {
				b.WriteString(pad + "-\n")
				writeYAML(b, e, ind+2, o)
			}
		}
	default:
		s, _ := scalarYAML(v, o)
		b.WriteString(pad + s + "\n")
	}
}

// ScalarText is the unquoted document text of a non-string scalar (what an environment variable would hold).
func ScalarText(v any) (string, bool) {
	switch v.(type) {
	case bool, int, int64, uint32, uint64, float64:
		return scalarYAML(v, YAMLOpts{})
	}
	return "", false
}
