package reflectpd

import (
	"fmt"
	"math"
	"math/rand"
	"reflect"
	"strings"

	"go.opentelemetry.io/collector/pdata/pcommon"
)

// Filler populates pdata values reflectively: every settable field, one alternative of every one-of
// (or none), optional fields present or absent, containers of length 0..MaxLen (0 = absent vs. a
// present-but-empty child is exercised through SetEmpty* of values), unique scalars mixed with
// extreme ones.
type Filler struct {
	R   *Registry
	Rng *rand.Rand
	// Ctr makes scalars unique within one Filler.
	Ctr int64
	// MaxLen bounds container lengths (MinLen is the lower bound while the budget lasts); Budget bounds
	// the total number of container elements.
	MaxLen, MinLen, Budget int
	// MaxDepth bounds the nesting of attribute values.
	MaxDepth int
	// PExtreme: probability that a scalar takes a boundary value (0, ±max, NaN, ±Inf, "", …).
	PExtreme float64
	// PSkip: probability that a plain field keeps its default; PEmptyAlt: that a one-of stays empty.
	PSkip, PEmptyAlt float64
	// NoNaN excludes NaN (for oracles that compare through an encoding that cannot carry its payload).
	NoNaN bool
	// Cover, if non-nil, receives the generic path of everything that was populated.
	Cover map[string]struct{}

	path []string
}

func (f *Filler) uniq() int64 { f.Ctr++; return f.Ctr }

func (f *Filler) cover(extra string) {
	if f.Cover != nil {
		f.Cover[strings.Join(f.path, "/")+"/"+extra] = struct{}{}
	}
}

var extremeStrings = []string{"", " ", "ünï©ødé-日本語-🔑", "quote\"back\\slash/", "line\nbreak\ttab\r", "\u0000nul\u001f", "<html>&amp;'", "  \ufeff",
	"-12x", "1e5z", "null", "true", "{}", "[]", strings.Repeat("long", 300)}

var escapeTokens = []string{"\\", "\\u0026", "\\u003c", "\\u003e", "\\u2028", "\\n", "\\\"", "\\/", "u0026", "&", "<", ">", "\"", "'", "/", "\u2028", "\u2029",
	"\u007f", "\u0085", "\ufffd", "\b", "\f", "%", "$", "{", "}", "😀", "&amp;", "&lt;", "\\\\", "\\x", "\\u"}

// String returns a unique (or extreme) string; never a pure decimal number (the JSON-variant oracle
// of C08 recognises 64-bit integers by that shape).
func (f *Filler) String() string {
	if f.Rng.Float64() < f.PExtreme {
		if f.Rng.Intn(3) == 0 {
			// composed from the pieces text encoders treat specially: a literal backslash in front of what looks like an
			// escape sequence, the characters HTML-safe JSON writers escape, JavaScript's line separators, controls
			n := 2 + f.Rng.Intn(5)
			var b strings.Builder
			for i := 0; i < n; i++ {
				b.WriteString(escapeTokens[f.Rng.Intn(len(escapeTokens))])
			}
			return b.String()
		}
		return extremeStrings[f.Rng.Intn(len(extremeStrings))]
	}
	return fmt.Sprintf("s%d", f.uniq())
}

var (
	extremeI64 = []int64{0, 1, -1, math.MaxInt64, math.MinInt64, math.MaxInt32, math.MinInt32, 1<<53 + 1, -(1<<53 + 1), math.MaxInt64 - 1, 1 << 32, -(1 << 32), 0x7fffffff00000000}
	extremeU64 = []uint64{0, 1, math.MaxUint64, math.MaxInt64, math.MaxInt64 + 1, 1<<53 + 1, math.MaxUint32, math.MaxUint64 - 1, 1 << 32, 0xffffffff00000000, 1 << 63, 1 << 56}
	extremeI32 = []int32{0, 1, -1, math.MaxInt32, math.MinInt32}
	extremeU32 = []uint32{0, 1, math.MaxUint32, math.MaxInt32, math.MaxInt32 + 1, 1 << 16, 0xffff0000, 1 << 24}
	extremeF64 = []float64{0, math.Copysign(0, -1), 1, -1, math.MaxFloat64, -math.MaxFloat64, math.SmallestNonzeroFloat64, 5e-324 * 3, math.Inf(1), math.Inf(-1),
		0.1, 1e21, 1e-7, 123456789.123456789, float64(1<<53 + 2), math.NaN(),
		// NaNs other than Go's canonical one: negative quiet NaN with a payload, signalling NaN
		math.Float64frombits(0xfff8000000000123), math.Float64frombits(0x7ff0000000000001),
		// zero in one 32-bit word of the bit pattern: high word only (2, -2, 2^-1022), low word only (denormals)
		2, -2, 0x1p-1022, math.Float64frombits(0x00000000ffffffff), math.Float64frombits(1 << 32)}
)

// EnumValues returns the defined values of an enum type (named int32 with a String method), found by
// probing String() on 0..63.
func EnumValues(t reflect.Type) []int64 {
	if t.Kind() != reflect.Int32 || !strings.HasPrefix(t.PkgPath(), pdataPrefix) {
		return nil
	}
	if _, ok := t.MethodByName("String"); !ok {
		return nil
	}
	var out []int64
	for i := int64(0); i < 64; i++ {
		v := reflect.New(t).Elem()
		v.SetInt(i)
		if s := v.MethodByName("String").Call(nil)[0].String(); s != "" {
			out = append(out, i)
		}
	}
	return out
}

var enumCache = map[reflect.Type][]int64{}

// Scalar returns a value of a scalar field type.
func (f *Filler) Scalar(t reflect.Type) reflect.Value {
	v := reflect.New(t).Elem()
	ext := f.Rng.Float64() < f.PExtreme
	switch t.Kind() {
	case reflect.String:
		v.SetString(f.String())
	case reflect.Int32:
		ev, ok := enumCache[t]
		if !ok {
			ev = EnumValues(t)
			enumCache[t] = ev
		}
		switch {
		case len(ev) > 0:
			v.SetInt(ev[f.Rng.Intn(len(ev))])
		case ext:
			v.SetInt(int64(extremeI32[f.Rng.Intn(len(extremeI32))]))
		default:
			v.SetInt(f.uniq()%100000 + 2)
		}
	case reflect.Int, reflect.Int64:
		if ext {
			v.SetInt(extremeI64[f.Rng.Intn(len(extremeI64))])
		} else {
			v.SetInt(f.uniq()*1000003 + 2)
		}
	case reflect.Uint32:
		if ext {
			v.SetUint(uint64(extremeU32[f.Rng.Intn(len(extremeU32))]))
		} else {
			v.SetUint(uint64(f.uniq()) + 7)
		}
	case reflect.Uint64:
		if ext {
			v.SetUint(extremeU64[f.Rng.Intn(len(extremeU64))])
		} else {
			v.SetUint(uint64(f.uniq())*1000000007 + 11)
		}
	case reflect.Uint8:
		v.SetUint(uint64(f.uniq() % 256))
	case reflect.Float64:
		if ext {
			x := extremeF64[f.Rng.Intn(len(extremeF64))]
			if f.NoNaN && x != x {
				x = 2.5
			}
			v.SetFloat(x)
		} else {
			v.SetFloat(float64(f.uniq()) + 0.25)
		}
	case reflect.Bool:
		v.SetBool(f.Rng.Intn(2) == 0)
	case reflect.Array:
		f.fillID(v, ext)
	default:
		panic("reflectpd: scalar kind " + t.String())
	}
	return v
}

// fillID fills a byte-array id (trace, span, profile id). Ids are "emptiness-gated": encoders skip an id
// they consider empty, and emptiness tests are the kind of code that gets rewritten word-wise. So, with
// good probability whatever PExtreme is, the id is structured: one half zero (a 64-bit id padded to 128
// bits), a single non-zero byte (the position cycles through the whole array), all 0xff, all zero; the
// rest are unique pseudo-random ids.
func (f *Filler) fillID(v reflect.Value, ext bool) {
	n := v.Len()
	u := f.uniq()
	random := func(from, to int) {
		for i := from; i < to; i++ {
			v.Index(i).SetUint(uint64(byte(u>>(8*(uint(i)%8)))^byte(i*37+1)) | 1)
		}
	}
	p := f.Rng.Float64()
	if ext {
		p /= 2 // more structure among the extreme values
	}
	switch {
	case p < 0.08: // first half zero
		random(n/2, n)
	case p < 0.16: // second half zero
		random(0, n/2)
	case p < 0.30: // exactly one non-zero byte; position and value cycle with the counter
		v.Index(int(u % int64(n))).SetUint(uint64(1 + (u/int64(n))%255))
	case p < 0.34:
		for i := 0; i < n; i++ {
			v.Index(i).SetUint(0xff)
		}
	case p < 0.38 || ext && p < 0.45:
		// the zero ("absent") id
	default:
		random(0, n)
	}
}

func (f *Filler) length() int {
	if f.Budget <= 0 || f.MaxLen <= 0 {
		return 0
	}
	n := f.Rng.Intn(f.MaxLen + 1)
	if f.MinLen > 0 && f.MinLen <= f.MaxLen {
		n = f.MinLen + f.Rng.Intn(f.MaxLen-f.MinLen+1)
	}
	if n > f.Budget {
		n = f.Budget
	}
	f.Budget -= n
	return n
}

// Fill populates v (any discovered pdata type).
func (f *Filler) Fill(v reflect.Value) {
	ti := f.R.byType[v.Type()]
	if ti == nil {
		panic("reflectpd: Fill of unknown type " + v.Type().String())
	}
	f.fill(v, ti, 0)
}

// FillAny is Fill(reflect.ValueOf(x)).
func (f *Filler) FillAny(x any) { f.Fill(reflect.ValueOf(x)) }

func (f *Filler) fill(v reflect.Value, ti *TypeInfo, depth int) {
	switch ti.Kind {
	case KMap:
		f.fillMap(v.Interface().(pcommon.Map), depth)
	case KValue:
		f.FillValue(v.Interface().(pcommon.Value), depth)
	case KRaw:
		if f.Rng.Float64() >= f.PSkip {
			v.Method(ti.Methods["FromRaw"]).Call([]reflect.Value{reflect.ValueOf(fmt.Sprintf("k%d=v", f.uniq()))})
			f.cover("raw")
		}
	case KSlice:
		n := f.length()
		f.path = append(f.path, "#")
		for i := 0; i < n; i++ {
			f.fill(v.Method(ti.Methods["AppendEmpty"]).Call(nil)[0], ti.Elem, depth)
		}
		f.path = f.path[:len(f.path)-1]
		if n > 0 {
			f.cover("n>0")
		}
	case KPrim:
		n := f.length()
		if n == 0 {
			return
		}
		args := make([]reflect.Value, n)
		for i := range args {
			args[i] = f.Scalar(ti.ElemT)
		}
		v.Method(ti.Methods["Append"]).Call(args)
		f.cover("n>0")
	case KStruct:
		var alts []*Field
		for _, fd := range ti.Fields {
			switch {
			case fd.OneOf:
				alts = append(alts, fd)
			case fd.Scalar != nil:
				if fd.Set >= 0 && f.Rng.Float64() >= f.PSkip {
					v.Method(fd.Set).Call([]reflect.Value{f.Scalar(fd.Scalar)})
					f.cover(fd.Name)
				}
			default:
				f.path = append(f.path, fd.Name)
				f.fill(v.Method(fd.Get).Call(nil)[0], fd.Child, depth)
				f.path = f.path[:len(f.path)-1]
			}
		}
		if len(alts) > 0 && f.Rng.Float64() >= f.PEmptyAlt {
			a := alts[f.Rng.Intn(len(alts))]
			if a.SetEmpty >= 0 {
				c := v.Method(a.SetEmpty).Call(nil)[0]
				f.path = append(f.path, a.Name)
				f.cover("alt")
				f.fill(c, a.Child, depth)
				f.path = f.path[:len(f.path)-1]
			} else {
				v.Method(a.Set).Call([]reflect.Value{f.Scalar(a.Scalar)})
				f.cover(a.Name)
			}
		}
	}
}

func (f *Filler) key() string {
	if f.Rng.Float64() < f.PExtreme/2 {
		if f.Rng.Intn(8) == 0 {
			return "" // the empty key (at most a few per value; duplicates are avoided by PutEmpty's upsert)
		}
		return []string{"_", "ключ", "a.b", "k k", "\"q\""}[f.Rng.Intn(5)] + fmt.Sprint(f.uniq())
	}
	return fmt.Sprintf("k%d", f.uniq())
}

func (f *Filler) fillMap(m pcommon.Map, depth int) {
	n := f.length()
	f.path = append(f.path, "@")
	for i := 0; i < n; i++ {
		f.FillValue(m.PutEmpty(f.key()), depth)
	}
	f.path = f.path[:len(f.path)-1]
	if n > 0 {
		f.cover("n>0")
	}
}

// FillValue sets a pcommon.Value to a random alternative (all eight occur, containers while depth allows).
func (f *Filler) FillValue(v pcommon.Value, depth int) {
	k := f.Rng.Intn(10)
	if depth >= f.MaxDepth && (k == 5 || k == 6) {
		k = 0
	}
	switch k {
	case 0, 8:
		v.SetStr(f.String())
		f.cover("str")
	case 1, 9:
		v.SetInt(f.Scalar(reflect.TypeOf(int64(0))).Int())
		f.cover("int")
	case 2:
		v.SetDouble(f.Scalar(reflect.TypeOf(float64(0))).Float())
		f.cover("double")
	case 3:
		v.SetBool(f.Rng.Intn(2) == 0)
		f.cover("bool")
	case 4:
		b := v.SetEmptyBytes()
		n := 1 + f.Rng.Intn(3)
		if f.Rng.Intn(8) == 0 {
			n = 0 // present but empty
		}
		for i := 0; i < n; i++ {
			b.Append(byte(f.uniq()))
		}
		f.cover(fmt.Sprint("bytes", n > 0))
	case 5:
		f.path = append(f.path, "map")
		f.fillMap(v.SetEmptyMap(), depth+1)
		f.path = f.path[:len(f.path)-1]
		f.cover("map")
	case 6:
		s := v.SetEmptySlice()
		n := f.length()
		f.path = append(f.path, "slice")
		for i := 0; i < n; i++ {
			f.FillValue(s.AppendEmpty(), depth+1)
		}
		f.path = f.path[:len(f.path)-1]
		f.cover(fmt.Sprint("slice", n > 0))
	case 7:
		f.cover("empty") // stays Empty
	}
}
