package reflectpd

import (
	"encoding/hex"
	"fmt"
	"hash/fnv"
	"math"
	"reflect"
	"sort"
	"strconv"
	"strings"
	"unicode/utf8"

	"go.opentelemetry.io/collector/pdata/pcommon"
)

// Node is a generic tree of everything that is observable through the getters of a pdata value. The
// same type is used for snapshots of the implementation and for the reference model of C07.
type Node struct {
	Kind Kind
	TI   *TypeInfo
	// Leaf: canonical text of a scalar (KLeaf), the raw string (KRaw) or the value type (KValue).
	Leaf string
	// Names: field names of a struct (sorted; inactive message alternatives are absent) or the keys
	// of a map (sorted, duplicates kept in encounter order).
	Names []string
	// Kids: struct fields / map values aligned with Names; elements of a slice; the payload of a
	// pcommon.Value (none for Empty).
	Kids []*Node

	// Bookkeeping of the reference model only (never compared): Used = the container may own a
	// backing array with spare capacity; Stale = elements were removed / the container was shrunk
	// since its backing array was allocated.
	Used, Stale bool
}

// LeafOf renders a scalar canonically (floats by bit pattern, so NaN and -0 are distinguishable).
func LeafOf(v reflect.Value) string {
	switch v.Kind() {
	case reflect.String:
		return "s:" + v.String()
	case reflect.Bool:
		if v.Bool() {
			return "true"
		}
		return "false"
	case reflect.Int, reflect.Int8, reflect.Int16, reflect.Int32, reflect.Int64:
		return strconv.FormatInt(v.Int(), 10)
	case reflect.Uint, reflect.Uint8, reflect.Uint16, reflect.Uint32, reflect.Uint64:
		return "u" + strconv.FormatUint(v.Uint(), 10)
	case reflect.Float32, reflect.Float64:
		f := v.Float()
		return "f" + strconv.FormatUint(math.Float64bits(f), 16) + "(" + strconv.FormatFloat(f, 'g', -1, 64) + ")"
	case reflect.Array:
		if v.Type().Elem().Kind() == reflect.Uint8 {
			b := make([]byte, v.Len())
			for i := range b {
				b[i] = byte(v.Index(i).Uint())
			}
			return "x" + hex.EncodeToString(b)
		}
	}
	return fmt.Sprintf("?%v", v.Interface())
}

func leaf(s string) *Node { return &Node{Kind: KLeaf, Leaf: s} }

// Snapshot reads everything observable of v (a pdata value of a discovered type).
func (r *Registry) Snapshot(v reflect.Value) *Node {
	ti := r.byType[v.Type()]
	if ti == nil {
		panic("reflectpd: unknown type " + v.Type().String())
	}
	return r.snap(v, ti)
}

// SnapshotAny is Snapshot(reflect.ValueOf(x)).
func (r *Registry) SnapshotAny(x any) *Node { return r.Snapshot(reflect.ValueOf(x)) }

func (r *Registry) snap(v reflect.Value, ti *TypeInfo) *Node {
	n := &Node{Kind: ti.Kind, TI: ti}
	switch ti.Kind {
	case KMap:
		m := v.Interface().(pcommon.Map)
		type kv struct {
			k string
			v *Node
		}
		var kvs []kv
		vti := r.byType[valueT]
		m.Range(func(k string, val pcommon.Value) bool {
			kvs = append(kvs, kv{k, r.snapValue(val, vti)})
			return true
		})
		if len(kvs) != m.Len() {
			// Len and Range disagree: make it visible
			kvs = append(kvs, kv{"\x00len", leaf(strconv.Itoa(m.Len()))})
		}
		sort.SliceStable(kvs, func(i, j int) bool { return kvs[i].k < kvs[j].k })
		for _, e := range kvs {
			n.Names = append(n.Names, e.k)
			n.Kids = append(n.Kids, e.v)
		}
	case KValue:
		return r.snapValue(v.Interface().(pcommon.Value), ti)
	case KRaw:
		n.Leaf = v.Method(ti.Methods["AsRaw"]).Call(nil)[0].String()
	case KSlice:
		ln := int(v.Method(ti.Methods["Len"]).Call(nil)[0].Int())
		at := v.Method(ti.Methods["At"])
		n.Kids = make([]*Node, 0, ln)
		for i := 0; i < ln; i++ {
			n.Kids = append(n.Kids, r.snap(at.Call([]reflect.Value{reflect.ValueOf(i)})[0], ti.Elem))
		}
	case KPrim:
		raw := v.Method(ti.Methods["AsRaw"]).Call(nil)[0]
		ln := int(v.Method(ti.Methods["Len"]).Call(nil)[0].Int())
		if raw.Len() != ln {
			n.Kids = append(n.Kids, leaf("len-mismatch "+strconv.Itoa(ln)))
		}
		for i := 0; i < raw.Len(); i++ {
			n.Kids = append(n.Kids, leaf(LeafOf(raw.Index(i))))
		}
	case KStruct:
		for _, f := range ti.Fields {
			out := v.Method(f.Get).Call(nil)[0]
			if f.Derived {
				continue
			}
			if f.Scalar != nil {
				n.Names = append(n.Names, f.Name)
				n.Kids = append(n.Kids, leaf(LeafOf(out)))
				continue
			}
			if out.IsZero() { // inactive one-of alternative
				continue
			}
			n.Names = append(n.Names, f.Name)
			n.Kids = append(n.Kids, r.snap(out, f.Child))
		}
	}
	return n
}

func (r *Registry) snapValue(v pcommon.Value, ti *TypeInfo) *Node {
	n := &Node{Kind: KValue, TI: ti, Leaf: v.Type().String()}
	switch v.Type() {
	case pcommon.ValueTypeStr:
		n.Kids = []*Node{leaf("s:" + v.Str())}
	case pcommon.ValueTypeInt:
		n.Kids = []*Node{leaf(strconv.FormatInt(v.Int(), 10))}
	case pcommon.ValueTypeDouble:
		n.Kids = []*Node{leaf(LeafOf(reflect.ValueOf(v.Double())))}
	case pcommon.ValueTypeBool:
		n.Kids = []*Node{leaf(strconv.FormatBool(v.Bool()))}
	case pcommon.ValueTypeMap:
		n.Kids = []*Node{r.snap(reflect.ValueOf(v.Map()), r.byType[mapT])}
	case pcommon.ValueTypeSlice:
		s := v.Slice()
		n.Kids = []*Node{r.snap(reflect.ValueOf(s), r.byType[reflect.TypeOf(s)])}
	case pcommon.ValueTypeBytes:
		b := v.Bytes()
		n.Kids = []*Node{r.snap(reflect.ValueOf(b), r.byType[reflect.TypeOf(b)])}
	case pcommon.ValueTypeEmpty:
	default:
		n.Leaf = fmt.Sprintf("?%d", v.Type())
	}
	return n
}

// Clone returns a deep copy (bookkeeping flags included).
func (n *Node) Clone() *Node {
	if n == nil {
		return nil
	}
	c := *n
	if n.Names != nil {
		c.Names = append([]string(nil), n.Names...)
	}
	if n.Kids != nil {
		c.Kids = make([]*Node, len(n.Kids))
		for i, k := range n.Kids {
			c.Kids[i] = k.Clone()
		}
	}
	return &c
}

// Field returns the named child of a struct / map node (nil if absent).
func (n *Node) Field(name string) *Node {
	for i, k := range n.Names {
		if k == name {
			return n.Kids[i]
		}
	}
	return nil
}

// SetField sets (or inserts, keeping Names sorted) a named child.
func (n *Node) SetField(name string, c *Node) {
	i := sort.SearchStrings(n.Names, name)
	if i < len(n.Names) && n.Names[i] == name {
		n.Kids[i] = c
		return
	}
	n.Names = append(n.Names, "")
	copy(n.Names[i+1:], n.Names[i:])
	n.Names[i] = name
	n.Kids = append(n.Kids, nil)
	copy(n.Kids[i+1:], n.Kids[i:])
	n.Kids[i] = c
}

// DelField removes a named child; reports whether it was present.
func (n *Node) DelField(name string) bool {
	for i, k := range n.Names {
		if k == name {
			n.Names = append(n.Names[:i], n.Names[i+1:]...)
			n.Kids = append(n.Kids[:i], n.Kids[i+1:]...)
			return true
		}
	}
	return false
}

// Equal compares two trees structurally (bookkeeping flags ignored).
func Equal(a, b *Node) bool {
	if a == nil || b == nil {
		return a == b
	}
	if a.Kind != b.Kind || a.Leaf != b.Leaf || len(a.Kids) != len(b.Kids) || len(a.Names) != len(b.Names) {
		return false
	}
	for i := range a.Names {
		if a.Names[i] != b.Names[i] {
			return false
		}
	}
	for i := range a.Kids {
		if !Equal(a.Kids[i], b.Kids[i]) {
			return false
		}
	}
	return true
}

// Difference describes the first place where two trees differ.
type Difference struct {
	Path  string // index-carrying path, e.g. /ResourceLogs/#0/ScopeLogs/#1/SchemaUrl
	Class string // oneof | optional | len | keys | content
	Owner string // type that owns the differing node
	Field string // field name at the divergence (structs)
	Want  string
	Got   string
	Steps []string
}

// Diff returns nil when the trees are equal.
func Diff(want, got *Node) *Difference {
	if Equal(want, got) {
		return nil
	}
	return diff(want, got, nil, nil, "")
}

func ownerName(n *Node) string {
	if n != nil && n.TI != nil {
		return n.TI.Name
	}
	return ""
}

func diff(w, g *Node, path []string, parent *Node, field string) *Difference {
	mk := func(class string) *Difference {
		d := &Difference{Path: "/" + strings.Join(path, "/"), Class: class, Owner: ownerName(parent), Field: field,
			Want: Excerpt(w, 160), Got: Excerpt(g, 160), Steps: append([]string(nil), path...)}
		if parent != nil && parent.Kind == KStruct && parent.TI != nil {
			if f := parent.TI.FieldByName(field); f != nil {
				switch {
				case f.IsDisc || f.OneOf:
					d.Class = "oneof"
				case f.IsHasFlag || f.Has >= 0:
					d.Class = "optional"
				}
			}
		}
		if d.Owner == "" {
			if w != nil {
				d.Owner = ownerName(w)
			} else {
				d.Owner = ownerName(g)
			}
		}
		return d
	}
	if w == nil || g == nil {
		if w == g {
			return nil
		}
		return mk("content")
	}
	if w.Kind != g.Kind || w.Leaf != g.Leaf {
		if w.Kind == KValue || g.Kind == KValue {
			return mk("valuetype")
		}
		return mk("content")
	}
	switch w.Kind {
	case KStruct:
		// compare by name so that the report names the field
		names := map[string]bool{}
		for _, n := range w.Names {
			names[n] = true
		}
		for _, n := range g.Names {
			names[n] = true
		}
		all := make([]string, 0, len(names))
		for n := range names {
			all = append(all, n)
		}
		sort.Strings(all)
		// discriminator and Has-flags first: they explain the rest
		sort.SliceStable(all, func(i, j int) bool { return fieldRank(w.TI, all[i]) < fieldRank(w.TI, all[j]) })
		for _, n := range all {
			if d := diff(w.Field(n), g.Field(n), append(path, n), w, n); d != nil {
				return d
			}
		}
	case KMap:
		if len(w.Names) != len(g.Names) {
			d := mk("keys")
			d.Owner = ownerName(w)
			return d
		}
		for i := range w.Names {
			if w.Names[i] != g.Names[i] {
				d := mk("keys")
				d.Owner = ownerName(w)
				return d
			}
		}
		for i := range w.Kids {
			if d := diff(w.Kids[i], g.Kids[i], append(path, "@"+w.Names[i]), w, ""); d != nil {
				return d
			}
		}
	default:
		if len(w.Kids) != len(g.Kids) {
			d := mk("len")
			d.Owner = ownerName(w)
			return d
		}
		for i := range w.Kids {
			step := "#" + strconv.Itoa(i)
			if w.Kind == KValue {
				step = "$"
			}
			if d := diff(w.Kids[i], g.Kids[i], append(path, step), w, ""); d != nil {
				return d
			}
		}
	}
	return nil
}

func fieldRank(ti *TypeInfo, name string) int {
	if ti != nil {
		if f := ti.FieldByName(name); f != nil && (f.IsDisc || f.IsHasFlag) {
			return 0
		}
	}
	return 1
}

// Excerpt renders a tree compactly, truncated to max bytes.
func Excerpt(n *Node, max int) string {
	var b strings.Builder
	render(n, &b, max)
	s := b.String()
	if len(s) > max {
		s = s[:max]
		for !utf8.ValidString(s) && len(s) > 0 {
			s = s[:len(s)-1]
		}
		s += "…"
	}
	return s
}

func render(n *Node, b *strings.Builder, max int) {
	if b.Len() > max {
		return
	}
	if n == nil {
		b.WriteString("<absent>")
		return
	}
	switch n.Kind {
	case KLeaf:
		b.WriteString(n.Leaf)
	case KRaw:
		b.WriteString(strconv.Quote(n.Leaf))
	case KValue:
		b.WriteString(n.Leaf)
		if len(n.Kids) > 0 {
			b.WriteString("(")
			render(n.Kids[0], b, max)
			b.WriteString(")")
		}
	case KStruct, KMap:
		b.WriteString("{")
		for i, k := range n.Names {
			if i > 0 {
				b.WriteString(" ")
			}
			b.WriteString(k + ":")
			render(n.Kids[i], b, max)
		}
		b.WriteString("}")
	default:
		b.WriteString("[")
		for i, k := range n.Kids {
			if i > 0 {
				b.WriteString(" ")
			}
			render(k, b, max)
		}
		b.WriteString("]")
	}
}

// Hash is a structural hash (bookkeeping ignored).
func (n *Node) Hash() uint64 {
	h := fnv.New64a()
	n.hashInto(h)
	return h.Sum64()
}

type hw interface{ Write([]byte) (int, error) }

func (n *Node) hashInto(h hw) {
	if n == nil {
		h.Write([]byte{0xff})
		return
	}
	h.Write([]byte{byte(n.Kind), byte(len(n.Kids)), byte(len(n.Kids) >> 8)})
	h.Write([]byte(n.Leaf))
	h.Write([]byte{0})
	for _, s := range n.Names {
		h.Write([]byte(s))
		h.Write([]byte{0})
	}
	for _, k := range n.Kids {
		k.hashInto(h)
	}
}

// Walk visits every node with its index-carrying path (steps: field name, "#i", "@key").
func (n *Node) Walk(path []string, f func(path []string, n *Node) bool) {
	if n == nil || !f(path, n) {
		return
	}
	switch n.Kind {
	case KStruct:
		for i, k := range n.Names {
			n.Kids[i].Walk(append(path, k), f)
		}
	case KMap:
		for i, k := range n.Names {
			n.Kids[i].Walk(append(path, "@"+k), f)
		}
	case KValue:
		if len(n.Kids) == 1 {
			n.Kids[0].Walk(append(path, "$"), f)
		}
	case KSlice:
		for i := range n.Kids {
			n.Kids[i].Walk(append(path, "#"+strconv.Itoa(i)), f)
		}
	}
}

// At follows a path in a tree (nil if it does not exist).
func (n *Node) At(path []string) *Node {
	cur := n
	for _, s := range path {
		if cur == nil {
			return nil
		}
		switch {
		case s == "$":
			if cur.Kind != KValue || len(cur.Kids) != 1 {
				return nil
			}
			cur = cur.Kids[0]
		case strings.HasPrefix(s, "#"):
			i, err := strconv.Atoi(s[1:])
			if err != nil || i < 0 || i >= len(cur.Kids) {
				return nil
			}
			cur = cur.Kids[i]
		case strings.HasPrefix(s, "@"):
			cur = cur.Field(s[1:])
		default:
			cur = cur.Field(s)
		}
	}
	return cur
}

// Resolve follows a path on the implementation, using getters, At(i), Get(key) and the payload
// accessor of a Value ("$").
func (r *Registry) Resolve(root reflect.Value, path []string) (reflect.Value, error) {
	v := root
	for _, s := range path {
		ti := r.byType[v.Type()]
		if ti == nil {
			return v, fmt.Errorf("unknown type %s at %q", v.Type(), s)
		}
		switch {
		case s == "$":
			val, ok := v.Interface().(pcommon.Value)
			if !ok {
				return v, fmt.Errorf("$ on %s", v.Type())
			}
			switch val.Type() {
			case pcommon.ValueTypeMap:
				v = reflect.ValueOf(val.Map())
			case pcommon.ValueTypeSlice:
				v = reflect.ValueOf(val.Slice())
			case pcommon.ValueTypeBytes:
				v = reflect.ValueOf(val.Bytes())
			default:
				return v, fmt.Errorf("$ on value of type %s", val.Type())
			}
		case strings.HasPrefix(s, "#"):
			i, _ := strconv.Atoi(s[1:])
			ln := int(v.Method(ti.Methods["Len"]).Call(nil)[0].Int())
			if i >= ln {
				return v, fmt.Errorf("index %d out of range %d", i, ln)
			}
			v = v.Method(ti.Methods["At"]).Call([]reflect.Value{reflect.ValueOf(i)})[0]
		case strings.HasPrefix(s, "@"):
			m, ok := v.Interface().(pcommon.Map)
			if !ok {
				return v, fmt.Errorf("@ on %s", v.Type())
			}
			val, ok := m.Get(s[1:])
			if !ok {
				return v, fmt.Errorf("key %q absent", s[1:])
			}
			v = reflect.ValueOf(val)
		default:
			i, ok := ti.Methods[s]
			if !ok {
				return v, fmt.Errorf("no getter %s on %s", s, ti.Name)
			}
			v = v.Method(i).Call(nil)[0]
			if v.IsZero() {
				return v, fmt.Errorf("inactive alternative %s", s)
			}
		}
	}
	return v, nil
}

// GenericPath erases indices and keys from a path ("/ResourceLogs/#/ScopeLogs/#/Scope/Attributes/@").
func GenericPath(steps []string) string {
	var b strings.Builder
	for _, s := range steps {
		b.WriteByte('/')
		switch {
		case strings.HasPrefix(s, "#"):
			b.WriteByte('#')
		case strings.HasPrefix(s, "@"):
			b.WriteByte('@')
		default:
			b.WriteString(s)
		}
	}
	return b.String()
}

// Strings collects every string leaf, raw string and map key of a tree.
func (n *Node) Strings(f func(string)) {
	if n == nil {
		return
	}
	switch n.Kind {
	case KLeaf:
		if strings.HasPrefix(n.Leaf, "s:") {
			f(n.Leaf[2:])
		}
	case KRaw:
		f(n.Leaf)
	case KMap:
		for _, k := range n.Names {
			f(k)
		}
	}
	for _, k := range n.Kids {
		k.Strings(f)
	}
}

// Kids0Leaf returns the text of the single scalar payload of a node ("" if there is none).
func (n *Node) Kids0Leaf() string {
	if n == nil || len(n.Kids) != 1 || n.Kids[0].Kind != KLeaf {
		return ""
	}
	return n.Kids[0].Leaf
}
