// Package reflectpd is a reflective walker over the public pdata API (plog, ptrace, pmetric, pprofile,
// pcommon and the p*otlp wrappers).
//
// Everything below the constructors listed in roots.go is discovered with package reflect from the
// method sets: message structs (getters, setters, one-of selectors, optional fields), slices of
// messages, primitive slices, pcommon.Map / pcommon.Value and raw-string wrappers (TraceState). A field
// or a type that is added to pdata is therefore covered by Snapshot, Fill and the operation
// enumeration without editing the harness; a method whose shape fits no rule is listed by
// Registry.Unmodelled so that the evidence shows what the monitors do not understand.
package reflectpd

import (
	"fmt"
	"math/rand"
	"reflect"
	"sort"
	"strings"

	"go.opentelemetry.io/collector/pdata/pcommon"
)

const pdataPrefix = "go.opentelemetry.io/collector/pdata/"

// Kind is the shape of a pdata type (or of a snapshot node).
type Kind uint8

const (
	KLeaf   Kind = iota // scalar: string, number, bool, id array, enum, flags
	KStruct             // message struct (including the payload roots)
	KSlice              // slice of messages / of pcommon.Value
	KPrim               // primitive slice (ByteSlice, Float64Slice …)
	KMap                // pcommon.Map
	KValue              // pcommon.Value
	KRaw                // wrapper around one raw string (pcommon.TraceState)
)

func (k Kind) String() string {
	return [...]string{"leaf", "struct", "slice", "primslice", "map", "value", "raw"}[k]
}

// IsPdata tells whether t is a struct type defined in a pdata package.
func IsPdata(t reflect.Type) bool {
	return t.Kind() == reflect.Struct && strings.HasPrefix(t.PkgPath(), pdataPrefix)
}

var (
	mapT   = reflect.TypeOf(pcommon.Map{})
	valueT = reflect.TypeOf(pcommon.Value{})
	intT   = reflect.TypeOf(int(0))
)

// Field is one observable property of a message struct.
type Field struct {
	Name   string
	Get    int // method index of the getter
	Set    int // method index of Set<Name>(T), -1 if none
	Child  *TypeInfo
	Scalar reflect.Type // non-nil for scalar fields
	// optional scalar (Has<Name>/Remove<Name>)
	Has, Remove int
	// one-of membership
	OneOf    bool
	SetEmpty int    // method index of SetEmpty<Name>() for message alternatives, -1 otherwise
	Disc     string // canonical leaf text of the discriminator when this alternative is active
	// kind of field
	// Aliases: other scalar getters that read the same storage (Profile.Time / Profile.StartTime);
	// found by probing a fresh value.
	Aliases   []*Field
	IsDisc    bool // the discriminator getter itself (Type / ValueType)
	IsHasFlag bool // a Has<X> getter
	Derived   bool // scalar getter without setter (LogRecordCount …): called, never compared
}

// TypeInfo describes one pdata type.
type TypeInfo struct {
	T    reflect.Type
	Name string // e.g. "plog.LogRecord"
	Kind Kind

	Fields    []*Field // KStruct, sorted by name (derived getters included, flagged)
	DiscField *Field   // KStruct with a one-of
	EmptyDisc string   // discriminator leaf of a fresh value
	IsRoot    bool     // has MarkReadOnly

	Elem     *TypeInfo    // KSlice
	PtrSlice bool         // KSlice generated as slice of pointers (has Sort)
	ElemT    reflect.Type // KPrim

	Methods map[string]int

	recipe []string // how to reach a fresh value of this type from a constructor
	ctor   int
	empty  *Node
}

func (ti *TypeInfo) String() string { return ti.Name }

// Has tells whether the type has a method of that name.
func (ti *TypeInfo) Has(name string) bool { _, ok := ti.Methods[name]; return ok }

// FieldByName returns the field, nil if absent.
func (ti *TypeInfo) FieldByName(n string) *Field {
	for _, f := range ti.Fields {
		if f.Name == n {
			return f
		}
	}
	return nil
}

// Registry holds the discovered types.
type Registry struct {
	byType map[reflect.Type]*TypeInfo
	Types  []*TypeInfo // discovery order
	Ctors  []Ctor
	// Unmodelled lists methods whose shape fits no rule ("type.Method signature").
	Unmodelled []string
}

// Ctor is a public constructor of a free-standing value.
type Ctor struct {
	Name string
	New  func() any
}

// NewRegistry discovers all types reachable from the constructors.
func NewRegistry(ctors []Ctor) *Registry {
	r := &Registry{byType: map[reflect.Type]*TypeInfo{}, Ctors: ctors}
	type item struct {
		t      reflect.Type
		ctor   int
		recipe []string
	}
	var queue []item
	for i, c := range ctors {
		queue = append(queue, item{reflect.TypeOf(c.New()), i, nil})
	}
	for len(queue) > 0 {
		it := queue[0]
		queue = queue[1:]
		if _, ok := r.byType[it.t]; ok {
			continue
		}
		ti := r.describe(it.t)
		ti.ctor, ti.recipe = it.ctor, it.recipe
		r.Types = append(r.Types, ti)
		push := func(t reflect.Type, step string) {
			if _, ok := r.byType[t]; !ok {
				queue = append(queue, item{t, it.ctor, append(append([]string(nil), it.recipe...), step)})
			}
		}
		switch ti.Kind {
		case KStruct:
			for _, f := range ti.Fields {
				if f.Child == nil && f.Scalar != nil {
					continue
				}
				ct := ti.T.Method(f.Get).Type.Out(0)
				if f.SetEmpty >= 0 {
					push(ct, "SetEmpty"+f.Name)
				} else {
					push(ct, f.Name)
				}
			}
		case KSlice:
			push(ti.T.Method(ti.Methods["At"]).Type.Out(0), "AppendEmpty")
		case KValue:
			push(mapT, "SetEmptyMap")
			push(reflect.TypeOf(pcommon.Slice{}), "SetEmptySlice")
			push(reflect.TypeOf(pcommon.ByteSlice{}), "SetEmptyBytes")
		case KMap:
			push(valueT, "PutEmpty:k")
		}
	}
	// link children
	for _, ti := range r.Types {
		switch ti.Kind {
		case KStruct:
			for _, f := range ti.Fields {
				if f.Scalar == nil {
					f.Child = r.byType[ti.T.Method(f.Get).Type.Out(0)]
				}
			}
		case KSlice:
			ti.Elem = r.byType[ti.T.Method(ti.Methods["At"]).Type.Out(0)]
		}
	}
	// behavioural facts taken from fresh values only: discriminator codes of one-of alternatives
	for _, ti := range r.Types {
		if ti.Kind != KStruct || ti.DiscField == nil {
			continue
		}
		ti.EmptyDisc = LeafOf(r.Fresh(ti).Method(ti.DiscField.Get).Call(nil)[0])
		for _, f := range ti.Fields {
			if !f.OneOf {
				continue
			}
			v := r.Fresh(ti)
			if f.SetEmpty >= 0 {
				v.Method(f.SetEmpty).Call(nil)
			} else {
				v.Method(f.Set).Call([]reflect.Value{reflect.Zero(f.Scalar)})
			}
			f.Disc = LeafOf(v.Method(ti.DiscField.Get).Call(nil)[0])
		}
	}
	// accessor pairs that read the same storage: set one field of a fresh value, see which others move
	probe := &Filler{R: r, Rng: rand.New(rand.NewSource(7)), Ctr: 1000}
	for _, ti := range r.Types {
		if ti.Kind != KStruct {
			continue
		}
		for _, f := range ti.Fields {
			if f.Set < 0 || f.OneOf || f.Scalar == nil || f.Scalar.Kind() == reflect.Bool {
				continue
			}
			v := r.Fresh(ti)
			val := probe.Scalar(f.Scalar)
			if val.IsZero() {
				continue
			}
			v.Method(f.Set).Call([]reflect.Value{val})
			for _, g := range ti.Fields {
				if g == f || g.Scalar == nil || g.Derived || g.IsDisc || g.Name == "Has"+f.Name {
					continue
				}
				got := LeafOf(v.Method(g.Get).Call(nil)[0])
				if got == LeafOf(reflect.Zero(g.Scalar)) {
					continue
				}
				if got == LeafOf(val) {
					f.Aliases = append(f.Aliases, g)
				} else {
					r.Unmodelled = append(r.Unmodelled, fmt.Sprintf("%s.Set%s also changes %s (not modelled)", ti.Name, f.Name, g.Name))
				}
			}
		}
	}
	sort.Strings(r.Unmodelled)
	return r
}

// Info returns the description of a discovered type (nil if unknown).
func (r *Registry) Info(t reflect.Type) *TypeInfo { return r.byType[t] }

// InfoByName looks a type up by its short name ("plog.LogRecord").
func (r *Registry) InfoByName(n string) *TypeInfo {
	for _, ti := range r.Types {
		if ti.Name == n {
			return ti
		}
	}
	return nil
}

// Fresh returns a new, empty, mutable value of the type (inside a fresh enclosing value where the
// type has no public constructor).
func (r *Registry) Fresh(ti *TypeInfo) reflect.Value {
	v := reflect.ValueOf(r.Ctors[ti.ctor].New())
	for _, s := range ti.recipe {
		if strings.HasPrefix(s, "PutEmpty:") {
			v = v.MethodByName("PutEmpty").Call([]reflect.Value{reflect.ValueOf(s[len("PutEmpty:"):])})[0]
			continue
		}
		v = v.MethodByName(s).Call(nil)[0]
	}
	return v
}

// Empty returns (a private copy of) the snapshot of a fresh value of the type.
func (r *Registry) Empty(ti *TypeInfo) *Node {
	if ti.empty == nil {
		ti.empty = r.Snapshot(r.Fresh(ti))
	}
	return ti.empty.Clone()
}

var derivedOK = map[string]bool{}

func (r *Registry) describe(t reflect.Type) *TypeInfo {
	ti := &TypeInfo{T: t, Name: t.String(), Methods: map[string]int{}}
	r.byType[t] = ti
	for i := 0; i < t.NumMethod(); i++ {
		ti.Methods[t.Method(i).Name] = i
	}
	has := func(n string) (reflect.Method, bool) {
		i, ok := ti.Methods[n]
		if !ok {
			return reflect.Method{}, false
		}
		return t.Method(i), true
	}
	at, hasAt := has("At")
	_, hasAppendEmpty := has("AppendEmpty")
	app, hasAppend := has("Append")
	asRaw, hasAsRaw := has("AsRaw")
	switch {
	case t == mapT:
		ti.Kind = KMap
	case t == valueT:
		ti.Kind = KValue
	case hasAt && hasAppendEmpty && at.Type.NumIn() == 2 && IsPdata(at.Type.Out(0)):
		ti.Kind = KSlice
		_, ti.PtrSlice = has("Sort")
	case hasAt && hasAppend && app.Type.IsVariadic():
		ti.Kind = KPrim
		ti.ElemT = at.Type.Out(0)
	case hasAsRaw && asRaw.Type.NumOut() == 1 && asRaw.Type.Out(0).Kind() == reflect.String:
		ti.Kind = KRaw
	default:
		ti.Kind = KStruct
	}
	_, ti.IsRoot = has("MarkReadOnly")
	if ti.Kind != KStruct {
		r.checkShapes(ti)
		return ti
	}
	known := map[string]bool{"CopyTo": true, "MoveTo": true, "MarkReadOnly": true, "IsReadOnly": true}
	for i := 0; i < t.NumMethod(); i++ {
		m := t.Method(i)
		ft := m.Type
		if ft.NumIn() != 1 || ft.NumOut() != 1 {
			continue
		}
		n := m.Name
		if strings.HasPrefix(n, "Set") || strings.HasPrefix(n, "Remove") || strings.HasPrefix(n, "Move") ||
			strings.HasPrefix(n, "Append") || strings.HasPrefix(n, "Mark") || n == "All" || n == "IsReadOnly" {
			continue
		}
		f := &Field{Name: n, Get: i, Set: -1, Has: -1, Remove: -1, SetEmpty: -1}
		out := ft.Out(0)
		if IsPdata(out) {
			if sm, ok := has("Set" + n); ok && sm.Type.NumIn() == 2 && sm.Type.In(1) == out {
				// struct-typed scalar with a plain setter
				f.Scalar, f.Set = out, sm.Index
			} else if se, ok := has("SetEmpty" + n); ok && se.Type.NumIn() == 1 {
				f.OneOf, f.SetEmpty = true, se.Index
				known["SetEmpty"+n] = true
			}
		} else {
			f.Scalar = out
			if sm, ok := has("Set" + n); ok && sm.Type.NumIn() == 2 && sm.Type.In(1) == out {
				f.Set = sm.Index
				known["Set"+n] = true
			}
			hm, hok := has("Has" + n)
			rm, rok := has("Remove" + n)
			if hok && rok && hm.Type.NumIn() == 1 && rm.Type.NumIn() == 1 {
				f.Has, f.Remove = hm.Index, rm.Index
				known["Remove"+n] = true
			}
			switch {
			case n == "Type" || n == "ValueType":
				f.IsDisc = true
				ti.DiscField = f
			case strings.HasPrefix(n, "Has") && out.Kind() == reflect.Bool && f.Set < 0:
				f.IsHasFlag = true
			case f.Set < 0:
				f.Derived = true
			}
		}
		known[n] = true
		ti.Fields = append(ti.Fields, f)
	}
	// scalar one-of alternatives: Set<A>Value / <A>Value beside a ValueType discriminator
	if ti.DiscField != nil && ti.DiscField.Name == "ValueType" {
		for _, f := range ti.Fields {
			if f.Scalar != nil && f.Set >= 0 && strings.HasSuffix(f.Name, "Value") {
				f.OneOf = true
			}
		}
	}
	sort.Slice(ti.Fields, func(i, j int) bool { return ti.Fields[i].Name < ti.Fields[j].Name })
	for i := 0; i < t.NumMethod(); i++ {
		m := t.Method(i)
		if !known[m.Name] && !isCodecMethod(m.Name) {
			r.Unmodelled = append(r.Unmodelled, fmt.Sprintf("%s.%s %s", ti.Name, m.Name, m.Type))
		}
	}
	return ti
}

func isCodecMethod(n string) bool {
	switch n {
	case "MarshalProto", "UnmarshalProto", "MarshalJSON", "UnmarshalJSON":
		return true
	}
	return false
}

var containerMethods = map[Kind]map[string]bool{
	KSlice: {"All": true, "AppendEmpty": true, "At": true, "CopyTo": true, "EnsureCapacity": true, "Len": true, "MoveAndAppendTo": true,
		"RemoveIf": true, "Sort": true, "AsRaw": true, "FromRaw": true, "Equal": true},
	KPrim: {"All": true, "Append": true, "AsRaw": true, "At": true, "CopyTo": true, "EnsureCapacity": true, "Equal": true, "FromRaw": true,
		"Len": true, "MoveTo": true, "SetAt": true},
	KMap: {"All": true, "AsRaw": true, "Clear": true, "CopyTo": true, "EnsureCapacity": true, "Equal": true, "FromRaw": true, "Get": true,
		"Len": true, "MoveTo": true, "PutBool": true, "PutDouble": true, "PutEmpty": true, "PutEmptyBytes": true, "PutEmptyMap": true,
		"PutEmptySlice": true, "PutInt": true, "PutStr": true, "Range": true, "Remove": true, "RemoveIf": true},
	KValue: {"AsRaw": true, "AsString": true, "Bool": true, "Bytes": true, "CopyTo": true, "Double": true, "Equal": true, "FromRaw": true,
		"Int": true, "Map": true, "MoveTo": true, "SetBool": true, "SetDouble": true, "SetEmptyBytes": true, "SetEmptyMap": true,
		"SetEmptySlice": true, "SetInt": true, "SetStr": true, "Slice": true, "Str": true, "Type": true},
	KRaw: {"AsRaw": true, "FromRaw": true, "CopyTo": true, "MoveTo": true},
}

func (r *Registry) checkShapes(ti *TypeInfo) {
	for n, i := range ti.Methods {
		if !containerMethods[ti.Kind][n] {
			r.Unmodelled = append(r.Unmodelled, fmt.Sprintf("%s.%s %s", ti.Name, n, ti.T.Method(i).Type))
		}
	}
}
