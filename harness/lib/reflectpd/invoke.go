package reflectpd

import (
	"fmt"
	"reflect"
	"regexp"
	"runtime/debug"

	"go.opentelemetry.io/collector/pdata/pcommon"
)

// MethodClass is the name-based classification used by the read-only oracle of C07.
type MethodClass int

const (
	Reader  MethodClass = iota // must keep working on read-only data and change nothing
	Mutator                    // must panic on read-only data
	Neutral                    // MarkReadOnly, codec methods: not exercised generically
)

var mutatorRe = regexp.MustCompile(`^(Set|Put|Append|Remove|Ensure|Move)|^(Sort|FromRaw|Clear)$`)

// Classify classifies a method by its name. CopyTo is a Reader of its receiver (and a mutator of its
// argument, which the oracle exercises separately).
func Classify(name string) MethodClass {
	switch {
	case name == "MarkReadOnly" || isCodecMethod(name):
		return Neutral
	case mutatorRe.MatchString(name):
		return Mutator
	}
	return Reader
}

// ReadOnlyPanic is the message every mutator must panic with on read-only data.
const ReadOnlyPanic = "invalid access to shared data"

// Catch runs fn and recovers a panic; the stack is only rendered when the panic is not the read-only
// panic (which the read-only oracle provokes tens of thousands of times).
func Catch(fn func()) (pv any, stack string) {
	defer func() {
		if r := recover(); r != nil {
			pv = r
			if s, ok := r.(string); !ok || s != ReadOnlyPanic {
				stack = string(debug.Stack())
			}
		}
	}()
	fn()
	return nil, ""
}

// SynthArgs builds arguments for method mi of v so that the call is well-formed (valid index, existing
// key where one exists, a fresh mutable value of the receiver's type as the other operand). ok=false
// when the call cannot be made meaningfully (At on an empty slice) or an argument type is not understood.
func (r *Registry) SynthArgs(v reflect.Value, ti *TypeInfo, mi int, f *Filler) (args []reflect.Value, ok bool, why string) {
	m := ti.T.Method(mi)
	ft := m.Type
	length := -1
	if li, has := ti.Methods["Len"]; has {
		length = int(v.Method(li).Call(nil)[0].Int())
	}
	for i := 1; i < ft.NumIn(); i++ {
		at := ft.In(i)
		variadic := ft.IsVariadic() && i == ft.NumIn()-1
		if variadic {
			at = at.Elem()
		}
		var a reflect.Value
		switch {
		case at == ti.T:
			a = r.Fresh(ti)
		case at == intT:
			switch m.Name {
			case "At", "SetAt":
				if length <= 0 {
					return nil, false, "empty"
				}
				a = reflect.ValueOf(f.Rng.Intn(length))
			case "EnsureCapacity":
				a = reflect.ValueOf(length + 3)
			default:
				a = reflect.ValueOf(1)
			}
		case at.Kind() == reflect.String && ti.Kind == KMap:
			key := "ro-key"
			mp := v.Interface().(pcommon.Map)
			if mp.Len() > 0 {
				pick := f.Rng.Intn(mp.Len())
				j := 0
				mp.Range(func(k string, _ pcommon.Value) bool {
					if j == pick {
						key = k
						return false
					}
					j++
					return true
				})
			}
			a = reflect.ValueOf(key)
		case at.Kind() == reflect.Func:
			fn := at
			a = reflect.MakeFunc(fn, func([]reflect.Value) []reflect.Value {
				outs := make([]reflect.Value, fn.NumOut())
				for o := range outs {
					outs[o] = reflect.Zero(fn.Out(o))
					if fn.Out(o).Kind() == reflect.Bool {
						outs[o] = reflect.ValueOf(true)
					}
				}
				return outs
			})
		case at.Kind() == reflect.Interface:
			av := reflect.New(at).Elem() // any: every kind of raw value FromRaw understands, nil included
			if x := []any{nil, "raw", int64(3), 2.5, true, []byte{1}, map[string]any{"a": "b"}, []any{"x"}}[f.Rng.Intn(8)]; x != nil {
				av.Set(reflect.ValueOf(x))
			}
			a = av
		case at.Kind() == reflect.Map:
			a = reflect.ValueOf(map[string]any{"ro-raw": "x", "n": int64(1)})
			if a.Type() != at {
				return nil, false, "map type " + at.String()
			}
		case at.Kind() == reflect.Slice && at.Elem().Kind() == reflect.Interface:
			a = reflect.ValueOf([]any{"x", int64(2)})
		case at.Kind() == reflect.Slice:
			a = reflect.MakeSlice(at, 2, 2)
			a.Index(0).Set(f.Scalar(at.Elem()))
			a.Index(1).Set(f.Scalar(at.Elem()))
		case !IsPdata(at) && isScalarKind(at.Kind()):
			a = f.Scalar(at)
		default:
			return nil, false, "argument type " + at.String()
		}
		args = append(args, a)
	}
	return args, true, ""
}

func isScalarKind(k reflect.Kind) bool {
	switch k {
	case reflect.String, reflect.Bool, reflect.Int, reflect.Int32, reflect.Int64, reflect.Uint8, reflect.Uint32, reflect.Uint64, reflect.Float64, reflect.Array:
		return true
	}
	return false
}

// Drain consumes results that are lazy (iter.Seq / iter.Seq2 returned by All()) so that the getter
// code really runs.
func Drain(outs []reflect.Value) {
	for _, o := range outs {
		if o.Kind() != reflect.Func || o.IsNil() {
			continue
		}
		ft := o.Type()
		if ft.NumIn() != 1 || ft.In(0).Kind() != reflect.Func || ft.NumOut() != 0 {
			continue
		}
		yt := ft.In(0)
		y := reflect.MakeFunc(yt, func([]reflect.Value) []reflect.Value {
			outs := make([]reflect.Value, yt.NumOut())
			for i := range outs {
				outs[i] = reflect.ValueOf(true)
			}
			return outs
		})
		o.Call([]reflect.Value{y})
	}
}

// DescribeCall renders "Type.Method(args)" for witnesses.
func DescribeCall(ti *TypeInfo, name string, args []reflect.Value) string {
	s := ti.Name + "." + name + "("
	for i, a := range args {
		if i > 0 {
			s += ", "
		}
		switch {
		case a.Kind() == reflect.Func:
			s += "func"
		case IsPdata(a.Type()):
			s += "fresh " + a.Type().String()
		default:
			t := fmt.Sprintf("%v", a.Interface())
			if len(t) > 40 {
				t = t[:40] + "…"
			}
			s += t
		}
	}
	return s + ")"
}
