package reflectpd

import (
	"go.opentelemetry.io/collector/pdata/pcommon"
	"go.opentelemetry.io/collector/pdata/plog"
	"go.opentelemetry.io/collector/pdata/plog/plogotlp"
	"go.opentelemetry.io/collector/pdata/pmetric"
	"go.opentelemetry.io/collector/pdata/pmetric/pmetricotlp"
	"go.opentelemetry.io/collector/pdata/pprofile"
	"go.opentelemetry.io/collector/pdata/pprofile/pprofileotlp"
	"go.opentelemetry.io/collector/pdata/ptrace"
	"go.opentelemetry.io/collector/pdata/ptrace/ptraceotlp"
)

// SignalCtors are the four payload roots; everything below them is discovered reflectively.
var SignalCtors = []Ctor{
	{"plog.Logs", func() any { return plog.NewLogs() }},
	{"ptrace.Traces", func() any { return ptrace.NewTraces() }},
	{"pmetric.Metrics", func() any { return pmetric.NewMetrics() }},
	{"pprofile.Profiles", func() any { return pprofile.NewProfiles() }},
}

// CommonCtors are the public constructors of free-standing pcommon values.
var CommonCtors = []Ctor{
	{"pcommon.Map", func() any { return pcommon.NewMap() }},
	{"pcommon.Value", func() any { return pcommon.NewValueEmpty() }},
	{"pcommon.Slice", func() any { return pcommon.NewSlice() }},
	{"pcommon.ByteSlice", func() any { return pcommon.NewByteSlice() }},
	{"pcommon.Float64Slice", func() any { return pcommon.NewFloat64Slice() }},
	{"pcommon.UInt64Slice", func() any { return pcommon.NewUInt64Slice() }},
	{"pcommon.Int64Slice", func() any { return pcommon.NewInt64Slice() }},
	{"pcommon.Int32Slice", func() any { return pcommon.NewInt32Slice() }},
	{"pcommon.IntSlice", func() any { return pcommon.NewIntSlice() }},
	{"pcommon.StringSlice", func() any { return pcommon.NewStringSlice() }},
	{"pcommon.Resource", func() any { return pcommon.NewResource() }},
	{"pcommon.InstrumentationScope", func() any { return pcommon.NewInstrumentationScope() }},
	{"pcommon.TraceState", func() any { return pcommon.NewTraceState() }},
}

// OTLPCtors are the export request / response wrappers.
var OTLPCtors = []Ctor{
	{"plogotlp.ExportRequest", func() any { return plogotlp.NewExportRequest() }},
	{"plogotlp.ExportResponse", func() any { return plogotlp.NewExportResponse() }},
	{"ptraceotlp.ExportRequest", func() any { return ptraceotlp.NewExportRequest() }},
	{"ptraceotlp.ExportResponse", func() any { return ptraceotlp.NewExportResponse() }},
	{"pmetricotlp.ExportRequest", func() any { return pmetricotlp.NewExportRequest() }},
	{"pmetricotlp.ExportResponse", func() any { return pmetricotlp.NewExportResponse() }},
	{"pprofileotlp.ExportRequest", func() any { return pprofileotlp.NewExportRequest() }},
	{"pprofileotlp.ExportResponse", func() any { return pprofileotlp.NewExportResponse() }},
}

// DataCtors = signals + pcommon (the scope of C07).
func DataCtors() []Ctor { return append(append([]Ctor(nil), SignalCtors...), CommonCtors...) }

// AllCtors = signals + pcommon + OTLP wrappers (the scope of C08).
func AllCtors() []Ctor { return append(DataCtors(), OTLPCtors...) }
