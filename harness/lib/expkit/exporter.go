package expkit

import (
	"context"
	"fmt"
	"time"

	"go.uber.org/zap"
	"go.uber.org/zap/zapcore"

	"go.opentelemetry.io/collector/component"
	"go.opentelemetry.io/collector/config/configretry"
	"go.opentelemetry.io/collector/consumer"
	"go.opentelemetry.io/collector/exporter"
	"go.opentelemetry.io/collector/exporter/exporterhelper"
	"go.opentelemetry.io/collector/pdata/plog"
	"go.opentelemetry.io/collector/pdata/pmetric"
	"go.opentelemetry.io/collector/pdata/ptrace"
)

// Batch modes.
const (
	BatchNone          = "none"
	BatchItems         = "qb-items"       // sending_queue.batch, items sizer
	BatchBytes         = "qb-bytes"       // sending_queue.batch, bytes sizer
	BatchLegacy        = "legacy"         // WithBatcher next to WithQueue
	BatchLegacyNoQueue = "legacy-noqueue" // WithBatcher alone (implies a blocking wait_for_result queue)
)

// ExpConfig is one point of the exporter configuration cross product.
type ExpConfig struct {
	Sig            Signal `json:"-"`
	Signal         string `json:"signal"`
	Persistent     bool   `json:"persistent"`
	Batch          string `json:"batch"`
	Sizer          string `json:"sizer"` // queue sizer: requests | items | bytes
	QueueSize      int64  `json:"queue_size"`
	Consumers      int    `json:"consumers"`
	MinSize        int64  `json:"min_size,omitempty"`
	MaxSize        int64  `json:"max_size,omitempty"`
	FlushMS        int64  `json:"flush_ms,omitempty"` // batch flush timeout in ms
	Retry          bool   `json:"retry"`
	RetryInitMS    int64  `json:"retry_init_ms,omitempty"`
	RetryMaxMS     int64  `json:"retry_max_ms,omitempty"`
	RetryElapsedMS int64  `json:"retry_elapsed_ms,omitempty"` // 0: never give up
	NoTimeout      bool   `json:"no_timeout,omitempty"`
	TimeoutMS      int    `json:"timeout_ms,omitempty"` // per-attempt timeout (timeout::timeout) in ms; 0 keeps the default (5 s)
	// WaitForResult: sending_queue.wait_for_result (memory queue only): ConsumeX returns the export result.
	WaitForResult bool `json:"wait_for_result,omitempty"`
	// QueueDisabled: no sending queue and no batcher at all: ConsumeX is synchronous (obsreport, retry, timeout,
	// export function on the caller's goroutine).
	QueueDisabled bool `json:"queue_disabled,omitempty"`
	// Unvalidated: the queue configuration is handed to WithQueue without the collector's config validation, as a
	// component that builds its configuration in code can do (used for a persistent queue that is not
	// request-sized, which writes its size to the storage during Shutdown).
	Unvalidated bool `json:"unvalidated,omitempty"`
	// BlockOnOverflow: sending_queue.block_on_overflow: a producer waits for space instead of being refused.
	BlockOnOverflow bool `json:"block_on_overflow,omitempty"`
	Mutates         bool `json:"mutates,omitempty"`
}

// Batched tells whether requests are re-partitioned on the way to the export function.
func (c ExpConfig) Batched() bool { return c.Batch != BatchNone && c.Batch != "" }

// WaitsForResult tells whether ConsumeX only returns when the export attempt chain has finished.
func (c ExpConfig) WaitsForResult() bool {
	return c.Batch == BatchLegacyNoQueue || c.WaitForResult || c.QueueDisabled
}

// EffectiveConsumers is the number of export calls that can be in flight at once.
func (c ExpConfig) EffectiveConsumers() int {
	if c.QueueDisabled {
		return 1 << 20 // as many as there are callers
	}
	if c.Batched() {
		return 1 // the helper forces one consumer and one flush worker when batching
	}
	return c.Consumers
}

// QueueKind names the queue for signatures.
func (c ExpConfig) QueueKind() string {
	if c.QueueDisabled {
		return "none"
	}
	if c.Persistent {
		return "persistent"
	}
	return "memory"
}

// Class is the low-cardinality configuration class.
func (c ExpConfig) Class() string {
	q := c.QueueKind()
	if c.WaitForResult {
		q += "+wait_for_result"
	}
	if c.BlockOnOverflow {
		q += "+block_on_overflow"
	}
	return fmt.Sprintf("%s/%s/batch=%s/retry=%v/consumers=%d", c.Signal, q, c.Batch, c.Retry, c.Consumers)
}

// Options translates the configuration into exporter helper options. It returns an error when the
// queue configuration is one the collector's own validation rejects.
func (c ExpConfig) Options() ([]exporterhelper.Option, error) {
	var opts []exporterhelper.Option
	if c.Batch != BatchLegacyNoQueue && !c.QueueDisabled {
		q := exporterhelper.NewDefaultQueueConfig()
		q.NumConsumers = c.Consumers
		q.QueueSize = c.QueueSize
		q.WaitForResult = c.WaitForResult
		q.BlockOnOverflow = c.BlockOnOverflow
		switch c.Sizer {
		case "items":
			q.Sizer = exporterhelper.RequestSizerTypeItems
		case "bytes":
			q.Sizer = exporterhelper.RequestSizerTypeBytes
		default:
			q.Sizer = exporterhelper.RequestSizerTypeRequests
		}
		if c.Persistent {
			id := StorageID
			q.StorageID = &id
		}
		if c.Batch == BatchItems || c.Batch == BatchBytes {
			q.Batch = &exporterhelper.BatchConfig{FlushTimeout: time.Duration(c.FlushMS) * time.Millisecond, MinSize: c.MinSize, MaxSize: c.MaxSize}
			if err := q.Batch.Validate(); err != nil {
				return nil, err
			}
		}
		if err := q.Validate(); err != nil && !c.Unvalidated {
			return nil, err
		}
		opts = append(opts, exporterhelper.WithQueue(q))
	}
	if c.Batch == BatchLegacy || c.Batch == BatchLegacyNoQueue {
		b := exporterhelper.NewDefaultBatcherConfig()
		b.FlushTimeout = time.Duration(c.FlushMS) * time.Millisecond
		b.MinSize, b.MaxSize = c.MinSize, c.MaxSize
		if err := b.Validate(); err != nil {
			return nil, err
		}
		opts = append(opts, exporterhelper.WithBatcher(b))
	}
	if c.Retry {
		r := configretry.NewDefaultBackOffConfig()
		r.InitialInterval = time.Duration(c.RetryInitMS) * time.Millisecond
		r.MaxInterval = time.Duration(c.RetryMaxMS) * time.Millisecond
		r.MaxElapsedTime = time.Duration(c.RetryElapsedMS) * time.Millisecond
		r.RandomizationFactor = 0
		if err := r.Validate(); err != nil {
			return nil, err
		}
		opts = append(opts, exporterhelper.WithRetry(r))
	}
	if c.NoTimeout {
		opts = append(opts, exporterhelper.WithTimeout(exporterhelper.TimeoutConfig{}))
	} else if c.TimeoutMS > 0 {
		opts = append(opts, exporterhelper.WithTimeout(exporterhelper.TimeoutConfig{Timeout: time.Duration(c.TimeoutMS) * time.Millisecond}))
	}
	if c.Mutates {
		opts = append(opts, exporterhelper.WithCapabilities(consumer.Capabilities{MutatesData: true}))
	}
	return opts, nil
}

// PushFunc is the signal-independent export function.
type PushFunc func(ctx context.Context, p Payload) error

// Exporter is a public exporter-helper exporter of one signal behind a signal-independent face.
type Exporter struct {
	Sig  Signal
	comp component.Component
	l    consumer.Logs
	t    consumer.Traces
	m    consumer.Metrics
}

// NewExporter builds exporterhelper.New{Logs,Traces,Metrics}.
func NewExporter(sig Signal, set exporter.Settings, push PushFunc, opts ...exporterhelper.Option) (*Exporter, error) {
	e := &Exporter{Sig: sig}
	ctx := context.Background()
	switch sig {
	case Logs:
		x, err := exporterhelper.NewLogs(ctx, set, struct{}{}, func(ctx context.Context, ld plog.Logs) error { return push(ctx, FromLogs(ld)) }, opts...)
		if err != nil {
			return nil, err
		}
		e.comp, e.l = x, x
	case Traces:
		x, err := exporterhelper.NewTraces(ctx, set, struct{}{}, func(ctx context.Context, td ptrace.Traces) error { return push(ctx, FromTraces(td)) }, opts...)
		if err != nil {
			return nil, err
		}
		e.comp, e.t = x, x
	default:
		x, err := exporterhelper.NewMetrics(ctx, set, struct{}{}, func(ctx context.Context, md pmetric.Metrics) error { return push(ctx, FromMetrics(md)) }, opts...)
		if err != nil {
			return nil, err
		}
		e.comp, e.m = x, x
	}
	return e, nil
}

func (e *Exporter) Start(ctx context.Context, h component.Host) error { return e.comp.Start(ctx, h) }
func (e *Exporter) Shutdown(ctx context.Context) error                { return e.comp.Shutdown(ctx) }

// Consume hands a payload to the exporter's ConsumeX.
func (e *Exporter) Consume(ctx context.Context, p Payload) error {
	switch e.Sig {
	case Logs:
		return e.l.ConsumeLogs(ctx, p.L)
	case Traces:
		return e.t.ConsumeTraces(ctx, p.T)
	default:
		return e.m.ConsumeMetrics(ctx, p.M)
	}
}

// RetryLogHook returns a logger that reports every "Will retry the request after interval" line of the
// retry sender (logged immediately before it starts waiting) to fn and discards everything else.
func RetryLogHook(fn func()) *zap.Logger {
	return zap.New(hookCore{fn: fn})
}

type hookCore struct{ fn func() }

func (hookCore) Enabled(l zapcore.Level) bool        { return l >= zapcore.InfoLevel }
func (h hookCore) With([]zapcore.Field) zapcore.Core { return h }
func (hookCore) Sync() error                         { return nil }
func (h hookCore) Check(e zapcore.Entry, ce *zapcore.CheckedEntry) *zapcore.CheckedEntry {
	if e.Level == zapcore.InfoLevel && e.Message == "Exporting failed. Will retry the request after interval." {
		return ce.AddCore(e, h)
	}
	return ce
}
func (h hookCore) Write(zapcore.Entry, []zapcore.Field) error { h.fn(); return nil }
