package expkit

import (
	"context"
	"sort"
	"strings"

	"go.opentelemetry.io/otel/attribute"
	"go.opentelemetry.io/otel/sdk/metric/metricdata"

	"go.opentelemetry.io/collector/component/componenttest"
)

// Tel wraps componenttest.NewTelemetry: a meter provider with a manual reader, i.e. what a user's
// metrics endpoint would show.
type Tel struct{ *componenttest.Telemetry }

func NewTel() Tel { return Tel{componenttest.NewTelemetry()} }

// Point is one data point of an int64 instrument.
type Point struct {
	Attrs string // sorted k=v,k=v
	Value int64
}

// Snapshot is one collection of the reader: instrument name -> data points.
type Snapshot map[string][]Point

func attrString(set attribute.Set) string {
	var parts []string
	for _, kv := range set.ToSlice() {
		parts = append(parts, string(kv.Key)+"="+kv.Value.Emit())
	}
	sort.Strings(parts)
	return strings.Join(parts, ",")
}

// Collect reads every int64 sum and gauge.
func (t Tel) Collect() (Snapshot, error) {
	var rm metricdata.ResourceMetrics
	if err := t.Reader.Collect(context.Background(), &rm); err != nil {
		return nil, err
	}
	out := Snapshot{}
	for _, sm := range rm.ScopeMetrics {
		for _, m := range sm.Metrics {
			switch d := m.Data.(type) {
			case metricdata.Sum[int64]:
				for _, p := range d.DataPoints {
					out[m.Name] = append(out[m.Name], Point{attrString(p.Attributes), p.Value})
				}
			case metricdata.Gauge[int64]:
				for _, p := range d.DataPoints {
					out[m.Name] = append(out[m.Name], Point{attrString(p.Attributes), p.Value})
				}
			}
		}
	}
	return out, nil
}

// Sum adds the values of all data points of an instrument (0 when it was never recorded).
func (s Snapshot) Sum(name string) int64 {
	var n int64
	for _, p := range s[name] {
		n += p.Value
	}
	return n
}

// SumWhere adds the values of the data points whose attribute string contains every given k=v.
func (s Snapshot) SumWhere(name string, kvs ...string) int64 {
	var n int64
next:
	for _, p := range s[name] {
		for _, kv := range kvs {
			if !strings.Contains(","+p.Attrs+",", ","+kv+",") {
				continue next
			}
		}
		n += p.Value
	}
	return n
}

// NonZero lists "name{attrs}=value" for every non-zero data point whose name has the prefix.
func (s Snapshot) NonZero(prefix string) []string {
	var out []string
	for name, pts := range s {
		if !strings.HasPrefix(name, prefix) {
			continue
		}
		for _, p := range pts {
			if p.Value != 0 {
				out = append(out, name+"{"+p.Attrs+"}="+itoa(p.Value))
			}
		}
	}
	sort.Strings(out)
	return out
}

func itoa(n int64) string {
	if n == 0 {
		return "0"
	}
	neg := n < 0
	if neg {
		n = -n
	}
	var b [20]byte
	i := len(b)
	for n > 0 {
		i--
		b[i] = byte('0' + n%10)
		n /= 10
	}
	if neg {
		i--
		b[i] = '-'
	}
	return string(b[i:])
}

// Gauge reads one int64 gauge (first data point); ok=false when the instrument is not reported.
func (t Tel) Gauge(name string) (int64, bool) {
	m, err := t.GetMetric(name)
	if err != nil {
		return 0, false
	}
	switch d := m.Data.(type) {
	case metricdata.Gauge[int64]:
		if len(d.DataPoints) > 0 {
			return d.DataPoints[0].Value, true
		}
	case metricdata.Sum[int64]:
		if len(d.DataPoints) > 0 {
			return d.DataPoints[0].Value, true
		}
	}
	return 0, false
}

// Close shuts the providers down.
func (t Tel) Close() { _ = t.Shutdown(context.Background()) }
