package expkit

import (
	"context"
	"runtime"
	"strconv"
	"strings"
)

// Where a producer is about to block on its context.
const (
	WaitSpace  = "space"  // inside the queue's wait for space (block_on_overflow): the request is not in the queue
	WaitResult = "result" // waiting for the result of a request the queue has accepted (wait_for_result)
)

// HookCtx is a context whose Done() reports that the caller is about to block on it (same device as
// cmd/c02's hookCtx). The queue evaluates ctx.Done() right after releasing its lock inside the space
// wait, and when a wait_for_result producer starts waiting for its outcome. Done() is also evaluated by
// code that merely derives a context from it (e.g. the timeout sender on a consumer goroutine):
// OnBlock is therefore only called for evaluations on the goroutine Owner names.
type HookCtx struct {
	context.Context
	Owner   int64 // goroutine id of the producer
	OnBlock func(where string)
}

func (h HookCtx) Done() <-chan struct{} {
	if h.OnBlock != nil && CurGID() == h.Owner {
		var pcs [32]uintptr
		n := runtime.Callers(2, pcs[:])
		fr := runtime.CallersFrames(pcs[:n])
		where := ""
		for {
			f, more := fr.Next()
			// the first frame outside package context and the harness is the code that evaluates Done()
			if !strings.HasPrefix(f.Function, "context.") && !strings.Contains(f.Function, "/verifharness/") {
				if strings.HasPrefix(f.Function, repoPrefix) {
					switch {
					case strings.HasSuffix(f.Function, ".Wait"):
						where = WaitSpace
					case strings.HasSuffix(f.Function, ".Offer"):
						where = WaitResult
					}
				}
				break
			}
			if !more {
				break
			}
		}
		if where != "" {
			h.OnBlock(where)
		}
	}
	return h.Context.Done()
}

// CurGID returns the id of the calling goroutine.
func CurGID() int64 {
	var buf [64]byte
	n := runtime.Stack(buf[:], false)
	s := strings.TrimPrefix(string(buf[:n]), "goroutine ")
	if i := strings.IndexByte(s, ' '); i > 0 {
		id, _ := strconv.ParseInt(s[:i], 10, 64)
		return id
	}
	return -1
}
