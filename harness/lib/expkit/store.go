// Package expkit is the private kit of the checks C03 and C19: an in-memory storage extension and
// host, payloads with unique item identities for the three signals, a scripted/gated export backend
// with one atomic event sequence, telemetry-reader helpers and a goroutine-set differ.
package expkit

import (
	"context"
	"errors"
	"sort"
	"strconv"
	"sync"

	"go.opentelemetry.io/collector/component"
	"go.opentelemetry.io/collector/extension/xextension/storage"
)

// StorageID is the component id under which Host exposes the storage extension.
var StorageID = component.MustNewID("c0319store")

// Store is an in-memory storage.Client. Every call is one atomic operation. After Close every
// operation fails (as a file-backed client does).
type Store struct {
	mu     sync.Mutex
	live   map[string][]byte
	ops    int64
	closed bool
	// closes counts Close calls, afterClose operations attempted on a closed client.
	closes, afterClose int64
	// Hook, when set, is called before an operation is applied, outside the store's own lock, in the
	// goroutine of the caller (for the persistent queue: with the queue mutex held). kind is
	// get|set|delete|batch; keys are the keys touched by set/delete operations.
	Hook func(kind string, writes []string)

	// injected faults (armed at a chosen moment, e.g. right before Shutdown is requested)
	failGetClient error
	failClose  error
	failWrite  error
	failWriteP func(key string) bool
	// failedCloses / failedWrites count the injected failures that were actually returned
	failedCloses, failedWrites int64
}

// FailClose makes every later Close return err (the client still counts as closed afterwards).
func (s *Store) FailClose(err error) { s.mu.Lock(); s.failClose = err; s.mu.Unlock() }

// FailGetClient makes the storage extension refuse to hand out a client (the queue's Start fails).
func (s *Store) FailGetClient(err error) { s.mu.Lock(); s.failGetClient = err; s.mu.Unlock() }

// FailWrites makes every later Set/Delete/Batch that writes a key for which match returns true fail with
// err and change nothing (match == nil: every write).
func (s *Store) FailWrites(match func(key string) bool, err error) {
	s.mu.Lock()
	s.failWrite, s.failWriteP = err, match
	s.mu.Unlock()
}

// Faults returns how many injected Close / write failures were returned to the caller.
func (s *Store) Faults() (closes, writes int64) {
	s.mu.Lock()
	defer s.mu.Unlock()
	return s.failedCloses, s.failedWrites
}

// writeFault must be called with s.mu held.
func (s *Store) writeFault(keys ...string) error {
	if s.failWrite == nil {
		return nil
	}
	for _, k := range keys {
		if s.failWriteP == nil || s.failWriteP(k) {
			s.failedWrites++
			return s.failWrite
		}
	}
	return nil
}

// NewStore returns a store holding a copy of image (nil = empty).
func NewStore(image map[string][]byte) *Store {
	return &Store{live: CopyImage(image)}
}

// CopyImage deep-copies a storage image.
func CopyImage(m map[string][]byte) map[string][]byte {
	o := make(map[string][]byte, len(m))
	for k, v := range m {
		o[k] = append([]byte(nil), v...)
	}
	return o
}

var errClosed = errors.New("storage client is closed")

func (s *Store) pre(kind string, writes []string) {
	if h := s.Hook; h != nil {
		h(kind, writes)
	}
}

func (s *Store) Get(_ context.Context, k string) ([]byte, error) {
	s.pre("get", nil)
	s.mu.Lock()
	defer s.mu.Unlock()
	if s.closed {
		s.afterClose++
		return nil, errClosed
	}
	s.ops++
	return s.live[k], nil
}

func (s *Store) Set(_ context.Context, k string, v []byte) error {
	s.pre("set", []string{k})
	s.mu.Lock()
	defer s.mu.Unlock()
	if s.closed {
		s.afterClose++
		return errClosed
	}
	if err := s.writeFault(k); err != nil {
		return err
	}
	s.ops++
	s.live[k] = append([]byte(nil), v...)
	return nil
}

func (s *Store) Delete(_ context.Context, k string) error {
	s.pre("delete", []string{k})
	s.mu.Lock()
	defer s.mu.Unlock()
	if s.closed {
		s.afterClose++
		return errClosed
	}
	if err := s.writeFault(k); err != nil {
		return err
	}
	s.ops++
	delete(s.live, k)
	return nil
}

func (s *Store) Batch(_ context.Context, ops ...*storage.Operation) error {
	var writes []string
	if s.Hook != nil {
		for _, op := range ops {
			if op.Type != storage.Get {
				writes = append(writes, op.Key)
			}
		}
	}
	s.pre("batch", writes)
	s.mu.Lock()
	defer s.mu.Unlock()
	if s.closed {
		s.afterClose++
		return errClosed
	}
	for _, op := range ops {
		if op.Type != storage.Get {
			if err := s.writeFault(op.Key); err != nil {
				return err
			}
		}
	}
	s.ops++
	for _, op := range ops {
		switch op.Type {
		case storage.Get:
			op.Value = s.live[op.Key]
		case storage.Set:
			s.live[op.Key] = append([]byte(nil), op.Value...)
		case storage.Delete:
			delete(s.live, op.Key)
		}
	}
	return nil
}

func (s *Store) Close(context.Context) error {
	s.mu.Lock()
	defer s.mu.Unlock()
	s.closed = true
	s.closes++
	if s.failClose != nil {
		s.failedCloses++
		return s.failClose
	}
	return nil
}

// Image returns a copy of the durable content.
func (s *Store) Image() map[string][]byte {
	s.mu.Lock()
	defer s.mu.Unlock()
	return CopyImage(s.live)
}

// Stats returns (operations applied, Close calls, operations attempted after Close).
func (s *Store) Stats() (ops, closes, afterClose int64) {
	s.mu.Lock()
	defer s.mu.Unlock()
	return s.ops, s.closes, s.afterClose
}

// ImageInfo describes a persistent-queue storage image by its keys.
type ImageInfo struct {
	HasRI, HasWI bool
	RI, WI       uint64
	Dispatched   []uint64
	Bodies       []string // keys of stored request bodies, sorted numerically
}

// DescribeImage decodes the index keys of a persistent-queue image.
func DescribeImage(m map[string][]byte) ImageInfo {
	var in ImageInfo
	for k, v := range m {
		switch k {
		case "ri":
			in.HasRI, in.RI = true, le64(v)
		case "wi":
			in.HasWI, in.WI = true, le64(v)
		case "di":
			if len(v) >= 4 {
				n := int(v[0]) | int(v[1])<<8 | int(v[2])<<16 | int(v[3])<<24
				for i := 0; i < n && 4+8*i+8 <= len(v); i++ {
					in.Dispatched = append(in.Dispatched, le64(v[4+8*i:]))
				}
			}
		case "si":
		default:
			if _, err := strconv.ParseUint(k, 10, 64); err == nil {
				in.Bodies = append(in.Bodies, k)
			}
		}
	}
	sort.Slice(in.Bodies, func(i, j int) bool {
		a, _ := strconv.ParseUint(in.Bodies[i], 10, 64)
		b, _ := strconv.ParseUint(in.Bodies[j], 10, 64)
		return a < b
	})
	return in
}

// Class is the low-cardinality shape of an image, used in violation signatures.
func (in ImageInfo) Class() string {
	switch {
	case len(in.Bodies) == 0:
		return "no-bodies"
	case !in.HasRI && in.HasWI:
		return "ri-missing"
	case !in.HasRI:
		return "ri-wi-missing"
	default:
		return "ri-present"
	}
}

func le64(b []byte) uint64 {
	var x uint64
	for i := 0; i < 8 && i < len(b); i++ {
		x |= uint64(b[i]) << (8 * i)
	}
	return x
}

type storageExt struct {
	component.StartFunc
	component.ShutdownFunc
	s *Store
}

func (e *storageExt) GetClient(context.Context, component.Kind, component.ID, string) (storage.Client, error) {
	e.s.mu.Lock()
	err := e.s.failGetClient
	e.s.mu.Unlock()
	if err != nil {
		return nil, err
	}
	return e.s, nil
}

// Host is a component.Host exposing one storage extension (StorageID) backed by a Store.
type Host struct{ ext *storageExt }

// NewHost returns a host whose storage extension hands out s.
func NewHost(s *Store) Host { return Host{&storageExt{s: s}} }

func (h Host) GetExtensions() map[component.ID]component.Component {
	return map[component.ID]component.Component{StorageID: h.ext}
}
