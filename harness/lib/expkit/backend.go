package expkit

import (
	"context"
	"runtime"
	"sync"
	"sync/atomic"
	"time"
)

// Event kinds of the one atomic sequence shared by producers, the export function and the driver.
const (
	EvEnqCall  = "enq-call"
	EvEnqRet   = "enq-ret"
	EvExpBegin = "exp-begin"
	EvExpEnd   = "exp-end"
	EvShutCall = "shut-call"
	EvShutRet  = "shut-ret"
	EvRetryLog = "retry-wait" // the retry sender logged "Will retry the request after interval"
	EvGate     = "gate-enter"
)

// Event is one entry of the log. Seq is assigned under the log's mutex, so the sequence is a total
// order that agrees with real time for events that did not overlap.
type Event struct {
	Seq     int64  `json:"seq"`
	Kind    string `json:"kind"`
	Actor   int    `json:"actor"`             // producer index, or attempt number for export events
	Req     int    `json:"req,omitempty"`     // request index of the producer
	Outcome string `json:"outcome,omitempty"` // enq-ret: "" or error class; exp-end: outcome kind
	N       int    `json:"n,omitempty"`       // number of items
}

// Log is the event sequence plus a condition variable on which the driver waits for logical
// conditions (counts of events), never for time to pass.
type Log struct {
	mu     sync.Mutex
	cond   *sync.Cond
	seq    int64
	evs    []Event
	counts map[string]int
	abort  bool
	prog   atomic.Int64
}

func NewLog() *Log {
	l := &Log{counts: map[string]int{}}
	l.cond = sync.NewCond(&l.mu)
	return l
}

// Add appends an event and returns its sequence number.
func (l *Log) Add(e Event) int64 {
	l.mu.Lock()
	l.seq++
	e.Seq = l.seq
	l.evs = append(l.evs, e)
	l.counts[e.Kind]++
	l.cond.Broadcast()
	l.mu.Unlock()
	l.prog.Add(1)
	return e.Seq
}

// Progress is the logical progress counter for driver.Guard.
func (l *Log) Progress() int64 { return l.prog.Load() }

// Count returns how many events of a kind were logged.
func (l *Log) Count(kind string) int {
	l.mu.Lock()
	defer l.mu.Unlock()
	return l.counts[kind]
}

// Events returns a copy of the log.
func (l *Log) Events() []Event {
	l.mu.Lock()
	defer l.mu.Unlock()
	return append([]Event(nil), l.evs...)
}

// WaitCount blocks until at least n events of the kind were logged, until pred (evaluated under the
// log's lock with the counts) says the condition can no longer be reached, or until Abort. The cap is
// workload steering only: when it expires the driver simply goes on; no verdict depends on it.
func (l *Log) WaitCount(kind string, n int, giveUp func(counts map[string]int) bool, cap time.Duration) bool {
	deadline := time.Now().Add(cap)
	stop := make(chan struct{})
	defer close(stop)
	go func() { // wake the waiter when the steering cap expires
		t := time.NewTimer(cap)
		defer t.Stop()
		select {
		case <-t.C:
			l.mu.Lock()
			l.cond.Broadcast()
			l.mu.Unlock()
		case <-stop:
		}
	}()
	l.mu.Lock()
	defer l.mu.Unlock()
	for l.counts[kind] < n {
		if l.abort || (giveUp != nil && giveUp(l.counts)) || !time.Now().Before(deadline) {
			return false
		}
		l.cond.Wait()
	}
	return true
}

// WaitFor blocks until pred (evaluated whenever an event was logged; it must take its own locks) holds,
// until Abort, or until the steering cap expires. It reports whether pred held.
func (l *Log) WaitFor(pred func() bool, cap time.Duration) bool {
	deadline := time.Now().Add(cap)
	stop := make(chan struct{})
	defer close(stop)
	go func() {
		t := time.NewTimer(cap)
		defer t.Stop()
		select {
		case <-t.C:
			l.mu.Lock()
			l.cond.Broadcast()
			l.mu.Unlock()
		case <-stop:
		}
	}()
	l.mu.Lock()
	defer l.mu.Unlock()
	for {
		seq := l.seq
		l.mu.Unlock()
		ok := pred()
		l.mu.Lock()
		if ok {
			return true
		}
		if l.abort || !time.Now().Before(deadline) {
			return false
		}
		if l.seq != seq {
			continue // something was logged while pred was evaluated
		}
		l.cond.Wait()
	}
}

// Abort releases every waiter (used when a case is abandoned as stuck).
func (l *Log) Abort() {
	l.mu.Lock()
	l.abort = true
	l.cond.Broadcast()
	l.mu.Unlock()
}

// Gate holds export calls "in flight" until the driver lets them pass.
type Gate struct {
	mu      sync.Mutex
	cond    *sync.Cond
	open    bool
	tickets int
	entered int
	waiting int
}

func NewGate(open bool) *Gate {
	g := &Gate{open: open}
	g.cond = sync.NewCond(&g.mu)
	return g
}

// pass blocks until the gate is open or a ticket is available. It reports whether it had to wait.
func (g *Gate) pass() bool {
	g.mu.Lock()
	defer g.mu.Unlock()
	g.entered++
	waited := false
	for !g.open && g.tickets == 0 {
		waited = true
		g.waiting++
		g.cond.Wait()
		g.waiting--
	}
	if !g.open {
		g.tickets--
	}
	return waited
}

// Open lets every current and future call pass.
func (g *Gate) Open() { g.mu.Lock(); g.open = true; g.cond.Broadcast(); g.mu.Unlock() }

// Release lets n held (or future) calls pass.
func (g *Gate) Release(n int) { g.mu.Lock(); g.tickets += n; g.cond.Broadcast(); g.mu.Unlock() }

// Waiting is the number of calls currently held.
func (g *Gate) Waiting() int { g.mu.Lock(); defer g.mu.Unlock(); return g.waiting }

// Attempt is one call of the export function as the backend saw it.
type Attempt struct {
	No       int      `json:"no"`
	Begin    int64    `json:"begin"`
	End      int64    `json:"end"` // 0 while the call has not returned
	IDs      []string `json:"ids"`
	Outcome  string   `json:"outcome"`
	FailedID []string `json:"failed_ids,omitempty"` // Partial: the remainder
	Gated    bool     `json:"gated,omitempty"`
}

// Backend is the scripted export function. Script must be a pure function of its arguments (it is
// called concurrently); prior[i] is the number of earlier attempts that contained ids[i].
type Backend struct {
	Log    *Log
	Gate   *Gate // nil: never hold a call
	Script func(attempt int, ids []string, prior []int) (kind string, failed func(id string) bool)
	// Consume makes the pusher empty its input after a successful send (exporters that take ownership).
	Consume bool
	// Yield makes a call yield the processor this many times between begin and end (schedule diversity).
	Yield func(attempt int) int

	inflight atomic.Int64
	closed   atomic.Bool
	late     atomic.Int64
	no       atomic.Int64

	mu       sync.Mutex
	attempts []*Attempt
	seen     map[string]int
}

// Push is the export function handed to the exporter helper.
func (b *Backend) Push(_ context.Context, p Payload) error {
	b.inflight.Add(1)
	defer b.inflight.Add(-1)
	if b.closed.Load() {
		b.late.Add(1)
	}
	no := int(b.no.Add(1))
	ids := p.IDs()
	a := &Attempt{No: no, IDs: ids}
	b.mu.Lock()
	if b.seen == nil {
		b.seen = map[string]int{}
	}
	prior := make([]int, len(ids))
	for i, id := range ids {
		prior[i] = b.seen[id]
		b.seen[id]++
	}
	b.attempts = append(b.attempts, a)
	// the begin event is logged while the attempt is registered, so that the two agree
	a.Begin = b.Log.Add(Event{Kind: EvExpBegin, Actor: no, N: len(ids)})
	b.mu.Unlock()
	if b.Gate != nil {
		b.Log.Add(Event{Kind: EvGate, Actor: no})
		if b.Gate.pass() {
			b.mu.Lock()
			a.Gated = true
			b.mu.Unlock()
		}
	}
	if b.Yield != nil {
		for i := b.Yield(no); i > 0; i-- {
			runtime.Gosched()
		}
	}
	kind, failed := OK, func(string) bool { return false }
	if b.Script != nil {
		kind, failed = b.Script(no, ids, prior)
	}
	err := ErrorFor(kind, p, failed)
	b.mu.Lock()
	a.Outcome = kind
	if kind == Partial {
		for _, id := range ids {
			if failed(id) {
				a.FailedID = append(a.FailedID, id)
			}
		}
	}
	a.End = b.Log.Add(Event{Kind: EvExpEnd, Actor: no, Outcome: kind, N: len(ids)})
	b.mu.Unlock()
	if b.Consume && kind == OK {
		// only after a success: a pusher that failed must leave its input intact for the resend
		p.Clear()
	}
	return err
}

// Inflight is the number of export calls that have begun and not returned.
func (b *Backend) Inflight() int64 { return b.inflight.Load() }

// Close marks the case as finished; any later call is counted by Late.
func (b *Backend) Close() { b.closed.Store(true) }

// Late is the number of export calls that began after Close.
func (b *Backend) Late() int64 { return b.late.Load() }

// Attempts returns a copy of the attempts recorded so far.
func (b *Backend) Attempts() []Attempt {
	b.mu.Lock()
	defer b.mu.Unlock()
	out := make([]Attempt, len(b.attempts))
	for i, a := range b.attempts {
		out[i] = *a
	}
	return out
}

// Chain is the sequence of attempts the retry logic made for one request (or batch) as it left the
// queue: the first attempt and the resends of its failed remainder.
type Chain struct {
	Orig     int      // items of the first attempt (what the exporter's obsreport counted for the request)
	IDs      []string // ids of the first attempt
	Attempts int
	State    string // ok | permanent | open (last attempt failed transiently / partially) | inflight
}

func idKeyOf(ids []string) string {
	s := append([]string(nil), ids...)
	sortStrings(s)
	k := ""
	for _, x := range s {
		k += x + "\x00"
	}
	return k
}

func sortStrings(s []string) {
	for i := 1; i < len(s); i++ {
		for j := i; j > 0 && s[j] < s[j-1]; j-- {
			s[j], s[j-1] = s[j-1], s[j]
		}
	}
}

// Chains groups attempts (ordered by begin) into retry chains: an attempt continues a chain when its
// id set equals the failed remainder of the chain's previous attempt.
func Chains(atts []Attempt) []*Chain {
	pending := map[string]*Chain{}
	var out []*Chain
	for _, a := range atts {
		k := idKeyOf(a.IDs)
		ch := pending[k]
		if ch != nil {
			delete(pending, k)
		} else {
			ch = &Chain{Orig: len(a.IDs), IDs: a.IDs}
			out = append(out, ch)
		}
		ch.Attempts++
		switch {
		case a.End == 0:
			ch.State = "inflight"
		case a.Outcome == OK:
			ch.State = "ok"
		case a.Outcome == Permanent:
			ch.State = "permanent"
		case a.Outcome == Partial:
			ch.State = "open"
			pending[idKeyOf(a.FailedID)] = ch
		default:
			ch.State = "open"
			pending[k] = ch
		}
	}
	return out
}
