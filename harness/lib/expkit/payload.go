package expkit

import (
	"errors"

	"go.opentelemetry.io/collector/consumer/consumererror"
	"go.opentelemetry.io/collector/pdata/pcommon"
	"go.opentelemetry.io/collector/pdata/plog"
	"go.opentelemetry.io/collector/pdata/pmetric"
	"go.opentelemetry.io/collector/pdata/ptrace"
)

// Signal is one of the three signals the exporter/receiver/processor helpers count.
type Signal int

const (
	Logs Signal = iota
	Traces
	Metrics
)

var Signals = []Signal{Logs, Traces, Metrics}

func (s Signal) String() string { return [...]string{"logs", "traces", "metrics"}[s] }

// ItemNoun is the suffix of the signal's self-telemetry counters.
func (s Signal) ItemNoun() string { return [...]string{"log_records", "spans", "metric_points"}[s] }

const idKey = "id"

// Payload is a pdata value of one signal whose every item carries a unique id.
type Payload struct {
	Sig Signal
	L   plog.Logs
	T   ptrace.Traces
	M   pmetric.Metrics
}

// Make builds a payload with one item per id. Ids are spread over one or two resources and scopes so
// that merging and splitting cross container boundaries.
func Make(sig Signal, ids []string) Payload {
	p := Payload{Sig: sig}
	cut := len(ids)
	if len(ids) >= 3 {
		cut = (len(ids) + 1) / 2
	}
	parts := [][]string{ids[:cut], ids[cut:]}
	switch sig {
	case Logs:
		p.L = plog.NewLogs()
		for pi, part := range parts {
			if len(part) == 0 {
				continue
			}
			rl := p.L.ResourceLogs().AppendEmpty()
			rl.Resource().Attributes().PutInt("r", int64(pi))
			sl := rl.ScopeLogs().AppendEmpty()
			sl.Scope().SetName("s")
			for _, id := range part {
				lr := sl.LogRecords().AppendEmpty()
				lr.Attributes().PutStr(idKey, id)
				lr.Body().SetStr("b")
			}
		}
	case Traces:
		p.T = ptrace.NewTraces()
		for pi, part := range parts {
			if len(part) == 0 {
				continue
			}
			rs := p.T.ResourceSpans().AppendEmpty()
			rs.Resource().Attributes().PutInt("r", int64(pi))
			ss := rs.ScopeSpans().AppendEmpty()
			ss.Scope().SetName("s")
			for _, id := range part {
				sp := ss.Spans().AppendEmpty()
				sp.SetName("n")
				sp.Attributes().PutStr(idKey, id)
			}
		}
	case Metrics:
		p.M = pmetric.NewMetrics()
		for pi, part := range parts {
			if len(part) == 0 {
				continue
			}
			rm := p.M.ResourceMetrics().AppendEmpty()
			rm.Resource().Attributes().PutInt("r", int64(pi))
			sm := rm.ScopeMetrics().AppendEmpty()
			sm.Scope().SetName("s")
			// one gauge and (when there are enough points) one sum, so that data points of one
			// metric are split across batches as well as whole metrics
			var dps [2]pmetric.NumberDataPointSlice
			g := sm.Metrics().AppendEmpty()
			g.SetName("g")
			dps[0] = g.SetEmptyGauge().DataPoints()
			dps[1] = dps[0]
			if len(part) >= 2 {
				s := sm.Metrics().AppendEmpty()
				s.SetName("c")
				sum := s.SetEmptySum()
				sum.SetIsMonotonic(true)
				sum.SetAggregationTemporality(pmetric.AggregationTemporalityCumulative)
				dps[1] = sum.DataPoints()
			}
			for i, id := range part {
				dp := dps[i%2].AppendEmpty()
				dp.SetIntValue(1)
				dp.Attributes().PutStr(idKey, id)
			}
		}
	}
	return p
}

// FromLogs etc. wrap values received from the code under test.
func FromLogs(ld plog.Logs) Payload          { return Payload{Sig: Logs, L: ld} }
func FromTraces(td ptrace.Traces) Payload    { return Payload{Sig: Traces, T: td} }
func FromMetrics(md pmetric.Metrics) Payload { return Payload{Sig: Metrics, M: md} }

func idOf(m pcommon.Map) string {
	if v, ok := m.Get(idKey); ok {
		return v.Str()
	}
	return "?"
}

// eachDP visits the attribute map of every data point of a metric of any type.
func eachDP(m pmetric.Metric, fn func(pcommon.Map)) {
	switch m.Type() {
	case pmetric.MetricTypeGauge:
		for i := 0; i < m.Gauge().DataPoints().Len(); i++ {
			fn(m.Gauge().DataPoints().At(i).Attributes())
		}
	case pmetric.MetricTypeSum:
		for i := 0; i < m.Sum().DataPoints().Len(); i++ {
			fn(m.Sum().DataPoints().At(i).Attributes())
		}
	case pmetric.MetricTypeHistogram:
		for i := 0; i < m.Histogram().DataPoints().Len(); i++ {
			fn(m.Histogram().DataPoints().At(i).Attributes())
		}
	case pmetric.MetricTypeExponentialHistogram:
		for i := 0; i < m.ExponentialHistogram().DataPoints().Len(); i++ {
			fn(m.ExponentialHistogram().DataPoints().At(i).Attributes())
		}
	case pmetric.MetricTypeSummary:
		for i := 0; i < m.Summary().DataPoints().Len(); i++ {
			fn(m.Summary().DataPoints().At(i).Attributes())
		}
	}
}

// IDs lists the item ids in container order.
func (p Payload) IDs() []string {
	var out []string
	switch p.Sig {
	case Logs:
		for i := 0; i < p.L.ResourceLogs().Len(); i++ {
			rl := p.L.ResourceLogs().At(i)
			for j := 0; j < rl.ScopeLogs().Len(); j++ {
				lrs := rl.ScopeLogs().At(j).LogRecords()
				for k := 0; k < lrs.Len(); k++ {
					out = append(out, idOf(lrs.At(k).Attributes()))
				}
			}
		}
	case Traces:
		for i := 0; i < p.T.ResourceSpans().Len(); i++ {
			rs := p.T.ResourceSpans().At(i)
			for j := 0; j < rs.ScopeSpans().Len(); j++ {
				sps := rs.ScopeSpans().At(j).Spans()
				for k := 0; k < sps.Len(); k++ {
					out = append(out, idOf(sps.At(k).Attributes()))
				}
			}
		}
	case Metrics:
		for i := 0; i < p.M.ResourceMetrics().Len(); i++ {
			rm := p.M.ResourceMetrics().At(i)
			for j := 0; j < rm.ScopeMetrics().Len(); j++ {
				ms := rm.ScopeMetrics().At(j).Metrics()
				for k := 0; k < ms.Len(); k++ {
					eachDP(ms.At(k), func(m pcommon.Map) { out = append(out, idOf(m)) })
				}
			}
		}
	}
	return out
}

// Items is the item count the helpers use for this signal (records, spans, data points).
func (p Payload) Items() int {
	switch p.Sig {
	case Logs:
		return p.L.LogRecordCount()
	case Traces:
		return p.T.SpanCount()
	default:
		return p.M.DataPointCount()
	}
}

// Bytes is the protobuf size (what the bytes sizer measures).
func (p Payload) Bytes() int {
	switch p.Sig {
	case Logs:
		return (&plog.ProtoMarshaler{}).LogsSize(p.L)
	case Traces:
		return (&ptrace.ProtoMarshaler{}).TracesSize(p.T)
	default:
		return (&pmetric.ProtoMarshaler{}).MetricsSize(p.M)
	}
}

// Only returns a new payload holding copies of the items whose id satisfies keep.
func (p Payload) Only(keep func(id string) bool) Payload {
	var ids []string
	for _, id := range p.IDs() {
		if keep(id) {
			ids = append(ids, id)
		}
	}
	return Make(p.Sig, ids)
}

// Clear removes every item from the payload in place (a pusher that consumes its input).
func (p Payload) Clear() {
	switch p.Sig {
	case Logs:
		p.L.ResourceLogs().RemoveIf(func(plog.ResourceLogs) bool { return true })
	case Traces:
		p.T.ResourceSpans().RemoveIf(func(ptrace.ResourceSpans) bool { return true })
	case Metrics:
		p.M.ResourceMetrics().RemoveIf(func(pmetric.ResourceMetrics) bool { return true })
	}
}

// Decode unmarshals a stored request body of the given signal (the helpers store OTLP protobuf).
func Decode(sig Signal, b []byte) (Payload, error) {
	switch sig {
	case Logs:
		ld, err := (&plog.ProtoUnmarshaler{}).UnmarshalLogs(b)
		return Payload{Sig: sig, L: ld}, err
	case Traces:
		td, err := (&ptrace.ProtoUnmarshaler{}).UnmarshalTraces(b)
		return Payload{Sig: sig, T: td}, err
	default:
		md, err := (&pmetric.ProtoUnmarshaler{}).UnmarshalMetrics(b)
		return Payload{Sig: sig, M: md}, err
	}
}

// Outcome kinds of one export attempt.
const (
	OK        = "ok"
	Transient = "transient"
	Permanent = "permanent"
	Partial   = "partial" // transient for the items in the remainder, delivered for the others
)

// ErrorFor builds the error a pusher returns for an outcome; for Partial, failed names the items of
// the remainder that the retry logic must resend.
func ErrorFor(kind string, p Payload, failed func(id string) bool) error {
	switch kind {
	case OK:
		return nil
	case Permanent:
		return consumererror.NewPermanent(errors.New("permanent failure (scripted)"))
	case Partial:
		rem := p.Only(failed)
		e := errors.New("partial failure (scripted)")
		switch p.Sig {
		case Logs:
			return consumererror.NewLogs(e, rem.L)
		case Traces:
			return consumererror.NewTraces(e, rem.T)
		default:
			return consumererror.NewMetrics(e, rem.M)
		}
	default:
		return errors.New("transient failure (scripted)")
	}
}

// RemoveItems removes, in place, the items whose running index satisfies drop.
func (p Payload) RemoveItems(drop func(i int) bool) {
	i := -1
	next := func() bool { i++; return drop(i) }
	switch p.Sig {
	case Logs:
		for a := 0; a < p.L.ResourceLogs().Len(); a++ {
			rl := p.L.ResourceLogs().At(a)
			for b := 0; b < rl.ScopeLogs().Len(); b++ {
				rl.ScopeLogs().At(b).LogRecords().RemoveIf(func(plog.LogRecord) bool { return next() })
			}
		}
	case Traces:
		for a := 0; a < p.T.ResourceSpans().Len(); a++ {
			rs := p.T.ResourceSpans().At(a)
			for b := 0; b < rs.ScopeSpans().Len(); b++ {
				rs.ScopeSpans().At(b).Spans().RemoveIf(func(ptrace.Span) bool { return next() })
			}
		}
	case Metrics:
		for a := 0; a < p.M.ResourceMetrics().Len(); a++ {
			rm := p.M.ResourceMetrics().At(a)
			for b := 0; b < rm.ScopeMetrics().Len(); b++ {
				ms := rm.ScopeMetrics().At(b).Metrics()
				for k := 0; k < ms.Len(); k++ {
					switch ms.At(k).Type() {
					case pmetric.MetricTypeGauge:
						ms.At(k).Gauge().DataPoints().RemoveIf(func(pmetric.NumberDataPoint) bool { return next() })
					case pmetric.MetricTypeSum:
						ms.At(k).Sum().DataPoints().RemoveIf(func(pmetric.NumberDataPoint) bool { return next() })
					}
				}
			}
		}
	}
}

// AppendItems adds new items (one per id) in a new resource container, in place.
func (p Payload) AppendItems(ids []string) {
	add := Make(p.Sig, ids)
	switch p.Sig {
	case Logs:
		add.L.ResourceLogs().MoveAndAppendTo(p.L.ResourceLogs())
	case Traces:
		add.T.ResourceSpans().MoveAndAppendTo(p.T.ResourceSpans())
	case Metrics:
		add.M.ResourceMetrics().MoveAndAppendTo(p.M.ResourceMetrics())
	}
}
