package expkit

import (
	"context"
	"runtime"
	"sync"
	"time"

	"go.opentelemetry.io/collector/component"
	"go.opentelemetry.io/collector/exporter/exporterhelper"
	"go.opentelemetry.io/collector/exporter/exportertest"
)

// ExporterType is the component type all harness exporters use (the storage client is not keyed by it).
var ExporterType = component.MustNewType("c0319exp")

// QueueSizeGauge / QueueCapacityGauge are the exporter's queue gauges as a user sees them.
const (
	QueueSizeGauge     = "otelcol_exporter_queue_size"
	QueueCapacityGauge = "otelcol_exporter_queue_capacity"
)

// DrainResult is what a fresh incarnation delivered from a storage image.
type DrainResult struct {
	Delivered map[string]int // item id -> times handed to the export function
	Requests  int            // export calls
	Polls     int            // gauge reads until the queue reported empty
	Err       string         // set when the incarnation could not be built/started
}

// Drain starts a new exporter (persistent queue, no batching, no retry, always-succeeding backend) on
// a copy of the image, waits until its queue-size gauge reads 0 — every stored request has then been
// dequeued — and shuts it down, which waits for the hand-offs in progress. No silence timeout is
// involved. progress is bumped on every delivery (not on polls) so that a caller's watchdog can tell
// a drain that is stuck from one that is slow.
func Drain(sig Signal, image map[string][]byte, progress func()) DrainResult {
	res := DrainResult{Delivered: map[string]int{}}
	var mu sync.Mutex
	tel := NewTel()
	defer tel.Close()
	set := exportertest.NewNopSettings(ExporterType)
	set.TelemetrySettings = tel.NewTelemetrySettings()
	q := exporterhelper.NewDefaultQueueConfig()
	id := StorageID
	q.StorageID = &id
	q.NumConsumers = 2
	q.QueueSize = 1 << 20
	exp, err := NewExporter(sig, set, func(_ context.Context, p Payload) error {
		mu.Lock()
		for _, x := range p.IDs() {
			res.Delivered[x]++
		}
		res.Requests++
		mu.Unlock()
		progress()
		return nil
	}, exporterhelper.WithQueue(q))
	if err != nil {
		res.Err = err.Error()
		return res
	}
	if err := exp.Start(context.Background(), NewHost(NewStore(image))); err != nil {
		res.Err = err.Error()
		return res
	}
	for {
		v, ok := tel.Gauge(QueueSizeGauge)
		res.Polls++
		if !ok || v == 0 {
			break
		}
		if res.Polls < 50 {
			runtime.Gosched()
		} else {
			time.Sleep(100 * time.Microsecond)
		}
	}
	_ = exp.Shutdown(context.Background())
	return res
}

// StoredIDs decodes the request bodies of an image: what is physically still stored.
func StoredIDs(sig Signal, image map[string][]byte) (map[string]int, int) {
	out := map[string]int{}
	bad := 0
	for _, k := range DescribeImage(image).Bodies {
		p, err := Decode(sig, image[k])
		if err != nil {
			bad++
			continue
		}
		for _, id := range p.IDs() {
			out[id]++
		}
	}
	return out, bad
}
