package expkit

import (
	"regexp"
	"runtime"
	"sort"
	"strconv"
	"strings"
	"time"
)

// G is one goroutine of a dump.
type G struct {
	ID        int64
	State     string // wait reason, minutes stripped
	Top       string // innermost frame (function)
	TopRepo   string // innermost frame inside go.opentelemetry.io/collector, outside the harness
	CreatedBy string // creator function ("" for main)
	Stack     string
}

var (
	gHead    = regexp.MustCompile(`^goroutine (\d+) \[([^\]]*)\]:`)
	minutes  = regexp.MustCompile(`, \d+ minutes`)
	typeArgs = regexp.MustCompile(`\[\.\.\.\]`)
)

const repoPrefix = "go.opentelemetry.io/collector/"

func isRepoFn(fn string) bool {
	return strings.HasPrefix(fn, repoPrefix) && !strings.Contains(fn, "/verifharness/")
}

func fnOf(line string) string {
	line = strings.TrimSpace(line)
	if i := strings.LastIndex(line, "("); i > 0 {
		line = line[:i]
	}
	return typeArgs.ReplaceAllString(line, "")
}

// Dump parses runtime.Stack(all).
func Dump() map[int64]G {
	buf := make([]byte, 1<<20)
	for {
		n := runtime.Stack(buf, true)
		if n < len(buf) {
			buf = buf[:n]
			break
		}
		buf = make([]byte, 2*len(buf))
	}
	return ParseDump(string(buf))
}

// BlockedRepoFrames lists, sorted and de-duplicated, "function [wait reason]" of the innermost
// repository frame of every goroutine of a dump text that has one.
func BlockedRepoFrames(dump string) []string {
	set := map[string]struct{}{}
	for _, g := range ParseDump(dump) {
		if g.TopRepo != "" {
			f := g.TopRepo
			if i := strings.LastIndex(f, "/"); i >= 0 {
				f = f[i+1:]
			}
			set[f+" ["+g.State+"]"] = struct{}{}
		}
	}
	out := make([]string, 0, len(set))
	for k := range set {
		out = append(out, k)
	}
	sort.Strings(out)
	return out
}

// ParseDump parses the text of a goroutine dump.
func ParseDump(text string) map[int64]G {
	out := map[int64]G{}
	for _, blk := range strings.Split(text, "\n\n") {
		lines := strings.Split(blk, "\n")
		m := gHead.FindStringSubmatch(lines[0])
		if m == nil {
			continue
		}
		id, _ := strconv.ParseInt(m[1], 10, 64)
		g := G{ID: id, State: minutes.ReplaceAllString(m[2], ""), Stack: blk}
		for _, l := range lines[1:] {
			if strings.HasPrefix(l, "\t") {
				continue
			}
			if strings.HasPrefix(l, "created by ") {
				c := strings.TrimPrefix(l, "created by ")
				if i := strings.Index(c, " in goroutine"); i > 0 {
					c = c[:i]
				}
				g.CreatedBy = typeArgs.ReplaceAllString(c, "")
				continue
			}
			fn := fnOf(l)
			if g.Top == "" {
				g.Top = fn
			}
			if g.TopRepo == "" && isRepoFn(fn) {
				g.TopRepo = strings.TrimPrefix(fn, repoPrefix)
			}
		}
		out[id] = g
	}
	return out
}

// Helper tells whether a goroutine was started by repository (non-harness) code.
func (g G) Helper() bool { return isRepoFn(g.CreatedBy) }

// HelperGoroutines returns the ids of goroutines started by repository code.
func HelperGoroutines() map[int64]G {
	out := map[int64]G{}
	for id, g := range Dump() {
		if g.Helper() {
			out[id] = g
		}
	}
	return out
}

// Leaked returns the helper goroutines that exist now, did not exist in before, and are parked: a
// goroutine that is merely on its way out (it already released the WaitGroup its owner waited on) is
// given the chance to finish — the dump is repeated until the set is empty or a goroutine has been
// seen in the same blocking frame `stable` times in a row. Time is only used to pace the retries.
func Leaked(before map[int64]G, stable int) []G {
	seen := map[int64]int{}
	last := map[int64]string{}
	for try := 0; ; try++ {
		now := HelperGoroutines()
		var cand []G
		for id, g := range now {
			if _, ok := before[id]; ok {
				continue
			}
			key := g.State + "|" + g.Top + "|" + g.TopRepo
			if last[id] == key && g.State != "running" && g.State != "runnable" {
				seen[id]++
			} else {
				seen[id] = 0
			}
			last[id] = key
			cand = append(cand, g)
		}
		if len(cand) == 0 {
			return nil
		}
		done := true
		for _, g := range cand {
			if seen[g.ID] < stable {
				done = false
			}
		}
		if done || try > 4000 {
			sort.Slice(cand, func(i, j int) bool { return cand[i].ID < cand[j].ID })
			return cand
		}
		if try < 20 {
			runtime.Gosched()
		} else {
			time.Sleep(200 * time.Microsecond)
		}
	}
}

// ConsumersIdle reports whether exactly n queue-consumer goroutines (created by the async queue's
// Start) exist among those not in `before` and all of them are parked in the queue's Read, and no
// batch-flush goroutine is alive. It is a steering device for "a partial batch has formed": the
// single consumer has moved everything that was queued into the batcher.
func ConsumersIdle(before map[int64]G, n int) bool {
	idle := 0
	for id, g := range Dump() {
		if _, ok := before[id]; ok || !g.Helper() {
			continue
		}
		switch {
		case strings.Contains(g.CreatedBy, "asyncQueue") && strings.Contains(g.CreatedBy, ".Start"):
			if !(strings.Contains(g.Stack, ").Read(") && (strings.HasPrefix(g.State, "sync.Cond.Wait") || strings.HasPrefix(g.State, "semacquire"))) {
				return false
			}
			idle++
		case strings.Contains(g.CreatedBy, ".flush"):
			return false
		}
	}
	return idle == n
}

// ParkedIn reports whether goroutine gid exists, is not running or runnable, and its innermost repository
// frame contains frame ("" = any repository frame). It returns the goroutine for messages.
func ParkedIn(d map[int64]G, gid int64, frame string) (G, bool) {
	g, ok := d[gid]
	if !ok || g.TopRepo == "" || g.State == "running" || g.State == "runnable" || strings.HasPrefix(g.State, "syscall") {
		return g, false
	}
	return g, strings.Contains(g.TopRepo, frame)
}
