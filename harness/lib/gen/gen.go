// Package gen builds telemetry payloads from a PRNG such that every observation can be traced back
// to the write it came from: every leaf item (log record, span, metric data point, profile sample)
// carries a unique id "<owner>.<seq>" in the attribute canon.IDAttr, every resource, scope, metric
// and profile carries a distinctive identity, and the identity fields that batching code has to carry
// along (schema URLs, metric name/unit/description/metadata/temporality/monotonic) are set to
// non-default values most of the time and left at their defaults sometimes.
//
// Shapes: 0..MaxResources resources x 0..MaxScopes scopes x 0..MaxItems items; metrics: all five
// types (plus, rarely, the empty type) x 0..MaxPoints data points; empty containers at every level,
// duplicate resources (two entries with an identical Resource), nested attribute values and,
// optionally, single items that are larger than any size limit.
package gen

import (
	"fmt"
	"math/rand"
	"strings"

	"go.opentelemetry.io/collector/pdata/pcommon"
	"go.opentelemetry.io/collector/pdata/plog"
	"go.opentelemetry.io/collector/pdata/pmetric"
	"go.opentelemetry.io/collector/pdata/pprofile"
	"go.opentelemetry.io/collector/pdata/ptrace"
	"go.opentelemetry.io/collector/verifharness/lib/canon"
)

// Config bounds the shapes. The zero value is replaced by Default().
type Config struct {
	MaxResources int // inclusive upper bounds
	MaxScopes    int
	MaxItems     int // log records / spans / metrics / profiles per scope
	MaxPoints    int // data points per metric, samples per profile
	MinItems     int // lower bound for items per scope (0 allows empty scopes)
	// Oversize is the probability that a payload contains one item of OversizeBytes[0..1] bytes.
	Oversize      float64
	OversizeBytes [2]int
	// Lean leaves out the decorative fields (events, links, exemplars, nested attributes): small items.
	Lean bool
	// OneSample gives every profile exactly one sample.
	OneSample bool
	// NonEmpty forces at least one resource, scope and item (and data point) at every level.
	NonEmpty bool
}

// Default is the shape space of DESIGN section 3.
func Default() Config {
	return Config{MaxResources: 4, MaxScopes: 4, MaxItems: 6, MaxPoints: 5, OversizeBytes: [2]int{600, 3000}}
}

// G generates payloads whose leaf ids start with Owner.
type G struct {
	R     *rand.Rand
	Owner string
	C     Config
	seq   int
	over  bool // the oversize item of the current payload is still to be placed
}

// New returns a generator. owner must not be empty; it becomes the prefix of every leaf id.
func New(r *rand.Rand, owner string, c Config) *G {
	if c.MaxResources == 0 && c.MaxScopes == 0 && c.MaxItems == 0 {
		d := Default()
		d.Oversize, d.Lean, d.OneSample, d.NonEmpty = c.Oversize, c.Lean, c.OneSample, c.NonEmpty
		if c.OversizeBytes[1] > 0 {
			d.OversizeBytes = c.OversizeBytes
		}
		c = d
	}
	return &G{R: r, Owner: owner, C: c}
}

// Leaves returns the number of leaf ids handed out so far.
func (g *G) Leaves() int { return g.seq }

func (g *G) id() string {
	g.seq++
	return fmt.Sprintf("%s.%d", g.Owner, g.seq)
}

func (g *G) n(min, max int) int {
	if g.C.NonEmpty && min < 1 {
		min = 1
	}
	if max < min {
		max = min
	}
	return min + g.R.Intn(max-min+1)
}

func (g *G) coin(p float64) bool { return g.R.Float64() < p }

const letters = "abcdefghijklmnopqrstuvwxyz0123456789"

func (g *G) word(n int) string {
	b := make([]byte, n)
	for i := range b {
		b[i] = letters[g.R.Intn(len(letters))]
	}
	return string(b)
}

func (g *G) value(v pcommon.Value, depth int) {
	k := g.R.Intn(9)
	if g.C.Lean && k >= 5 {
		k = g.R.Intn(4)
	}
	switch {
	case k == 0:
		v.SetStr(g.word(1 + g.R.Intn(12)))
	case k == 1:
		v.SetInt(g.R.Int63n(1<<40) - 1<<20)
	case k == 2:
		v.SetDouble(float64(g.R.Intn(100000)) / 8)
	case k == 3:
		v.SetBool(g.R.Intn(2) == 0)
	case k == 4:
		v.SetEmptyBytes().FromRaw([]byte(g.word(1 + g.R.Intn(6))))
	case k == 5 && depth < 2:
		g.attrs(v.SetEmptyMap(), depth+1, 2)
	case k == 6 && depth < 2:
		s := v.SetEmptySlice()
		for i, n := 0, g.R.Intn(3); i < n; i++ {
			g.value(s.AppendEmpty(), depth+1)
		}
	case k == 7:
		// empty value
	default:
		v.SetStr("")
	}
}

func (g *G) attrs(m pcommon.Map, depth, max int) {
	for i, n := 0, g.R.Intn(max+1); i < n; i++ {
		g.value(m.PutEmpty(fmt.Sprintf("k%d%s", i, g.word(2))), depth)
	}
}

func (g *G) ts() pcommon.Timestamp {
	return pcommon.Timestamp(1_700_000_000_000_000_000 + g.R.Int63n(1<<40))
}

func (g *G) traceID() pcommon.TraceID {
	var t pcommon.TraceID
	g.structuredID(t[:])
	return t
}

func (g *G) spanID() pcommon.SpanID {
	var t pcommon.SpanID
	g.structuredID(t[:])
	return t
}

// structuredID fills an id. Encoders skip ids they consider empty, so about a third of the ids are the
// shapes an emptiness test written word by word gets wrong: first half zero (a 64-bit id padded to 128
// bits), second half zero, a single non-zero byte at a random position, all 0xff; the rest are random.
// The all-zero ("absent") id is never produced here: callers decide themselves whether an id is set.
func (g *G) structuredID(b []byte) {
	g.R.Read(b)
	switch k := g.R.Intn(12); k {
	case 0:
		for i := 0; i < len(b)/2; i++ {
			b[i] = 0
		}
		b[len(b)-1] |= 1
	case 1:
		for i := len(b) / 2; i < len(b); i++ {
			b[i] = 0
		}
		b[0] |= 1
	case 2:
		p, x := g.R.Intn(len(b)), b[0]|1
		for i := range b {
			b[i] = 0
		}
		b[p] = x
	case 3:
		for i := range b {
			b[i] = 0xff
		}
	}
}

func (g *G) schema(kind string, i int) string {
	if g.coin(0.75) {
		return fmt.Sprintf("https://schemas.example/%s/%s/%d", g.Owner, kind, i)
	}
	return ""
}

// resource fills res; with probability 1/5 (and i > 0) it is an exact duplicate of the previous one.
func (g *G) resource(res pcommon.Resource, prev *pcommon.Resource, i int) {
	if prev != nil && g.coin(0.2) {
		prev.CopyTo(res)
		return
	}
	res.Attributes().PutStr("rid", fmt.Sprintf("%s/R%d", g.Owner, i))
	g.attrs(res.Attributes(), 0, 3)
	if g.coin(0.3) {
		res.SetDroppedAttributesCount(uint32(1 + g.R.Intn(9)))
	}
}

func (g *G) scope(sc pcommon.InstrumentationScope, i, j int) {
	if g.coin(0.9) {
		sc.SetName(fmt.Sprintf("%s/R%d/S%d", g.Owner, i, j))
	}
	if g.coin(0.6) {
		sc.SetVersion("v" + g.word(3))
	}
	g.attrs(sc.Attributes(), 0, 2)
	if g.coin(0.2) {
		sc.SetDroppedAttributesCount(uint32(1 + g.R.Intn(9)))
	}
}

// begin decides whether this payload gets an oversize item.
func (g *G) begin() { g.over = g.C.Oversize > 0 && g.coin(g.C.Oversize) }

// big returns the oversize blob exactly once per payload (at a random item), else "".
func (g *G) big() string {
	if g.over && g.coin(0.4) {
		g.over = false
		lo, hi := g.C.OversizeBytes[0], g.C.OversizeBytes[1]
		if hi <= lo {
			hi = lo + 1
		}
		return strings.Repeat("X", lo+g.R.Intn(hi-lo))
	}
	return ""
}

// Logs generates one logs payload.
func (g *G) Logs() plog.Logs {
	g.begin()
	ld := plog.NewLogs()
	var prev *pcommon.Resource
	for i, nr := 0, g.n(0, g.C.MaxResources); i < nr; i++ {
		rl := ld.ResourceLogs().AppendEmpty()
		g.resource(rl.Resource(), prev, i)
		r := rl.Resource()
		prev = &r
		rl.SetSchemaUrl(g.schema("res", i))
		for j, ns := 0, g.n(0, g.C.MaxScopes); j < ns; j++ {
			sl := rl.ScopeLogs().AppendEmpty()
			g.scope(sl.Scope(), i, j)
			sl.SetSchemaUrl(g.schema("scope", j))
			for k, nk := 0, g.n(g.C.MinItems, g.C.MaxItems); k < nk; k++ {
				g.logRecord(sl.LogRecords().AppendEmpty())
			}
		}
	}
	return ld
}

func (g *G) logRecord(lr plog.LogRecord) {
	lr.Attributes().PutStr(canon.IDAttr, g.id())
	if b := g.big(); b != "" {
		lr.Body().SetStr(b)
	} else if g.coin(0.8) {
		g.value(lr.Body(), 0)
	}
	if g.C.Lean {
		return
	}
	g.attrs(lr.Attributes(), 0, 3)
	lr.SetTimestamp(g.ts())
	if g.coin(0.5) {
		lr.SetObservedTimestamp(g.ts())
	}
	if g.coin(0.5) {
		lr.SetSeverityNumber(plog.SeverityNumber(g.R.Intn(25)))
		lr.SetSeverityText(g.word(4))
	}
	if g.coin(0.3) {
		lr.SetEventName("ev." + g.word(5))
	}
	if g.coin(0.4) {
		lr.SetTraceID(g.traceID())
		lr.SetSpanID(g.spanID())
		lr.SetFlags(plog.LogRecordFlags(g.R.Intn(3)))
	}
	if g.coin(0.2) {
		lr.SetDroppedAttributesCount(uint32(g.R.Intn(5)))
	}
}

// Traces generates one traces payload.
func (g *G) Traces() ptrace.Traces {
	g.begin()
	td := ptrace.NewTraces()
	var prev *pcommon.Resource
	for i, nr := 0, g.n(0, g.C.MaxResources); i < nr; i++ {
		rs := td.ResourceSpans().AppendEmpty()
		g.resource(rs.Resource(), prev, i)
		r := rs.Resource()
		prev = &r
		rs.SetSchemaUrl(g.schema("res", i))
		for j, ns := 0, g.n(0, g.C.MaxScopes); j < ns; j++ {
			ss := rs.ScopeSpans().AppendEmpty()
			g.scope(ss.Scope(), i, j)
			ss.SetSchemaUrl(g.schema("scope", j))
			for k, nk := 0, g.n(g.C.MinItems, g.C.MaxItems); k < nk; k++ {
				g.span(ss.Spans().AppendEmpty())
			}
		}
	}
	return td
}

func (g *G) span(sp ptrace.Span) {
	sp.Attributes().PutStr(canon.IDAttr, g.id())
	sp.SetTraceID(g.traceID())
	sp.SetSpanID(g.spanID())
	if b := g.big(); b != "" {
		sp.SetName(b)
	} else {
		sp.SetName("op-" + g.word(1+g.R.Intn(10)))
	}
	if g.C.Lean {
		return
	}
	g.attrs(sp.Attributes(), 0, 3)
	if g.coin(0.6) {
		sp.SetParentSpanID(g.spanID())
	}
	sp.SetKind(ptrace.SpanKind(g.R.Intn(6)))
	sp.SetStartTimestamp(g.ts())
	sp.SetEndTimestamp(g.ts())
	if g.coin(0.3) {
		sp.TraceState().FromRaw("k=" + g.word(4))
	}
	if g.coin(0.5) {
		sp.Status().SetCode(ptrace.StatusCode(g.R.Intn(3)))
		sp.Status().SetMessage(g.word(6))
	}
	if g.coin(0.3) {
		sp.SetFlags(uint32(g.R.Intn(512)))
	}
	for i, n := 0, g.R.Intn(3); i < n; i++ {
		e := sp.Events().AppendEmpty()
		e.SetName("e" + g.word(3))
		e.SetTimestamp(g.ts())
		g.attrs(e.Attributes(), 1, 2)
		e.SetDroppedAttributesCount(uint32(g.R.Intn(3)))
	}
	for i, n := 0, g.R.Intn(3); i < n; i++ {
		l := sp.Links().AppendEmpty()
		l.SetTraceID(g.traceID())
		l.SetSpanID(g.spanID())
		l.TraceState().FromRaw("l=" + g.word(3))
		g.attrs(l.Attributes(), 1, 2)
		l.SetFlags(uint32(g.R.Intn(4)))
	}
	if g.coin(0.2) {
		sp.SetDroppedAttributesCount(uint32(g.R.Intn(5)))
		sp.SetDroppedEventsCount(uint32(g.R.Intn(5)))
		sp.SetDroppedLinksCount(uint32(g.R.Intn(5)))
	}
}

// Metrics generates one metrics payload.
func (g *G) Metrics() pmetric.Metrics {
	g.begin()
	md := pmetric.NewMetrics()
	var prev *pcommon.Resource
	for i, nr := 0, g.n(0, g.C.MaxResources); i < nr; i++ {
		rm := md.ResourceMetrics().AppendEmpty()
		g.resource(rm.Resource(), prev, i)
		r := rm.Resource()
		prev = &r
		rm.SetSchemaUrl(g.schema("res", i))
		for j, ns := 0, g.n(0, g.C.MaxScopes); j < ns; j++ {
			sm := rm.ScopeMetrics().AppendEmpty()
			g.scope(sm.Scope(), i, j)
			sm.SetSchemaUrl(g.schema("scope", j))
			for k, nk := 0, g.n(g.C.MinItems, g.C.MaxItems); k < nk; k++ {
				g.metric(sm.Metrics().AppendEmpty(), fmt.Sprintf("%s/R%d/S%d/M%d", g.Owner, i, j, k))
			}
		}
	}
	return md
}

func (g *G) exemplars(es pmetric.ExemplarSlice) {
	if g.C.Lean {
		return
	}
	for i, n := 0, g.R.Intn(3)/2; i < n; i++ {
		e := es.AppendEmpty()
		e.SetTimestamp(g.ts())
		if g.coin(0.5) {
			e.SetIntValue(g.R.Int63n(1000))
		} else {
			e.SetDoubleValue(float64(g.R.Intn(1000)) / 4)
		}
		e.SetTraceID(g.traceID())
		e.SetSpanID(g.spanID())
		g.attrs(e.FilteredAttributes(), 1, 2)
	}
}

func (g *G) dpAttrs(m pcommon.Map) {
	m.PutStr(canon.IDAttr, g.id())
	if b := g.big(); b != "" {
		m.PutStr("blob", b)
	}
	if !g.C.Lean {
		g.attrs(m, 0, 3)
	}
}

func (g *G) number(dp pmetric.NumberDataPoint) {
	g.dpAttrs(dp.Attributes())
	if g.coin(0.5) {
		dp.SetIntValue(g.R.Int63n(1 << 30))
	} else {
		dp.SetDoubleValue(float64(g.R.Intn(1<<20)) / 16)
	}
	if g.C.Lean {
		return
	}
	dp.SetTimestamp(g.ts())
	if g.coin(0.5) {
		dp.SetStartTimestamp(g.ts())
	}
	if g.coin(0.2) {
		dp.SetFlags(pmetric.DefaultDataPointFlags.WithNoRecordedValue(true))
	}
	g.exemplars(dp.Exemplars())
}

func (g *G) metric(m pmetric.Metric, name string) {
	// identity: mostly distinctive, sometimes default
	if g.coin(0.9) {
		m.SetName(name)
	}
	if g.coin(0.8) {
		m.SetUnit([]string{"ms", "By", "1", "{req}"}[g.R.Intn(4)])
	}
	if g.coin(0.8) {
		m.SetDescription("desc of " + name)
	}
	if g.coin(0.6) {
		m.Metadata().PutStr("prometheus.type", g.word(4))
		if g.coin(0.3) {
			m.Metadata().PutInt("md.n", int64(g.R.Intn(100)))
		}
	}
	np := g.n(0, g.C.MaxPoints)
	temp := func() pmetric.AggregationTemporality { return pmetric.AggregationTemporality(g.R.Intn(3)) }
	t := 1 + g.R.Intn(5)
	if !g.C.NonEmpty && g.coin(0.03) {
		t = 0
	}
	switch pmetric.MetricType(t) {
	case pmetric.MetricTypeEmpty:
	case pmetric.MetricTypeGauge:
		dps := m.SetEmptyGauge().DataPoints()
		for i := 0; i < np; i++ {
			g.number(dps.AppendEmpty())
		}
	case pmetric.MetricTypeSum:
		s := m.SetEmptySum()
		s.SetAggregationTemporality(temp())
		s.SetIsMonotonic(g.coin(0.6))
		for i := 0; i < np; i++ {
			g.number(s.DataPoints().AppendEmpty())
		}
	case pmetric.MetricTypeHistogram:
		h := m.SetEmptyHistogram()
		h.SetAggregationTemporality(temp())
		for i := 0; i < np; i++ {
			dp := h.DataPoints().AppendEmpty()
			g.dpAttrs(dp.Attributes())
			dp.SetCount(uint64(g.R.Intn(1000)))
			if g.C.Lean {
				continue
			}
			dp.SetTimestamp(g.ts())
			dp.SetStartTimestamp(g.ts())
			if g.coin(0.7) {
				dp.SetSum(float64(g.R.Intn(10000)) / 4)
			}
			if g.coin(0.5) {
				dp.SetMin(float64(g.R.Intn(100)))
				dp.SetMax(float64(100 + g.R.Intn(100)))
			}
			nb := g.R.Intn(4)
			for b := 0; b < nb; b++ {
				dp.ExplicitBounds().Append(float64(b * 10))
			}
			for b := 0; b <= nb; b++ {
				dp.BucketCounts().Append(uint64(g.R.Intn(50)))
			}
			g.exemplars(dp.Exemplars())
		}
	case pmetric.MetricTypeExponentialHistogram:
		h := m.SetEmptyExponentialHistogram()
		h.SetAggregationTemporality(temp())
		for i := 0; i < np; i++ {
			dp := h.DataPoints().AppendEmpty()
			g.dpAttrs(dp.Attributes())
			dp.SetCount(uint64(g.R.Intn(1000)))
			if g.C.Lean {
				continue
			}
			dp.SetTimestamp(g.ts())
			dp.SetScale(int32(g.R.Intn(8) - 2))
			dp.SetZeroCount(uint64(g.R.Intn(5)))
			if g.coin(0.5) {
				dp.SetZeroThreshold(float64(g.R.Intn(10)) / 100)
			}
			if g.coin(0.7) {
				dp.SetSum(float64(g.R.Intn(10000)) / 4)
			}
			if g.coin(0.4) {
				dp.SetMin(float64(g.R.Intn(100)))
				dp.SetMax(float64(100 + g.R.Intn(100)))
			}
			dp.Positive().SetOffset(int32(g.R.Intn(5)))
			for b, nb := 0, g.R.Intn(4); b < nb; b++ {
				dp.Positive().BucketCounts().Append(uint64(g.R.Intn(50)))
			}
			if g.coin(0.5) {
				dp.Negative().SetOffset(int32(g.R.Intn(5)))
				for b, nb := 0, g.R.Intn(3); b < nb; b++ {
					dp.Negative().BucketCounts().Append(uint64(g.R.Intn(50)))
				}
			}
			g.exemplars(dp.Exemplars())
		}
	case pmetric.MetricTypeSummary:
		dps := m.SetEmptySummary().DataPoints()
		for i := 0; i < np; i++ {
			dp := dps.AppendEmpty()
			g.dpAttrs(dp.Attributes())
			dp.SetCount(uint64(g.R.Intn(1000)))
			if g.C.Lean {
				continue
			}
			dp.SetSum(float64(g.R.Intn(10000)) / 4)
			dp.SetTimestamp(g.ts())
			for q, nq := 0, g.R.Intn(3); q < nq; q++ {
				qv := dp.QuantileValues().AppendEmpty()
				qv.SetQuantile(float64(q) / 2)
				qv.SetValue(float64(g.R.Intn(1000)))
			}
		}
	}
}

// Profiles generates one profiles payload. The id of a sample is an entry of the profile's attribute
// table (key canon.IDAttr) that the sample's AttributeIndices refer to.
func (g *G) Profiles() pprofile.Profiles {
	g.begin()
	pd := pprofile.NewProfiles()
	var prev *pcommon.Resource
	for i, nr := 0, g.n(0, g.C.MaxResources); i < nr; i++ {
		rp := pd.ResourceProfiles().AppendEmpty()
		g.resource(rp.Resource(), prev, i)
		r := rp.Resource()
		prev = &r
		rp.SetSchemaUrl(g.schema("res", i))
		for j, ns := 0, g.n(0, g.C.MaxScopes); j < ns; j++ {
			sp := rp.ScopeProfiles().AppendEmpty()
			g.scope(sp.Scope(), i, j)
			sp.SetSchemaUrl(g.schema("scope", j))
			for k, nk := 0, g.n(g.C.MinItems, g.C.MaxItems); k < nk; k++ {
				g.profile(sp.Profiles().AppendEmpty())
			}
		}
	}
	return pd
}

func (g *G) profile(p pprofile.Profile) {
	var pid pprofile.ProfileID
	g.structuredID(pid[:])
	p.SetProfileID(pid)
	p.StringTable().Append("", "cpu", "ns", g.word(5))
	if b := g.big(); b != "" {
		p.StringTable().Append(b)
	}
	st := p.SampleType().AppendEmpty()
	st.SetTypeStrindex(1)
	st.SetUnitStrindex(2)
	if !g.C.Lean {
		p.SetTime(g.ts())
		p.SetStartTime(g.ts())
		p.SetDuration(pcommon.Timestamp(g.R.Intn(1 << 30)))
		p.SetPeriod(int64(g.R.Intn(1000)))
		p.PeriodType().SetTypeStrindex(1)
		p.PeriodType().SetUnitStrindex(2)
		if g.coin(0.3) {
			p.SetOriginalPayloadFormat("pprof")
			p.OriginalPayload().FromRaw([]byte(g.word(8)))
		}
		if g.coin(0.3) {
			p.SetDroppedAttributesCount(uint32(g.R.Intn(4)))
		}
		for i, n := 0, g.R.Intn(3); i < n; i++ {
			mp := p.MappingTable().AppendEmpty()
			mp.SetMemoryStart(uint64(g.R.Intn(1 << 20)))
			mp.SetMemoryLimit(uint64(g.R.Intn(1 << 20)))
			mp.SetFilenameStrindex(3)
		}
		for i, n := 0, g.R.Intn(4); i < n; i++ {
			loc := p.LocationTable().AppendEmpty()
			loc.SetAddress(uint64(g.R.Int63n(1 << 40)))
			ln := loc.Line().AppendEmpty()
			ln.SetLine(int64(g.R.Intn(500)))
			p.LocationIndices().Append(int32(i))
		}
		for i, n := 0, g.R.Intn(3); i < n; i++ {
			f := p.FunctionTable().AppendEmpty()
			f.SetNameStrindex(3)
			f.SetStartLine(int64(g.R.Intn(100)))
		}
		if g.coin(0.4) {
			l := p.LinkTable().AppendEmpty()
			l.SetTraceID(g.traceID())
			l.SetSpanID(g.spanID())
		}
	}
	ns := g.n(0, g.C.MaxPoints+1)
	if g.C.OneSample {
		ns = 1
	}
	for i := 0; i < ns; i++ {
		s := p.Sample().AppendEmpty()
		a := p.AttributeTable().AppendEmpty()
		a.SetKey(canon.IDAttr)
		a.Value().SetStr(g.id())
		s.AttributeIndices().Append(int32(p.AttributeTable().Len() - 1))
		s.Value().Append(g.R.Int63n(1 << 20))
		if g.C.Lean {
			continue
		}
		s.TimestampsUnixNano().Append(uint64(g.ts()))
		s.SetLocationsStartIndex(int32(g.R.Intn(3)))
		s.SetLocationsLength(int32(g.R.Intn(3)))
		if p.LinkTable().Len() > 0 && g.coin(0.5) {
			s.SetLinkIndex(0)
		}
	}
}
