// C16 — HTTP body compression round-trips and the decompressed-size limit holds.
//
// Monitor: the real confighttp client (ClientConfig.ToClient, every compression type/level that
// configcompression accepts) and hand-made raw requests talk over a loop-back socket to the real
// confighttp server middleware chain (ServerConfig.ToServer with MaxRequestBodySize and
// CompressionAlgorithms). An observer handler in front of the chain measures the body on the wire
// (Content-Length and bytes actually consumed); the innermost handler reads the body with a varying
// buffer size and records bytes, call count and the final error. Verdicts are byte equality and
// counts, never timing.
package main

import (
	"bytes"
	"compress/gzip"
	"compress/zlib"
	"context"
	"errors"
	"fmt"
	"hash/crc32"
	"hash/fnv"
	"io"
	"math/rand"
	"net"
	"net/http"
	"net/http/httptrace"
	"os"
	"sort"
	"strconv"
	"strings"
	"sync"
	"sync/atomic"
	"time"

	"github.com/golang/snappy"
	"github.com/klauspost/compress/zstd"
	"github.com/pierrec/lz4/v4"
	"go.uber.org/zap/zapcore"

	"go.opentelemetry.io/collector/component/componenttest"
	"go.opentelemetry.io/collector/config/configcompression"
	"go.opentelemetry.io/collector/config/confighttp"
	"go.opentelemetry.io/collector/verifharness/lib/driver"
	"go.opentelemetry.io/collector/verifharness/lib/loopkit"
)

const (
	defaultLimit = 20 * 1024 * 1024 // documented default of max_request_body_size
	overrunStop  = 1 << 20          // the handler stops reading this far beyond the limit (enough to prove an over-read)
	netGuard     = 90 * time.Second // infrastructure guard on one exchange; firing => inconclusive
)

// what the server is documented to be able to decode ("" = no encoding)
var supported = map[string]bool{"": true, "gzip": true, "zstd": true, "zlib": true, "deflate": true, "snappy": true, "lz4": true}

var codecs = []string{"gzip", "zlib", "deflate", "zstd", "snappy", "lz4"}

// block/window boundaries of the codecs
var boundaries = map[string][]int{
	"gzip":    {32 * 1024, 64 * 1024},
	"zlib":    {32 * 1024, 64 * 1024},
	"deflate": {32 * 1024, 64 * 1024},
	"zstd":    {128 * 1024, 1 << 20},
	"snappy":  {64 * 1024, 128 * 1024},
	"lz4":     {64 * 1024, 256 * 1024, 1 << 20, 4 << 20},
	"":        {4096, 64 * 1024},
}

var limits = []int64{1, 2, 10, 100, 1000, 4096, 65536, 65537, 1 << 20, 0}

type listSpec struct {
	name string
	list []string
}

var lists = []listSpec{
	{"default", nil},
	{"default", nil},
	{"identity-only", []string{""}},
	{"identity+gzip", []string{"", "gzip"}},
	{"gzip+zstd-no-identity", []string{"gzip", "zstd"}},
	{"identity+deflate", []string{"", "deflate"}},
	{"identity+zlib", []string{"", "zlib"}},
	{"identity+snappy+lz4", []string{"", "snappy", "lz4"}},
	{"empty-list", []string{}},
	{"all-explicit", []string{"", "gzip", "zstd", "zlib", "snappy", "deflate", "lz4"}},
	{"identity+gzip+br(unsupported-name)", []string{"", "gzip", "br"}},
}

type rec struct {
	outerSeen   int
	early       bool
	wireCL      int64
	wireRead    int64
	wireCE      string
	innerCalls  int
	innerCL     int64
	innerCE     string
	innerCLHdr  string
	got         []byte
	gotN        int64
	readErr     string
	tooLarge    bool
	clean       bool
	overran     bool
	handlerDone bool
	// replay dimension: the first arrival of the request was cut off by the front end
	killed   int
	killCL   int64
	killRead int64
	killCRC  uint32
	killFull bool // the front end read the complete body before it closed the connection
	wireCRC  uint32
}

type reqDesc struct {
	ID       string `json:"id"`
	Mode     string `json:"mode"`  // toclient | raw | header | bomb | corrupt
	Codec    string `json:"codec"` // how the body really is compressed ("" = not)
	Level    int    `json:"level"`
	CE       string `json:"content_encoding"`
	Kind     string `json:"kind"`
	Size     int    `json:"size"`
	SizeCls  string `json:"size_class"`
	BodySeed int64  `json:"body_seed"`
	Buf      int    `json:"buf"`
	Chunked  bool   `json:"chunked"`
	Variant  string `json:"variant,omitempty"`
	Client   string `json:"client_compression,omitempty"` // configcompression type given to ToClient ("", "none", "gzip", …)
	Via      string `json:"sent_through_confighttp_client_with_compression,omitempty"`
	Limit    int64  `json:"limit_configured"`
	EffLimit int64  `json:"limit_effective"`
	List     string `json:"decoder_list"`
	Cut      int    `json:"cut,omitempty"`
	Replay   string `json:"replay,omitempty"` // kill-after-body | kill-after-headers | idle-close: make net/http replay the request once
	Phase    string `json:"phase,omitempty"`  // overlap-after-poison | nested-outer | nested-inner | poison
	Poison   string `json:"poison,omitempty"` // read-error | pipe-closed | close-error (body fails after FailAt bytes)
	FailAt   int    `json:"fail_after_bytes,omitempty"`
	Nested   string `json:"nested_request_id,omitempty"`
	Early    bool   `json:"answered_401_by_the_front_end_before_the_body_is_read,omitempty"`

	nest   *reqDesc        // request performed from inside this request's body reader
	arrive *sync.WaitGroup // barrier: all exchanges of a wave call the client at the same moment
	gate   <-chan struct{}
}

type outcome struct {
	nested     *outcome
	gotConns   int // connections the transport obtained for this one request (2 = it was replayed)
	prevOnConn string
	respBody   string
	status     int
	cerr       error
	wireLen    int // what a raw client put on the wire (-1 unknown)
	rc         rec
	hasRec     bool
}

type group struct {
	c        *driver.Ctx
	limit    int64
	L        int64
	ls       listSpec
	enabled  map[string]bool
	srv      *http.Server
	url      string
	logs     *loopkit.LogCapture
	mu       sync.Mutex
	recs     map[string]*rec
	connHist map[string]string
	conns    map[net.Conn]http.ConnState
	active   atomic.Int64
	seq      int
	raw      *http.Client
	clients  map[string]*http.Client
}

func (g *group) rec(id string) *rec {
	g.mu.Lock()
	defer g.mu.Unlock()
	r := g.recs[id]
	if r == nil {
		r = &rec{wireCL: -2, innerCL: -2}
		g.recs[id] = r
	}
	return r
}

type countBody struct {
	io.ReadCloser
	n   atomic.Int64
	crc bool
	sum uint32 // only touched by the goroutine that reads
}

func (b *countBody) Read(p []byte) (int, error) {
	n, err := b.ReadCloser.Read(p)
	b.n.Add(int64(n))
	if b.crc && n > 0 {
		b.sum = crc32.Update(b.sum, crc32.IEEETable, p[:n])
	}
	return n, err
}

type connKey struct{}

// connInfo counts the requests one server-side connection has seen.
type connInfo struct{ n atomic.Int64 }

var (
	replayAttempts    atomic.Int64 // exchanges sent with a kill order or after a server-side idle close
	replaysObserved   atomic.Int64 // second arrival of the same request id at the front end / second connection obtained
	replayFloorFailed bool
)

// outer sits in front of the confighttp chain and measures the request as it came off the wire.
func (g *group) outer(next http.Handler) http.Handler {
	return http.HandlerFunc(func(w http.ResponseWriter, r *http.Request) {
		id := r.Header.Get("X-Case")
		rc := g.rec(id)
		kill := r.Header.Get("X-Kill")
		cb := &countBody{ReadCloser: r.Body, crc: kill != ""}
		served := int64(0)
		if ci, ok := r.Context().Value(connKey{}).(*connInfo); ok {
			served = ci.n.Add(1) - 1
		}
		g.mu.Lock()
		rc.outerSeen++
		arrival := rc.outerSeen
		rc.wireCL = r.ContentLength
		rc.wireCE = r.Header.Get("Content-Encoding")
		g.mu.Unlock()
		if r.Header.Get("X-Early") != "" {
			// an authenticating front end refuses the request on its headers and never reads the body; the client is
			// still sending it while it receives the answer
			g.mu.Lock()
			rc.early = true
			g.mu.Unlock()
			w.Header().Set("Connection", "close")
			http.Error(w, "refused before the body was read", http.StatusUnauthorized)
			return
		}
		if kill != "" && arrival == 1 && served >= 1 {
			// Replay dimension. This connection already served a request, so for the client it is a reused
			// keep-alive connection: dropping it without an answer makes http.Transport replay an idempotent
			// request through Request.GetBody on another connection. With "body" the whole request is read
			// first, so every write of the client has succeeded and only its read fails.
			var n int64
			var sum uint32
			full := kill == "body"
			if full {
				n, _ = io.Copy(io.Discard, cb)
				sum = cb.sum
			}
			if hj, ok := w.(http.Hijacker); ok {
				if conn, _, err := hj.Hijack(); err == nil {
					g.mu.Lock()
					rc.killed++
					rc.killCL, rc.killRead, rc.killCRC, rc.killFull = r.ContentLength, n, sum, full
					g.mu.Unlock()
					conn.Close()
					return
				}
			}
		}
		// never replace Body on the server's own *http.Request: net/http type-asserts w.req.Body.(*body) to decide
		// whether a connection with an unread request body may be reused; observe on a shallow copy instead.
		r = r.WithContext(r.Context())
		r.Body = cb
		g.active.Add(1)
		defer func() {
			g.mu.Lock()
			rc.wireRead = cb.n.Load()
			rc.wireCRC = cb.sum
			g.mu.Unlock()
			g.active.Add(-1)
		}()
		next.ServeHTTP(w, r)
	})
}

// inner is the handler behind the middleware.
func (g *group) inner(w http.ResponseWriter, r *http.Request) {
	id := r.Header.Get("X-Case")
	bufN, _ := strconv.Atoi(r.Header.Get("X-Buf"))
	if bufN <= 0 {
		bufN = 4096
	}
	rc := g.rec(id)
	g.mu.Lock()
	rc.innerCalls++
	rc.innerCL = r.ContentLength
	rc.innerCE = r.Header.Get("Content-Encoding")
	rc.innerCLHdr = r.Header.Get("Content-Length")
	g.mu.Unlock()
	buf := make([]byte, bufN)
	var got []byte
	var total int64
	var clean, tooLarge, overran bool
	var readErr string
	zero := 0
	for {
		n, err := r.Body.Read(buf)
		total += int64(n)
		got = append(got, buf[:n]...)
		if err == io.EOF {
			clean = true
			break
		}
		if err != nil {
			readErr = err.Error()
			var mbe *http.MaxBytesError
			tooLarge = errors.As(err, &mbe)
			break
		}
		if total > g.L+overrunStop {
			overran = true
			break
		}
		if n == 0 {
			if zero++; zero > 10000 {
				readErr = "reader returns (0, nil) forever"
				break
			}
		}
	}
	// two thirds of the handlers close the body themselves, as handlers commonly do (`defer r.Body.Close()`), a third
	// of them twice (their own defer plus a helper's): Close of a request body is idempotent for every body net/http hands out
	hh := fnv.New32a()
	hh.Write([]byte(id))
	switch hh.Sum32() % 3 {
	case 1:
		_ = r.Body.Close()
	case 2:
		_ = r.Body.Close()
		_ = r.Body.Close()
	}
	g.mu.Lock()
	rc.got, rc.gotN, rc.clean, rc.tooLarge, rc.overran, rc.readErr, rc.handlerDone = got, total, clean, tooLarge, overran, readErr, true
	g.mu.Unlock()
	switch {
	case clean:
		w.WriteHeader(http.StatusOK)
	case tooLarge || overran:
		http.Error(w, "too large", http.StatusRequestEntityTooLarge)
	default:
		http.Error(w, readErr, http.StatusBadRequest)
	}
}

func startGroup(c *driver.Ctx, limit int64, ls listSpec) (*group, error) {
	g := &group{c: c, limit: limit, L: limit, ls: ls, recs: map[string]*rec{}, connHist: map[string]string{}, conns: map[net.Conn]http.ConnState{}, enabled: map[string]bool{}}
	if limit <= 0 {
		g.L = defaultLimit
	}
	if ls.list == nil {
		for k := range supported {
			g.enabled[k] = true
		}
	}
	for _, e := range ls.list {
		g.enabled[e] = true
	}
	var list []string
	if ls.list != nil {
		list = append([]string{}, ls.list...)
	}
	sc := confighttp.ServerConfig{Endpoint: "127.0.0.1:0", MaxRequestBodySize: limit, CompressionAlgorithms: list}
	ln, err := sc.ToListener(context.Background())
	if err != nil {
		return nil, err
	}
	lc, logger := loopkit.NewLogCapture(zapcore.WarnLevel)
	g.logs = lc
	set := componenttest.NewNopTelemetrySettings()
	set.Logger = logger
	srv, err := sc.ToServer(context.Background(), componenttest.NewNopHost(), set, http.HandlerFunc(g.inner))
	if err != nil {
		ln.Close()
		return nil, err
	}
	srv.Handler = g.outer(srv.Handler)
	srv.ConnContext = func(ctx context.Context, _ net.Conn) context.Context {
		return context.WithValue(ctx, connKey{}, &connInfo{})
	}
	srv.ConnState = func(c net.Conn, st http.ConnState) {
		g.mu.Lock()
		if st == http.StateClosed || st == http.StateHijacked {
			delete(g.conns, c)
		} else {
			g.conns[c] = st
		}
		g.mu.Unlock()
	}
	g.srv = srv
	g.url = "http://" + ln.Addr().String() + "/c16"
	go srv.Serve(ln)
	g.raw = &http.Client{Transport: &http.Transport{MaxIdleConns: 8, IdleConnTimeout: 30 * time.Second}, Timeout: netGuard}
	return g, nil
}

func (g *group) stop() {
	g.srv.Close()
	g.raw.CloseIdleConnections()
}

// ---------------------------------------------------------------- bodies

func mkBody(kind string, size int, seed int64) []byte {
	b := make([]byte, size)
	r := rand.New(rand.NewSource(seed))
	switch kind {
	case "zeros":
	case "rand":
		r.Read(b)
	case "text":
		words := []string{"resource", "scope", "span", "metric", "0123456789", "http.status_code", " ", "\n", "{\"k\":\"v\"}", "ÿ"}
		for i := 0; i < size; {
			w := words[r.Intn(len(words))]
			i += copy(b[i:], w)
		}
	case "periodic":
		p := 1 + r.Intn(40000)
		pat := make([]byte, p)
		r.Read(pat)
		for i := 0; i < size; i += p {
			copy(b[i:], pat)
		}
	case "mixed":
		r.Read(b[:size/2])
	}
	return b
}

type nopWC struct{ io.Writer }

func (nopWC) Close() error { return nil }

// handCompress compresses with the harness' own use of the codec libraries (options differ from the
// ones confighttp's client uses: levels, multi-member gzip, lz4 block sizes, checksums …).
func handCompress(codec string, body []byte, rng *rand.Rand) ([]byte, string, error) {
	var out bytes.Buffer
	variant := ""
	switch codec {
	case "":
		return body, "", nil
	case "gzip":
		lv := []int{-2, -1, 0, 1, 5, 9}[rng.Intn(6)]
		parts := [][]byte{body}
		if len(body) >= 2 && rng.Intn(4) == 0 {
			k := 1 + rng.Intn(len(body)-1)
			parts = [][]byte{body[:k], body[k:]}
		}
		variant = fmt.Sprintf("level=%d members=%d", lv, len(parts))
		for _, p := range parts {
			w, err := gzip.NewWriterLevel(&out, lv)
			if err != nil {
				return nil, variant, err
			}
			w.Write(p)
			w.Close()
		}
	case "zlib", "deflate":
		lv := []int{-2, -1, 0, 1, 5, 9}[rng.Intn(6)]
		variant = fmt.Sprintf("level=%d", lv)
		w, err := zlib.NewWriterLevel(&out, lv)
		if err != nil {
			return nil, variant, err
		}
		w.Write(body)
		w.Close()
	case "zstd":
		lv := []zstd.EncoderLevel{zstd.SpeedFastest, zstd.SpeedDefault, zstd.SpeedBetterCompression, zstd.SpeedBestCompression}[rng.Intn(4)]
		crc := rng.Intn(2) == 0
		zf := rng.Intn(2) == 0
		variant = fmt.Sprintf("level=%v crc=%v zeroframes=%v", lv, crc, zf)
		w, err := zstd.NewWriter(&out, zstd.WithEncoderLevel(lv), zstd.WithEncoderCRC(crc), zstd.WithZeroFrames(zf), zstd.WithEncoderConcurrency(1))
		if err != nil {
			return nil, variant, err
		}
		w.Write(body)
		w.Close()
	case "snappy":
		if rng.Intn(2) == 0 {
			variant = "buffered"
			w := snappy.NewBufferedWriter(&out)
			w.Write(body)
			w.Close()
		} else {
			variant = "unbuffered-chunks"
			w := snappy.NewWriter(&out) //nolint:staticcheck
			for off := 0; off < len(body) || off == 0; {
				n := 1 + rng.Intn(100000)
				if off+n > len(body) {
					n = len(body) - off
				}
				w.Write(body[off : off+n])
				off += n
				if n == 0 {
					break
				}
			}
			w.Close()
		}
	case "lz4":
		bs := []lz4.BlockSize{lz4.Block64Kb, lz4.Block256Kb, lz4.Block1Mb, lz4.Block4Mb}[rng.Intn(4)]
		ck := rng.Intn(2) == 0
		bck := rng.Intn(2) == 0
		lv := []lz4.CompressionLevel{lz4.Fast, lz4.Level1, lz4.Level5, lz4.Level9}[rng.Intn(4)]
		variant = fmt.Sprintf("block=%v checksum=%v blockchecksum=%v level=%v", bs, ck, bck, lv)
		w := lz4.NewWriter(&out)
		if err := w.Apply(lz4.BlockSizeOption(bs), lz4.ChecksumOption(ck), lz4.BlockChecksumOption(bck), lz4.CompressionLevelOption(lv), lz4.ConcurrencyOption(1)); err != nil {
			return nil, variant, err
		}
		w.Write(body)
		w.Close()
	default:
		return nil, "", fmt.Errorf("unknown codec %q", codec)
	}
	return out.Bytes(), variant, nil
}

// ---------------------------------------------------------------- clients

// levelsFor returns every level ValidateParams accepts out of a candidate range.
func levelsFor(t configcompression.Type) []int {
	var out []int
	for _, lv := range []int{-7, -5, -3, -2, -1, 0, 1, 2, 3, 4, 5, 6, 7, 8, 9, 10, 11, 12, 19, 22, 100} {
		p := configcompression.CompressionParams{Level: configcompression.Level(lv)}
		if t.ValidateParams(p) == nil {
			out = append(out, lv)
		}
	}
	return out
}

var clientsMu sync.Mutex

func (g *group) client(t string, level int) (*http.Client, error) {
	clientsMu.Lock()
	defer clientsMu.Unlock()
	key := fmt.Sprintf("%s/%d", t, level)
	if cl := g.clients[key]; cl != nil {
		return cl, nil
	}
	cc := confighttp.NewDefaultClientConfig()
	cc.Compression = configcompression.Type(t)
	cc.CompressionParams = configcompression.CompressionParams{Level: configcompression.Level(level)}
	cc.Timeout = netGuard
	cc.MaxIdleConnsPerHost = 4
	cc.IdleConnTimeout = 30 * time.Second
	if err := cc.Validate(); err != nil {
		return nil, fmt.Errorf("Validate: %w", err)
	}
	cl, err := cc.ToClient(context.Background(), componenttest.NewNopHost(), componenttest.NewNopTelemetrySettings())
	if err != nil {
		return nil, err
	}
	g.clients[key] = cl
	return cl, nil
}

// ---------------------------------------------------------------- one exchange

func (g *group) exec(d *reqDesc, body []byte) (o outcome) {
	o = outcome{wireLen: -1}
	arrived := false
	defer func() {
		if d.arrive != nil && !arrived {
			d.arrive.Done() // an exchange that ends before the barrier must not hold the others up
		}
	}()
	var rdr io.Reader
	var cl *http.Client
	setCE := ""
	switch d.Mode {
	case "toclient":
		c, err := g.client(d.Client, d.Level)
		if err != nil {
			o.cerr = fmt.Errorf("harness: client construction: %w", err)
			return o
		}
		cl = c
		rdr = bytes.NewReader(body)
		if d.nest != nil {
			nr := &nestReader{g: g, inner: d.nest, data: bytes.NewReader(body)}
			rdr = nr
			defer func() { o.nested = nr.out }()
		}
	default:
		cl = g.raw
		if d.Via != "" {
			// a request that already carries Content-Encoding must pass the compressing round tripper unchanged
			c, err := g.client(d.Via, 0)
			if err != nil {
				o.cerr = fmt.Errorf("harness: client construction: %w", err)
				return o
			}
			cl = c
		}
		rng := rand.New(rand.NewSource(d.BodySeed ^ 0x5eed))
		wire, variant, err := handCompress(d.Codec, body, rng)
		if err != nil {
			o.cerr = fmt.Errorf("harness: hand compression: %w", err)
			return o
		}
		d.Variant = variant
		if d.Mode == "corrupt" && len(wire) > 1 {
			if d.Cut <= 0 || d.Cut >= len(wire) {
				d.Cut = 1 + rng.Intn(len(wire)-1)
			}
			wire = wire[:d.Cut]
		}
		o.wireLen = len(wire)
		setCE = d.CE
		if d.Chunked {
			rdr = struct{ io.Reader }{bytes.NewReader(wire)} // hides the length: Transfer-Encoding: chunked
		} else {
			rdr = bytes.NewReader(wire)
		}
	}
	ctx, cancel := context.WithTimeout(context.Background(), netGuard)
	defer cancel()
	req, err := http.NewRequestWithContext(ctx, http.MethodPost, g.url, rdr)
	if err != nil {
		o.cerr = fmt.Errorf("harness: %w", err)
		return o
	}
	req = req.WithContext(httptrace.WithClientTrace(req.Context(), &httptrace.ClientTrace{GotConn: func(ci httptrace.GotConnInfo) {
		k := ci.Conn.LocalAddr().String()
		g.mu.Lock()
		o.gotConns++
		o.prevOnConn = g.connHist[k]
		g.connHist[k] = fmt.Sprintf("%+v", *d)
		g.mu.Unlock()
	}}))
	req.Header.Set("Content-Type", "application/octet-stream")
	req.Header.Set("X-Case", d.ID)
	req.Header.Set("X-Buf", strconv.Itoa(d.Buf))
	if d.Early {
		req.Header.Set("X-Early", "1")
	}
	if setCE != "" {
		req.Header["Content-Encoding"] = []string{setCE}
	}
	if d.Replay != "" {
		// Mark the POST idempotent (net/http replays such a request when a reused connection dies) and make sure
		// the connection it will use is a reused one: a primer exchange through the same client leaves one idle.
		hk := "Idempotency-Key"
		if len(d.ID)%2 == 0 {
			hk = "X-Idempotency-Key"
		}
		req.Header.Set(hk, d.ID)
		g.prime(cl, d.ID+"-primer")
		switch d.Replay {
		case "kill-after-body":
			req.Header.Set("X-Kill", "body")
			replayAttempts.Add(1)
		case "kill-after-headers":
			req.Header.Set("X-Kill", "headers")
			replayAttempts.Add(1)
		case "idle-close":
			if g.closeIdleServerSide() > 0 {
				replayAttempts.Add(1)
			}
		}
	}
	if d.arrive != nil {
		d.arrive.Done()
		<-d.gate
		arrived = true
	}
	var resp *http.Response
	if pv, stack := driver.Catch(func() { resp, err = cl.Do(req) }); pv != nil {
		g.c.Violation("panic", fmt.Sprintf("the confighttp client panicked while sending: %v", pv), map[string]any{"request": *d, "stack": stack},
			"where", driver.PanicSite(stack), "list", "client-side")
		o.cerr = fmt.Errorf("harness: client panic %v", pv)
		return o
	}
	if err != nil {
		o.cerr = err
	} else {
		rb, _ := io.ReadAll(io.LimitReader(resp.Body, 300))
		o.respBody = string(rb)
		io.Copy(io.Discard, io.LimitReader(resp.Body, 1<<16))
		resp.Body.Close()
		o.status = resp.StatusCode
	}
	return o
}

// prime sends a one-byte request through the client so that its transport holds an idle keep-alive connection.
func (g *group) prime(cl *http.Client, id string) {
	ctx, cancel := context.WithTimeout(context.Background(), netGuard)
	defer cancel()
	req, err := http.NewRequestWithContext(ctx, http.MethodPost, g.url, bytes.NewReader([]byte{'p'}))
	if err != nil {
		return
	}
	req.Header.Set("Content-Type", "application/octet-stream")
	req.Header.Set("X-Case", id)
	if resp, err := cl.Do(req); err == nil {
		io.Copy(io.Discard, io.LimitReader(resp.Body, 1<<16))
		resp.Body.Close()
	}
	g.take(id)
}

// closeIdleServerSide closes, from the server's end, every connection the server holds idle (it waits, logically,
// until the server has marked the primed connection idle) and returns how many it closed. Whether the client's
// transport notices before it sends the next request is up to the scheduler: both paths are legal for net/http.
func (g *group) closeIdleServerSide() int {
	for spin := 0; spin < 20000; spin++ {
		var idle []net.Conn
		g.mu.Lock()
		for c, st := range g.conns {
			if st == http.StateIdle {
				idle = append(idle, c)
			}
		}
		g.mu.Unlock()
		if len(idle) > 0 {
			for _, c := range idle {
				c.Close()
			}
			return len(idle)
		}
		if g.active.Load() == 0 && spin > 2000 {
			return 0
		}
		time.Sleep(50 * time.Microsecond)
	}
	return 0
}

// settle waits (logically) until no request is inside the handler chain any more. (Connection states are
// not used: after a request that hit the limit net/http keeps the connection half-open for 500 ms.)
func (g *group) settle() bool {
	ok := true
	if st := g.c.Guard(60*time.Second, func() int64 { return g.active.Load() }, func() {
		for g.active.Load() > 0 {
			time.Sleep(200 * time.Microsecond)
		}
	}); st != nil {
		ok = false
	}
	return ok
}

func (g *group) take(id string) (rec, bool) {
	g.mu.Lock()
	defer g.mu.Unlock()
	r, ok := g.recs[id]
	if !ok {
		return rec{wireCL: -2, innerCL: -2}, false
	}
	delete(g.recs, id)
	return *r, true
}

func isAmbiguousHeader(ce string, enabled map[string]bool) bool {
	t := strings.TrimSpace(ce)
	if strings.EqualFold(t, "identity") {
		return true
	}
	for e := range enabled {
		if e != "" && strings.EqualFold(t, e) && t != e {
			return true // RFC 9110 content codings are case-insensitive; the middleware matches exactly
		}
		if t == e && t != ce {
			return true // surrounding white space is removed by net/http
		}
	}
	return false
}

func short(b []byte) string {
	if len(b) > 24 {
		return fmt.Sprintf("%x…(%d bytes)", b[:24], len(b))
	}
	return fmt.Sprintf("%x", b)
}

// evaluate applies the oracle to one finished exchange.
func (g *group) evaluate(d *reqDesc, body []byte, o outcome, retried bool) (again bool) {
	c := g.c
	rc := o.rc
	D := int64(len(body))
	L := g.L
	algo := d.CE
	if d.Mode == "toclient" {
		algo = d.CE
	}
	lvl := "-"
	if d.Mode == "toclient" {
		lvl = strconv.Itoa(d.Level)
	}
	wit := map[string]any{"request": *d, "status": o.status, "response_body": o.respBody, "previous_request_on_connection": o.prevOnConn, "reached_chain": o.hasRec, "handler_calls": rc.innerCalls, "handler_read": rc.gotN, "handler_err": rc.readErr, "handler_clean_eof": rc.clean,
		"wire_content_length": rc.wireCL, "wire_consumed": rc.wireRead, "wire_sent_by_raw_client": o.wireLen, "decoded_size": D, "limit": L}
	if o.cerr != nil {
		wit["client_error"] = o.cerr.Error()
	}
	vio := func(sub, rel, what string) {
		c.Violation(sub, what, wit, "algo", algoClass(algo), "mode", d.Mode, "rel", rel, "list", d.List)
	}
	if d.Early {
		// nothing is demanded of a request the front end refused (its transport may report 401 or a write error);
		// it exists to overlap with the others while its compressed body is still being sent
		c.Observe("requests_refused_early_while_others_overlap", 1)
		if rc.innerCalls > 0 {
			vio("early", "-", "a request the front end refused before the chain reached the handler nevertheless")
		}
		return false
	}
	if o.cerr != nil && strings.HasPrefix(o.cerr.Error(), "harness:") {
		c.Inconclusive("harness-setup")
		c.Note("harness error: %v (%+v)", o.cerr, *d)
		return false
	}
	if loopkit.IsTimeout(o.cerr) {
		c.Inconclusive("exchange-timeout")
		return false
	}
	c.Eval()
	c.Observe("requests", 1)
	if d.Phase != "" {
		c.Observe("phase:"+d.Phase, 1)
	}
	if d.Mode == "toclient" && o.cerr != nil && o.gotConns == 0 && rc.outerSeen == 0 && !strings.Contains(o.cerr.Error(), "dial tcp") {
		// the transport never obtained a connection: the error was produced by the client's own round trippers
		// (compression) for a body it was given in full - no repetition can make that a load artefact
		c.Violation("client-error", fmt.Sprintf("the confighttp client (compression %q level %d) failed before sending a %d-byte body: %v", d.Client, d.Level, D, o.cerr), wit,
			"algo", algoClass(algo), "mode", d.Mode, "phase", "p"+d.Phase, "list", d.List)
		return false
	}

	// ---- the two rules that hold for every request, whatever it is
	if rc.gotN > L {
		vio("limit", "over-read", fmt.Sprintf("handler read %d bytes with max_request_body_size %d (Content-Encoding %q)", rc.gotN, L, d.CE))
	}
	if rc.innerCalls > 1 || rc.outerSeen > 1+rc.killed {
		if !retried {
			vio("handler-calls", "-", fmt.Sprintf("handler invoked %d times for one request (%d arrivals at the front end, %d cut off)", rc.innerCalls, rc.outerSeen, rc.killed))
		}
	}
	replayed := ""
	if d.Replay != "" {
		wit["replay"] = map[string]any{"front_end_cut_first_arrival": rc.killed, "arrivals": rc.outerSeen, "connections_obtained_by_transport": o.gotConns,
			"first_arrival_content_length": rc.killCL, "first_arrival_body_read": rc.killRead, "first_arrival_crc32": rc.killCRC, "final_arrival_content_length": rc.wireCL, "final_arrival_consumed": rc.wireRead, "final_arrival_crc32": rc.wireCRC}
		switch {
		case rc.killed > 0 && rc.outerSeen > rc.killed:
			// net/http replayed the request: the replay must be the same request on the wire
			replayed = "replayed"
			replaysObserved.Add(1)
			c.Observe("replayed_exchanges(second arrival at the front end)", 1)
			c.Distinct("replayed_classes", d.Client, d.SizeCls, d.Replay)
			if rc.wireCL != rc.killCL {
				vio("replay", "replayed", fmt.Sprintf("the replayed %q request announces Content-Length %d, the first attempt announced %d", d.CE, rc.wireCL, rc.killCL))
			} else if rc.killFull && rc.wireRead == rc.wireCL && rc.killRead == rc.killCL && rc.wireCRC != rc.killCRC {
				vio("replay", "replayed", fmt.Sprintf("the replayed %q request carries different body bytes than the first attempt (crc32 %08x vs %08x, %d bytes)", d.CE, rc.wireCRC, rc.killCRC, rc.wireCL))
			} else if rc.killFull && rc.wireRead == rc.wireCL {
				c.Observe("replay_wire_bytes_identical", 1)
			}
		case rc.killed > 0:
			replayed = "cut-not-replayed"
			c.Observe("replay_cut_but_no_second_arrival", 1)
		case d.Replay == "idle-close" && o.gotConns > 1:
			replayed = "replayed"
			replaysObserved.Add(1)
			c.Observe("replayed_exchanges(after server-side idle close)", 1)
		default:
			replayed = "unreplayed"
			c.Observe("replay_cases_unreplayed", 1)
		}
	}

	// wire size: measured at the server (Content-Length of the request as received), else what the raw client sent
	W := rc.wireCL
	if W < 0 {
		W = int64(o.wireLen)
	}
	if d.Mode == "toclient" && rc.outerSeen > 0 && rc.wireCL < 0 {
		W = rc.wireRead
	}

	enabled := g.enabled[d.CE]
	sup := supported[d.CE]
	switch {
	case d.Mode == "corrupt":
		// a damaged stream: only the universal rules, plus no invented bytes
		c.Observe("corrupt_streams", 1)
		if enabled && sup && !bytes.HasPrefix(body, rc.got) {
			vio("corruption", "corrupt", fmt.Sprintf("handler read bytes that are not a prefix of the original body from a truncated %s stream", d.CE))
		}
		if o.cerr != nil && !retried {
			return true
		}
		if o.cerr != nil {
			c.Observe("corrupt_transport_error", 1)
		}
		c.Nontrivial(d.Mode, d.CE, lvl, d.SizeCls, "corrupt", d.List)
		return false

	case !enabled || !sup:
		rel := "not-enabled"
		if enabled && !sup {
			rel = "listed-unsupported"
		}
		amb := isAmbiguousHeader(d.CE, g.enabled) || (d.CE == "" && !enabled)
		okReject := o.cerr == nil && o.status >= 400 && o.status < 500 && rc.innerCalls == 0
		if okReject {
			c.Observe("rejected_"+rel, 1)
			c.Nontrivial(d.Mode, algoClass(d.CE), "-", d.SizeCls, rel, d.List)
			return false
		}
		if amb {
			// either reading is acceptable: clean rejection, or treated like the equivalent enabled coding
			if o.cerr == nil && o.status == 200 && rc.innerCalls == 1 && bytes.Equal(rc.got, body) {
				c.Observe("ambiguous_header_accepted", 1)
				return false
			}
			if o.cerr == nil && o.status >= 400 && o.status < 500 && bytes.HasPrefix(body, rc.got) && !rc.clean {
				c.Observe("ambiguous_header_refused", 1)
				return false
			}
		}
		if o.cerr != nil && !retried {
			return true
		}
		how := "status-" + strconv.Itoa(o.status/100) + "xx"
		switch {
		case rc.innerCalls > 0:
			how = "handler-called"
		case o.cerr != nil:
			how = "connection-aborted"
		}
		c.Violation("not-enabled", fmt.Sprintf("Content-Encoding %q is %s on this server but the request was not cleanly rejected with a client error: status=%d handler calls=%d client error=%v", d.CE, rel, o.status, rc.innerCalls, o.cerr),
			wit, "algo", algoClass(algo), "mode", d.Mode, "rel", rel, "list", d.List, "how", how)
		return false
	}

	// ---- enabled, well-formed
	if !bytes.HasPrefix(body, rc.got) {
		vio("corruption", "-", fmt.Sprintf("bytes read by the handler are not a prefix of the client's body: got %s", short(rc.got)))
	}
	rel := "within"
	switch {
	case D > L:
		rel = "decoded-over"
	case W > L:
		rel = "wire-over"
	}
	exact := o.cerr == nil && o.status == 200 && rc.innerCalls == 1 && rc.clean && bytes.Equal(rc.got, body)
	refused := !rc.clean && rc.gotN <= L && (o.cerr != nil || (o.status >= 400 && o.status < 500))
	switch rel {
	case "within":
		if !exact {
			if o.cerr != nil && !retried {
				return true
			}
			vio("roundtrip", rel, fmt.Sprintf("%s body of %d bytes (wire %d) within limit %d was not delivered exactly: status=%d calls=%d read=%d err=%q client error=%v",
				d.CE, D, W, L, o.status, rc.innerCalls, rc.gotN, rc.readErr, o.cerr))
			return false
		}
		c.Observe("within_limit_exact", 1)
		if d.CE == "" {
			// untouched: same length information, no encoding header invented
			if rc.innerCL != rc.wireCL || rc.innerCE != "" {
				vio("passthrough", rel, fmt.Sprintf("request without Content-Encoding was modified: Content-Length %d -> %d, Content-Encoding seen by handler %q", rc.wireCL, rc.innerCL, rc.innerCE))
			}
			c.Observe("passthrough_untouched", 1)
		} else if rc.innerCE != "" {
			// not demanded by the statement (the middleware documents that it removes the header): observation only
			c.Observe("handler_saw_content_encoding_after_decoding", 1)
		}
	case "decoded-over":
		if rc.clean || (o.cerr == nil && o.status < 400) {
			vio("truncated-success", rel, fmt.Sprintf("%s body of %d bytes over limit %d ended without an error: status=%d read=%d clean EOF=%v", d.CE, D, L, o.status, rc.gotN, rc.clean))
			return false
		}
		if !refused {
			if o.cerr != nil && !retried {
				return true
			}
			vio("refusal", rel, fmt.Sprintf("over-limit %s body not refused with a client error: status=%d client error=%v", d.CE, o.status, o.cerr))
			return false
		}
		c.Observe("refused_decoded_over_limit", 1)
		if W <= L && d.CE != "" {
			c.Observe("bombs_contained(wire<=limit<decoded)", 1)
			c.ObserveMax("max:expansion_ratio_contained", D/max64(W, 1))
		}
		if rc.innerCalls == 1 {
			c.Observe("over_limit_bytes_seen_by_handler", rc.gotN)
		}
	case "wire-over":
		// decoded fits, the compressed form does not: the same limit is applied to the wire on purpose
		if exact {
			c.Observe("wire_over_but_delivered", 1)
		} else if refused {
			c.Observe("refused_wire_over_limit", 1)
		} else {
			if o.cerr != nil && !retried {
				return true
			}
			vio("refusal", rel, fmt.Sprintf("%s body (decoded %d <= limit %d < wire %d) neither delivered exactly nor refused with a client error: status=%d read=%d clean=%v", d.CE, D, L, W, o.status, rc.gotN, rc.clean))
			return false
		}
	}
	c.Nontrivial(d.Mode, algoClass(d.CE), lvl, d.SizeCls, rel, d.List, replayed, d.Phase)
	if replayed == "replayed" && exact {
		c.Observe("replayed_and_delivered_exactly", 1)
	}
	c.Distinct("algo_level", d.Mode, d.CE, lvl)
	c.Distinct("buffer_sizes", d.Buf)
	return false
}

func max64(a, b int64) int64 {
	if a > b {
		return a
	}
	return b
}

func algoClass(ce string) string {
	if ce == "" {
		return "none"
	}
	if supported[ce] {
		return ce
	}
	t := strings.ToLower(strings.TrimSpace(ce))
	if supported[t] || t == "identity" {
		return "variant-of-" + t
	}
	if strings.Contains(ce, ",") {
		return "multi"
	}
	return "unknown"
}

// ---------------------------------------------------------------- workload

func sizeFor(rng *rand.Rand, cls string, L int64, codec string) int {
	capSz := 5 << 20
	var n int64
	switch cls {
	case "0":
		n = 0
	case "1":
		n = 1
	case "2":
		n = 2
	case "L-1":
		n = L - 1
	case "L":
		n = L
	case "L+1":
		n = L + 1
	case "2L":
		n = 2 * L
	case "L/2":
		n = L / 2
	case "blk-1", "blk", "blk+1":
		bs := boundaries[codec]
		if bs == nil {
			bs = boundaries[""]
		}
		n = int64(bs[rng.Intn(len(bs))]) + map[string]int64{"blk-1": -1, "blk": 0, "blk+1": 1}[cls]
	case "small":
		n = int64(rng.Intn(1024))
	case "medium":
		n = int64(rng.Intn(256 * 1024))
	case "large":
		n = int64(rng.Intn(2 << 20))
	case "nearL":
		n = L - 16 + int64(rng.Intn(33))
	}
	if n < 0 {
		n = 0
	}
	if n > int64(capSz) && L != defaultLimit {
		n = int64(capSz)
	}
	return int(n)
}

var sizeClasses = []string{"0", "1", "2", "L-1", "L", "L+1", "2L", "L/2", "blk-1", "blk", "blk+1", "small", "medium", "large", "nearL"}
var kinds = []string{"zeros", "rand", "text", "periodic", "mixed"}
var bufs = []int{1, 7, 512, 4096, 32*1024 + 1, 1 << 20}
var headerValues = []string{"br", "compress", "x-gzip", "identity", "GZIP", "Gzip", "ZSTD", " gzip", "gzip ", "gzip, gzip", "gzip,zstd", "none", "x-snappy-framed", "*", "gzip;q=1"}
var clientTypes = []string{"", "none", "gzip", "zlib", "deflate", "zstd", "snappy", "lz4"}

func pickBuf(rng *rand.Rand, size int) int {
	for {
		b := bufs[rng.Intn(len(bufs))]
		if b < 512 && size > 300000 {
			continue // byte-wise reading of large bodies only costs time
		}
		return b
	}
}

func (g *group) newDesc(mode string) *reqDesc {
	g.seq++
	return &reqDesc{ID: fmt.Sprintf("s%d-c%d", g.c.Shard, g.seq), Mode: mode, Limit: g.limit, EffLimit: g.L, List: g.ls.name}
}

func ceOfType(t string) string {
	if t == "none" {
		return ""
	}
	return t
}

// plan builds the request list of one group: a directed sweep over every client type at the limit
// boundaries, every hand-made header value, bombs, then random draws.
func (g *group) plan(rng *rand.Rand, nRandom int) []*reqDesc {
	var out []*reqDesc
	big := g.L == defaultLimit
	add := func(d *reqDesc) { out = append(out, d) }
	// 1. sweep: every client type x boundary sizes x {compressible, incompressible}
	types := clientTypes
	sweepSizes := []string{"0", "1", "L-1", "L", "L+1"}
	sweepKinds := []string{"zeros", "rand"}
	if len(g.enabled) < len(supported) {
		types = nil
		var off []string
		for _, t := range clientTypes {
			if g.enabled[ceOfType(t)] {
				types = append(types, t)
			} else {
				off = append(off, t)
			}
		}
		rng.Shuffle(len(off), func(i, j int) { off[i], off[j] = off[j], off[i] })
		if len(off) > 2 {
			off = off[:2]
		}
		types = append(types, off...)
	}
	if big {
		types = []string{"", clientTypes[2+rng.Intn(6)], clientTypes[2+rng.Intn(6)]}
		sweepSizes = []string{"0", "L", "L+1"}
		sweepKinds = []string{"zeros"}
	}
	for _, t := range types {
		for _, sc := range sweepSizes {
			for _, k := range sweepKinds {
				d := g.newDesc("toclient")
				d.Client, d.CE, d.Codec = t, ceOfType(t), ceOfType(t)
				d.Kind, d.SizeCls, d.BodySeed = k, sc, rng.Int63()
				d.Size = sizeFor(rng, sc, g.L, d.CE)
				d.Buf = pickBuf(rng, d.Size)
				add(d)
			}
		}
	}
	// 2. hand-made header values and disabled encodings
	for _, hv := range append(append([]string{}, headerValues...), codecs...) {
		d := g.newDesc("header")
		d.CE = hv
		d.Codec = []string{"", "gzip", "zstd"}[rng.Intn(3)]
		if supported[hv] {
			d.Codec = hv
		}
		d.Kind, d.SizeCls, d.BodySeed = kinds[rng.Intn(len(kinds))], "small", rng.Int63()
		d.Size = 1 + rng.Intn(200)
		if int64(d.Size) > g.L {
			d.Size = int(g.L)
		}
		d.Buf = 4096
		add(d)
	}
	// 3. bombs: small on the wire, far over the limit when decoded
	for _, cd := range codecs {
		d := g.newDesc("bomb")
		d.Codec, d.CE, d.Kind, d.SizeCls, d.BodySeed = cd, cd, "zeros", "bomb", rng.Int63()
		sz := g.L * 100
		if sz < 64*1024 {
			sz = 64 * 1024
		}
		if sz > 8<<20 {
			sz = 8 << 20
		}
		if big {
			sz = defaultLimit + 4096
		}
		d.Size = int(sz)
		d.Buf = []int{4096, 32*1024 + 1, 1 << 20}[rng.Intn(3)]
		d.Chunked = rng.Intn(2) == 0
		add(d)
		if big {
			break
		}
	}
	// 3b. replay dimension: every client compression type (and none), the front end cuts the reused connection once
	if !big {
		for _, t := range clientTypes {
			for _, sc := range []string{"L", []string{"1", "L-1", "L+1", "small", "medium", "blk+1", "nearL"}[rng.Intn(7)]} {
				d := g.newDesc("toclient")
				d.Client, d.CE, d.Codec = t, ceOfType(t), ceOfType(t)
				if d.CE != "" && rng.Intn(2) == 0 {
					lv := levelsFor(configcompression.Type(t))
					d.Level = lv[rng.Intn(len(lv))]
				}
				d.Kind, d.SizeCls, d.BodySeed = kinds[rng.Intn(len(kinds))], sc, rng.Int63()
				d.Size = sizeFor(rng, sc, g.L, d.CE)
				d.Buf = pickBuf(rng, d.Size)
				d.Replay = "kill-after-body"
				add(d)
			}
		}
	}
	// 4. random draws
	for i := 0; i < nRandom; i++ {
		var d *reqDesc
		switch p := rng.Intn(100); {
		case p < 55:
			d = g.newDesc("toclient")
			t := g.pickCodec(rng, clientTypes)
			d.Client, d.CE, d.Codec = t, ceOfType(t), ceOfType(t)
			if d.CE != "" {
				lv := levelsFor(configcompression.Type(t))
				d.Level = lv[rng.Intn(len(lv))]
			}
		case p < 85:
			d = g.newDesc("raw")
			d.Codec = g.pickCodec(rng, append([]string{""}, codecs...))
			d.CE = d.Codec
			d.Chunked = rng.Intn(3) == 0
			if d.CE != "" && rng.Intn(4) == 0 {
				d.Via = codecs[rng.Intn(len(codecs))]
				d.Chunked = false
			}
		case p < 93:
			d = g.newDesc("header")
			d.CE = headerValues[rng.Intn(len(headerValues))]
			d.Codec = append([]string{""}, codecs...)[rng.Intn(len(codecs)+1)]
		default:
			d = g.newDesc("corrupt")
			d.Codec = codecs[rng.Intn(len(codecs))]
			d.CE = d.Codec
		}
		d.Kind = kinds[rng.Intn(len(kinds))]
		d.SizeCls = sizeClasses[rng.Intn(len(sizeClasses))]
		if big {
			d.SizeCls = []string{"0", "1", "small", "medium", "blk", "blk+1"}[rng.Intn(6)]
		}
		d.BodySeed = rng.Int63()
		d.Size = sizeFor(rng, d.SizeCls, g.L, d.Codec)
		if d.Mode == "header" && d.Size > 4096 {
			d.Size = rng.Intn(4096)
			d.SizeCls = "small"
		}
		if d.Mode == "corrupt" && d.Size < 64 {
			d.Size = 64 + rng.Intn(5000)
			d.SizeCls = "small"
		}
		d.Buf = pickBuf(rng, d.Size)
		if d.Mode == "toclient" && !big && rng.Intn(8) == 0 {
			switch p := rng.Intn(10); {
			case p < 6 || d.Size > 2048 || d.CE == "":
				d.Replay = "kill-after-body"
			case p < 8:
				// only while headers and body leave the client in one write: a cut in the middle of the client's
				// writing is a broken connection for net/http, which it does not replay. That holds for small
				// compressed requests (in-memory buffer body); without compression otelhttp's body wrapper makes
				// net/http flush the headers first, so those are only cut after the body.
				d.Replay = "kill-after-headers"
			default:
				d.Replay = "idle-close"
			}
		}
		add(d)
	}
	return out
}

// ---------------------------------------------------------------- poison then overlap

var errPoison = errors.New("c16: body reader failed on purpose")

// failBody is a request body that breaks: its Read fails after FailAt bytes, or its Close fails.
type failBody struct {
	data    []byte
	k, pos  int
	variant string
}

func (f *failBody) Read(p []byte) (int, error) {
	limit := f.k
	if f.variant == "close-error" {
		limit = len(f.data)
	}
	if f.pos >= limit {
		if f.variant == "close-error" {
			return 0, io.EOF
		}
		return 0, errPoison
	}
	n := copy(p, f.data[f.pos:limit])
	f.pos += n
	return n, nil
}

func (f *failBody) Close() error {
	if f.variant == "close-error" {
		return errPoison
	}
	return nil
}

// nestReader performs a complete exchange of its own (same client settings, same compressor pool) from inside the
// first Read of the body it stands for: the outer compression holds a pooled writer while the inner one runs.
type nestReader struct {
	g     *group
	inner *reqDesc
	data  *bytes.Reader
	out   *outcome
}

func (n *nestReader) Read(p []byte) (int, error) {
	if n.out == nil {
		o := n.g.exec(n.inner, mkBody(n.inner.Kind, n.inner.Size, n.inner.BodySeed))
		n.out = &o
	}
	return n.data.Read(p)
}

var freshLevel atomic.Int64

// poison sends one request whose body breaks and checks that the failure surfaces as a client error and that no
// complete body reaches the handler.
func (g *group) poison(rng *rand.Rand, t string, level int) {
	c := g.c
	d := g.newDesc("toclient")
	d.Phase, d.Client, d.CE, d.Codec, d.Level = "poison", t, ceOfType(t), ceOfType(t), level
	d.Poison = []string{"read-error", "pipe-closed", "close-error"}[rng.Intn(3)]
	if d.CE == "" {
		d.Poison = "read-error" // without compression net/http owns the body; it ignores Close errors
	}
	d.Kind, d.BodySeed, d.Buf = kinds[rng.Intn(len(kinds))], rng.Int63(), 4096
	d.Size = []int{1, 100, 4096, 65536, 65537, 200000}[rng.Intn(6)]
	d.FailAt = []int{0, 1, d.Size / 2, d.Size - 1, 32768, 65536}[rng.Intn(6)]
	if d.FailAt >= d.Size || d.FailAt < 0 {
		d.FailAt = d.Size / 2
	}
	d.SizeCls = "poison"
	body := mkBody(d.Kind, d.Size, d.BodySeed)
	cl, err := g.client(t, level)
	if err != nil {
		c.Inconclusive("harness-setup")
		return
	}
	var rdr io.Reader = &failBody{data: body, k: d.FailAt, variant: d.Poison}
	if d.Poison == "pipe-closed" {
		pr, pw := io.Pipe()
		go func() {
			pw.Write(body[:d.FailAt])
			pw.CloseWithError(errPoison)
		}()
		rdr = pr
	}
	ctx, cancel := context.WithTimeout(context.Background(), netGuard)
	defer cancel()
	req, err := http.NewRequestWithContext(ctx, http.MethodPost, g.url, rdr)
	if err != nil {
		return
	}
	req.Header.Set("Content-Type", "application/octet-stream")
	req.Header.Set("X-Case", d.ID)
	req.Header.Set("X-Buf", "4096")
	var resp *http.Response
	status := 0
	pv, stack := driver.Catch(func() { resp, err = cl.Do(req) })
	if resp != nil {
		status = resp.StatusCode
		io.Copy(io.Discard, io.LimitReader(resp.Body, 1<<16))
		resp.Body.Close()
	}
	settled := g.settle()
	rc, _ := g.take(d.ID)
	wit := map[string]any{"request": *d, "status": status, "client_error": fmt.Sprint(err), "handler_calls": rc.innerCalls, "handler_read": rc.gotN, "handler_clean_eof": rc.clean}
	sig := []string{"algo", algoClass(d.CE), "poison", d.Poison, "list", d.List}
	switch {
	case pv != nil:
		wit["stack"] = stack
		c.Violation("panic", fmt.Sprintf("the confighttp client panicked on a body that fails: %v", pv), wit, "where", driver.PanicSite(stack), "list", "client-side")
		return
	case loopkit.IsTimeout(err) || !settled:
		c.Inconclusive("exchange-timeout")
		return
	}
	c.Eval()
	c.Observe("requests", 1)
	c.Observe("phase:poison", 1)
	if err == nil {
		c.Violation("poison", fmt.Sprintf("the client reported success (status %d) for a %s request whose body broke after %d of %d bytes (%s)", status, d.CE, d.FailAt, d.Size, d.Poison), wit, sig...)
	} else if rc.innerCalls > 0 && rc.clean {
		c.Violation("poison", fmt.Sprintf("a %s request whose body broke after %d of %d bytes (%s) reached the handler as a complete body of %d bytes", d.CE, d.FailAt, d.Size, d.Poison, rc.gotN), wit, sig...)
	} else {
		c.Observe("poisoned_requests_failed_cleanly", 1)
	}
	c.Nontrivial("poison", algoClass(d.CE), level < 0, d.Poison, d.FailAt == 0, g.ls.name)
}

// poisonThenOverlap: for one (compression type, level) - whose compressors live in one process-wide pool - first
// break 1-3 requests mid-body, then (optionally) run a request from inside another request's body reader, then start
// 4-16 exchanges with the same client settings off a barrier. Whatever the broken requests left in the pool, every
// later body must still arrive exactly.
func (g *group) poisonThenOverlap(rng *rand.Rand, t string) {
	level := 0
	if ceOfType(t) != "" {
		lv := levelsFor(configcompression.Type(t))
		level = lv[rng.Intn(len(lv))]
		if t == "zstd" && rng.Intn(2) == 0 {
			level = int(-1000 - freshLevel.Add(1)) // a level nobody used yet: its pool starts empty
		}
	}
	for i, n := 0, 1+rng.Intn(3); i < n; i++ {
		g.poison(rng, t, level)
	}
	mk := func(phase string) *reqDesc {
		d := g.newDesc("toclient")
		d.Phase, d.Client, d.CE, d.Codec, d.Level = phase, t, ceOfType(t), ceOfType(t), level
		d.Kind, d.BodySeed = kinds[rng.Intn(len(kinds))], rng.Int63()
		cls := []string{"small", "L/2", "L-1", "L", "nearL", "blk+1", ">block", ">block", ">block"}[rng.Intn(9)]
		d.SizeCls = cls
		if cls == ">block" {
			d.Size = []int{70000, 140000, 300000, 1 << 20}[rng.Intn(4)]
		} else {
			d.Size = sizeFor(rng, cls, g.L, d.CE)
		}
		if d.Size > 1<<20 {
			d.Size, d.SizeCls = 1<<20, ">block"
		}
		d.Buf = pickBuf(rng, d.Size)
		return d
	}
	if ceOfType(t) != "" && rng.Intn(2) == 0 {
		outer, inner := mk("nested-outer"), mk("nested-inner")
		outer.nest, outer.Nested = inner, inner.ID
		g.runWave([]*reqDesc{outer}, false)
	}
	n := []int{4, 4, 8, 8, 16}[rng.Intn(5)]
	wave := make([]*reqDesc, n)
	for i := range wave {
		wave[i] = mk("overlap-after-poison")
		if ceOfType(t) != "" && i%4 == 1 {
			// refused by the front end on its headers, while its (large, incompressible) compressed body is on its way
			wave[i].Early, wave[i].Kind, wave[i].Size, wave[i].SizeCls = true, "rand", 1<<20, ">block"
		}
	}
	g.runWave(wave, false)
	g.c.Distinct("poison_overlap_classes", t, level < -999, n)
}

// pickCodec draws from the candidates, three times out of four among those this server has enabled.
func (g *group) pickCodec(rng *rand.Rand, cands []string) string {
	if rng.Intn(4) != 0 {
		var on []string
		for _, t := range cands {
			if g.enabled[ceOfType(t)] && supported[ceOfType(t)] {
				on = append(on, t)
			}
		}
		if len(on) > 0 {
			return on[rng.Intn(len(on))]
		}
	}
	return cands[rng.Intn(len(cands))]
}

func (g *group) runWave(wave []*reqDesc, retried bool) {
	bodies := make([][]byte, len(wave))
	outs := make([]outcome, len(wave))
	var wg sync.WaitGroup
	if len(wave) > 1 {
		// start the client calls of a wave off a barrier so that they really overlap
		var arrive sync.WaitGroup
		gate := make(chan struct{})
		arrive.Add(len(wave))
		for _, d := range wave {
			d.arrive, d.gate = &arrive, gate
		}
		go func() { arrive.Wait(); close(gate) }()
	}
	for i, d := range wave {
		bodies[i] = mkBody(d.Kind, d.Size, d.BodySeed)
		wg.Add(1)
		go func(i int, d *reqDesc) {
			defer wg.Done()
			outs[i] = g.exec(d, bodies[i])
		}(i, d)
	}
	wg.Wait()
	settled := g.settle()
	logs := g.logs.Drain()
	if p := loopkit.PanicIn(logs); p != "" {
		descs := []reqDesc{}
		for _, d := range wave {
			descs = append(descs, *d)
		}
		g.c.Violation("panic", "the server's handler chain panicked while serving a request: "+firstLine(p), map[string]any{"requests_in_flight": descs, "log": p},
			"where", loopkit.RepoFrame(p), "list", g.ls.name)
	}
	var again []*reqDesc
	for i, d := range wave {
		if !settled {
			g.c.Inconclusive("server-did-not-settle")
			continue
		}
		outs[i].rc, outs[i].hasRec = g.take(d.ID)
		more := g.evaluate(d, bodies[i], outs[i], retried)
		if d.nest != nil && outs[i].nested != nil {
			no := *outs[i].nested
			no.rc, no.hasRec = g.take(d.nest.ID)
			if g.evaluate(d.nest, mkBody(d.nest.Kind, d.nest.Size, d.nest.BodySeed), no, retried) {
				more = true
			}
		}
		if more {
			again = append(again, d)
		}
	}
	if len(again) > 0 && !retried {
		// a transport error that is no timeout: decide by repeating once on fresh connections —
		// a defect is deterministic, a load artefact is not
		g.raw.CloseIdleConnections()
		for _, d := range again {
			g.c.Observe("transport_error_repeated", 1)
			nd := *d
			nd.ID = d.ID + "-again"
			nd.arrive, nd.gate = nil, nil
			if d.nest != nil {
				in := *d.nest
				in.ID += "-again"
				nd.nest, nd.Nested = &in, in.ID
			}
			g.runWave([]*reqDesc{&nd}, true)
		}
	}
}

func firstLine(s string) string {
	if i := strings.Index(s, "\n"); i > 0 {
		s = s[:i]
	}
	if len(s) > 200 {
		s = s[:200]
	}
	return s
}

// reproducers are the directed witnesses of the known findings; they run in every run (case 0 of shard 0).
func reproducers(c *driver.Ctx, clients map[string]*http.Client) {
	// C16-a: an algorithm name in compression_algorithms that the server cannot decode is stored as a nil
	// decoder; a request carrying that Content-Encoding makes the middleware call the nil function.
	g, err := startGroup(c, 1000, lists[len(lists)-1])
	if err != nil {
		c.Note("reproducer server start failed: %v", err)
		return
	}
	g.clients = clients
	d := g.newDesc("header")
	d.ID = "repro-C16-a"
	d.CE, d.Codec, d.Kind, d.Size, d.SizeCls, d.Buf = "br", "", "text", 20, "small", 4096
	g.runWave([]*reqDesc{d}, false)
	g.stop()
}

func run(c *driver.Ctx) {
	nGroups := int64(c.N(7, 48)) // x16 shards: 112 groups cover all 110 (limit, list) pairs already in the quick tier; thorough = 768 groups
	nRandom := c.N(100, 400)
	clients := map[string]*http.Client{}
	for i := int64(0); i < nGroups; i++ {
		if !c.Want(i) {
			continue
		}
		rng := c.CaseRand(i)
		if i == 0 && c.Shard == 0 {
			reproducers(c, clients)
		}
		// len(limits)=10 and len(lists)=11 are coprime: 110 consecutive indices enumerate every (limit, list) pair once
		idx := int(i)*c.NShards + c.Shard + int(c.Seed%1000)*17
		limit := limits[idx%len(limits)]
		if limit == 0 && rng.Intn(2) == 0 {
			limit = -1
		}
		ls := lists[idx%len(lists)]
		g, err := startGroup(c, limit, ls)
		if err != nil {
			c.Inconclusive("server-start")
			c.Note("server start failed: %v", err)
			continue
		}
		g.clients = clients
		c.Distinct("server_configs", limit, ls.name)
		plan := g.plan(rng, nRandom)
		if i == 0 && c.Shard == 0 {
			first := []reqDesc{*plan[0], *plan[1], *plan[2]} // copies: the descriptors are completed later while the driver may be marshalling samples
			c.Sample(map[string]any{"group": map[string]any{"limit": limit, "list": ls.list}, "first_requests": first, "requests_in_group": len(plan)})
		}
		for off := 0; off < len(plan); {
			par := 1
			if rng.Intn(3) == 0 {
				par = 4
			}
			if g.L == defaultLimit {
				par = 1
			}
			end := off + 1
			// replay cases run alone: another exchange must not take the primed idle connection
			for end < len(plan) && end-off < par && plan[off].Replay == "" && plan[end].Replay == "" {
				end++
			}
			g.runWave(plan[off:end], false)
			off = end
		}
		for _, t := range clientTypes[1:] { // "none" and the six codecs
			if !g.enabled[ceOfType(t)] && rng.Intn(4) != 0 {
				continue // a server that rejects the coding only shows client-side failures: mostly skip
			}
			g.poisonThenOverlap(rng, t)
		}
		g.stop()
		c.Progress()
	}
	names := make([]string, 0, len(clients))
	for k := range clients {
		names = append(names, k)
	}
	sort.Strings(names)
	c.Observe("client_configs_built", int64(len(names)))
	c.Observe("replay_attempts", replayAttempts.Load())
	if c.Only < 0 && replayAttempts.Load() >= 10 && replaysObserved.Load() == 0 {
		// the replay dimension observed nothing on this shard: not a verdict, the run must not count as "held"
		replayFloorFailed = true
		c.Note("replay floor: %d exchanges were sent with a cut order but no request arrived twice at the front end", replayAttempts.Load())
	}
}

func main() {
	driver.Main(driver.Spec{
		ID:    "C16",
		Level: "exploration",
		Rule: "a case is one HTTP exchange through confighttp's client and/or server middleware; cases are grouped by server configuration (max_request_body_size x compression_algorithms list), each group = directed sweep (every client compression type x sizes {0,1,limit-1,limit,limit+1} x {compressible,incompressible}; every hand-made Content-Encoding value; one decompression bomb per codec) + seeded random draws (type x every level ValidateParams accepts x size class incl. codec block boundaries +-1 x body kind x handler buffer size x chunked/sized, hand-compressed variants, truncated streams) + the replay dimension (ToClient exchanges marked idempotent whose reused keep-alive connection is cut once by the front end - after the body, after the headers of a single-write request, or by a server-side close of the idle connection - so that http.Transport replays the compressed request through GetBody; every client compression type + none) + per group and compression type a 'poison then overlap' phase (1-3 requests whose body reader fails after a seed-chosen number of bytes or whose Close fails; optionally an exchange performed from inside another exchange's body reader; then 4-16 exchanges with the same type/level started off a barrier, sizes incl. several codec blocks; zstd also at a level nobody used before so that the process-wide compressor pool starts empty); " +
			"distinct = (mode, algorithm or header class, level, size class, relation to the limit {within, wire-over, decoded-over, not-enabled, listed-unsupported, corrupt}, decoder list); every counted case is non-trivial (it reached the middleware and was decided by the oracle)",
		Assumptions: []string{
			"'within limit' means max(size on the wire, decoded size) <= max_request_body_size, because the middleware deliberately applies the same limit to the compressed request; the wire size is the Content-Length measured by an observer handler in front of the chain (bytes consumed for chunked requests); decoded<=limit<wire only requires 'delivered exactly or refused with a client error'",
			"Content-Encoding values that differ from an enabled one only in case or white space, 'identity', and a request without encoding when \"\" is not in the list may either be rejected cleanly or be treated as the equivalent coding",
			"truncated compressed streams are only subject to the universal rules (read <= limit, no invented bytes, no panic): snappy framing has no end marker",
			"replay dimension: the front end only cuts a connection that already served a request (for the client: a reused one) and, for bodies that need more than one write, only after it has read the whole request, because net/http replays idempotent requests only in these situations; a replay is counted when the same request id arrives a second time at the front end; a shard that sent >= 10 cut orders and saw no replay exits 3 (infrastructure, exit 2 of the check); HTTP/2 GOAWAY replays are not exercised (the loop-back hop is HTTP/1.1)",
			"a client-side timeout (90 s guard) is inconclusive; another transport error is repeated once on a fresh connection and only counts when it repeats",
		},
		TrustedBase:   []string{"net/http client and server", "compress/gzip, compress/zlib, github.com/golang/snappy, github.com/klauspost/compress/zstd, github.com/pierrec/lz4/v4 as used by the harness to hand-compress and by the code under test"},
		Shards:        func(string) int { return 16 },
		MinNontrivial: func(tier string) int { return map[string]int{"quick": 300, "thorough": 1500}[tier] },
		ShardTimeout:  func(string) time.Duration { return 40 * time.Minute },
		Run:           run,
		MaxSamples:    1,
	})
	// only reached in a child (the parent exits inside driver.Main), after the shard result was written
	if replayFloorFailed {
		fmt.Fprintln(os.Stderr, "INFRA: replay floor not reached: no exchange was replayed by net/http on this shard although connections were cut")
		os.Exit(3)
	}
}
