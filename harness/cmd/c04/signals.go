package main

import (
	"sort"
	"strings"

	"go.opentelemetry.io/collector/exporter/exporterhelper"
	"go.opentelemetry.io/collector/exporter/exporterhelper/xexporterhelper"
	"go.opentelemetry.io/collector/pdata/pcommon"
	"go.opentelemetry.io/collector/pdata/plog"
	"go.opentelemetry.io/collector/pdata/pmetric"
	"go.opentelemetry.io/collector/pdata/pprofile"
	"go.opentelemetry.io/collector/pdata/ptrace"
	"go.opentelemetry.io/collector/verifharness/lib/canon"
	"go.opentelemetry.io/collector/verifharness/lib/gen"
)

// signal adapts one telemetry signal: how payloads are generated, (de)serialised with the pdata proto
// codec (trusted base), flattened, and how large every indivisible unit is on its own.
type signal struct {
	name     string
	settings exporterhelper.QueueBatchSettings
	gen      func(g *gen.G) any
	marshal  func(p any) ([]byte, error)
	decode   func(b []byte) (any, error)
	flatten  func(p any) ([]canon.Record, string)
	// units returns the number of indivisible units of a payload: leaves, except for profiles where the
	// implementation treats a whole profile as indivisible (being generous to the code under test).
	units func(p any) int
	// unitBytes returns, for every indivisible unit and for every empty container, the byte size of a
	// request that holds only this unit with its resource / scope (/ metric) context.
	unitBytes func(p any) []int
	bytesOf   func(p any) int
	json      func(p any) string
	// samplesNotOne (profiles only): some profile has a number of samples different from one.
	samplesNotOne func(p any) bool
	// owners returns the distinct owners of the resource entries of a payload (gen stores "<owner>/R<i>" in the
	// resource attribute "rid"): every part of a request, also one without leaf items, sits under such an entry.
	owners func(p any) []string
}

func ownerOfRes(res pcommon.Resource, set map[string]struct{}) {
	if v, ok := res.Attributes().Get("rid"); ok {
		rid := v.Str()
		if i := strings.Index(rid, "/R"); i > 0 {
			set[rid[:i]] = struct{}{}
		}
	}
}

// oversizeCause classifies an emitted batch that exceeds max_size although it holds several units.
// metrics: "empty-metric-shell" when the batch would respect max_size without its metrics that hold no
// data point (the bytes split appends a metric without points, and copies of its scope and resource,
// when not even one point of the next metric fits), else "points".
func oversizeCause(s *signal, p any, max int64) string {
	if s.name != "metrics" {
		return "-"
	}
	x := pmetric.NewMetrics()
	p.(pmetric.Metrics).CopyTo(x)
	x.ResourceMetrics().RemoveIf(func(rm pmetric.ResourceMetrics) bool {
		rm.ScopeMetrics().RemoveIf(func(sm pmetric.ScopeMetrics) bool {
			sm.Metrics().RemoveIf(func(m pmetric.Metric) bool {
				switch m.Type() {
				case pmetric.MetricTypeGauge:
					return m.Gauge().DataPoints().Len() == 0
				case pmetric.MetricTypeSum:
					return m.Sum().DataPoints().Len() == 0
				case pmetric.MetricTypeHistogram:
					return m.Histogram().DataPoints().Len() == 0
				case pmetric.MetricTypeExponentialHistogram:
					return m.ExponentialHistogram().DataPoints().Len() == 0
				case pmetric.MetricTypeSummary:
					return m.Summary().DataPoints().Len() == 0
				}
				return true
			})
			return sm.Metrics().Len() == 0
		})
		return rm.ScopeMetrics().Len() == 0
	})
	if int64(s.bytesOf(x)) <= max {
		return "empty-metric-shell"
	}
	return "points"
}

func sortedKeys(set map[string]struct{}) []string {
	out := make([]string, 0, len(set))
	for k := range set {
		out = append(out, k)
	}
	sort.Strings(out)
	return out
}

var signals = []*signal{logsSignal(), tracesSignal(), metricsSignal(), profilesSignal()}

func signalByName(n string) *signal {
	for _, s := range signals {
		if s.name == n {
			return s
		}
	}
	return nil
}

func clipStr(s string, n int) string {
	if len(s) > n {
		return s[:n] + "…(clipped)"
	}
	return s
}

func logsSignal() *signal {
	m, u, j := &plog.ProtoMarshaler{}, &plog.ProtoUnmarshaler{}, &plog.JSONMarshaler{}
	return &signal{
		name: "logs", settings: exporterhelper.NewLogsQueueBatchSettings(),
		gen:     func(g *gen.G) any { return g.Logs() },
		marshal: func(p any) ([]byte, error) { return m.MarshalLogs(p.(plog.Logs)) },
		decode:  func(b []byte) (any, error) { return u.UnmarshalLogs(b) },
		flatten: func(p any) ([]canon.Record, string) { return canon.FlattenLogs(p.(plog.Logs)) },
		units:   func(p any) int { return p.(plog.Logs).LogRecordCount() },
		owners: func(p any) []string {
			set := map[string]struct{}{}
			for i := 0; i < p.(plog.Logs).ResourceLogs().Len(); i++ {
				ownerOfRes(p.(plog.Logs).ResourceLogs().At(i).Resource(), set)
			}
			return sortedKeys(set)
		},
		bytesOf: func(p any) int { return m.LogsSize(p.(plog.Logs)) },
		json: func(p any) string {
			b, _ := j.MarshalLogs(p.(plog.Logs))
			return clipStr(string(b), 6000)
		},
		unitBytes: func(p any) []int {
			var out []int
			ld := p.(plog.Logs)
			for i := 0; i < ld.ResourceLogs().Len(); i++ {
				rl := ld.ResourceLogs().At(i)
				mkR := func() (plog.Logs, plog.ResourceLogs) {
					x := plog.NewLogs()
					xr := x.ResourceLogs().AppendEmpty()
					rl.Resource().CopyTo(xr.Resource())
					xr.SetSchemaUrl(rl.SchemaUrl())
					return x, xr
				}
				if rl.ScopeLogs().Len() == 0 {
					x, _ := mkR()
					out = append(out, m.LogsSize(x))
				}
				for j := 0; j < rl.ScopeLogs().Len(); j++ {
					sl := rl.ScopeLogs().At(j)
					mkS := func() (plog.Logs, plog.ScopeLogs) {
						x, xr := mkR()
						xs := xr.ScopeLogs().AppendEmpty()
						sl.Scope().CopyTo(xs.Scope())
						xs.SetSchemaUrl(sl.SchemaUrl())
						return x, xs
					}
					if sl.LogRecords().Len() == 0 {
						x, _ := mkS()
						out = append(out, m.LogsSize(x))
					}
					for k := 0; k < sl.LogRecords().Len(); k++ {
						x, xs := mkS()
						sl.LogRecords().At(k).CopyTo(xs.LogRecords().AppendEmpty())
						out = append(out, m.LogsSize(x))
					}
				}
			}
			return out
		},
	}
}

func tracesSignal() *signal {
	m, u, j := &ptrace.ProtoMarshaler{}, &ptrace.ProtoUnmarshaler{}, &ptrace.JSONMarshaler{}
	return &signal{
		name: "traces", settings: exporterhelper.NewTracesQueueBatchSettings(),
		gen:     func(g *gen.G) any { return g.Traces() },
		marshal: func(p any) ([]byte, error) { return m.MarshalTraces(p.(ptrace.Traces)) },
		decode:  func(b []byte) (any, error) { return u.UnmarshalTraces(b) },
		flatten: func(p any) ([]canon.Record, string) { return canon.FlattenTraces(p.(ptrace.Traces)) },
		units:   func(p any) int { return p.(ptrace.Traces).SpanCount() },
		owners: func(p any) []string {
			set := map[string]struct{}{}
			for i := 0; i < p.(ptrace.Traces).ResourceSpans().Len(); i++ {
				ownerOfRes(p.(ptrace.Traces).ResourceSpans().At(i).Resource(), set)
			}
			return sortedKeys(set)
		},
		bytesOf: func(p any) int { return m.TracesSize(p.(ptrace.Traces)) },
		json: func(p any) string {
			b, _ := j.MarshalTraces(p.(ptrace.Traces))
			return clipStr(string(b), 6000)
		},
		unitBytes: func(p any) []int {
			var out []int
			td := p.(ptrace.Traces)
			for i := 0; i < td.ResourceSpans().Len(); i++ {
				rs := td.ResourceSpans().At(i)
				mkR := func() (ptrace.Traces, ptrace.ResourceSpans) {
					x := ptrace.NewTraces()
					xr := x.ResourceSpans().AppendEmpty()
					rs.Resource().CopyTo(xr.Resource())
					xr.SetSchemaUrl(rs.SchemaUrl())
					return x, xr
				}
				if rs.ScopeSpans().Len() == 0 {
					x, _ := mkR()
					out = append(out, m.TracesSize(x))
				}
				for j := 0; j < rs.ScopeSpans().Len(); j++ {
					ss := rs.ScopeSpans().At(j)
					mkS := func() (ptrace.Traces, ptrace.ScopeSpans) {
						x, xr := mkR()
						xs := xr.ScopeSpans().AppendEmpty()
						ss.Scope().CopyTo(xs.Scope())
						xs.SetSchemaUrl(ss.SchemaUrl())
						return x, xs
					}
					if ss.Spans().Len() == 0 {
						x, _ := mkS()
						out = append(out, m.TracesSize(x))
					}
					for k := 0; k < ss.Spans().Len(); k++ {
						x, xs := mkS()
						ss.Spans().At(k).CopyTo(xs.Spans().AppendEmpty())
						out = append(out, m.TracesSize(x))
					}
				}
			}
			return out
		},
	}
}

// metricShell copies the identity of a metric (not its points) into a fresh metric of the same type.
func metricShell(src, dst pmetric.Metric) {
	dst.SetName(src.Name())
	dst.SetUnit(src.Unit())
	dst.SetDescription(src.Description())
	src.Metadata().CopyTo(dst.Metadata())
	switch src.Type() {
	case pmetric.MetricTypeGauge:
		dst.SetEmptyGauge()
	case pmetric.MetricTypeSum:
		s := dst.SetEmptySum()
		s.SetAggregationTemporality(src.Sum().AggregationTemporality())
		s.SetIsMonotonic(src.Sum().IsMonotonic())
	case pmetric.MetricTypeHistogram:
		dst.SetEmptyHistogram().SetAggregationTemporality(src.Histogram().AggregationTemporality())
	case pmetric.MetricTypeExponentialHistogram:
		dst.SetEmptyExponentialHistogram().SetAggregationTemporality(src.ExponentialHistogram().AggregationTemporality())
	case pmetric.MetricTypeSummary:
		dst.SetEmptySummary()
	}
}

func metricsSignal() *signal {
	m, u, j := &pmetric.ProtoMarshaler{}, &pmetric.ProtoUnmarshaler{}, &pmetric.JSONMarshaler{}
	return &signal{
		name: "metrics", settings: exporterhelper.NewMetricsQueueBatchSettings(),
		gen:     func(g *gen.G) any { return g.Metrics() },
		marshal: func(p any) ([]byte, error) { return m.MarshalMetrics(p.(pmetric.Metrics)) },
		decode:  func(b []byte) (any, error) { return u.UnmarshalMetrics(b) },
		flatten: func(p any) ([]canon.Record, string) { return canon.FlattenMetrics(p.(pmetric.Metrics)) },
		units:   func(p any) int { return p.(pmetric.Metrics).DataPointCount() },
		owners: func(p any) []string {
			set := map[string]struct{}{}
			for i := 0; i < p.(pmetric.Metrics).ResourceMetrics().Len(); i++ {
				ownerOfRes(p.(pmetric.Metrics).ResourceMetrics().At(i).Resource(), set)
			}
			return sortedKeys(set)
		},
		bytesOf: func(p any) int { return m.MetricsSize(p.(pmetric.Metrics)) },
		json: func(p any) string {
			b, _ := j.MarshalMetrics(p.(pmetric.Metrics))
			return clipStr(string(b), 6000)
		},
		unitBytes: func(p any) []int {
			var out []int
			md := p.(pmetric.Metrics)
			for i := 0; i < md.ResourceMetrics().Len(); i++ {
				rm := md.ResourceMetrics().At(i)
				mkR := func() (pmetric.Metrics, pmetric.ResourceMetrics) {
					x := pmetric.NewMetrics()
					xr := x.ResourceMetrics().AppendEmpty()
					rm.Resource().CopyTo(xr.Resource())
					xr.SetSchemaUrl(rm.SchemaUrl())
					return x, xr
				}
				if rm.ScopeMetrics().Len() == 0 {
					x, _ := mkR()
					out = append(out, m.MetricsSize(x))
				}
				for j := 0; j < rm.ScopeMetrics().Len(); j++ {
					sm := rm.ScopeMetrics().At(j)
					mkS := func() (pmetric.Metrics, pmetric.ScopeMetrics) {
						x, xr := mkR()
						xs := xr.ScopeMetrics().AppendEmpty()
						sm.Scope().CopyTo(xs.Scope())
						xs.SetSchemaUrl(sm.SchemaUrl())
						return x, xs
					}
					if sm.Metrics().Len() == 0 {
						x, _ := mkS()
						out = append(out, m.MetricsSize(x))
					}
					for k := 0; k < sm.Metrics().Len(); k++ {
						mt := sm.Metrics().At(k)
						mkM := func() (pmetric.Metrics, pmetric.Metric) {
							x, xs := mkS()
							xm := xs.Metrics().AppendEmpty()
							metricShell(mt, xm)
							return x, xm
						}
						n := 0
						switch mt.Type() {
						case pmetric.MetricTypeGauge:
							for n = 0; n < mt.Gauge().DataPoints().Len(); n++ {
								x, xm := mkM()
								mt.Gauge().DataPoints().At(n).CopyTo(xm.Gauge().DataPoints().AppendEmpty())
								out = append(out, m.MetricsSize(x))
							}
						case pmetric.MetricTypeSum:
							for n = 0; n < mt.Sum().DataPoints().Len(); n++ {
								x, xm := mkM()
								mt.Sum().DataPoints().At(n).CopyTo(xm.Sum().DataPoints().AppendEmpty())
								out = append(out, m.MetricsSize(x))
							}
						case pmetric.MetricTypeHistogram:
							for n = 0; n < mt.Histogram().DataPoints().Len(); n++ {
								x, xm := mkM()
								mt.Histogram().DataPoints().At(n).CopyTo(xm.Histogram().DataPoints().AppendEmpty())
								out = append(out, m.MetricsSize(x))
							}
						case pmetric.MetricTypeExponentialHistogram:
							for n = 0; n < mt.ExponentialHistogram().DataPoints().Len(); n++ {
								x, xm := mkM()
								mt.ExponentialHistogram().DataPoints().At(n).CopyTo(xm.ExponentialHistogram().DataPoints().AppendEmpty())
								out = append(out, m.MetricsSize(x))
							}
						case pmetric.MetricTypeSummary:
							for n = 0; n < mt.Summary().DataPoints().Len(); n++ {
								x, xm := mkM()
								mt.Summary().DataPoints().At(n).CopyTo(xm.Summary().DataPoints().AppendEmpty())
								out = append(out, m.MetricsSize(x))
							}
						}
						if n == 0 {
							x, _ := mkM()
							out = append(out, m.MetricsSize(x))
						}
					}
				}
			}
			return out
		},
	}
}

func profilesSignal() *signal {
	m, u, j := &pprofile.ProtoMarshaler{}, &pprofile.ProtoUnmarshaler{}, &pprofile.JSONMarshaler{}
	eachProfile := func(pd pprofile.Profiles, f func(rp pprofile.ResourceProfiles, sp pprofile.ScopeProfiles, p pprofile.Profile)) {
		for i := 0; i < pd.ResourceProfiles().Len(); i++ {
			rp := pd.ResourceProfiles().At(i)
			for j := 0; j < rp.ScopeProfiles().Len(); j++ {
				sp := rp.ScopeProfiles().At(j)
				for k := 0; k < sp.Profiles().Len(); k++ {
					f(rp, sp, sp.Profiles().At(k))
				}
			}
		}
	}
	return &signal{
		name: "profiles", settings: xexporterhelper.NewProfilesQueueBatchSettings(),
		gen:     func(g *gen.G) any { return g.Profiles() },
		marshal: func(p any) ([]byte, error) { return m.MarshalProfiles(p.(pprofile.Profiles)) },
		decode:  func(b []byte) (any, error) { return u.UnmarshalProfiles(b) },
		flatten: func(p any) ([]canon.Record, string) { return canon.FlattenProfiles(p.(pprofile.Profiles)) },
		units: func(p any) int {
			n := 0
			eachProfile(p.(pprofile.Profiles), func(pprofile.ResourceProfiles, pprofile.ScopeProfiles, pprofile.Profile) { n++ })
			return n
		},
		bytesOf: func(p any) int { return m.ProfilesSize(p.(pprofile.Profiles)) },
		owners: func(p any) []string {
			set := map[string]struct{}{}
			for i := 0; i < p.(pprofile.Profiles).ResourceProfiles().Len(); i++ {
				ownerOfRes(p.(pprofile.Profiles).ResourceProfiles().At(i).Resource(), set)
			}
			return sortedKeys(set)
		},
		json: func(p any) string {
			b, _ := j.MarshalProfiles(p.(pprofile.Profiles))
			return clipStr(string(b), 6000)
		},
		samplesNotOne: func(p any) bool {
			bad := false
			eachProfile(p.(pprofile.Profiles), func(_ pprofile.ResourceProfiles, _ pprofile.ScopeProfiles, pr pprofile.Profile) {
				if pr.Sample().Len() != 1 {
					bad = true
				}
			})
			return bad
		},
		unitBytes: func(p any) []int {
			var out []int
			pd := p.(pprofile.Profiles)
			for i := 0; i < pd.ResourceProfiles().Len(); i++ {
				rp := pd.ResourceProfiles().At(i)
				mkR := func() (pprofile.Profiles, pprofile.ResourceProfiles) {
					x := pprofile.NewProfiles()
					xr := x.ResourceProfiles().AppendEmpty()
					rp.Resource().CopyTo(xr.Resource())
					xr.SetSchemaUrl(rp.SchemaUrl())
					return x, xr
				}
				if rp.ScopeProfiles().Len() == 0 {
					x, _ := mkR()
					out = append(out, m.ProfilesSize(x))
				}
				for j := 0; j < rp.ScopeProfiles().Len(); j++ {
					sp := rp.ScopeProfiles().At(j)
					mkS := func() (pprofile.Profiles, pprofile.ScopeProfiles) {
						x, xr := mkR()
						xs := xr.ScopeProfiles().AppendEmpty()
						sp.Scope().CopyTo(xs.Scope())
						xs.SetSchemaUrl(sp.SchemaUrl())
						return x, xs
					}
					if sp.Profiles().Len() == 0 {
						x, _ := mkS()
						out = append(out, m.ProfilesSize(x))
					}
					for k := 0; k < sp.Profiles().Len(); k++ {
						x, xs := mkS()
						sp.Profiles().At(k).CopyTo(xs.Profiles().AppendEmpty())
						out = append(out, m.ProfilesSize(x))
					}
				}
			}
			return out
		},
	}
}
