package main

// L1: Request.MergeSplit called directly, all four signals.
//
// A case is a sequence of 1..6 requests fed through MergeSplit exactly like the batcher does it
// (first request: r.MergeSplit(max, sizer, nil); afterwards cur.MergeSplit(max, sizer, next); all
// outputs but the last are emitted, the last one is either kept as the current batch or emitted).
// Every case is executed in a sub-child process that guards its own CPU time and live heap, because a
// MergeSplit that does not terminate cannot be stopped from inside the process (it allocates without
// bound). The case is fully built (payload bytes) by the shard child before it is handed over, so a
// killed sub-child leaves the witness behind.

import (
	"bufio"
	"bytes"
	"context"
	"encoding/json"
	"fmt"
	"io"
	"math/rand"
	"os"
	"os/exec"
	"runtime/metrics"
	"sort"
	"strings"
	"sync"
	"sync/atomic"
	"syscall"
	"time"

	"go.opentelemetry.io/collector/exporter/exporterhelper"
	"go.opentelemetry.io/collector/pdata/plog"
	"go.opentelemetry.io/collector/pdata/pmetric"
	"go.opentelemetry.io/collector/pdata/pprofile"
	"go.opentelemetry.io/collector/pdata/ptrace"
	"go.opentelemetry.io/collector/verifharness/lib/canon"
	"go.opentelemetry.io/collector/verifharness/lib/driver"
	"go.opentelemetry.io/collector/verifharness/lib/gen"
)

type l1Case struct {
	Signal   string   `json:"signal"`
	Sizer    string   `json:"sizer"` // items | bytes
	Max      int      `json:"max_size"`
	Keep     []bool   `json:"keep_last_as_current_batch"`
	Payloads [][]byte `json:"payloads_otlp_proto"`
	Class    string   `json:"input_class"`
	MaxUnit  int      `json:"largest_indivisible_unit_bytes,omitempty"`
	Total    int      `json:"total_size_in_unit"`
	Directed string   `json:"directed,omitempty"`
	Mode     string   `json:"mode,omitempty"` // "" | wrongtype
}

func sizerType(name string) exporterhelper.RequestSizerType {
	if name == "bytes" {
		return exporterhelper.RequestSizerTypeBytes
	}
	return exporterhelper.RequestSizerTypeItems
}

func pickWeighted(rng *rand.Rand, w []int) int {
	t := 0
	for _, x := range w {
		t += x
	}
	r := rng.Intn(t)
	for i, x := range w {
		if r < x {
			return i
		}
		r -= x
	}
	return len(w) - 1
}

// nearSlack: the bytes split reserves the length prefixes of the enclosing resource / scope / metric messages for
// the remaining capacity instead of the actual size; per nesting level that can be off by one byte (two across
// both varint thresholds), so a unit closer than this to max_size may be judged "does not fit" by the code.
const nearSlack = 8

// classify computes the input class (independent of what the code under test does with the input).
func classify(s *signal, sizer string, max int, payloads []any) (class string, maxUnit int) {
	if sizer == "bytes" {
		for _, p := range payloads {
			for _, u := range s.unitBytes(p) {
				if u > maxUnit {
					maxUnit = u
				}
			}
		}
		switch {
		case max > 0 && maxUnit > max:
			return "unit>max", maxUnit
		case max > 0 && max-maxUnit < nearSlack:
			return "unit-within-8-of-max", maxUnit
		}
		return "units-fit", maxUnit
	}
	if s.samplesNotOne != nil {
		for _, p := range payloads {
			if s.samplesNotOne(p) {
				return "profile-samples!=1", 0
			}
		}
	}
	return "uniform", 0
}

// buildL1 draws one case. rare scales the probability of the two input classes that are known not to terminate on
// the pinned tree (each such case costs a sub-child): the larger thorough list draws them less often per case.
func buildL1(rng *rand.Rand, rare float64) *l1Case {
	s := signals[rng.Intn(len(signals))]
	cs := &l1Case{Signal: s.name, Sizer: "items"}
	if rng.Intn(2) == 0 {
		cs.Sizer = "bytes"
	}
	n := 1 + pickWeighted(rng, []int{35, 25, 15, 10, 8, 7})
	cfg := gen.Default()
	switch rng.Intn(12) {
	case 0: // one-item payloads
		cfg = gen.Config{MaxResources: 1, MaxScopes: 1, MaxItems: 1, MaxPoints: 1, NonEmpty: true, OversizeBytes: cfg.OversizeBytes}
	case 1, 2:
		cfg.Lean = true
	case 3: // one container, many items
		cfg = gen.Config{MaxResources: 1, MaxScopes: 1, MaxItems: 6, MaxPoints: 5, MinItems: 3, NonEmpty: true, OversizeBytes: cfg.OversizeBytes}
	case 4:
		cfg.NonEmpty = true
	}
	if cs.Sizer == "bytes" && rng.Intn(4) == 0 {
		cfg.Oversize = 0.7
	}
	if s.name == "profiles" && cs.Sizer == "items" && rng.Float64() >= 0.04*rare {
		cfg.OneSample = true // stay in the region where "size in samples" and "split by profile" agree
	}
	// bare items: items without any field set serialise to zero bytes — the smallest thing a splitter has to account for
	bare := rng.Intn(7) == 0
	var payloads []any
	sizes := make([]int, n)
	total := 0
	pub := s.settings.Sizers[sizerType(cs.Sizer)]
	for i := 0; i < n; i++ {
		g := gen.New(rng, fmt.Sprintf("q%d", i), cfg)
		p := s.gen(g)
		if bare {
			addBare(p, rng)
		}
		b, err := s.marshal(p)
		if err != nil {
			panic(err)
		}
		cs.Payloads = append(cs.Payloads, b)
		payloads = append(payloads, p)
		req, err := s.settings.Encoding.Unmarshal(b)
		if err != nil {
			panic(err)
		}
		sizes[i] = int(pub.Sizeof(req))
		total += sizes[i]
		cs.Keep = append(cs.Keep, rng.Intn(3) > 0)
	}
	cs.Total = total
	s1 := sizes[0]
	var cand []int
	if cs.Sizer == "items" {
		for _, m := range []int{0, 0, 1, 2, 3, total - 1, total, total + 1, total / 2, s1 - 1, s1, s1 + 1, s1 / 2, 1 + rng.Intn(total+2)} {
			if m >= 0 {
				cand = append(cand, m)
			}
		}
	} else {
		_, u := classify(s, "bytes", 0, payloads)
		over := u > 1 && rng.Float64() < 0.005*rare
		if over {
			for _, m := range []int{1, 2, 3, u - 1, u / 2, 10 + rng.Intn(90)} {
				if m > 0 && m < u {
					cand = append(cand, m)
				}
			}
		} else {
			for _, m := range []int{0, 0, u, u + 1, u + 2, u + 3, u + 5, u + 10, u + 50, total - 1, total, total + 1, total / 2, s1 - 1, s1, s1 + 1, s1 / 2, u + rng.Intn(total+1)} {
				if m == 0 || (m >= u && m > 0) {
					cand = append(cand, m)
				}
			}
		}
	}
	cs.Max = cand[rng.Intn(len(cand))]
	cs.Class, cs.MaxUnit = classify(s, cs.Sizer, cs.Max, payloads)
	return cs
}

// addBare appends 2..40 items that have no field set (zero bytes on the wire) to one or two existing scopes.
func addBare(p any, rng *rand.Rand) {
	k := 2 + rng.Intn(12)
	if rng.Intn(4) == 0 {
		k = 20 + rng.Intn(21)
	}
	switch v := p.(type) {
	case plog.Logs:
		for i := 0; i < v.ResourceLogs().Len() && i < 2; i++ {
			if sl := v.ResourceLogs().At(i).ScopeLogs(); sl.Len() > 0 {
				t := sl.At(rng.Intn(sl.Len())).LogRecords()
				for j := 0; j < k; j++ {
					t.AppendEmpty()
				}
			}
		}
	case ptrace.Traces:
		for i := 0; i < v.ResourceSpans().Len() && i < 2; i++ {
			if sl := v.ResourceSpans().At(i).ScopeSpans(); sl.Len() > 0 {
				t := sl.At(rng.Intn(sl.Len())).Spans()
				for j := 0; j < k; j++ {
					t.AppendEmpty()
				}
			}
		}
	case pmetric.Metrics:
		for i := 0; i < v.ResourceMetrics().Len() && i < 2; i++ {
			if sl := v.ResourceMetrics().At(i).ScopeMetrics(); sl.Len() > 0 {
				ms := sl.At(rng.Intn(sl.Len())).Metrics()
				m := ms.AppendEmpty()
				m.SetName(fmt.Sprintf("bare%d", i))
				switch rng.Intn(5) {
				case 0:
					t := m.SetEmptyGauge().DataPoints()
					for j := 0; j < k; j++ {
						t.AppendEmpty()
					}
				case 1:
					t := m.SetEmptySum().DataPoints()
					for j := 0; j < k; j++ {
						t.AppendEmpty()
					}
				case 2:
					t := m.SetEmptyHistogram().DataPoints()
					for j := 0; j < k; j++ {
						t.AppendEmpty()
					}
				case 3:
					t := m.SetEmptyExponentialHistogram().DataPoints()
					for j := 0; j < k; j++ {
						t.AppendEmpty()
					}
				default:
					t := m.SetEmptySummary().DataPoints()
					for j := 0; j < k; j++ {
						t.AppendEmpty()
					}
				}
			}
		}
	case pprofile.Profiles:
		for i := 0; i < v.ResourceProfiles().Len() && i < 2; i++ {
			if sl := v.ResourceProfiles().At(i).ScopeProfiles(); sl.Len() > 0 {
				t := sl.At(rng.Intn(sl.Len())).Profiles()
				for j := 0; j < k; j++ {
					t.AppendEmpty().Sample().AppendEmpty() // one (bare) sample: the unit in which profiles are counted
				}
			}
		}
	}
}

// ---------------------------------------------------------------------------------------------
// directed cases (run by shard 0 in every run)

var directedL1 = []string{"c04b2-near", "c04b-logs", "c04b-traces", "c04b-metrics", "c04b-profiles", "c04c-loop", "c04c-oversize", "c04d-shell", "c04a-sum", "c04a-histogram-bytes", "wrongtype"}

func buildDirected(name string) *l1Case {
	rng := rand.New(rand.NewSource(4))
	one := gen.Config{MaxResources: 1, MaxScopes: 1, MaxItems: 1, MaxPoints: 1, NonEmpty: true, Lean: true, OneSample: true, Oversize: 1, OversizeBytes: [2]int{500, 501}}
	mk := func(s *signal, sizer string, max int, ps ...any) *l1Case {
		cs := &l1Case{Signal: s.name, Sizer: sizer, Max: max, Directed: name}
		for _, p := range ps {
			b, err := s.marshal(p)
			if err != nil {
				panic(err)
			}
			cs.Payloads = append(cs.Payloads, b)
			cs.Keep = append(cs.Keep, true)
			req, _ := s.settings.Encoding.Unmarshal(b)
			cs.Total += int(s.settings.Sizers[sizerType(sizer)].Sizeof(req))
		}
		cs.Class, cs.MaxUnit = classify(s, sizer, max, ps)
		return cs
	}
	switch name {
	case "c04b-logs", "c04b-traces", "c04b-metrics", "c04b-profiles":
		// one payload holding a single ~500-byte item, bytes sizer, max_size 100: the item cannot be split and
		// must be emitted alone; on the pinned tree MergeSplit never returns.
		s := signalByName(strings.TrimPrefix(name, "c04b-"))
		g := gen.New(rng, "q0", one)
		var p any
		for { // the oversize blob is placed with probability 0.4 per item: retry until it is there
			p = s.gen(g)
			if s.bytesOf(p) > 400 {
				break
			}
		}
		return mk(s, "bytes", 100, p)
	case "c04b2-near":
		// logs, bytes sizer, two records in one scope; the first record with its resource and scope is exactly
		// max_size = 128 bytes on its own (its ResourceLogs message is 126 bytes: the length prefix grows from one
		// to two bytes between the two). The split reserves the prefixes for the capacity, not for the actual size,
		// decides that the record does not fit, makes no progress and never returns.
		s := signalByName("logs")
		for n := 1; n < 200; n++ {
			ld := plog.NewLogs()
			rl := ld.ResourceLogs().AppendEmpty()
			rl.Resource().Attributes().PutStr("rid", "q0/R0")
			sl := rl.ScopeLogs().AppendEmpty()
			sl.Scope().SetName("q0/R0/S0")
			for k := 0; k < 2; k++ {
				lr := sl.LogRecords().AppendEmpty()
				lr.Attributes().PutStr(canon.IDAttr, fmt.Sprintf("q0.%d", k+1))
				lr.Body().SetStr(strings.Repeat("b", []int{n, 3}[k]))
			}
			if u := s.unitBytes(ld); u[0] == 128 {
				return mk(s, "bytes", 128, ld)
			}
		}
		panic("directed near-max payload not found")
	case "c04c-loop", "c04c-oversize":
		// profiles, items sizer: size is counted in samples but the split walks profiles.
		s := signalByName("profiles")
		cfg := gen.Config{MaxResources: 1, MaxScopes: 1, MaxItems: 1, MaxPoints: 9, NonEmpty: true, Lean: true}
		want, nprof, max := 10, 1, 3 // one profile with 10 samples, max 3: no progress
		if name == "c04c-oversize" {
			want, nprof, max = 2, 2, 3 // two profiles with 2 samples each, max 3: emitted as one batch of 4 samples
			cfg.MaxItems, cfg.MinItems = 2, 2
		}
		for try := 0; ; try++ {
			g := gen.New(rng, "q0", cfg)
			p := s.gen(g)
			recs, _ := s.flatten(p)
			if s.units(p) == nprof && len(recs) == want*nprof && (nprof == 1 || strings.Contains(shapeOf(s, p), fmt.Sprintf("P%d,P%d", want, want))) {
				return mk(s, "items", max, p)
			}
			if try > 200000 {
				panic("directed profiles payload not found")
			}
		}
	case "c04a-sum", "c04a-histogram-bytes":
		// one metric with 5 points split across batches: every fragment must keep the metric's identity.
		s := signalByName("metrics")
		cfg := gen.Config{MaxResources: 1, MaxScopes: 1, MaxItems: 1, MaxPoints: 5, NonEmpty: true, Lean: true}
		wantShape := "S5"
		if name == "c04a-histogram-bytes" {
			wantShape = "H5"
		}
		for try := 0; ; try++ {
			g := gen.New(rng, "q0", cfg)
			p := s.gen(g)
			recs, shape := s.flatten(p)
			if strings.Contains(shape, wantShape) && len(recs) == 5 {
				id := recs[0].Ctx
				full := true
				for _, part := range id {
					if strings.HasPrefix(part.Name, "metric.") && (part.Val == "" || part.Val == "{}" || part.Val == "false" || part.Val == "Unspecified") {
						full = false
					}
				}
				if full {
					if name == "c04a-sum" {
						return mk(s, "items", 2, p)
					}
					_, u := classify(s, "bytes", 0, []any{p})
					return mk(s, "bytes", u+40, p)
				}
			}
			if try > 200000 {
				panic("directed metrics payload not found")
			}
		}
	case "c04d-shell":
		// metrics, bytes sizer: two resources with one two-point gauge each, max_size = size of the first resource
		// alone + 8. Every data point fits easily; the second resource does not fit into the first batch, but an
		// empty copy of its metric (with its scope and resource) is appended to the first batch anyway.
		s := signalByName("metrics")
		mkRes := func(md pmetric.Metrics, r int) {
			rm := md.ResourceMetrics().AppendEmpty()
			rm.Resource().Attributes().PutStr("rid", fmt.Sprintf("q0/R%d", r))
			rm.Resource().Attributes().PutStr("host", "a-host-name-that-takes-some-bytes")
			sm := rm.ScopeMetrics().AppendEmpty()
			sm.Scope().SetName(fmt.Sprintf("q0/R%d/S0", r))
			m := sm.Metrics().AppendEmpty()
			m.SetName(fmt.Sprintf("q0/R%d/S0/M0", r))
			g := m.SetEmptyGauge()
			for k := 0; k < 2; k++ {
				dp := g.DataPoints().AppendEmpty()
				dp.Attributes().PutStr(canon.IDAttr, fmt.Sprintf("q0.%d", 2*r+k+1))
				dp.SetIntValue(int64(k))
			}
		}
		first := pmetric.NewMetrics()
		mkRes(first, 0)
		both := pmetric.NewMetrics()
		mkRes(both, 0)
		mkRes(both, 1)
		return mk(s, "bytes", s.bytesOf(first)+8, both)
	case "wrongtype":
		s := signalByName("logs")
		g := gen.New(rng, "q0", gen.Config{NonEmpty: true})
		cs := mk(s, "items", 3, s.gen(g))
		cs.Mode = "wrongtype"
		return cs
	}
	panic("unknown directed case " + name)
}

func shapeOf(s *signal, p any) string {
	_, sh := s.flatten(p)
	return sh
}

// ---------------------------------------------------------------------------------------------
// recorder: what a case observed, serialisable so that it can cross the process boundary

type recOp struct {
	K string   `json:"k"`
	S string   `json:"s,omitempty"`
	P []string `json:"p,omitempty"`
	N int64    `json:"n,omitempty"`
	W string   `json:"w,omitempty"`
	X any      `json:"x,omitempty"`
}

type recorder struct {
	Ops []recOp `json:"ops"`
}

func (r *recorder) eval()                  { r.Ops = append(r.Ops, recOp{K: "eval"}) }
func (r *recorder) nontrivial(p ...string) { r.Ops = append(r.Ops, recOp{K: "nontrivial", P: p}) }
func (r *recorder) distinct(set string, p ...string) {
	r.Ops = append(r.Ops, recOp{K: "distinct", S: set, P: p})
}
func (r *recorder) observe(name string, n int64) {
	r.Ops = append(r.Ops, recOp{K: "observe", S: name, N: n})
}
func (r *recorder) violation(sub, what string, extra any, sig ...string) {
	r.Ops = append(r.Ops, recOp{K: "violation", S: sub, W: what, P: sig, X: extra})
}

func (r *recorder) hasViolation() bool {
	for _, o := range r.Ops {
		if o.K == "violation" {
			return true
		}
	}
	return false
}

func anys(p []string) []any {
	out := make([]any, len(p))
	for i, s := range p {
		out[i] = s
	}
	return out
}

// apply replays the recorded observations on the driver context; witness is attached to violations.
func (r *recorder) apply(c *driver.Ctx, witness any) {
	for _, o := range r.Ops {
		switch o.K {
		case "eval":
			c.Eval()
		case "nontrivial":
			c.Nontrivial(anys(o.P)...)
		case "distinct":
			c.Distinct(o.S, anys(o.P)...)
		case "observe":
			c.Observe(o.S, o.N)
		case "max":
			c.ObserveMax(o.S, o.N)
		case "violation":
			c.Violation(o.S, o.W, map[string]any{"case": witness, "detail": o.X}, o.P...)
		}
	}
}

// ---------------------------------------------------------------------------------------------
// execution of one case (inside the sub-child)

func execL1(cs *l1Case, r *recorder) {
	s := signalByName(cs.Signal)
	szt := sizerType(cs.Sizer)
	pub := s.settings.Sizers[szt]
	enc := s.settings.Encoding
	ctx := context.Background()
	base := []string{"signal", cs.Signal, "sizer", cs.Sizer, "class", cs.Class}
	sig := func(extra ...string) []string { return append(append([]string{}, base...), extra...) }
	r.eval()

	var in []canon.Record
	var shapes []string
	reqs := make([]exporterhelper.Request, len(cs.Payloads))
	for i, b := range cs.Payloads {
		req, err := enc.Unmarshal(b)
		if err != nil {
			r.violation("unmarshal", "Encoding.Unmarshal rejected a valid payload: "+err.Error(), nil, sig()...)
			return
		}
		reqs[i] = req
		p, err := s.decode(b)
		if err != nil {
			panic(err)
		}
		recs, shape := s.flatten(p)
		in = append(in, recs...)
		shapes = append(shapes, shape)
	}

	if cs.Mode == "wrongtype" {
		other, _ := signalByName("traces").settings.Encoding.Unmarshal(nil)
		before, _ := enc.Marshal(reqs[0])
		var outs []exporterhelper.Request
		var err error
		pv, stack := driver.Catch(func() { outs, err = reqs[0].MergeSplit(ctx, cs.Max, szt, other) })
		if pv != nil {
			r.violation("panic", fmt.Sprintf("MergeSplit with a request of another signal panicked: %v", pv), nil, sig("site", driver.PanicSite(stack))...)
			return
		}
		after, _ := enc.Marshal(reqs[0])
		if err == nil || len(outs) != 0 {
			r.violation("wrong-type", "MergeSplit with a request of another signal did not fail", nil, sig()...)
		} else if !bytes.Equal(before, after) {
			r.violation("wrong-type", "MergeSplit returned an error but mutated the request", nil, sig()...)
		}
		r.nontrivial("wrongtype", cs.Signal)
		return
	}

	type emitted struct {
		req  exporterhelper.Request
		b    []byte
		call int
	}
	var ems []emitted
	emit := func(req exporterhelper.Request, call int) bool {
		b, err := enc.Marshal(req)
		if err != nil {
			r.violation("marshal", "Encoding.Marshal of an output failed: "+err.Error(), nil, sig()...)
			return false
		}
		ems = append(ems, emitted{req, b, call})
		return true
	}
	var cur exporterhelper.Request
	splits, merges, maxOuts := 0, 0, 0
	for i, req := range reqs {
		var outs []exporterhelper.Request
		var err error
		pv, stack := driver.Catch(func() {
			if cur == nil {
				outs, err = req.MergeSplit(ctx, cs.Max, szt, nil)
			} else {
				merges++
				outs, err = cur.MergeSplit(ctx, cs.Max, szt, req)
			}
		})
		if pv != nil {
			r.violation("panic", fmt.Sprintf("MergeSplit panicked: %v", pv), clipStr(stack, 3000), sig("site", driver.PanicSite(stack))...)
			return
		}
		if err != nil {
			r.violation("error", "MergeSplit of well-formed requests of one signal failed: "+err.Error(), nil, sig()...)
			return
		}
		if len(outs) == 0 {
			r.violation("error", "MergeSplit returned no request", nil, sig()...)
			return
		}
		if len(outs) > 1 {
			splits++
		}
		if len(outs) > maxOuts {
			maxOuts = len(outs)
		}
		for _, o := range outs[:len(outs)-1] {
			if !emit(o, i) {
				return
			}
		}
		last := outs[len(outs)-1]
		if cs.Keep[i] && i < len(reqs)-1 {
			cur = last
		} else {
			if !emit(last, i) {
				return
			}
			cur = nil
		}
	}

	// (1) outputs are not changed by later calls
	for _, e := range ems {
		b2, err := enc.Marshal(e.req)
		if err != nil || !bytes.Equal(b2, e.b) {
			r.violation("output-mutated", fmt.Sprintf("an output returned by call %d changed while later calls were made", e.call), nil, sig()...)
			break
		}
	}
	// (2) size bound
	var out []canon.Record
	sizes := make([]string, 0, len(ems))
	for _, e := range ems {
		p, err := s.decode(e.b)
		if err != nil {
			r.violation("marshal", "an output does not decode: "+err.Error(), nil, sig()...)
			return
		}
		recs, shape := s.flatten(p)
		out = append(out, recs...)
		size := int(pub.Sizeof(e.req))
		sizes = append(sizes, fmt.Sprintf("call%d:%d%s:%s", e.call, size, cs.Sizer[:1], shape))
		if cs.Max > 0 && size > cs.Max {
			if u := s.units(p); u > 1 {
				cause := "-"
				if cs.Sizer == "bytes" {
					cause = oversizeCause(s, p, int64(cs.Max))
				}
				r.violation("size-bound", fmt.Sprintf("%s: emitted request of %d %s with %d indivisible units exceeds max_size %d (cause: %s)", cs.Signal, size, cs.Sizer, u, cs.Max, cause),
					map[string]any{"outputs(call:size:shape)": append([]string{}, sizes...)}, sig("cause", cause, "over", overBucket(int64(size-cs.Max)))...)
			} else {
				r.observe("l1_oversize_single_unit_outputs", 1)
			}
		}
	}
	// (3) conservation with identity
	reported := map[string]bool{}
	for _, m := range canon.Diff(in, out) {
		fields := m.Fields
		if len(fields) == 0 {
			fields = []string{"-"}
		}
		for _, f := range fields {
			k := m.Kind + "/" + f
			if reported[k] {
				continue
			}
			reported[k] = true
			mm := m
			r.violation("conservation", fmt.Sprintf("%s %s max=%d: item %s %s (%s): in[%s] out[%s]", cs.Signal, cs.Sizer, cs.Max, m.ID, m.Kind, f, clipStr(m.In, 160), clipStr(m.Out, 160)),
				mm, "level", "L1", "signal", cs.Signal, "sizer", cs.Sizer, "kind", m.Kind, "field", f)
		}
	}
	r.observe("l1_cases", 1)
	r.observe("l1_mergesplit_calls", int64(len(reqs)))
	r.observe("l1_outputs", int64(len(ems)))
	r.observe("l1_items_in", int64(len(in)))
	r.observe("l1_splits", int64(splits))
	r.observe("l1_merges", int64(merges))
	if splits > 0 || merges > 0 {
		sort.Strings(shapes)
		r.nontrivial("L1", cs.Signal, strings.Join(shapes, "|"), cs.Sizer, fmt.Sprint(cs.Max), fmt.Sprint(len(reqs)))
	}
	r.distinct("l1_classes", cs.Signal, cs.Sizer, cs.Class, fmt.Sprint(splits > 0), fmt.Sprint(merges > 0), maxRel(cs))
}

// overBucket classifies by how much a batch exceeds max_size.
func overBucket(n int64) string {
	switch {
	case n <= 2:
		return "1-2"
	case n <= 16:
		return "3-16"
	}
	return ">16"
}

// maxRel classifies max_size relative to the boundaries of the case.
func maxRel(cs *l1Case) string {
	switch {
	case cs.Max == 0:
		return "none"
	case cs.Max <= 3:
		return "tiny"
	case cs.Sizer == "bytes" && cs.Max <= cs.MaxUnit+10:
		return "near-largest-unit"
	case cs.Max == cs.Total-1 || cs.Max == cs.Total || cs.Max == cs.Total+1:
		return "near-total"
	case cs.Max > cs.Total:
		return "above-total"
	}
	return "inside"
}

// ---------------------------------------------------------------------------------------------
// sub-child

const (
	heapLimit = 64 << 20        // live heap of a case; sibling cases stay below 20 MiB
	cpuLimit  = 4 * time.Second // CPU time of one case; sibling cases take < 5 ms
	wallLimit = 5 * time.Minute // infrastructure watchdog of the shard child: inconclusive, never a verdict
)

func selfCPU() time.Duration {
	var ru syscall.Rusage
	syscall.Getrusage(syscall.RUSAGE_SELF, &ru)
	// user time only: kernel work done on the process's behalf (page reclaim under memory pressure) is not the case's
	return time.Duration(ru.Utime.Nano())
}

var heapSample = []metrics.Sample{{Name: "/memory/classes/heap/objects:bytes"}}

func subchildMain() {
	var caseStart atomic.Int64
	caseStart.Store(-1)
	var outMu sync.Mutex
	go func() {
		sample := []metrics.Sample{{Name: "/memory/classes/heap/objects:bytes"}}
		for {
			time.Sleep(4 * time.Millisecond)
			st := caseStart.Load()
			if st < 0 {
				continue
			}
			metrics.Read(sample)
			heap := sample[0].Value.Uint64()
			cpu := selfCPU() - time.Duration(st)
			why := ""
			if heap > heapLimit {
				why = fmt.Sprintf("heap: live heap reached %d MiB (limit %d MiB; terminating sibling inputs stay below 20 MiB) after %.2fs CPU", heap>>20, heapLimit>>20, cpu.Seconds())
			} else if cpu > cpuLimit {
				why = fmt.Sprintf("cpu: the case consumed %.1fs CPU without returning (terminating sibling inputs take < 5 ms)", cpu.Seconds())
			}
			if why != "" {
				outMu.Lock()
				b, _ := json.Marshal(map[string]string{"guard": why})
				os.Stdout.Write(append(b, '\n'))
				os.Exit(9)
			}
		}
	}()
	rd := bufio.NewReaderSize(os.Stdin, 1<<20)
	for {
		line, err := rd.ReadBytes('\n')
		if len(line) > 1 {
			var cs l1Case
			if jerr := json.Unmarshal(line, &cs); jerr != nil {
				fmt.Fprintln(os.Stderr, "subchild: bad case:", jerr)
				os.Exit(3)
			}
			r := &recorder{}
			caseStart.Store(int64(selfCPU()))
			pv, stack := driver.Catch(func() { execL1(&cs, r) })
			caseStart.Store(-1)
			if pv != nil {
				site := driver.PanicSite(stack)
				if site == "" {
					fmt.Fprintf(os.Stderr, "subchild: harness panic: %v\n%s\n", pv, stack)
					os.Exit(4)
				}
				r.violation("panic", fmt.Sprintf("panic: %v", pv), clipStr(stack, 3000), "signal", cs.Signal, "sizer", cs.Sizer, "class", cs.Class, "site", site)
			}
			metrics.Read(heapSample)
			r.Ops = append(r.Ops, recOp{K: "max", S: "max:l1_subchild_heap_mib_after_a_terminating_case", N: int64(heapSample[0].Value.Uint64() >> 20)})
			b, jerr := json.Marshal(r)
			if jerr != nil {
				fmt.Fprintln(os.Stderr, "subchild: marshal:", jerr)
				os.Exit(5)
			}
			outMu.Lock()
			os.Stdout.Write(append(b, '\n'))
			outMu.Unlock()
		}
		if err != nil {
			return
		}
	}
}

type tailBuf struct {
	mu sync.Mutex
	b  []byte
}

func (t *tailBuf) Write(p []byte) (int, error) {
	t.mu.Lock()
	t.b = append(t.b, p...)
	if len(t.b) > 16000 {
		t.b = t.b[len(t.b)-8000:]
	}
	t.mu.Unlock()
	return len(p), nil
}

func (t *tailBuf) String() string { t.mu.Lock(); defer t.mu.Unlock(); return string(t.b) }

type subchild struct {
	cmd   *exec.Cmd
	in    io.WriteCloser
	lines chan []byte
	errs  *tailBuf
	cases int
}

func startSubchild() (*subchild, error) {
	exe, err := os.Executable()
	if err != nil {
		return nil, err
	}
	cmd := exec.Command(exe)
	cmd.Env = append(os.Environ(), "C04_SUBCHILD=1", "GOMAXPROCS=2", "GORACE=", "GOTRACEBACK=single")
	cmd.SysProcAttr = &syscall.SysProcAttr{Pdeathsig: syscall.SIGKILL}
	in, err := cmd.StdinPipe()
	if err != nil {
		return nil, err
	}
	out, err := cmd.StdoutPipe()
	if err != nil {
		return nil, err
	}
	sc := &subchild{cmd: cmd, in: in, lines: make(chan []byte, 1), errs: &tailBuf{}}
	cmd.Stderr = sc.errs
	if err := cmd.Start(); err != nil {
		return nil, err
	}
	go func() {
		rd := bufio.NewReaderSize(out, 1<<20)
		for {
			line, err := rd.ReadBytes('\n')
			if len(line) > 0 {
				sc.lines <- line
			}
			if err != nil {
				close(sc.lines)
				return
			}
		}
	}()
	return sc, nil
}

func (sc *subchild) kill() {
	sc.in.Close()
	sc.cmd.Process.Kill()
	sc.cmd.Wait()
}

// run hands one case to the sub-child. Exactly one of rec / guard / died is set; inconclusive is the
// wall-clock watchdog.
func (sc *subchild) run(cs *l1Case) (rec *recorder, guard string, died string, inconclusive bool) {
	b, err := json.Marshal(cs)
	if err != nil {
		panic(err)
	}
	sc.cases++
	if _, err := sc.in.Write(append(b, '\n')); err != nil {
		return nil, "", "write to sub-child failed: " + err.Error() + "\n" + sc.errs.String(), false
	}
	select {
	case line, ok := <-sc.lines:
		if !ok {
			sc.cmd.Wait()
			return nil, "", "sub-child exited without an answer (" + sc.cmd.ProcessState.String() + ")\n" + sc.errs.String(), false
		}
		var g struct {
			Guard string `json:"guard"`
		}
		if json.Unmarshal(line, &g) == nil && g.Guard != "" {
			sc.cmd.Wait()
			return nil, g.Guard, "", false
		}
		r := &recorder{}
		if err := json.Unmarshal(line, r); err != nil {
			return nil, "", "unparsable answer from sub-child: " + clipStr(string(line), 300), false
		}
		return r, "", "", false
	case <-time.After(wallLimit):
		return nil, "", "", true
	}
}

// runL1 executes the L1 work list of one shard.
func runL1(c *driver.Ctx, first, n int64) {
	var sc *subchild
	defer func() {
		if sc != nil {
			sc.kill()
		}
	}()
	terminations := 0
	sampled := false
	rare := 1.0
	if c.Thorough() {
		rare = 0.25
	}
	maxTerminations := 25
	if int(n/150) > maxTerminations {
		maxTerminations = int(n / 150)
	}
	var list []struct {
		i  int64
		cs func() *l1Case
	}
	idx := first
	for j, name := range directedL1 { // the directed cases are dealt round-robin to the shards
		name := name
		if j%c.NShards == c.Shard {
			list = append(list, struct {
				i  int64
				cs func() *l1Case
			}{idx, func() *l1Case { return buildDirected(name) }})
		}
		idx++
	}
	for k := int64(0); k < n; k++ {
		i := idx + k
		list = append(list, struct {
			i  int64
			cs func() *l1Case
		}{i, func() *l1Case { return buildL1(c.CaseRand(i), rare) }})
	}
	for _, it := range list {
		if !c.Want(it.i) {
			continue
		}
		if terminations >= maxTerminations {
			c.Note("L1 stopped after %d non-terminating cases in shard %d", terminations, c.Shard)
			c.Inconclusive("l1-skipped-after-many-nonterminating-cases")
			continue
		}
		cs := it.cs()
		if sc == nil || sc.cases >= 400 { // a fresh sub-child now and then keeps its heap small
			if sc != nil {
				sc.kill()
			}
			var err error
			if sc, err = startSubchild(); err != nil {
				panic("cannot start sub-child: " + err.Error())
			}
		}
		rec, guard, died, inconcl := sc.run(cs)
		if guard != "" {
			// MergeSplit is deterministic: a genuine non-termination trips the guard again in a fresh sub-child. A guard
			// that does not fire twice was the machine (seen once: 4 s of *system* time charged to a 5 ms case while another
			// process was exhausting memory), not the code: no verdict from it.
			sc.kill()
			var err error
			if sc, err = startSubchild(); err != nil {
				panic("cannot start sub-child: " + err.Error())
			}
			rec2, guard2, died2, inconcl2 := sc.run(cs)
			if guard2 == "" {
				c.Inconclusive("l1-subchild-guard-not-reproduced")
				c.Observe("l1_subchild_guard_not_reproduced", 1)
				rec, guard, died, inconcl = rec2, "", died2, inconcl2
			}
		}
		var witness any
		if rec == nil || rec.hasViolation() {
			witness = witnessOf(cs)
		}
		switch {
		case rec != nil:
			rec.apply(c, witness)
			if cs.Directed != "" {
				c.Observe("l1_directed_cases", 1)
			} else if c.Shard == 0 && !sampled {
				sampled = true
				obs := map[string]int64{}
				for _, o := range rec.Ops {
					if o.K == "observe" {
						obs[o.S] = o.N
					}
				}
				c.Sample(map[string]any{"level": "L1", "signal": cs.Signal, "sizer": cs.Sizer, "max_size": cs.Max, "requests": len(cs.Payloads), "keep_last_as_current_batch": cs.Keep,
					"input_class": cs.Class, "total_size_in_unit": cs.Total, "observed": obs})
			}
		case guard != "":
			terminations++
			c.Eval()
			ev := strings.SplitN(guard, ":", 2)[0]
			c.Violation("termination", fmt.Sprintf("%s MergeSplit(max_size=%d, %s) over %d request(s) did not terminate — sub-child stopped by its %s guard [input class %s, largest indivisible unit %d bytes]: %s",
				cs.Signal, cs.Max, cs.Sizer, len(cs.Payloads), ev, cs.Class, cs.MaxUnit, guard), witness,
				"signal", cs.Signal, "sizer", cs.Sizer, "class", cs.Class)
			c.Observe("l1_subchild_guard_"+ev, 1)
			c.Nontrivial("L1-nonterminating", cs.Signal, cs.Sizer, cs.Class, cs.Max, len(cs.Payloads))
			sc.kill()
			sc = nil
		case inconcl:
			c.Inconclusive("l1-subchild-wall-clock-watchdog")
			sc.kill()
			sc = nil
		default:
			c.Eval()
			c.Violation("subchild-died", "the sub-child executing a MergeSplit case died: "+clipStr(died, 1500), witness,
				"signal", cs.Signal, "sizer", cs.Sizer, "class", cs.Class)
			sc.kill()
			sc = nil
		}
	}
}

func witnessOf(cs *l1Case) map[string]any {
	s := signalByName(cs.Signal)
	var js []string
	for _, b := range cs.Payloads {
		if p, err := s.decode(b); err == nil {
			js = append(js, s.json(p))
		}
	}
	return map[string]any{"case": cs, "payloads_otlp_json": js}
}
