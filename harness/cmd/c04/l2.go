package main

// L2: the real batcher behind the public exporter API.
//
// Several producers call Consume{Logs,Traces,Metrics,Profiles} of an exporter built with
// exporterhelper.WithQueue(cfg) (cfg.Batch = {min_size, max_size, flush_timeout}; wait_for_result so
// that every producer observes its own completion) or with the deprecated WithBatcher. The export
// function records every batch (canonical records, size in the configured unit, scripted outcome)
// and stamps its end with the run's event counter. Membership batch -> request is known from the
// unique leaf ids.

import (
	"context"
	"errors"
	"fmt"
	"math/rand"
	"runtime"
	"sort"
	"strings"
	"sync"
	"sync/atomic"
	"time"

	"go.opentelemetry.io/otel/sdk/metric/metricdata"

	"go.opentelemetry.io/collector/component"
	"go.opentelemetry.io/collector/component/componenttest"
	"go.opentelemetry.io/collector/consumer/consumererror"
	"go.opentelemetry.io/collector/exporter/exporterhelper"
	"go.opentelemetry.io/collector/exporter/exporterhelper/xexporterhelper"
	"go.opentelemetry.io/collector/exporter/exportertest"
	"go.opentelemetry.io/collector/pdata/plog"
	"go.opentelemetry.io/collector/pdata/pmetric"
	"go.opentelemetry.io/collector/pdata/pprofile"
	"go.opentelemetry.io/collector/pdata/ptrace"
	"go.opentelemetry.io/collector/verifharness/lib/canon"
	"go.opentelemetry.io/collector/verifharness/lib/driver"
	"go.opentelemetry.io/collector/verifharness/lib/gen"
)

type l2Cfg struct {
	Signal       string        `json:"signal"`
	Sizer        string        `json:"sizer"`
	Min          int64         `json:"min_size"`
	Max          int64         `json:"max_size"`
	FlushTimeout time.Duration `json:"flush_timeout_ns"`
	Wait         bool          `json:"wait_for_result"`
	Legacy       bool          `json:"deprecated_with_batcher"`
	// QueueSizer is the unit of sending_queue::sizer. With sending_queue::batch it is also the unit of the batcher
	// (= Sizer); the deprecated WithBatcher always merges and splits by items whatever the queue is sized in:
	// "none" (WithBatcher alone), "requests", "items" or "bytes".
	QueueSizer  string `json:"sending_queue_sizer"`
	Producers   int    `json:"producers"`
	PerProducer int    `json:"requests_per_producer"`
	Script      []int8 `json:"export_outcome_script"`  // per batch (cyclic): 0 ok, 1 error, 2 permanent error
	DelayUS     []int  `json:"export_delay_us_script"` // per batch (cyclic): -1 yield, 0 none, >0 sleep
	GenLean     bool   `json:"lean_payloads"`
	Directed    string `json:"directed,omitempty"`
	MaxUnit     int    `json:"largest_indivisible_unit_bytes,omitempty"`
}

func (c *l2Cfg) class() string {
	return fmt.Sprintf("%s/%s/queue-%s/min%s/max%s/wait=%v/legacy=%v/p%d", c.Signal, c.Sizer, c.QueueSizer, bucket(c.Min), bucket(c.Max), c.Wait, c.Legacy, c.Producers)
}

func bucket(n int64) string {
	switch {
	case n == 0:
		return "0"
	case n <= 3:
		return "1-3"
	case n <= 10:
		return "4-10"
	case n <= 100:
		return "11-100"
	}
	return ">100"
}

type evlog struct {
	seq atomic.Int64
	mu  sync.Mutex
	evs []string
}

func (e *evlog) stamp(kind string, actor int) int64 {
	e.mu.Lock()
	n := e.seq.Add(1)
	e.evs = append(e.evs, fmt.Sprintf("%s%d", kind, actor))
	e.mu.Unlock()
	return n
}

func (e *evlog) signature() uint64 {
	e.mu.Lock()
	defer e.mu.Unlock()
	return driver.Hash64(strings.Join(e.evs, ","))
}

// schedWitness measures how late a 1 ms sleeper wakes up (largest gap since the start).
type schedWitness struct {
	maxGap atomic.Int64
	stop   chan struct{}
}

func newSchedWitness() *schedWitness {
	w := &schedWitness{stop: make(chan struct{})}
	go func() {
		last := time.Now()
		for {
			select {
			case <-w.stop:
				return
			default:
			}
			time.Sleep(time.Millisecond)
			now := time.Now()
			if g := int64(now.Sub(last)); g > w.maxGap.Load() {
				w.maxGap.Store(g)
			}
			last = now
		}
	}()
	return w
}

type batchRec struct {
	k      int
	owners []string // requests that have a part (possibly without leaf items) in this batch
	recs   []canon.Record
	size   int64
	units  int
	failed bool
	finish int64
	cause  string // why it is oversize (only computed for oversize batches)
	errMsg string
}

type reqRes struct {
	owner     string
	leaves    int
	resources int
	call      int64
	ret       int64
	err       error
	returned  bool
}

type exporterHandle struct {
	start    func(context.Context, component.Host) error
	shutdown func(context.Context) error
	consume  func(context.Context, any) error
}

func newExporter(s *signal, tel *componenttest.Telemetry, opts []exporterhelper.Option, onExport func(any) error) (*exporterHandle, error) {
	set := exportertest.NewNopSettings(component.MustNewType("c04"))
	set.TelemetrySettings = tel.NewTelemetrySettings()
	ctx := context.Background()
	switch s.name {
	case "logs":
		e, err := exporterhelper.NewLogs(ctx, set, struct{}{}, func(_ context.Context, ld plog.Logs) error { return onExport(ld) }, opts...)
		if err != nil {
			return nil, err
		}
		return &exporterHandle{e.Start, e.Shutdown, func(ctx context.Context, p any) error { return e.ConsumeLogs(ctx, p.(plog.Logs)) }}, nil
	case "traces":
		e, err := exporterhelper.NewTraces(ctx, set, struct{}{}, func(_ context.Context, td ptrace.Traces) error { return onExport(td) }, opts...)
		if err != nil {
			return nil, err
		}
		return &exporterHandle{e.Start, e.Shutdown, func(ctx context.Context, p any) error { return e.ConsumeTraces(ctx, p.(ptrace.Traces)) }}, nil
	case "metrics":
		e, err := exporterhelper.NewMetrics(ctx, set, struct{}{}, func(_ context.Context, md pmetric.Metrics) error { return onExport(md) }, opts...)
		if err != nil {
			return nil, err
		}
		return &exporterHandle{e.Start, e.Shutdown, func(ctx context.Context, p any) error { return e.ConsumeMetrics(ctx, p.(pmetric.Metrics)) }}, nil
	default:
		e, err := xexporterhelper.NewProfilesExporter(ctx, set, struct{}{}, func(_ context.Context, pd pprofile.Profiles) error { return onExport(pd) }, opts...)
		if err != nil {
			return nil, err
		}
		return &exporterHandle{e.Start, e.Shutdown, func(ctx context.Context, p any) error { return e.ConsumeProfiles(ctx, p.(pprofile.Profiles)) }}, nil
	}
}

func readGauge(tel *componenttest.Telemetry, name string) (int64, bool) {
	m, err := tel.GetMetric(name)
	if err != nil {
		return 0, false
	}
	switch d := m.Data.(type) {
	case metricdata.Gauge[int64]:
		if len(d.DataPoints) > 0 {
			return d.DataPoints[0].Value, true
		}
	case metricdata.Sum[int64]:
		if len(d.DataPoints) > 0 {
			return d.DataPoints[0].Value, true
		}
	}
	return 0, false
}

// currentL2 is the configuration of the run in progress (for the child's memory guard).
var currentL2 atomic.Pointer[l2Cfg]

type l2Payload struct {
	p      any
	in     []canon.Record
	owner  string
	shape  string
	sizeIn int64
}

// buildL2 draws the configuration and the payloads of one run.
func buildL2(rng *rand.Rand, safeSlack int) (*l2Cfg, [][]*l2Payload) {
	s := signals[rng.Intn(len(signals))]
	cfg := &l2Cfg{Signal: s.name, Sizer: "items", Wait: rng.Intn(4) > 0}
	if rng.Intn(10) < 3 {
		cfg.Sizer = "bytes"
	}
	cfg.QueueSizer = cfg.Sizer
	if cfg.Sizer == "items" && rng.Intn(4) == 0 {
		// deprecated batcher (items) behind a queue sized in any unit a validated configuration can have: a request
		// sized by the queue in one unit is merged / split by the batcher in another
		cfg.Legacy = true
		cfg.QueueSizer = []string{"none", "requests", "items", "bytes", "bytes"}[rng.Intn(5)]
		if cfg.QueueSizer == "none" {
			cfg.Wait = true
		}
	}
	cfg.Producers = 1 + pickWeighted(rng, []int{15, 25, 25, 20, 10, 5})
	cfg.PerProducer = 1 + rng.Intn(6)
	cfg.FlushTimeout = []time.Duration{time.Millisecond, 2 * time.Millisecond, 5 * time.Millisecond, 10 * time.Millisecond}[rng.Intn(4)]
	cfg.GenLean = rng.Intn(2) == 0
	gc := gen.Config{MaxResources: 2, MaxScopes: 2, MaxItems: 4, MaxPoints: 3, Lean: cfg.GenLean, OversizeBytes: [2]int{300, 900}}
	if rng.Intn(3) == 0 {
		gc.NonEmpty = true
	}
	if cfg.Sizer == "bytes" && rng.Intn(3) == 0 {
		gc.Oversize = 0.3
	}
	if s.name == "profiles" && cfg.Sizer == "items" {
		gc.OneSample = true // outside this region MergeSplit may not terminate (known finding C04-c), explored in L1 only
	}
	payloads := make([][]*l2Payload, cfg.Producers)
	var all []any
	var sizes []int64
	for p := 0; p < cfg.Producers; p++ {
		for r := 0; r < cfg.PerProducer; r++ {
			owner := fmt.Sprintf("p%dr%d", p, r)
			pl := s.gen(gen.New(rng, owner, gc))
			in, shape := s.flatten(pl)
			size := int64(len(in))
			if cfg.Sizer == "bytes" {
				size = int64(s.bytesOf(pl))
			}
			payloads[p] = append(payloads[p], &l2Payload{p: pl, in: in, owner: owner, shape: shape, sizeIn: size})
			all = append(all, pl)
			sizes = append(sizes, size)
		}
	}
	var avg int64
	for _, x := range sizes {
		avg += x
	}
	avg = avg/int64(len(sizes)) + 1
	if cfg.Sizer == "items" {
		cfg.Min = int64(rng.Intn(14))
		if rng.Intn(3) > 0 {
			cfg.Max = cfg.Min + int64(rng.Intn(8))
			if cfg.Max == 0 {
				cfg.Max = 1
			}
		}
	} else {
		_, u := classify(s, "bytes", 0, all)
		cfg.MaxUnit = u
		if rng.Intn(3) > 0 {
			// a max_size below the largest indivisible unit makes MergeSplit spin forever (known finding C04-b,
			// explored in L1 inside sub-children); the in-process batcher must stay clear of it
			cfg.Max = int64(u+safeSlack) + rng.Int63n(2*avg+1)
			cfg.Min = rng.Int63n(cfg.Max + 1)
		} else {
			cfg.Min = rng.Int63n(3*avg + 1)
		}
	}
	n := 3 + rng.Intn(6)
	failP := []float64{0, 0.15, 0.4}[rng.Intn(3)]
	for i := 0; i < n; i++ {
		o := int8(0)
		if rng.Float64() < failP {
			o = int8(1 + rng.Intn(2))
		}
		cfg.Script = append(cfg.Script, o)
		cfg.DelayUS = append(cfg.DelayUS, []int{0, 0, -1, -1, 50, 300}[rng.Intn(6)])
	}
	return cfg, payloads
}

func runL2(c *driver.Ctx, rng *rand.Rand) {
	cfg, payloads := buildL2(rng, 64)
	runL2With(c, cfg, payloads, 1+rng.Intn(3), false)
}

// directedL2 is the reproducer of known finding C04-e (bytes sizer): request A stays below min_size and
// becomes the current batch; request B is merged into it but not even B's first item fits beside A, so
// the first batch holds A only. The batcher nevertheless attaches B's completion to that batch: when it
// fails, B's Consume returns its error although every batch holding B's items succeeded. The scenario
// needs A to be taken from the queue before B (enforced: B starts when the queue-size gauge shows A) and
// B to arrive before the flush timer fires (100 ms; retried a bounded number of times otherwise).
func directedL2(c *driver.Ctx) {
	s := signalByName("logs")
	mk := func(owner string, bodies ...int) *l2Payload {
		ld := plog.NewLogs()
		rl := ld.ResourceLogs().AppendEmpty()
		rl.Resource().Attributes().PutStr("rid", owner+"/R0")
		sl := rl.ScopeLogs().AppendEmpty()
		sl.Scope().SetName(owner + "/R0/S0")
		for i, n := range bodies {
			lr := sl.LogRecords().AppendEmpty()
			lr.Attributes().PutStr(canon.IDAttr, fmt.Sprintf("%s.%d", owner, i+1))
			lr.Body().SetStr(strings.Repeat("b", n))
		}
		in, shape := s.flatten(ld)
		return &l2Payload{p: ld, in: in, owner: owner, shape: shape, sizeIn: int64(s.bytesOf(ld))}
	}
	for try := 0; try < 25; try++ {
		a, b := mk("p0r0", 250), mk("p1r0", 200, 200)
		_, u := classify(s, "bytes", 0, []any{a.p, b.p})
		cfg := &l2Cfg{Signal: "logs", Sizer: "bytes", Wait: true, Producers: 2, PerProducer: 1, FlushTimeout: 100 * time.Millisecond,
			QueueSizer: "bytes", Min: a.sizeIn + 10, Max: int64(u) + 70, Script: []int8{1, 0, 0, 0, 0, 0, 0, 0}, DelayUS: []int{0}, MaxUnit: u, Directed: "c04e"}
		if cfg.Max < cfg.Min {
			panic("directed L2 sizes do not work out")
		}
		if runL2With(c, cfg, [][]*l2Payload{{a}, {b}}, 1, true) {
			c.Observe("l2_directed_c04e_reproduced_after_tries", int64(try+1))
			return
		}
	}
	c.Note("directed reproducer of C04-e did not reproduce in 25 tries")
}

// runL2With executes one run; ordered starts producer p+1 only after the queue-size gauge shows producer
// p's request. It reports whether the C04-e pattern (error of a batch without own part) was observed.
func runL2With(c *driver.Ctx, cfg *l2Cfg, payloads [][]*l2Payload, numConsumers int, ordered bool) (foreignError bool) {
	s := signalByName(cfg.Signal)
	sig := func(extra ...string) []string {
		return append([]string{"signal", cfg.Signal, "sizer", cfg.Sizer, "qsizer", cfg.QueueSizer, "wait", fmt.Sprint(cfg.Wait), "legacy", fmt.Sprint(cfg.Legacy)}, extra...)
	}
	witness := func(more map[string]any) map[string]any {
		w := map[string]any{"config": cfg}
		var js []string
		for _, pp := range payloads {
			for _, pl := range pp {
				if len(js) < 8 {
					js = append(js, pl.owner+": "+pl.shape)
				}
			}
		}
		w["payload_shapes(first 8)"] = js
		for k, v := range more {
			w[k] = v
		}
		return w
	}
	c.Eval()
	currentL2.Store(cfg)

	var opts []exporterhelper.Option
	if cfg.Legacy {
		bc := exporterhelper.NewDefaultBatcherConfig()
		bc.Enabled = true
		bc.FlushTimeout = cfg.FlushTimeout
		bc.Sizer = exporterhelper.RequestSizerTypeItems
		bc.MinSize, bc.MaxSize = cfg.Min, cfg.Max
		if err := bc.Validate(); err != nil {
			panic(err)
		}
		opts = append(opts, exporterhelper.WithBatcher(bc))
		if cfg.QueueSizer != "none" {
			qc := exporterhelper.NewDefaultQueueConfig()
			switch cfg.QueueSizer {
			case "requests":
				qc.Sizer = exporterhelper.RequestSizerTypeRequests
			default:
				qc.Sizer = sizerType(cfg.QueueSizer)
			}
			qc.QueueSize = 1 << 40
			qc.WaitForResult = cfg.Wait
			qc.BlockOnOverflow = true
			qc.NumConsumers = numConsumers
			if err := qc.Validate(); err != nil {
				panic(err)
			}
			opts = append(opts, exporterhelper.WithQueue(qc))
		}
	} else {
		qc := exporterhelper.NewDefaultQueueConfig()
		qc.Sizer = sizerType(cfg.Sizer)
		qc.QueueSize = 1 << 40
		qc.WaitForResult = cfg.Wait
		qc.BlockOnOverflow = true
		qc.NumConsumers = numConsumers
		qc.Batch = &exporterhelper.BatchConfig{FlushTimeout: cfg.FlushTimeout, MinSize: cfg.Min, MaxSize: cfg.Max}
		if err := qc.Validate(); err != nil {
			panic(err)
		}
		if err := qc.Batch.Validate(); err != nil {
			panic(err)
		}
		opts = append(opts, exporterhelper.WithQueue(qc))
	}
	opts = append(opts, exporterhelper.WithTimeout(exporterhelper.TimeoutConfig{}))

	tel := componenttest.NewTelemetry()
	defer tel.Shutdown(context.Background())
	ev := &evlog{}
	var mu sync.Mutex
	var batches []*batchRec
	var nBatches, outstanding atomic.Int64
	onExport := func(p any) error {
		outstanding.Add(1)
		k := int(nBatches.Add(1)) - 1
		ev.stamp("xb", 0)
		recs, _ := s.flatten(p)
		b := &batchRec{k: k, recs: recs, size: int64(len(recs)), units: s.units(p), owners: s.owners(p)}
		if cfg.Sizer == "bytes" {
			b.size = int64(s.bytesOf(p))
		}
		var err error
		switch cfg.Script[k%len(cfg.Script)] {
		case 1:
			err = fmt.Errorf("scripted failure of batch %d", k)
		case 2:
			err = consumererror.NewPermanent(fmt.Errorf("scripted permanent failure of batch %d", k))
		}
		b.failed = err != nil
		if err != nil {
			b.errMsg = err.Error()
		}
		if cfg.Max > 0 && b.size > cfg.Max && b.units > 1 && cfg.Sizer == "bytes" {
			b.cause = oversizeCause(s, p, cfg.Max)
		}
		if d := cfg.DelayUS[k%len(cfg.DelayUS)]; d > 0 {
			time.Sleep(time.Duration(d) * time.Microsecond)
		} else if d < 0 {
			runtime.Gosched()
		}
		b.finish = ev.stamp("xe", 0)
		mu.Lock()
		batches = append(batches, b)
		mu.Unlock()
		outstanding.Add(-1)
		return err
	}
	exp, err := newExporter(s, tel, opts, onExport)
	if err != nil {
		panic(err)
	}

	results := make([][]*reqRes, cfg.Producers)
	for p := range results {
		for _, pl := range payloads[p] {
			results[p] = append(results[p], &reqRes{owner: pl.owner, leaves: len(pl.in), resources: len(s.owners(pl.p))})
		}
	}
	var abandoned, gaugeRead, gaugeNegative atomic.Bool
	var gaugeAfter atomic.Int64
	pollGauge := func() (int64, bool) {
		v, ok := readGauge(tel, "otelcol_exporter_queue_size")
		gaugeAfter.Store(v)
		gaugeRead.Store(ok)
		if ok && v < 0 {
			gaugeNegative.Store(true)
		}
		return v, ok
	}
	phase := "start"
	var phaseMu sync.Mutex
	setPhase := func(p string) { phaseMu.Lock(); phase = p; phaseMu.Unlock() }
	sw := newSchedWitness()
	defer close(sw.stop)
	st := c.Guard(30*time.Second, func() int64 { return ev.seq.Load() }, func() {
		if err := exp.start(context.Background(), componenttest.NewNopHost()); err != nil {
			panic(err)
		}
		setPhase("producers")
		var wg sync.WaitGroup
		for p := 0; p < cfg.Producers; p++ {
			if ordered && p > 0 {
				for !abandoned.Load() { // the previous producer's request is in the queue (or already done)
					mu.Lock()
					prevDone := results[p-1][0].returned
					mu.Unlock()
					if v, ok := readGauge(tel, "otelcol_exporter_queue_size"); prevDone || !ok || v > 0 {
						break
					}
					time.Sleep(50 * time.Microsecond)
				}
			}
			wg.Add(1)
			go func(p int) {
				defer wg.Done()
				for r, pl := range payloads[p] {
					res := results[p][r]
					res.call = ev.stamp("c", p)
					err := exp.consume(context.Background(), pl.p)
					ret := ev.stamp("r", p)
					mu.Lock()
					res.err, res.ret, res.returned = err, ret, true
					mu.Unlock()
				}
			}(p)
		}
		wg.Wait()
		setPhase("gauge")
		if cfg.Wait {
			pollGauge()
		} else {
			// nothing tells a fire-and-forget producer when its data has left: the queue is drained when the
			// reported size is back to 0 (logical condition; the guard around this function classifies "never")
			for !abandoned.Load() {
				if v, ok := pollGauge(); !ok || v == 0 {
					break
				}
				time.Sleep(200 * time.Microsecond)
			}
		}
		setPhase("shutdown")
		if err := exp.shutdown(context.Background()); err != nil {
			c.Note("exporter shutdown returned %v", err)
		}
		setPhase("done")
	})
	if st != nil {
		abandoned.Store(true)
		l2Stuck.Store(true)
		if gap := time.Duration(sw.maxGap.Load()); gap > 2*time.Second && !(len(st.RepoFrames) == 1 && st.RepoFrames[0] == "panic") {
			c.Inconclusive("l2-stuck-but-scheduler-unhealthy")
			return false
		}
		phaseMu.Lock()
		ph := phase
		phaseMu.Unlock()
		if len(st.RepoFrames) == 1 && st.RepoFrames[0] == "panic" {
			site := driver.PanicSite(st.Dump)
			if site == "" {
				panic("harness panic in L2: " + st.Dump)
			}
			c.Violation("panic", "panic while batching: "+clipStr(st.Dump, 300), witness(map[string]any{"stack": clipStr(st.Dump, 4000)}), sig("site", site)...)
			return false
		}
		mu.Lock()
		open := 0
		for _, rr := range results {
			for _, r := range rr {
				if !r.returned {
					open++
				}
			}
		}
		nb := len(batches)
		mu.Unlock()
		if ph == "gauge" && !cfg.Wait && outstanding.Load() == 0 {
			c.Violation("queue-size", fmt.Sprintf("all %d batches were exported and every export call returned, but the reported queue size stays at %d", nb, gaugeAfter.Load()),
				witness(nil), sig()...)
			return false
		}
		frames := topFrames(st.RepoFrames)
		c.Violation("stuck", fmt.Sprintf("phase %s: no logical progress (%d Consume calls never returned, %d batches exported); blocked in: %s", ph, open, nb, strings.Join(st.RepoFrames, " | ")),
			witness(map[string]any{"goroutines": clipStr(st.Dump, 6000)}), sig("phase", ph, "frames", frames)...)
		return false
	}

	// ---- oracles
	mu.Lock()
	defer mu.Unlock()
	history := func() map[string]any {
		var bl, rl []string
		for _, b := range batches {
			bl = append(bl, fmt.Sprintf("batch %d: size=%d units=%d leaves=%d failed=%v end@%d requests=%v", b.k, b.size, b.units, len(b.recs), b.failed, b.finish, b.owners))
		}
		for _, rr := range results {
			for _, r := range rr {
				rl = append(rl, fmt.Sprintf("%s: leaves=%d call@%d return@%d err=%v", r.owner, r.leaves, r.call, r.ret, r.err))
			}
		}
		return map[string]any{"batches": bl, "requests": rl}
	}
	var in, out []canon.Record
	for _, pp := range payloads {
		for _, pl := range pp {
			in = append(in, pl.in...)
		}
	}
	ownerBatches := map[string][]*batchRec{}
	multiReqBatches, failedBatches := 0, 0
	for _, b := range batches {
		out = append(out, b.recs...)
		if cfg.Max > 0 && b.size > cfg.Max && b.units > 1 {
			cause := b.cause
			if cause == "" {
				cause = "-"
			}
			c.Violation("size-bound", fmt.Sprintf("%s: exported batch %d holds %d %s in %d indivisible units, max_size %d (cause: %s)", cfg.Signal, b.k, b.size, cfg.Sizer, b.units, cfg.Max, cause),
				witness(history()), sig("cause", cause, "over", overBucket(b.size-cfg.Max))...)
		}
		if len(canon.Owners(b.recs)) > 1 {
			multiReqBatches++
		}
		if b.failed {
			failedBatches++
		}
		for _, o := range b.owners {
			ownerBatches[o] = append(ownerBatches[o], b)
		}
	}
	reported := map[string]bool{}
	for _, m := range canon.Diff(in, out) {
		fields := m.Fields
		if len(fields) == 0 {
			fields = []string{"-"}
		}
		for _, f := range fields {
			if k := m.Kind + "/" + f; !reported[k] {
				reported[k] = true
				c.Violation("conservation", fmt.Sprintf("%s through the batcher: item %s %s (%s): in[%s] out[%s]", cfg.Signal, m.ID, m.Kind, f, clipStr(m.In, 160), clipStr(m.Out, 160)),
					witness(map[string]any{"mismatch": m}), "level", "L2", "signal", cfg.Signal, "sizer", cfg.Sizer, "kind", m.Kind, "field", f)
			}
		}
	}
	spread, withErr := 0, 0
	for _, rr := range results {
		for _, r := range rr {
			if r.err != nil {
				withErr++
			}
			bs := ownerBatches[r.owner]
			if len(bs) > 1 {
				spread++
			}
			if r.resources == 0 {
				continue // a request without any resource entry has no observable part
			}
			if !cfg.Wait {
				if r.err != nil {
					c.Violation("completion", fmt.Sprintf("request %s: Consume without wait_for_result returned %v", r.owner, r.err), witness(nil), sig("rule", "nowait-error", "cause", "-")...)
				}
				continue
			}
			anyFailed := false
			for _, b := range bs {
				if b.failed {
					anyFailed = true
				}
				if r.ret < b.finish {
					c.Violation("completion", fmt.Sprintf("request %s completed (event %d) before batch %d, which holds some of its items, had finished (event %d)", r.owner, r.ret, b.k, b.finish),
						witness(history()), sig("rule", "before-last-batch", "cause", "-")...)
				}
			}
			if anyFailed && r.err == nil {
				c.Violation("completion", fmt.Sprintf("request %s: a batch holding its items failed but Consume returned nil", r.owner), witness(history()), sig("rule", "error-lost", "cause", "-")...)
			}
			if !anyFailed && r.err != nil {
				// whose error is it? the scripted errors name their batch
				cause := "unknown-error"
				for _, b := range batches {
					if b.failed && strings.Contains(r.err.Error(), b.errMsg) && r.call < b.finish && b.finish < r.ret {
						cause = "error-of-batch-without-own-part"
						foreignError = true
					}
				}
				c.Violation("completion", fmt.Sprintf("request %s: every batch holding a part of it succeeded but Consume returned %v", r.owner, r.err), witness(history()), sig("rule", "spurious-error", "cause", cause)...)
			}
		}
	}
	if gaugeNegative.Load() || (gaugeRead.Load() && gaugeAfter.Load() != 0) {
		c.Violation("queue-size", fmt.Sprintf("reported queue size is %d after every request completed (a completion fired twice or not at all)", gaugeAfter.Load()), witness(nil), sig()...)
	}
	if !gaugeRead.Load() {
		c.Inconclusive("l2-gauge-unreadable")
	}
	c.Observe("l2_runs", 1)
	if cfg.Legacy {
		c.Observe("l2_runs_deprecated_batcher_behind_queue_sized_in_"+cfg.QueueSizer, 1)
		if cfg.Max > 0 && cfg.QueueSizer == "bytes" {
			c.Observe("l2_runs_deprecated_batcher_max>0_behind_bytes_queue", 1)
		}
	}
	c.Observe("l2_batches", int64(len(batches)))
	c.Observe("l2_failed_batches", int64(failedBatches))
	c.Observe("l2_requests", int64(cfg.Producers*cfg.PerProducer))
	c.Observe("l2_requests_spread_over_several_batches", int64(spread))
	c.Observe("l2_batches_holding_several_requests", int64(multiReqBatches))
	c.Observe("l2_requests_returning_error", int64(withErr))
	c.Observe("l2_items", int64(len(in)))
	c.Observe("l2_events", ev.seq.Load())
	isig := ev.signature()
	c.Distinct("l2_interleavings", isig)
	c.Distinct("l2_config_classes", cfg.class())
	if spread > 0 || multiReqBatches > 0 {
		var shapes []string
		for _, pp := range payloads {
			for _, pl := range pp {
				shapes = append(shapes, pl.shape)
			}
		}
		c.Nontrivial("L2", cfg.class(), cfg.Min, cfg.Max, strings.Join(shapes, "|"), isig)
	}
	if c.Shard == 0 {
		c.Sample(map[string]any{"level": "L2", "config": cfg, "batches": len(batches), "requests_spread": spread, "batches_with_several_requests": multiReqBatches, "failed_batches": failedBatches})
	}
	return foreignError
}

func topFrames(frames []string) string {
	set := map[string]bool{}
	for _, f := range frames {
		fn := strings.SplitN(f, " ", 2)[0]
		if strings.Contains(fn, "exporterhelper") {
			set[fn] = true
		}
	}
	var out []string
	for k := range set {
		out = append(out, k)
	}
	sort.Strings(out)
	if len(out) > 4 {
		out = out[:4]
	}
	return strings.Join(out, ",")
}

var _ = errors.New
