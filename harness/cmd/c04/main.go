// C04 — exporter batching conserves telemetry, keeps identity, respects size limits.
//
// L1 (plain variant): Request.MergeSplit called directly for logs, traces, metrics and profiles on
// generated payloads, in CPU/heap-guarded sub-children (l1.go). L2 (plain and race variants): the real
// batcher behind the public exporter API with several producers and scripted export outcomes (l2.go).
// Oracle: canonical item multiset (lib/canon) out = in, size bound unless a single indivisible unit,
// termination, completion exactly once / not before the last containing batch / error iff a
// containing batch failed, queue-size gauge back to 0.
package main

import (
	"fmt"
	"os"
	"runtime"
	"runtime/metrics"
	"sync/atomic"
	"time"

	"go.opentelemetry.io/collector/verifharness/lib/driver"
)

const l2Base = int64(1_000_000) // case indices of L2 start here (L1: directed cases first, then generated)

func run(c *driver.Ctx) {
	t0 := time.Now()
	if c.Variant == "plain" {
		runL1(c, 0, int64(c.N(500, 12000)))
	}
	c.Observe("wall_ms_l1_all_shards", time.Since(t0).Milliseconds())
	t0 = time.Now()
	defer func() { c.Observe("wall_ms_l2_all_shards", time.Since(t0).Milliseconds()) }()
	// L2: vary the parallelism of the runtime per shard for schedule diversity
	runtime.GOMAXPROCS([]int{1, 2, 4, 8}[c.Shard%4])
	n := int64(c.N(45, 1500))
	if c.Variant == "race" {
		n = int64(c.N(30, 800))
	}
	if c.Shard == 0 && c.Variant == "plain" && c.Want(l2Base-1) {
		directedL2(c) // reproducer of known finding C04-e
	}
	stopMem := l2MemoryGuard(c)
	defer stopMem()
	for k := int64(0); k < n; k++ {
		i := l2Base + k
		if !c.Want(i) {
			continue
		}
		if l2Stuck.Load() {
			// a run that got stuck leaves goroutines behind that may spin and allocate (a MergeSplit that does not
			// terminate runs inside this process): the verdict is recorded, the rest of this child's list is not run
			c.Inconclusive("l2-skipped-after-a-stuck-run")
			continue
		}
		runL2(c, c.CaseRand(i))
	}
}

var l2Stuck atomic.Bool

// l2MemoryGuard watches the live heap of the child while the batcher runs in-process: a MergeSplit that does not
// terminate inside the batcher cannot be stopped, so the child records the violation and ends itself.
func l2MemoryGuard(c *driver.Ctx) (stop func()) {
	done := make(chan struct{})
	go func() {
		sample := []metrics.Sample{{Name: "/memory/classes/heap/objects:bytes"}}
		for {
			select {
			case <-done:
				return
			case <-time.After(50 * time.Millisecond):
			}
			metrics.Read(sample)
			h := sample[0].Value.Uint64()
			c.ObserveMax("max:l2_child_live_heap_mib", int64(h>>20))
			if h > 192<<20 {
				sig := []string{"signal", "-", "sizer", "-", "qsizer", "-", "legacy", "-", "class", "in-batcher"}
				what := ""
				var w any
				if cfg := currentL2.Load(); cfg != nil {
					sig = []string{"signal", cfg.Signal, "sizer", cfg.Sizer, "qsizer", cfg.QueueSizer, "legacy", fmt.Sprint(cfg.Legacy), "class", "in-batcher"}
					what = fmt.Sprintf(" [run in progress: %s, batcher sizer %s max_size %d, sending_queue sizer %s, deprecated WithBatcher %v]", cfg.Signal, cfg.Sizer, cfg.Max, cfg.QueueSizer, cfg.Legacy)
					w = map[string]any{"config": cfg}
				}
				c.Violation("termination", fmt.Sprintf("L2: the live heap of the child reached %d MiB while the batcher was running in-process (runs normally need < 50 MiB, limit 192 MiB): a MergeSplit called by the batcher does not terminate%s", h>>20, what),
					w, sig...)
				time.Sleep(3 * time.Second) // let the driver's periodic flush write the verdict
				os.Exit(3)
			}
		}
	}()
	return func() { close(done) }
}

func main() {
	if os.Getenv("C04_SUBCHILD") == "1" {
		subchildMain()
		return
	}
	driver.Main(driver.Spec{
		ID:    "C04",
		Level: "exploration",
		Rule: "L1: a case is (signal, sizer items|bytes, max_size drawn around 0/1/2/3/total±1/total/2/first±1/largest-indivisible-unit+{0,1,2,3,5,10,50}, sequence of 1..6 generated requests, keep-or-emit script) " +
			"executed through Request.MergeSplit the way the batcher does; distinct by (signal, payload-shape list, sizer, max_size, request count); non-trivial when a call returned >= 2 requests or >= 2 requests were merged. " +
			"L2: a run is (signal, batcher sizer, min/max/flush_timeout, wait_for_result, sending_queue::batch (queue and batcher share the sizer items|bytes) or deprecated WithBatcher (items) alone or behind a queue sized in requests|items|bytes, 1..6 producers x 1..6 generated requests, export outcome and delay script); " +
			"distinct by (config class, min, max, payload shapes, interleaving signature = hash of the sequence of consume-call/consume-return/export-begin/export-end events with actors); non-trivial when a request was spread over >= 2 batches or a batch held >= 2 requests.",
		Assumptions: []string{
			"the pdata protobuf codec is trusted: inputs are what Encoding.Unmarshal decodes from generated OTLP bytes, outputs are read back with Encoding.Marshal and decoded with the pdata unmarshaler",
			"indivisible unit = one log record / span / metric data point; for profiles a whole profile (the implementation never splits a profile), so a batch may exceed max_size only if it holds at most one such unit",
			"L2 stays inside the input region where MergeSplit terminates on the pinned tree (bytes: max_size >= largest indivisible unit + 64; profiles/items: one sample per profile); the rest of the space is explored by L1 inside guarded sub-children",
			"non-termination is judged by the sub-child's own resource guards (live heap > 64 MiB or > 4 s CPU for one case; sibling cases need < 20 MiB and < 5 ms), never by wall-clock time",
			"completion order is decided on a per-run event counter: the export function stamps the end of a batch before it returns, the producer stamps after Consume returned",
		},
		TrustedBase: []string{"pdata protobuf marshal/unmarshal and JSON marshal (witness rendering only)", "componenttest.Telemetry metric reader for otelcol_exporter_queue_size", "lib/gen, lib/canon"},
		Shards:      func(string) int { return 16 },
		Variants:    func(string) []string { return []string{"plain", "race"} },
		MinNontrivial: func(tier string) int {
			if tier == "thorough" {
				return 20000
			}
			return 1500
		},
		ShardTimeout: func(tier string) time.Duration {
			if tier == "thorough" {
				return 90 * time.Minute
			}
			return 8 * time.Minute
		},
		Run:        run,
		MaxSamples: 2,
	})
}
