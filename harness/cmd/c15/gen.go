package main

import (
	"encoding/binary"
	"fmt"
	"math"
	"math/rand"
	"strings"

	"go.opentelemetry.io/collector/pdata/pcommon"
	"go.opentelemetry.io/collector/pdata/plog"
	"go.opentelemetry.io/collector/pdata/pmetric"
	"go.opentelemetry.io/collector/pdata/pprofile"
	"go.opentelemetry.io/collector/pdata/ptrace"
	"go.opentelemetry.io/collector/pdata/testdata"
)

const idKey = "c15.id"

var signals = []string{"logs", "traces", "metrics", "profiles"}

// payload is one generated request body of one signal. Exactly one of the four data fields is used.
type payload struct {
	Signal  string
	ID      string // unique id, stored in attribute c15.id of every resource ("" for payloads without resources)
	Flavour string
	Items   int
	ld      plog.Logs
	td      ptrace.Traces
	md      pmetric.Metrics
	pd      pprofile.Profiles
	canon   []byte // protobuf bytes taken before the payload was handed to anybody
}

func (p *payload) marshalProto() ([]byte, error) {
	switch p.Signal {
	case "logs":
		return (&plog.ProtoMarshaler{}).MarshalLogs(p.ld)
	case "traces":
		return (&ptrace.ProtoMarshaler{}).MarshalTraces(p.td)
	case "metrics":
		return (&pmetric.ProtoMarshaler{}).MarshalMetrics(p.md)
	default:
		return (&pprofile.ProtoMarshaler{}).MarshalProfiles(p.pd)
	}
}

func (p *payload) marshalJSON() ([]byte, error) {
	switch p.Signal {
	case "logs":
		return (&plog.JSONMarshaler{}).MarshalLogs(p.ld)
	case "traces":
		return (&ptrace.JSONMarshaler{}).MarshalTraces(p.td)
	case "metrics":
		return (&pmetric.JSONMarshaler{}).MarshalMetrics(p.md)
	default:
		return (&pprofile.JSONMarshaler{}).MarshalProfiles(p.pd)
	}
}

func protoToJSON(signal string, b []byte) ([]byte, error) {
	switch signal {
	case "logs":
		v, err := (&plog.ProtoUnmarshaler{}).UnmarshalLogs(b)
		if err != nil {
			return nil, err
		}
		return (&plog.JSONMarshaler{}).MarshalLogs(v)
	case "traces":
		v, err := (&ptrace.ProtoUnmarshaler{}).UnmarshalTraces(b)
		if err != nil {
			return nil, err
		}
		return (&ptrace.JSONMarshaler{}).MarshalTraces(v)
	case "metrics":
		v, err := (&pmetric.ProtoUnmarshaler{}).UnmarshalMetrics(b)
		if err != nil {
			return nil, err
		}
		return (&pmetric.JSONMarshaler{}).MarshalMetrics(v)
	default:
		v, err := (&pprofile.ProtoUnmarshaler{}).UnmarshalProfiles(b)
		if err != nil {
			return nil, err
		}
		return (&pprofile.JSONMarshaler{}).MarshalProfiles(v)
	}
}

type gen struct {
	rng  *rand.Rand
	id   string
	seq  int
	c08  bool // populate the three fields the OTLP/JSON decoder of the pinned tree is known (C08) to lose
	spec bool // special floats
	// multi: 3-5 resources, every one with at least one scope and one item, so that every prefix of the request that
	// ends between two top-level entries is itself a complete request with items
	multi bool
}

func (g *gen) uid() string { g.seq++; return fmt.Sprintf("%s.%d", g.id, g.seq) }

var strPool = []string{"", "a", "server", "пример", "日本語テキスト", "emoji 🔭📈", "quote\"back\\slash", "line\nbreak\ttab", "<html>&amp;", "nul\x00byte", " spaced ", "ÿþ", strings.Repeat("x", 300)}

func (g *gen) str() string {
	if g.rng.Intn(3) == 0 {
		return g.uid()
	}
	return strPool[g.rng.Intn(len(strPool))]
}

func (g *gen) f64() float64 {
	switch g.rng.Intn(12) {
	case 0:
		return 0
	case 1:
		return math.Copysign(0, -1)
	case 2:
		return math.MaxFloat64
	case 3:
		return math.SmallestNonzeroFloat64
	case 4:
		return -1.5e-300
	case 5:
		if g.spec {
			return []float64{math.NaN(), math.Inf(1), math.Inf(-1)}[g.rng.Intn(3)]
		}
	}
	return g.rng.NormFloat64() * 1e6
}

func (g *gen) i64() int64 {
	switch g.rng.Intn(8) {
	case 0:
		return math.MaxInt64
	case 1:
		return math.MinInt64
	case 2:
		return 0
	case 3:
		return -1
	}
	return g.rng.Int63() >> uint(g.rng.Intn(63))
}

func (g *gen) bytesN(n int) []byte {
	b := make([]byte, n)
	g.rng.Read(b)
	return b
}

func (g *gen) value(v pcommon.Value, depth int) {
	k := g.rng.Intn(8)
	if depth <= 0 && k >= 6 {
		k = g.rng.Intn(6)
	}
	switch k {
	case 0:
		v.SetStr(g.str())
	case 1:
		v.SetInt(g.i64())
	case 2:
		v.SetDouble(g.f64())
	case 3:
		v.SetBool(g.rng.Intn(2) == 0)
	case 4:
		// never empty: protobuf (the canonical form used for comparison, and two of the three transports) cannot tell
		// an empty bytes value from an unset value — codec territory (C08), not the hop
		v.SetEmptyBytes().FromRaw(g.bytesN(1 + g.rng.Intn(20)))
	case 5:
		// empty value
	case 6:
		m := v.SetEmptyMap()
		g.attrs(m, depth-1, g.rng.Intn(4))
	case 7:
		s := v.SetEmptySlice()
		for i, n := 0, g.rng.Intn(4); i < n; i++ {
			g.value(s.AppendEmpty(), depth-1)
		}
	}
}

func (g *gen) attrs(m pcommon.Map, depth, n int) {
	for i := 0; i < n; i++ {
		key := fmt.Sprintf("k%d", i)
		if g.rng.Intn(5) == 0 {
			key = g.str() + fmt.Sprint(i)
		}
		g.value(m.PutEmpty(key), depth)
	}
}

func (g *gen) resource(r pcommon.Resource) {
	r.Attributes().PutStr(idKey, g.id)
	g.attrs(r.Attributes(), 2, g.rng.Intn(4))
	if g.rng.Intn(3) == 0 {
		r.SetDroppedAttributesCount(uint32(g.rng.Intn(1000)))
	}
}

func (g *gen) scope(s pcommon.InstrumentationScope) {
	if g.rng.Intn(4) != 0 {
		s.SetName("scope-" + g.uid())
		s.SetVersion(fmt.Sprintf("v%d.%d", g.rng.Intn(9), g.rng.Intn(99)))
	}
	g.attrs(s.Attributes(), 1, g.rng.Intn(3))
	if g.rng.Intn(4) == 0 {
		s.SetDroppedAttributesCount(uint32(g.rng.Uint32()))
	}
}

func (g *gen) schema() string {
	if g.rng.Intn(2) == 0 {
		return ""
	}
	return "https://opentelemetry.io/schemas/1." + fmt.Sprint(g.rng.Intn(30)) + ".0"
}

func (g *gen) ts() pcommon.Timestamp {
	switch g.rng.Intn(6) {
	case 0:
		return 0
	case 1:
		return pcommon.Timestamp(math.MaxUint64)
	}
	return pcommon.Timestamp(1_700_000_000_000_000_000 + g.rng.Int63n(1e15))
}

func (g *gen) traceID() pcommon.TraceID {
	var t pcommon.TraceID
	if g.rng.Intn(5) != 0 {
		g.rng.Read(t[:])
	}
	return t
}

func (g *gen) spanID() pcommon.SpanID {
	var t pcommon.SpanID
	if g.rng.Intn(5) != 0 {
		g.rng.Read(t[:])
	}
	return t
}

// shape returns container counts; big makes one scope carry many items.
func (g *gen) shape(big bool) (nRes int, scopes func() int, items func() int) {
	nRes = 1 + g.rng.Intn(3)
	scopes = func() int { return g.rng.Intn(4) }
	items = func() int { return g.rng.Intn(6) }
	if big {
		nRes = 1
		scopes = func() int { return 1 }
		items = func() int { return 300 + g.rng.Intn(1500) }
	}
	if g.multi {
		nRes = 3 + g.rng.Intn(3)
		scopes = func() int { return 1 + g.rng.Intn(2) }
		items = func() int { return 1 + g.rng.Intn(3) }
	}
	return
}

func (g *gen) logs(big bool) (plog.Logs, int) {
	ld := plog.NewLogs()
	nRes, scopes, items := g.shape(big)
	for r := 0; r < nRes; r++ {
		rl := ld.ResourceLogs().AppendEmpty()
		g.resource(rl.Resource())
		rl.SetSchemaUrl(g.schema())
		for s, ns := 0, scopes(); s < ns; s++ {
			sl := rl.ScopeLogs().AppendEmpty()
			g.scope(sl.Scope())
			sl.SetSchemaUrl(g.schema())
			for i, ni := 0, items(); i < ni; i++ {
				g.logRecord(sl.LogRecords().AppendEmpty())
			}
		}
	}
	if ld.LogRecordCount() == 0 {
		g.logRecord(ld.ResourceLogs().At(0).ScopeLogs().AppendEmpty().LogRecords().AppendEmpty())
	}
	return ld, ld.LogRecordCount()
}

func (g *gen) logRecord(lr plog.LogRecord) {
	lr.Attributes().PutStr("item.id", g.uid())
	g.attrs(lr.Attributes(), 2, g.rng.Intn(4))
	lr.SetTimestamp(g.ts())
	lr.SetObservedTimestamp(g.ts())
	lr.SetSeverityNumber(plog.SeverityNumber(g.rng.Intn(25)))
	lr.SetSeverityText(g.str())
	g.value(lr.Body(), 2)
	lr.SetTraceID(g.traceID())
	lr.SetSpanID(g.spanID())
	lr.SetFlags(plog.LogRecordFlags(g.rng.Uint32()))
	lr.SetDroppedAttributesCount(uint32(g.rng.Intn(5)))
	if g.c08 {
		lr.SetEventName("event-" + g.uid())
	}
}

func (g *gen) traces(big bool) (ptrace.Traces, int) {
	td := ptrace.NewTraces()
	nRes, scopes, items := g.shape(big)
	for r := 0; r < nRes; r++ {
		rs := td.ResourceSpans().AppendEmpty()
		g.resource(rs.Resource())
		rs.SetSchemaUrl(g.schema())
		for s, ns := 0, scopes(); s < ns; s++ {
			ss := rs.ScopeSpans().AppendEmpty()
			g.scope(ss.Scope())
			ss.SetSchemaUrl(g.schema())
			for i, ni := 0, items(); i < ni; i++ {
				g.span(ss.Spans().AppendEmpty())
			}
		}
	}
	if td.SpanCount() == 0 {
		g.span(td.ResourceSpans().At(0).ScopeSpans().AppendEmpty().Spans().AppendEmpty())
	}
	return td, td.SpanCount()
}

func (g *gen) span(sp ptrace.Span) {
	sp.Attributes().PutStr("item.id", g.uid())
	g.attrs(sp.Attributes(), 2, g.rng.Intn(4))
	sp.SetName(g.str())
	sp.SetTraceID(g.traceID())
	sp.SetSpanID(g.spanID())
	sp.SetParentSpanID(g.spanID())
	sp.TraceState().FromRaw([]string{"", "k=v", "a=1,b=2"}[g.rng.Intn(3)])
	sp.SetKind(ptrace.SpanKind(g.rng.Intn(6)))
	sp.SetFlags(g.rng.Uint32())
	sp.SetStartTimestamp(g.ts())
	sp.SetEndTimestamp(g.ts())
	sp.SetDroppedAttributesCount(uint32(g.rng.Intn(3)))
	sp.SetDroppedEventsCount(uint32(g.rng.Intn(3)))
	sp.SetDroppedLinksCount(uint32(g.rng.Intn(3)))
	sp.Status().SetCode(ptrace.StatusCode(g.rng.Intn(3)))
	sp.Status().SetMessage(g.str())
	for i, n := 0, g.rng.Intn(3); i < n; i++ {
		ev := sp.Events().AppendEmpty()
		ev.SetName("ev-" + g.uid())
		ev.SetTimestamp(g.ts())
		g.attrs(ev.Attributes(), 1, g.rng.Intn(3))
		ev.SetDroppedAttributesCount(uint32(g.rng.Intn(3)))
	}
	for i, n := 0, g.rng.Intn(3); i < n; i++ {
		ln := sp.Links().AppendEmpty()
		ln.SetTraceID(g.traceID())
		ln.SetSpanID(g.spanID())
		ln.TraceState().FromRaw("l=" + g.uid())
		ln.SetFlags(g.rng.Uint32())
		g.attrs(ln.Attributes(), 1, g.rng.Intn(3))
		ln.SetDroppedAttributesCount(uint32(g.rng.Intn(3)))
	}
}

func (g *gen) metrics(big bool) (pmetric.Metrics, int) {
	md := pmetric.NewMetrics()
	nRes, scopes, items := g.shape(big)
	for r := 0; r < nRes; r++ {
		rm := md.ResourceMetrics().AppendEmpty()
		g.resource(rm.Resource())
		rm.SetSchemaUrl(g.schema())
		for s, ns := 0, scopes(); s < ns; s++ {
			sm := rm.ScopeMetrics().AppendEmpty()
			g.scope(sm.Scope())
			sm.SetSchemaUrl(g.schema())
			ni := items()
			if big {
				ni = ni / 4
			}
			for i := 0; i < ni; i++ {
				g.metric(sm.Metrics().AppendEmpty(), g.rng.Intn(6))
			}
		}
		for g.multi && resourceDataPoints(rm) == 0 {
			g.metric(rm.ScopeMetrics().At(0).Metrics().AppendEmpty(), 1+g.rng.Intn(4))
		}
	}
	for md.DataPointCount() == 0 {
		g.metric(md.ResourceMetrics().At(0).ScopeMetrics().AppendEmpty().Metrics().AppendEmpty(), 1+g.rng.Intn(4))
	}
	return md, md.DataPointCount()
}

func resourceDataPoints(rm pmetric.ResourceMetrics) int {
	tmp := pmetric.NewMetrics()
	rm.CopyTo(tmp.ResourceMetrics().AppendEmpty())
	return tmp.DataPointCount()
}

func (g *gen) exemplars(es pmetric.ExemplarSlice) {
	for i, n := 0, g.rng.Intn(3); i < n; i++ {
		e := es.AppendEmpty()
		e.SetTimestamp(g.ts())
		if g.rng.Intn(2) == 0 {
			e.SetIntValue(g.i64())
		} else {
			e.SetDoubleValue(g.f64())
		}
		e.SetTraceID(g.traceID())
		e.SetSpanID(g.spanID())
		g.attrs(e.FilteredAttributes(), 1, g.rng.Intn(3))
	}
}

func (g *gen) metric(m pmetric.Metric, points int) {
	m.SetName("metric-" + g.uid())
	m.SetDescription(g.str())
	m.SetUnit([]string{"", "1", "ms", "By/s", "{req}"}[g.rng.Intn(5)])
	g.attrs(m.Metadata(), 1, g.rng.Intn(3))
	number := func(dps pmetric.NumberDataPointSlice) {
		for i := 0; i < points; i++ {
			dp := dps.AppendEmpty()
			dp.Attributes().PutStr("item.id", g.uid())
			g.attrs(dp.Attributes(), 1, g.rng.Intn(3))
			dp.SetStartTimestamp(g.ts())
			dp.SetTimestamp(g.ts())
			switch g.rng.Intn(3) {
			case 0:
				dp.SetIntValue(g.i64())
			case 1:
				dp.SetDoubleValue(g.f64())
			}
			dp.SetFlags(pmetric.DataPointFlags(g.rng.Intn(2)))
			g.exemplars(dp.Exemplars())
		}
	}
	switch g.rng.Intn(6) {
	case 0:
		number(m.SetEmptyGauge().DataPoints())
	case 1:
		s := m.SetEmptySum()
		s.SetAggregationTemporality(pmetric.AggregationTemporality(g.rng.Intn(3)))
		s.SetIsMonotonic(g.rng.Intn(2) == 0)
		number(s.DataPoints())
	case 2:
		h := m.SetEmptyHistogram()
		h.SetAggregationTemporality(pmetric.AggregationTemporality(g.rng.Intn(3)))
		for i := 0; i < points; i++ {
			dp := h.DataPoints().AppendEmpty()
			dp.Attributes().PutStr("item.id", g.uid())
			dp.SetStartTimestamp(g.ts())
			dp.SetTimestamp(g.ts())
			dp.SetCount(g.rng.Uint64())
			if g.rng.Intn(2) == 0 {
				dp.SetSum(g.f64())
			}
			if g.rng.Intn(2) == 0 {
				dp.SetMin(g.f64())
				dp.SetMax(g.f64())
			}
			nb := g.rng.Intn(5)
			for b := 0; b < nb; b++ {
				dp.BucketCounts().Append(g.rng.Uint64())
				if b > 0 {
					dp.ExplicitBounds().Append(g.f64())
				}
			}
			dp.SetFlags(pmetric.DataPointFlags(g.rng.Intn(2)))
			g.exemplars(dp.Exemplars())
		}
	case 3:
		h := m.SetEmptyExponentialHistogram()
		h.SetAggregationTemporality(pmetric.AggregationTemporality(g.rng.Intn(3)))
		for i := 0; i < points; i++ {
			dp := h.DataPoints().AppendEmpty()
			dp.Attributes().PutStr("item.id", g.uid())
			dp.SetStartTimestamp(g.ts())
			dp.SetTimestamp(g.ts())
			dp.SetCount(g.rng.Uint64())
			dp.SetScale(int32(g.rng.Intn(40) - 20))
			dp.SetZeroCount(g.rng.Uint64())
			if g.rng.Intn(2) == 0 {
				dp.SetSum(g.f64())
				dp.SetMin(g.f64())
				dp.SetMax(g.f64())
			}
			dp.Positive().SetOffset(int32(g.rng.Intn(100) - 50))
			dp.Negative().SetOffset(int32(g.rng.Intn(100) - 50))
			for b, nb := 0, g.rng.Intn(4); b < nb; b++ {
				dp.Positive().BucketCounts().Append(g.rng.Uint64())
				dp.Negative().BucketCounts().Append(g.rng.Uint64())
			}
			if g.c08 {
				dp.SetZeroThreshold(0.5 + g.rng.Float64())
			}
			g.exemplars(dp.Exemplars())
		}
	case 4:
		s := m.SetEmptySummary()
		for i := 0; i < points; i++ {
			dp := s.DataPoints().AppendEmpty()
			dp.Attributes().PutStr("item.id", g.uid())
			dp.SetStartTimestamp(g.ts())
			dp.SetTimestamp(g.ts())
			dp.SetCount(g.rng.Uint64())
			dp.SetSum(g.f64())
			for q, nq := 0, g.rng.Intn(4); q < nq; q++ {
				qv := dp.QuantileValues().AppendEmpty()
				qv.SetQuantile(g.rng.Float64())
				qv.SetValue(g.f64())
			}
			dp.SetFlags(pmetric.DataPointFlags(g.rng.Intn(2)))
		}
	case 5:
		// a metric without data (type "empty"): travels, counts zero data points
	}
}

func (g *gen) profiles(big bool) (pprofile.Profiles, int) {
	pd := pprofile.NewProfiles()
	nRes, scopes, items := g.shape(big)
	for r := 0; r < nRes; r++ {
		rp := pd.ResourceProfiles().AppendEmpty()
		g.resource(rp.Resource())
		rp.SetSchemaUrl(g.schema())
		for s, ns := 0, scopes(); s < ns; s++ {
			sp := rp.ScopeProfiles().AppendEmpty()
			g.scope(sp.Scope())
			sp.SetSchemaUrl(g.schema())
			ni := items()
			if big {
				ni = ni / 10
			}
			for i := 0; i < ni; i++ {
				ns := g.rng.Intn(5)
				if g.multi && ns == 0 {
					ns = 1
				}
				g.profile(sp.Profiles().AppendEmpty(), ns)
			}
		}
	}
	if pd.SampleCount() == 0 {
		g.profile(pd.ResourceProfiles().At(0).ScopeProfiles().AppendEmpty().Profiles().AppendEmpty(), 1+g.rng.Intn(4))
	}
	return pd, pd.SampleCount()
}

func (g *gen) profile(p pprofile.Profile, samples int) {
	var id pprofile.ProfileID
	g.rng.Read(id[:])
	p.SetProfileID(id)
	p.SetTime(g.ts())
	p.SetStartTime(g.ts())
	p.SetDuration(g.ts())
	p.SetPeriod(g.i64())
	p.PeriodType().SetTypeStrindex(int32(g.rng.Intn(5)))
	p.PeriodType().SetUnitStrindex(int32(g.rng.Intn(5)))
	p.PeriodType().SetAggregationTemporality(pprofile.AggregationTemporality(g.rng.Intn(3)))
	p.SetDefaultSampleTypeStrindex(int32(g.rng.Intn(5)))
	p.SetDroppedAttributesCount(uint32(g.rng.Intn(4)))
	p.SetOriginalPayloadFormat([]string{"", "pprof", "jfr"}[g.rng.Intn(3)])
	if g.c08 {
		p.OriginalPayload().FromRaw(g.bytesN(1 + g.rng.Intn(40)))
	}
	p.StringTable().Append("", "cpu", "nanoseconds", g.uid(), g.str())
	for i, n := 0, g.rng.Intn(3); i < n; i++ {
		p.CommentStrindices().Append(int32(g.rng.Intn(5)))
	}
	for i, n := 0, 1+g.rng.Intn(2); i < n; i++ {
		st := p.SampleType().AppendEmpty()
		st.SetTypeStrindex(int32(g.rng.Intn(5)))
		st.SetUnitStrindex(int32(g.rng.Intn(5)))
		st.SetAggregationTemporality(pprofile.AggregationTemporality(g.rng.Intn(3)))
	}
	for i, n := 0, g.rng.Intn(3); i < n; i++ {
		m := p.MappingTable().AppendEmpty()
		m.SetMemoryStart(g.rng.Uint64())
		m.SetMemoryLimit(g.rng.Uint64())
		m.SetFileOffset(g.rng.Uint64())
		m.SetFilenameStrindex(int32(g.rng.Intn(5)))
		m.SetHasFunctions(g.rng.Intn(2) == 0)
		m.SetHasFilenames(g.rng.Intn(2) == 0)
		m.SetHasLineNumbers(g.rng.Intn(2) == 0)
		m.SetHasInlineFrames(g.rng.Intn(2) == 0)
		m.AttributeIndices().Append(int32(g.rng.Intn(3)))
	}
	for i, n := 0, g.rng.Intn(4); i < n; i++ {
		l := p.LocationTable().AppendEmpty()
		if g.rng.Intn(2) == 0 {
			l.SetMappingIndex(int32(g.rng.Intn(3)))
		}
		l.SetAddress(g.rng.Uint64())
		l.SetIsFolded(g.rng.Intn(2) == 0)
		for j, nl := 0, g.rng.Intn(3); j < nl; j++ {
			ln := l.Line().AppendEmpty()
			ln.SetFunctionIndex(int32(g.rng.Intn(4)))
			ln.SetLine(g.i64())
			ln.SetColumn(g.i64())
		}
		p.LocationIndices().Append(int32(i))
	}
	for i, n := 0, g.rng.Intn(3); i < n; i++ {
		f := p.FunctionTable().AppendEmpty()
		f.SetNameStrindex(int32(g.rng.Intn(5)))
		f.SetSystemNameStrindex(int32(g.rng.Intn(5)))
		f.SetFilenameStrindex(int32(g.rng.Intn(5)))
		f.SetStartLine(g.i64())
	}
	for i, n := 0, 1+g.rng.Intn(3); i < n; i++ {
		a := p.AttributeTable().AppendEmpty()
		a.SetKey(fmt.Sprintf("attr%d", i))
		g.value(a.Value(), 1)
		p.AttributeIndices().Append(int32(i))
	}
	for i, n := 0, g.rng.Intn(2); i < n; i++ {
		u := p.AttributeUnits().AppendEmpty()
		u.SetAttributeKeyStrindex(int32(g.rng.Intn(5)))
		u.SetUnitStrindex(int32(g.rng.Intn(5)))
	}
	for i, n := 0, g.rng.Intn(2); i < n; i++ {
		l := p.LinkTable().AppendEmpty()
		l.SetTraceID(g.traceID())
		l.SetSpanID(g.spanID())
	}
	for i := 0; i < samples; i++ {
		s := p.Sample().AppendEmpty()
		s.SetLocationsStartIndex(int32(g.rng.Intn(10)))
		s.SetLocationsLength(int32(g.rng.Intn(10)))
		for v, nv := 0, 1+g.rng.Intn(2); v < nv; v++ {
			s.Value().Append(g.i64())
		}
		s.AttributeIndices().Append(int32(g.rng.Intn(3)))
		if g.rng.Intn(2) == 0 {
			s.SetLinkIndex(int32(g.rng.Intn(2)))
		}
		for t, nt := 0, g.rng.Intn(3); t < nt; t++ {
			s.TimestampsUnixNano().Append(g.rng.Uint64())
		}
	}
}

// stampTestdata puts the id onto every resource of a payload built by pdata/testdata.
func stampRes(attrs pcommon.Map, id string) { attrs.PutStr(idKey, id) }

// newPayload builds the payload of one case. flavours: own | own-c08 | own-floats | testdata | big
func newPayload(rng *rand.Rand, signal, id, flavour string) *payload {
	p := &payload{Signal: signal, ID: id, Flavour: flavour}
	g := &gen{rng: rng, id: id, c08: flavour == "own-c08", spec: flavour == "own-floats", multi: flavour == "multi"}
	big := flavour == "big"
	switch signal {
	case "logs":
		if flavour == "testdata" {
			p.ld = testdata.GenerateLogs(1 + rng.Intn(8))
			for i := 0; i < p.ld.ResourceLogs().Len(); i++ {
				stampRes(p.ld.ResourceLogs().At(i).Resource().Attributes(), id)
			}
			p.Items = p.ld.LogRecordCount()
		} else {
			p.ld, p.Items = g.logs(big)
		}
	case "traces":
		if flavour == "testdata" {
			p.td = testdata.GenerateTraces(1 + rng.Intn(8))
			for i := 0; i < p.td.ResourceSpans().Len(); i++ {
				stampRes(p.td.ResourceSpans().At(i).Resource().Attributes(), id)
			}
			p.Items = p.td.SpanCount()
		} else {
			p.td, p.Items = g.traces(big)
		}
	case "metrics":
		if flavour == "testdata" {
			if rng.Intn(2) == 0 {
				p.md = testdata.GenerateMetricsAllTypes()
			} else {
				p.md = testdata.GenerateMetrics(1 + rng.Intn(8))
			}
			for i := 0; i < p.md.ResourceMetrics().Len(); i++ {
				stampRes(p.md.ResourceMetrics().At(i).Resource().Attributes(), id)
			}
			p.Items = p.md.DataPointCount()
		} else {
			p.md, p.Items = g.metrics(big)
		}
	default:
		if flavour == "testdata" {
			p.pd = testdata.GenerateProfiles(1 + rng.Intn(8))
			for i := 0; i < p.pd.ResourceProfiles().Len(); i++ {
				stampRes(p.pd.ResourceProfiles().At(i).Resource().Attributes(), id)
			}
			p.Items = p.pd.SampleCount()
		} else {
			p.pd, p.Items = g.profiles(big)
		}
	}
	p.canon, _ = p.marshalProto()
	return p
}

// zeroItemPayload builds a request that carries containers but no items. shapes: empty | resources | scopes | hollow
func zeroItemPayload(rng *rand.Rand, signal, id, shape string) *payload {
	p := &payload{Signal: signal, ID: id, Flavour: "zero-" + shape}
	g := &gen{rng: rng, id: id}
	p.ld, p.td, p.md, p.pd = plog.NewLogs(), ptrace.NewTraces(), pmetric.NewMetrics(), pprofile.NewProfiles()
	if shape != "empty" {
		for r, n := 0, 1+rng.Intn(2); r < n; r++ {
			switch signal {
			case "logs":
				x := p.ld.ResourceLogs().AppendEmpty()
				g.resource(x.Resource())
				if shape != "resources" {
					g.scope(x.ScopeLogs().AppendEmpty().Scope())
				}
			case "traces":
				x := p.td.ResourceSpans().AppendEmpty()
				g.resource(x.Resource())
				if shape != "resources" {
					g.scope(x.ScopeSpans().AppendEmpty().Scope())
				}
			case "metrics":
				x := p.md.ResourceMetrics().AppendEmpty()
				g.resource(x.Resource())
				if shape != "resources" {
					sm := x.ScopeMetrics().AppendEmpty()
					g.scope(sm.Scope())
					if shape == "hollow" {
						// metrics that exist but have no data points
						m := sm.Metrics().AppendEmpty()
						m.SetName("hollow-" + g.uid())
						switch rng.Intn(3) {
						case 0:
							m.SetEmptyGauge()
						case 1:
							m.SetEmptySum()
						}
					}
				}
			default:
				x := p.pd.ResourceProfiles().AppendEmpty()
				g.resource(x.Resource())
				if shape != "resources" {
					sp := x.ScopeProfiles().AppendEmpty()
					g.scope(sp.Scope())
					if shape == "hollow" {
						// a profile without samples
						pr := sp.Profiles().AppendEmpty()
						var pid pprofile.ProfileID
						binary.BigEndian.PutUint64(pid[:], rng.Uint64())
						pr.SetProfileID(pid)
					}
				}
			}
		}
	}
	p.canon, _ = p.marshalProto()
	return p
}
