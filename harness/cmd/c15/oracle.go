package main

// The expectation tables of this file are written from the OTLP specification
// (opentelemetry-proto/docs/specification.md, sections "OTLP/gRPC Failures", "OTLP/gRPC Throttling",
// "OTLP/HTTP Failures", "OTLP/HTTP Throttling") and from the C15 property statement — not from the
// receiver's or the exporters' code.

import (
	"encoding/json"
	"errors"
	"fmt"
	"regexp"
	"sort"
	"strconv"
	"strings"
	"time"

	"google.golang.org/genproto/googleapis/rpc/errdetails"
	"google.golang.org/grpc/codes"
	"google.golang.org/grpc/status"
	"google.golang.org/protobuf/types/known/durationpb"

	"go.opentelemetry.io/collector/consumer/consumererror"
)

// spec: gRPC codes a client may retry unconditionally.
var grpcAlwaysRetryable = map[codes.Code]bool{
	codes.Canceled: true, codes.DeadlineExceeded: true, codes.Aborted: true, codes.OutOfRange: true, codes.Unavailable: true, codes.DataLoss: true,
}

// spec: ResourceExhausted is retryable only if the server signals (RetryInfo) that recovery is possible.
func grpcRetryable(c codes.Code, hasRetryInfo bool) bool {
	return grpcAlwaysRetryable[c] || (c == codes.ResourceExhausted && hasRetryInfo)
}

// spec: HTTP response codes a client should retry.
var httpRetryable = map[int]bool{429: true, 502: true, 503: true, 504: true}

// outcome is what the scripted consumer behind the receiver returns.
type outcome struct {
	Name string
	Kind string // nil | transient | permanent | status
	// for Kind == status (the error carries an explicit gRPC status, possibly wrapped)
	Code     codes.Code
	HasRI    bool
	Delay    time.Duration
	RIClass  string // none | zero | 1s | 7s | frac | sub
	Wrapping string // "" | fmt | permanent
}

func (o outcome) err() error {
	switch o.Kind {
	case "nil":
		return nil
	case "transient":
		return errors.New("c15 transient failure")
	case "permanent":
		return consumererror.NewPermanent(errors.New("c15 permanent failure"))
	}
	st := status.New(o.Code, "c15 status "+o.Code.String())
	if o.HasRI {
		st2, err := st.WithDetails(&errdetails.RetryInfo{RetryDelay: durationpb.New(o.Delay)})
		if err == nil {
			st = st2
		}
	}
	e := st.Err()
	switch o.Wrapping {
	case "fmt":
		return fmt.Errorf("wrapped by a processor: %w", e)
	case "permanent":
		return consumererror.NewPermanent(e)
	}
	return e
}

var riClasses = []struct {
	name  string
	has   bool
	delay time.Duration
}{
	{"none", false, 0}, {"zero", true, 0}, {"1s", true, time.Second}, {"7s", true, 7 * time.Second},
	{"frac", true, 1500 * time.Millisecond}, {"sub", true, 300 * time.Millisecond},
}

func allOutcomes() []outcome {
	out := []outcome{{Name: "nil", Kind: "nil"}, {Name: "transient", Kind: "transient"}, {Name: "permanent", Kind: "permanent"}}
	for c := codes.Canceled; c <= codes.Unauthenticated; c++ {
		for _, ri := range riClasses {
			out = append(out, outcome{Name: fmt.Sprintf("status:%s/ri=%s", c, ri.name), Kind: "status", Code: c, HasRI: ri.has, Delay: ri.delay, RIClass: ri.name})
		}
	}
	for _, c := range []codes.Code{codes.Unavailable, codes.InvalidArgument, codes.ResourceExhausted} {
		out = append(out, outcome{Name: fmt.Sprintf("status:%s/wrapped-fmt", c), Kind: "status", Code: c, RIClass: "none", Wrapping: "fmt"})
		out = append(out, outcome{Name: fmt.Sprintf("status:%s/wrapped-permanent", c), Kind: "status", Code: c, RIClass: "none", Wrapping: "permanent"})
	}
	out = append(out, outcome{Name: "status:Unavailable/ri=1s/wrapped-fmt", Kind: "status", Code: codes.Unavailable, HasRI: true, Delay: time.Second, RIClass: "1s", Wrapping: "fmt"})
	return out
}

// expectation for the sending side.
type expect struct {
	Class    string        // ok | permanent | retry | either (spec leaves it to the chosen HTTP status)
	MinDelay time.Duration // > 0: a throttling delay of at least this much must be honoured
}

// expected is the closed-loop table: consumer outcome -> what the sender must conclude.
func expected(o outcome, transport string) expect {
	switch o.Kind {
	case "nil":
		return expect{Class: "ok"}
	case "transient":
		return expect{Class: "retry"} // statement: any other error -> retryable status
	case "permanent":
		return expect{Class: "permanent"} // statement: any other permanent error -> non-retryable status
	}
	// explicit status: reported with that status, then classified by the spec table of the transport
	e := expect{}
	if transport == "grpc" {
		if grpcRetryable(o.Code, o.HasRI) {
			e.Class = "retry"
		} else {
			e.Class = "permanent"
		}
	} else {
		switch {
		case grpcAlwaysRetryable[o.Code]:
			e.Class = "retry"
		case o.Code == codes.ResourceExhausted && o.HasRI:
			e.Class = "retry" // the consumer said recovery is possible
		case o.Code == codes.ResourceExhausted:
			e.Class = "either" // spec: 429 (retryable) is the throttling status; nothing fixes the status for "exhausted, no recovery hint"
		default:
			e.Class = "permanent"
		}
	}
	if e.Class == "retry" && o.HasRI && o.Delay > 0 {
		e.MinDelay = o.Delay
	}
	return e
}

var (
	throttleRe = regexp.MustCompile(`Throttle \(([^)]+)\)`)
	httpCodeRe = regexp.MustCompile(`HTTP Status Code (\d+)`)
)

// classify reads the classification out of the error an exporter returns (retry disabled): nil,
// consumererror permanent, throttle retry with its delay, or plain (retryable).
func classify(err error) (class string, delay time.Duration) {
	switch {
	case err == nil:
		return "ok", 0
	case consumererror.IsPermanent(err):
		return "permanent", 0
	}
	if m := throttleRe.FindStringSubmatch(err.Error()); m != nil {
		if d, perr := time.ParseDuration(m[1]); perr == nil {
			return "throttle", d
		}
		return "throttle", -1
	}
	return "retry", 0
}

func httpCodeIn(err error) int {
	if err == nil {
		return 0
	}
	if m := httpCodeRe.FindStringSubmatch(err.Error()); m != nil {
		n, _ := strconv.Atoi(m[1])
		return n
	}
	return 0
}

// grpcStatusOf extracts the gRPC status carried by an error chain (nil if none).
func grpcStatusOf(err error) *status.Status {
	var gs interface{ GRPCStatus() *status.Status }
	if errors.As(err, &gs) {
		return gs.GRPCStatus()
	}
	return nil
}

func retryInfoOf(st *status.Status) (time.Duration, bool) {
	if st == nil {
		return 0, false
	}
	for _, d := range st.Details() {
		if ri, ok := d.(*errdetails.RetryInfo); ok {
			return ri.GetRetryDelay().AsDuration(), true
		}
	}
	return 0, false
}

// jsonDiffPaths renders both payloads as OTLP/JSON and lists the paths (indices erased) at which they differ.
func jsonDiffPaths(signal string, a, b []byte) string {
	ja, err1 := protoToJSON(signal, a)
	jb, err2 := protoToJSON(signal, b)
	if err1 != nil || err2 != nil {
		return "(not renderable)"
	}
	var va, vb any
	da := json.NewDecoder(strings.NewReader(string(ja)))
	da.UseNumber()
	db := json.NewDecoder(strings.NewReader(string(jb)))
	db.UseNumber()
	if da.Decode(&va) != nil || db.Decode(&vb) != nil {
		return "(not renderable)"
	}
	set := map[string]struct{}{}
	var walk func(p string, x, y any)
	walk = func(p string, x, y any) {
		if len(set) > 8 {
			return
		}
		switch xv := x.(type) {
		case map[string]any:
			yv, ok := y.(map[string]any)
			if !ok {
				set[p] = struct{}{}
				return
			}
			for k, v := range xv {
				w, present := yv[k]
				if !present {
					set[p+"."+k] = struct{}{}
					continue
				}
				walk(p+"."+k, v, w)
			}
			for k := range yv {
				if _, present := xv[k]; !present {
					set[p+"."+k] = struct{}{}
				}
			}
		case []any:
			yv, ok := y.([]any)
			if !ok || len(xv) != len(yv) {
				set[p+"[]#len"] = struct{}{}
				return
			}
			for i := range xv {
				walk(p+"[]", xv[i], yv[i])
			}
		default:
			if fmt.Sprint(x) != fmt.Sprint(y) {
				set[p] = struct{}{}
			}
		}
	}
	walk("", va, vb)
	if len(set) == 0 {
		return "(equal in OTLP/JSON rendering)"
	}
	ps := make([]string, 0, len(set))
	for k := range set {
		ps = append(ps, strings.TrimPrefix(k, "."))
	}
	sort.Strings(ps)
	return strings.Join(ps, ",")
}
