// C15 — OTLP exporter -> OTLP receiver preserves data and the meaning of failures.
//
// Monitor: in one process the real OTLP receiver (gRPC + HTTP, all four signals) stands in front of a
// scripted consumer; the real OTLP gRPC exporter and OTLP/HTTP exporter (proto, JSON; every compression
// they accept; retry off to read the classification directly, retry on to watch the retry sender act
// on it) and raw net/http / gRPC clients talk to it over loop-back sockets. Verdicts: payload bytes at
// the consumer == bytes sent; sender success <=> consumer success; consumer error -> wire status ->
// sender classification == tables written from the OTLP specification; malformed / unauthenticated
// requests get the protocol's client-error status and never reach the consumer; zero-item requests
// succeed without reaching it.
package main

import (
	"bytes"
	"context"
	"fmt"
	"math/rand"
	"sort"
	"strings"
	"sync"
	"time"

	"google.golang.org/grpc/codes"
	"google.golang.org/grpc/status"

	"go.opentelemetry.io/collector/verifharness/lib/driver"
	"go.opentelemetry.io/collector/verifharness/lib/loopkit"
)

type caseSpec struct {
	Env     string     `json:"env"`  // plain | auth
	Mode    string     `json:"mode"` // direct | retry | zero | malformed | repro
	Client  clientSpec `json:"client"`
	Signal  string     `json:"signal"`
	Outcome int        `json:"-"`
	OutName string     `json:"consumer_outcome,omitempty"`
	Mal     string     `json:"malformed_kind,omitempty"`
	Zero    string     `json:"zero_shape,omitempty"`
	Rep     int        `json:"rep"`
	Flavour string     `json:"payload_flavour,omitempty"`
}

var outcomes = allOutcomes()

func exporterClients(cred string) []clientSpec {
	var out []clientSpec
	for _, comp := range []string{"none", "gzip", "snappy", "zstd"} {
		out = append(out, clientSpec{"exporter", "grpc", "proto", comp, cred})
	}
	for _, enc := range []string{"proto", "json"} {
		for _, comp := range []string{"none", "gzip", "zlib", "deflate", "zstd", "snappy", "lz4"} {
			out = append(out, clientSpec{"exporter", "http", enc, comp, cred})
		}
	}
	return out
}

func rawClients(cred string) []clientSpec {
	return []clientSpec{
		{"rawgrpc", "grpc", "proto", "none", cred}, {"rawgrpc", "grpc", "proto", "gzip", cred},
		{"rawhttp", "http", "proto", "none", cred}, {"rawhttp", "http", "proto", "gzip", cred},
		{"rawhttp", "http", "json", "none", cred}, {"rawhttp", "http", "json", "zstd", cred},
	}
}

var httpMalformed = []string{
	"proto:bad-length", "proto:truncated", "proto:bad-wiretype", "proto:open-varint",
	"json:truncated", "json:not-json", "json:wrong-type", "json:unbalanced", "json:proto-bytes",
	"json:empty-body", "json:whitespace-only", "json:trailing-garbage", "json:two-documents", "json:array",
	"encoding:bad-gzip", "encoding:bad-zstd", "encoding:unknown", "both:bad-gzip+text/plain",
	"encoding:zstd-damaged", "encoding:gzip-damaged",
	"media:text/plain", "media:application/xml", "media:none", "media:garbage", "media:application/grpc",
	"media:application/json-seq", "media:application/jsonl", "media:application/json5; charset=utf-8", "media:application/x-protobuf-delimited", "media:application/x-protobuffer",
	"method:GET", "method:PUT", "method:DELETE", "method:PATCH", "method:HEAD",
}

// requests cut short on the wire by a sender that dies mid-body (raw TCP, write side closed after a prefix)
var cutMalformed = []string{
	"cut:proto-boundaries", "cut:proto-random", "cut:proto-zero", "cut:json-random", "cut:json-zero",
	"cut:chunked-boundary", "cut:chunked-all-data", "cut:gzip-short", "cut:gzip-short-stream", "cut:control-complete",
}

// (an unknown content-subtype is not in the list: grpc-go falls back to the proto codec for it, so the request is simply valid)
var grpcMalformed = []string{"grpc:bad-length", "grpc:truncated", "grpc:bad-wiretype", "grpc:open-varint", "grpc:unknown-method"}

var zeroShapes = []string{"empty", "resources", "scopes", "hollow"}

// authOutcomes are the consumer outcomes exercised behind the authenticator.
var authOutcomeNames = []string{"nil", "transient", "permanent", "status:Unavailable/ri=1s", "status:InvalidArgument/ri=none"}

func outcomeIndex(name string) int {
	for i, o := range outcomes {
		if o.Name == name {
			return i
		}
	}
	panic("no outcome " + name)
}

// buildCases enumerates the complete grid; it is a function of the tier only (payloads come from the case PRNG).
func buildCases(c *driver.Ctx) []caseSpec {
	var cs []caseSpec
	reps := c.N(1, 6)
	if c.Variant == "race" {
		reps = 1 // the race build is ~6x slower per exchange; it is there for the overlapping exchanges, not for volume
	}
	for rep := 0; rep < reps; rep++ {
		// plain environment
		for _, cl := range append(exporterClients(""), rawClients("")...) {
			for _, sg := range signals {
				for oi := range outcomes {
					cs = append(cs, caseSpec{Env: "plain", Mode: "direct", Client: cl, Signal: sg, Outcome: oi, Rep: rep})
				}
			}
		}
		for _, cl := range exporterClients("") {
			for _, sg := range signals {
				for oi := range outcomes {
					if outcomes[oi].Kind == "nil" {
						continue
					}
					cs = append(cs, caseSpec{Env: "plain", Mode: "retry", Client: cl, Signal: sg, Outcome: oi, Rep: rep})
				}
			}
		}
		for _, cl := range append(exporterClients(""), rawClients("")...) {
			for _, sg := range signals {
				for _, z := range zeroShapes {
					cs = append(cs, caseSpec{Env: "plain", Mode: "zero", Client: cl, Signal: sg, Zero: z, Rep: rep})
				}
			}
		}
		for _, sg := range signals {
			for _, k := range append(append([]string{}, httpMalformed...), cutMalformed...) {
				cs = append(cs, caseSpec{Env: "plain", Mode: "malformed", Client: clientSpec{"rawhttp", "http", "", "none", ""}, Signal: sg, Mal: k, Rep: rep})
			}
			for _, k := range grpcMalformed {
				cs = append(cs, caseSpec{Env: "plain", Mode: "malformed", Client: clientSpec{"rawgrpc", "grpc", "proto", "none", ""}, Signal: sg, Mal: k, Rep: rep})
			}
		}
		// environment with a server-side authenticator
		for _, cred := range []string{"good", "bad", "none"} {
			cls := []clientSpec{
				{"exporter", "grpc", "proto", "none", cred}, {"exporter", "grpc", "proto", "gzip", cred},
				{"exporter", "http", "proto", "none", cred}, {"exporter", "http", "json", "gzip", cred},
				{"rawgrpc", "grpc", "proto", "none", cred}, {"rawhttp", "http", "proto", "none", cred}, {"rawhttp", "http", "json", "none", cred},
			}
			for _, cl := range cls {
				for _, sg := range signals {
					for _, on := range authOutcomeNames {
						cs = append(cs, caseSpec{Env: "auth", Mode: "direct", Client: cl, Signal: sg, Outcome: outcomeIndex(on), Rep: rep})
					}
					cs = append(cs, caseSpec{Env: "auth", Mode: "zero", Client: cl, Signal: sg, Zero: "empty", Rep: rep})
				}
			}
			for _, sg := range signals {
				for _, k := range []string{"proto:bad-length", "json:truncated", "media:text/plain", "method:GET", "encoding:bad-gzip"} {
					cs = append(cs, caseSpec{Env: "auth", Mode: "malformed", Client: clientSpec{"rawhttp", "http", "", "none", cred}, Signal: sg, Mal: k, Rep: rep})
				}
				for _, k := range []string{"grpc:bad-length", "grpc:unknown-method"} {
					cs = append(cs, caseSpec{Env: "auth", Mode: "malformed", Client: clientSpec{"rawgrpc", "grpc", "proto", "none", cred}, Signal: sg, Mal: k, Rep: rep})
				}
			}
		}
	}
	for i := range cs {
		if cs[i].Mode == "direct" || cs[i].Mode == "retry" {
			cs[i].OutName = outcomes[cs[i].Outcome].Name
		}
	}
	return cs
}

// ------------------------------------------------------------------ running

type job struct {
	g   int64
	cs  caseSpec
	rng *rand.Rand
	p   *payload
	// observations
	err      error // exporter / raw gRPC result
	hobs     httpObs
	recs     []sinkRec
	logs     []loopkit.Entry
	before   int64
	after    int64
	panicked string
	skip     string
	cuts     []cutObs
	// confirm-by-repetition
	round        int
	inconclusive bool
	pends        []pend
}

// pend is a violation found by one execution of a case; it is reported once the case reproduced it.
type pend struct {
	sub, what string
	wit       map[string]any
	sig       []string
}

func (j *job) add(sub, what string, wit map[string]any, sig ...string) {
	j.pends = append(j.pends, pend{sub, what, wit, sig})
}

func (e *env) obs(j *job, name string, n int64) {
	if j.round == 0 {
		e.c.Observe(name, n)
	}
}

// deterministicByNature: differences in delivered bytes and the whole-second truncation cannot be produced by a
// disturbed connection (TCP delivers the bytes or fails), so they need no confirmation.
func deterministicByNature(p pend) bool {
	if p.sub == "payload" || p.sub == "truncated-delivered" || p.sub == "truncated-accepted" {
		return true // what the consumer received / a 2xx for an incomplete request is a fact no broken connection can produce
	}
	if p.sub == "throttle-delay" {
		for i := 0; i+1 < len(p.sig); i += 2 {
			if p.sig[i] == "honoured" && p.sig[i+1] == "floor-seconds" {
				return true
			}
		}
	}
	return false
}

func pickFlavour(rng *rand.Rand) string {
	switch p := rng.Intn(100); {
	case p < 50:
		return "own"
	case p < 65:
		return "testdata"
	case p < 80:
		return "own-c08"
	case p < 90:
		return "own-floats"
	case p < 93:
		return "big"
	}
	return "own"
}

func concurrentOK(cs caseSpec) bool {
	// cases decided purely from id-attributed consumer records may overlap in time; the others compare the
	// global consumer call counter and run alone
	return (cs.Mode == "direct" || cs.Mode == "retry") && (cs.Client.Cred == "" || cs.Client.Cred == "good")
}

func run(c *driver.Ctx) {
	all := buildCases(c)
	for _, envName := range []string{"plain", "auth"} {
		var mine []*job
		for g := range all {
			if all[g].Env != envName {
				continue
			}
			if !c.Mine(int64(g)) {
				continue
			}
			mine = append(mine, &job{g: int64(g), cs: all[g]})
		}
		if c.Shard == 0 && envName == "plain" && (c.Only < 0 || c.Only == 0) {
			// directed reproducers of the known findings run in every run as part of case 0
			mine = append(reproducerJobs(), mine...)
		}
		if len(mine) == 0 {
			continue
		}
		e, err := startEnv(c, envName, envName == "auth")
		if err != nil {
			c.Inconclusive("environment-start")
			c.Note("could not start the %s environment: %v", envName, err)
			continue
		}
		c.Distinct("environments", envName)
		wrng := rand.New(rand.NewSource(c.Seed*7919 + int64(c.Shard)))
		for off := 0; off < len(mine); {
			j := mine[off]
			wave := []*job{j}
			off++
			if concurrentOK(j.cs) {
				want := 1 + wrng.Intn(4)
				used := map[string]bool{j.cs.Client.String() + j.cs.Signal + j.cs.Mode: true}
				for off < len(mine) && len(wave) < want && concurrentOK(mine[off].cs) {
					k := mine[off].cs.Client.String() + mine[off].cs.Signal + mine[off].cs.Mode
					if used[k] {
						break // one exporter instance serves one exchange at a time (its log is attributed to it)
					}
					used[k] = true
					wave = append(wave, mine[off])
					off++
				}
			}
			e.runWave(wave)
		}
		e.stop()
		c.Observe("authenticator_calls", e.ext.calls.Load())
		c.Observe("authenticator_denials", e.ext.deny.Load())
	}
}

func (e *env) runWave(wave []*job) {
	c := e.c
	var wg sync.WaitGroup
	for _, j := range wave {
		c.Want(j.g)
		j.rng = c.CaseRand(j.g)
		wg.Add(1)
		go func(j *job) {
			defer wg.Done()
			if pv, stack := driver.Catch(func() { e.execute(j) }); pv != nil {
				j.panicked = fmt.Sprintf("%v\n%s", pv, stack)
			}
		}(j)
	}
	wg.Wait()
	rl := e.rcvLogs.Drain()
	if p := loopkit.PanicIn(rl); p != "" {
		var specs []caseSpec
		for _, j := range wave {
			specs = append(specs, j.cs)
		}
		c.Want(wave[0].g)
		c.Violation("panic", "the receiver's HTTP server recovered a panic while serving: "+strings.SplitN(p, "\n", 2)[0], map[string]any{"cases_in_flight": specs, "log": p}, "where", loopkit.RepoFrame(p), "side", "receiver")
	}
	for _, j := range wave {
		c.Want(j.g)
		if j.panicked != "" {
			c.Violation("panic", "panic on the sending side: "+strings.SplitN(j.panicked, "\n", 2)[0], map[string]any{"case": j.cs, "stack": j.panicked}, "where", driver.PanicSite(j.panicked), "side", "sender")
			continue
		}
		if j.skip != "" {
			c.Inconclusive(j.skip)
			continue
		}
		e.evaluate(j)
		e.settle(j)
	}
}

// settle reports what one case found. Functional defects of the hop are deterministic, whereas an overloaded
// machine occasionally breaks a connection (the sender then sees a failure the consumer never produced): an
// anomaly is therefore reported only if two further executions of the same case show the same kind of anomaly;
// otherwise the case is inconclusive and noted.
func (e *env) settle(j *job) {
	c := e.c
	if len(j.pends) == 0 {
		return
	}
	var need []pend
	for _, p := range j.pends {
		if deterministicByNature(p) {
			c.Violation(p.sub, p.what, p.wit, p.sig...)
		} else {
			need = append(need, p)
		}
	}
	if len(need) == 0 {
		return
	}
	alive := map[string]bool{}
	for _, p := range need {
		alive[p.sub] = true
	}
	for round := 1; round <= 2 && len(alive) > 0; round++ {
		nj := &job{g: j.g, cs: j.cs, round: round, rng: rand.New(rand.NewSource(j.g*131 + int64(round) + c.Seed))}
		if pv, stack := driver.Catch(func() { e.execute(nj) }); pv != nil {
			c.Violation("panic", fmt.Sprintf("panic on the sending side: %v", pv), map[string]any{"case": j.cs, "stack": stack}, "where", driver.PanicSite(stack), "side", "sender")
			return
		}
		seen := map[string]bool{}
		if nj.skip == "" {
			e.evaluate(nj)
			for _, p := range nj.pends {
				seen[p.sub] = true
			}
		}
		for sub := range alive {
			if !seen[sub] {
				delete(alive, sub)
			}
		}
		e.rcvLogs.Drain()
	}
	reported := false
	for _, p := range need {
		if alive[p.sub] {
			p.wit["reproduced_in_2_further_executions"] = true
			c.Violation(p.sub, p.what, p.wit, p.sig...)
			reported = true
		}
	}
	if !reported {
		c.Inconclusive("anomaly-not-reproduced")
		c.Observe("anomaly_not_reproduced:"+need[0].sub, 1)
		c.Note("not reproduced (case %d, %s/%s %s %s): [%s] %s", j.g, j.cs.Client, j.cs.Signal, j.cs.Mode, j.cs.OutName+j.cs.Mal+j.cs.Zero, need[0].sub, trunc(need[0].what, 300))
	}
}

func (e *env) newID(j *job) string {
	return fmt.Sprintf("s%d.g%d.r%d.%x", e.c.Shard, j.g, j.round, j.rng.Uint32())
}

// execute performs the exchange(s) of one case and stores what was observed.
func (e *env) execute(j *job) {
	cs := j.cs
	id := e.newID(j)
	switch cs.Mode {
	case "direct", "retry", "repro":
		if cs.Flavour == "" {
			cs.Flavour = pickFlavour(j.rng)
		}
		j.cs.Flavour = cs.Flavour
		j.p = newPayload(j.rng, cs.Signal, id, cs.Flavour)
	case "zero":
		j.p = zeroItemPayload(j.rng, cs.Signal, id, cs.Zero)
	case "malformed":
		fl := "own"
		if strings.HasPrefix(cs.Mal, "cut:") {
			fl = "multi"
		}
		j.p = newPayload(j.rng, cs.Signal, id, fl)
	}
	o := outcome{Kind: "nil"}
	if cs.Mode == "direct" || cs.Mode == "retry" || cs.Mode == "repro" {
		o = outcomes[cs.Outcome]
	}
	switch cs.Mode {
	case "retry":
		e.sink.arm(id, []error{o.err(), nil})
	case "malformed", "zero":
		e.sink.arm(id, nil)
	default:
		e.sink.arm(id, []error{o.err()})
	}
	j.before = e.sink.calls()
	switch {
	case cs.Mode == "malformed":
		e.execMalformed(j)
	case cs.Client.Kind == "exporter":
		x, err := e.exporter(cs.Client, cs.Signal, cs.Mode == "retry")
		if err != nil {
			j.skip = "exporter-construction"
			e.c.Note("exporter %s/%s: %v", cs.Client, cs.Signal, err)
			return
		}
		ctx, cancel := context.WithCancel(context.Background())
		defer cancel()
		x.logs.Drain()
		if cs.Mode == "retry" {
			exp := expected(o, cs.Client.Transport)
			x.logs.SetHook(func(en loopkit.Entry) {
				// do not sit out long throttling delays: once the retry sender announced its interval the
				// observation is complete
				if strings.HasPrefix(en.Msg, "Exporting failed. Will retry") && (exp.MinDelay > 120*time.Millisecond || o.Delay > 120*time.Millisecond) && !waitsForReal(cs, o) {
					cancel()
				}
			})
		}
		j.err = x.consume(ctx, j.p)
		x.logs.SetHook(nil)
		j.logs = x.logs.Drain()
	case cs.Client.Kind == "rawgrpc":
		j.err = e.rawGRPCExport(j.p, cs.Client.Cred, cs.Client.Comp)
	case cs.Client.Kind == "rawhttp":
		body, err := requestBytes(j.p, cs.Client.Enc)
		if err != nil {
			j.skip = "harness-marshal"
			return
		}
		ce := ""
		if cs.Client.Comp != "none" {
			ce = cs.Client.Comp
			body = handCompress(cs.Client.Comp, body)
		}
		j.hobs = e.rawHTTPDo("POST", cs.Signal, contentTypeOf[cs.Client.Enc], ce, cs.Client.Cred, body)
	}
	j.after = e.sink.calls()
	j.recs = e.sink.take(id)
}

// waitsForReal selects the few retry cases that sit out a whole-second Retry-After instead of cancelling.
func waitsForReal(cs caseSpec, o outcome) bool {
	return cs.Signal == "logs" && cs.Client.Comp == "none" && o.Name == "status:Unavailable/ri=1s" && cs.Rep == 0
}

func (e *env) execMalformed(j *job) {
	cs := j.cs
	parts := strings.SplitN(cs.Mal, ":", 2)
	fam, kind := parts[0], parts[1]
	validProto, _ := requestBytes(j.p, "proto")
	validJSON, _ := requestBytes(j.p, "json")
	switch fam {
	case "cut":
		e.execCut(j, kind, validProto, validJSON)
	case "proto":
		j.hobs = e.rawHTTPDo("POST", cs.Signal, contentTypeOf["proto"], "", cs.Client.Cred, malformedProto(j.rng, validProto, kind))
	case "json":
		body := malformedJSON(j.rng, validJSON, cs.Signal, kind)
		if kind == "proto-bytes" {
			body = validProto
		}
		j.hobs = e.rawHTTPDo("POST", cs.Signal, contentTypeOf["json"], "", cs.Client.Cred, body)
	case "both":
		// undecodable body AND a content type the receiver does not speak: any client-error status is right
		j.hobs = e.rawHTTPDo("POST", cs.Signal, "text/plain", "gzip", cs.Client.Cred, append([]byte("not a gzip stream "), validProto...))
	case "encoding":
		switch kind {
		case "bad-gzip":
			j.hobs = e.rawHTTPDo("POST", cs.Signal, contentTypeOf["proto"], "gzip", cs.Client.Cred, append([]byte("not a gzip stream "), validProto...))
		case "bad-zstd":
			j.hobs = e.rawHTTPDo("POST", cs.Signal, contentTypeOf["json"], "zstd", cs.Client.Cred, append([]byte("not zstd "), validJSON...))
		case "zstd-damaged", "gzip-damaged":
			// a well-formed compressed body of an incompressible payload (stored nearly verbatim) with ONE byte of the
			// content changed in transit: the frame still parses, only its checksum tells
			body := damagedCompressed(j.rng, strings.TrimSuffix(kind, "-damaged"), validProto)
			j.hobs = e.rawHTTPDo("POST", cs.Signal, contentTypeOf["proto"], strings.TrimSuffix(kind, "-damaged"), cs.Client.Cred, body)
		default:
			j.hobs = e.rawHTTPDo("POST", cs.Signal, contentTypeOf["proto"], "br", cs.Client.Cred, validProto)
		}
	case "media":
		ct := kind
		switch kind {
		case "none":
			ct = ""
		case "garbage":
			ct = ";;;=="
		}
		body := validProto
		if j.rng.Intn(2) == 0 {
			body = validJSON
		}
		j.hobs = e.rawHTTPDo("POST", cs.Signal, ct, "", cs.Client.Cred, body)
	case "method":
		var body []byte
		if kind != "GET" && kind != "HEAD" {
			body = validProto
		}
		j.hobs = e.rawHTTPDo(kind, cs.Signal, contentTypeOf["proto"], "", cs.Client.Cred, body)
	case "grpc":
		switch kind {
		case "unknown-method":
			j.err = e.rawGRPCBytes(strings.TrimSuffix(grpcMethod[cs.Signal], "Export")+"Nope", "proto", cs.Client.Cred, validProto)
		default:
			k := map[string]string{"bad-length": "bad-length", "truncated": "truncated", "bad-wiretype": "bad-wiretype", "open-varint": "open-varint"}[kind]
			j.err = e.rawGRPCBytes(grpcMethod[cs.Signal], "proto", cs.Client.Cred, malformedProto(j.rng, validProto, k))
		}
	}
}

// execCut sends the requests of one "cut" case: a multi-resource payload, announced completely, transmitted in part.
func (e *env) execCut(j *job, kind string, full, fullJSON []byte) {
	sg := j.cs.Signal
	ends := topLevelEnds(full) // offsets behind every Resource* entry, from the protobuf framing
	if len(ends) < 3 || ends[len(ends)-1] != len(full) {
		j.skip = "harness-cut-framing"
		return
	}
	do := func(where, enc, ce, framing string, announced int, sent []byte) {
		before := e.sink.calls()
		o := e.rawTCPCut(sg, contentTypeOf[enc], ce, framing, announced, sent)
		o.Where = where
		o.Calls = e.sink.calls() - before
		j.cuts = append(j.cuts, o)
	}
	inner := ends[:len(ends)-1]
	switch kind {
	case "proto-boundaries":
		for _, end := range inner { // every boundary between two top-level entries
			do("entry-boundary", "proto", "", "length", len(full), full[:end])
		}
	case "proto-random":
		for i := 0; i < 3; i++ {
			do("random-offset", "proto", "", "length", len(full), full[:1+j.rng.Intn(len(full)-1)])
		}
	case "proto-zero":
		do("zero-bytes", "proto", "", "length", len(full), nil)
	case "json-random":
		for i := 0; i < 2; i++ {
			do("random-offset", "json", "", "length", len(fullJSON), fullJSON[:1+j.rng.Intn(len(fullJSON)-1)])
		}
	case "json-zero":
		do("zero-bytes", "json", "", "length", len(fullJSON), nil)
	case "chunked-boundary":
		do("entry-boundary", "proto", "", "chunked", -1, full[:inner[j.rng.Intn(len(inner))]])
	case "chunked-all-data":
		do("all-data-no-terminating-chunk", "proto", "", "chunked", -1, full)
	case "gzip-short":
		gz := handCompress("gzip", full)
		do("compressed-stream-cut", "proto", "gzip", "length", len(gz), gz[:1+j.rng.Intn(len(gz)-1)])
	case "gzip-short-stream":
		gz := handCompress("gzip", full)
		k := 1 + j.rng.Intn(len(gz)-1)
		do("compressed-stream-cut(length consistent)", "proto", "gzip", "length", k, gz[:k])
	case "control-complete":
		// the same technique with nothing missing: must be accepted, otherwise the refusals above prove nothing
		do("complete", "proto", "", "length", len(full), full)
	}
}

// ------------------------------------------------------------------ oracle application

// snap copies the witness map: the driver marshals recorded witnesses from its flush goroutine while the
// evaluation goes on adding observations to its own map.
func snap(w map[string]any) map[string]any {
	out := make(map[string]any, len(w))
	for k, v := range w {
		out[k] = v
	}
	return out
}

func trunc(s string, n int) string {
	if len(s) > n {
		return s[:n] + "…"
	}
	return s
}

func (e *env) witness(j *job) map[string]any {
	w := map[string]any{"case": j.cs, "seed": e.c.Seed, "shard": e.c.Shard, "global_case": j.g,
		"consumer_calls_for_this_payload": len(j.recs), "consumer_calls_total_delta": j.after - j.before}
	if j.p != nil {
		w["payload_id"], w["payload_items"] = j.p.ID, j.p.Items
		if js, err := j.p.marshalJSON(); err == nil {
			w["payload_otlp_json"] = trunc(string(js), 1500)
		}
	}
	if j.err != nil {
		w["sender_error"] = trunc(j.err.Error(), 600)
	}
	if j.cs.Client.Kind == "rawhttp" {
		j.hobs.ErrText = ""
		if j.hobs.Err != nil {
			j.hobs.ErrText = j.hobs.Err.Error()
		}
		w["http_response"] = j.hobs
	}
	if len(j.cuts) > 0 {
		w["cut_requests"] = j.cuts
	}
	var rets []string
	for _, r := range j.recs {
		rets = append(rets, trunc(r.Ret, 120))
	}
	w["consumer_returned"] = rets
	return w
}

func timeoutLike(err error, o outcome) bool {
	if err == nil {
		return false
	}
	if o.Kind == "status" && o.Code == codes.DeadlineExceeded {
		return false
	}
	if loopkit.IsTimeout(err) {
		return true
	}
	s := err.Error()
	if strings.Contains(s, "context deadline exceeded") || strings.Contains(s, "Client.Timeout") {
		return true
	}
	return false
}

func (e *env) evaluate(j *job) {
	c := e.c
	cs := j.cs
	cl := cs.Client
	o := outcome{Kind: "nil", Name: "nil"}
	if cs.Mode == "direct" || cs.Mode == "retry" || cs.Mode == "repro" {
		o = outcomes[cs.Outcome]
	}
	if timeoutLike(j.err, o) || (cl.Kind == "rawhttp" && j.hobs.Err != nil && loopkit.IsTimeout(j.hobs.Err)) {
		j.inconclusive = true
		if j.round == 0 {
			c.Inconclusive("exchange-timeout")
		}
		return
	}
	if j.round == 0 {
		c.Eval()
	}
	e.obs(j, "exchanges", 1)
	sig := func(extra ...string) []string {
		base := []string{"client", cl.Kind, "transport", cl.Transport, "enc", cl.Enc, "signal", cs.Signal, "mode", cs.Mode, "env", cs.Env}
		return append(base, extra...)
	}
	wit := e.witness(j)
	unauth := cs.Env == "auth" && cl.Cred != "good"

	switch {
	case unauth:
		// a request that is unauthenticated and malformed at once may be answered with either status
		hs, gs := []int{401}, []codes.Code{codes.Unauthenticated}
		if cs.Mode == "malformed" {
			hs = append(hs, malformedHTTP(cs.Mal)...)
			gs = append(gs, codes.InvalidArgument, codes.Internal, codes.Unimplemented)
		}
		e.evalRefused(j, snap(wit), sig, "unauthenticated", hs, gs)
		c.Nontrivial(cl.Kind, cl.Transport, cl.Enc, cl.Comp, cs.Signal, cs.Mode, "cred="+cl.Cred, cs.Mal+cs.Zero+o.Name)
		return
	case cs.Mode == "malformed":
		e.evalMalformed(j, snap(wit), sig)
		c.Nontrivial(cl.Kind, cl.Transport, cs.Signal, "malformed", cs.Mal, cs.Env)
		return
	case cs.Mode == "zero":
		e.evalZero(j, snap(wit), sig)
		c.Nontrivial(cl.Kind, cl.Transport, cl.Enc, cl.Comp, cs.Signal, "zero", cs.Zero, cs.Env)
		return
	}

	// ---- valid payload, consumer reached: data first
	wantCalls := 1
	if cs.Mode == "retry" {
		wantCalls = 0 // decided below
	}
	if cs.Mode != "retry" && len(j.recs) != wantCalls {
		j.add("consumer-calls", fmt.Sprintf("the consumer behind the receiver was invoked %d times for one request (want 1)", len(j.recs)), snap(wit), sig("outcome", o.Kind)...)
	}
	for i, r := range j.recs {
		if r.RO {
			j.add("payload", "the payload was already marked read-only when it reached the receiver's consumer (every request is decoded into a payload of its own, which its consumer may change)", snap(wit), sig("paths", "arrived-read-only")...)
		}
		if r.Signal != cs.Signal {
			j.add("payload", fmt.Sprintf("payload sent as %s arrived as %s", cs.Signal, r.Signal), snap(wit), sig("paths", "signal")...)
			continue
		}
		if !bytes.Equal(r.Bytes, j.p.canon) {
			paths := jsonDiffPaths(cs.Signal, j.p.canon, r.Bytes)
			wit["diff_paths"] = paths
			wit["attempt"] = i
			j.add("payload", fmt.Sprintf("%s payload at the consumer differs from what was sent via %s/%s/%s at: %s", cs.Signal, cl.Kind, cl.Transport, cl.Enc, paths), snap(wit), sig("paths", paths)...)
		} else {
			e.obs(j, "payloads_equal", 1)
			e.obs(j, "items_delivered", int64(r.Items))
		}
	}

	exp := expected(o, cl.Transport)
	switch {
	case cs.Mode == "retry":
		e.evalRetry(j, o, exp, snap(wit), sig)
	case cl.Kind == "exporter":
		e.evalExporter(j, o, exp, snap(wit), sig)
	case cl.Kind == "rawgrpc":
		e.evalRawGRPC(j, o, exp, snap(wit), sig)
	case cl.Kind == "rawhttp":
		e.evalRawHTTP(j, o, exp, snap(wit), sig)
	}
	c.Nontrivial(cl.Kind, cl.Transport, cl.Enc, cl.Comp, cs.Signal, cs.Mode, o.Name, cs.Env)
	c.Distinct("payload_flavours", cs.Signal, cs.Flavour)
	if j.g%997 == 0 {
		c.Sample(map[string]any{"case": cs, "payload_items": j.p.Items, "payload_bytes": len(j.p.canon), "sender_result": fmt.Sprint(j.err), "expected": exp})
	}
}

func riSig(o outcome) []string {
	code := "-"
	if o.Kind == "status" {
		code = o.Code.String()
	}
	ri := o.RIClass
	if ri == "" {
		ri = "-"
	}
	return []string{"outcome", o.Kind, "code", code, "ri", ri, "wrapping", "w" + o.Wrapping}
}

// evalExporter: retry disabled, the exporter's return value is the classification.
func (e *env) evalExporter(j *job, o outcome, exp expect, wit map[string]any, sig func(...string) []string) {
	c := e.c
	class, delay := classify(j.err)
	wit["classified_as"], wit["throttle_delay"], wit["expected"] = class, delay.String(), exp
	if (j.err == nil) != (o.Kind == "nil") {
		j.add("success-iff", fmt.Sprintf("consumer returned %s but the exporter returned %v", o.Name, j.err), snap(wit), sig(riSig(o)...)...)
		return
	}
	retr := class == "retry" || class == "throttle"
	ok := true
	switch exp.Class {
	case "ok":
		ok = class == "ok"
	case "permanent":
		ok = class == "permanent"
	case "retry":
		ok = retr
	case "either":
		ok = class != "ok"
	}
	if !ok {
		j.add("classification", fmt.Sprintf("consumer outcome %s over %s must be classified %s by the sender (OTLP spec), exporter says %s: %v", o.Name, j.cs.Client.Transport, exp.Class, class, trunc(fmt.Sprint(j.err), 200)),
			snap(wit), sig(append(riSig(o), "want", exp.Class, "got", class)...)...)
	} else {
		e.obs(j, "classification_"+exp.Class+"_ok", 1)
	}
	if exp.MinDelay > 0 && retr {
		if class != "throttle" || delay < exp.MinDelay {
			j.add("throttle-delay", fmt.Sprintf("consumer asked for a retry delay of %v (%s), the exporter will honour %v (class %s)", exp.MinDelay, o.Code, delay, class),
				snap(wit), sig(append(riSig(o), "got", class, "honoured", honoured(class == "throttle", delay, exp.MinDelay))...)...)
		} else {
			e.obs(j, "throttle_delay_honoured", 1)
		}
	}
	if j.cs.Client.Transport == "grpc" {
		st := grpcStatusOf(j.err)
		switch o.Kind {
		case "status":
			if st == nil || st.Code() != o.Code {
				got := "no status"
				if st != nil {
					got = st.Code().String()
				}
				j.add("status-passthrough", fmt.Sprintf("consumer error carried gRPC status %s, the sender received %s", o.Code, got), snap(wit), sig(append(riSig(o), "got", got)...)...)
			} else {
				e.obs(j, "grpc_status_passed_through", 1)
			}
		case "transient", "permanent":
			if st != nil {
				_, hasRI := retryInfoOf(st)
				if grpcRetryable(st.Code(), hasRI) != (o.Kind == "transient") {
					j.add("status-meaning", fmt.Sprintf("%s consumer error was reported with gRPC status %s", o.Kind, st.Code()), snap(wit), sig(append(riSig(o), "got", st.Code().String())...)...)
				}
				c.Distinct("wire_status_for_plain_errors", "grpc", o.Kind, st.Code().String())
			}
		}
	} else if j.err != nil {
		wire := httpCodeIn(j.err)
		wit["http_status_in_error"] = wire
		if wire == 0 {
			e.obs(j, "http_error_without_status_code_text", 1)
		} else {
			if httpRetryable[wire] != retr {
				j.add("http-table", fmt.Sprintf("the exporter received HTTP %d and classified it as %s; the OTLP/HTTP table says retryable=%v", wire, class, httpRetryable[wire]),
					snap(wit), sig(append(riSig(o), "http", fmt.Sprint(wire), "got", class)...)...)
			}
			c.Distinct("wire_status_seen_by_exporter", wire, class)
		}
	}
}

// evalRetry: retry enabled; script = [outcome, nil]; the retry sender's behaviour is the observation.
func (e *env) evalRetry(j *job, o outcome, exp expect, wit map[string]any, sig func(...string) []string) {
	var intervals []time.Duration
	for _, en := range j.logs {
		if strings.HasPrefix(en.Msg, "Exporting failed. Will retry") {
			if s, ok := en.Fields["interval"].(string); ok {
				if d, err := time.ParseDuration(s); err == nil {
					intervals = append(intervals, d)
				}
			}
		}
	}
	var loggedErrs []string
	for _, en := range j.logs {
		if strings.HasPrefix(en.Msg, "Exporting failed. Will retry") {
			loggedErrs = append(loggedErrs, trunc(fmt.Sprint(en.Fields["error"]), 200))
		}
	}
	wit["retry_errors_logged"] = loggedErrs
	retried := len(intervals) > 0
	wit["retry_intervals_logged"], wit["expected"], wit["attempts_seen_by_consumer"] = fmt.Sprint(intervals), exp, len(j.recs)
	cancelled := j.err != nil && strings.Contains(j.err.Error(), "request is cancelled")
	switch exp.Class {
	case "permanent":
		if retried || len(j.recs) != 1 || j.err == nil {
			j.add("retry-behaviour", fmt.Sprintf("consumer outcome %s is permanent for the sender, but the retry sender retried=%v attempts=%d result=%v", o.Name, retried, len(j.recs), j.err),
				snap(wit), sig(append(riSig(o), "want", "permanent")...)...)
		} else {
			e.obs(j, "retry_sender_dropped_permanent", 1)
		}
	case "retry":
		if !retried {
			j.add("retry-behaviour", fmt.Sprintf("consumer outcome %s is retryable for the sender, but the retry sender did not schedule a retry (attempts=%d result=%v)", o.Name, len(j.recs), trunc(fmt.Sprint(j.err), 200)),
				snap(wit), sig(append(riSig(o), "want", "retry")...)...)
			return
		}
		if exp.MinDelay > 0 {
			if intervals[0] < exp.MinDelay {
				j.add("throttle-delay", fmt.Sprintf("consumer asked for a retry delay of %v (%s); the retry sender waits %v", exp.MinDelay, o.Code, intervals[0]),
					snap(wit), sig(append(riSig(o), "got", "shorter", "honoured", honoured(true, throttlePart(intervals[0]), exp.MinDelay))...)...)
			} else {
				e.obs(j, "retry_sender_logged_delay>=requested", 1)
			}
		}
		if !cancelled {
			// the second attempt reached the consumer: same payload (checked above), success, and not earlier than asked
			if len(j.recs) != 2 || j.err != nil {
				j.add("retry-behaviour", fmt.Sprintf("after one retryable failure and a success the exporter returned %v with %d attempts", j.err, len(j.recs)), snap(wit), sig(append(riSig(o), "want", "retry-then-ok")...)...)
			} else {
				gap := j.recs[1].In.Sub(j.recs[0].Out)
				wit["gap_between_attempts"] = gap.String()
				if exp.MinDelay > 0 && gap < exp.MinDelay {
					j.add("throttle-delay", fmt.Sprintf("second attempt reached the consumer %v after the first failed; the consumer had asked for %v", gap, exp.MinDelay), snap(wit), sig(append(riSig(o), "got", "early-resend")...)...)
				}
				e.obs(j, "retried_then_delivered", 1)
				if exp.MinDelay >= time.Second {
					e.obs(j, "whole_second_retry_after_sat_out", 1)
				}
			}
		} else {
			e.obs(j, "retry_observed_then_cancelled", 1)
		}
	case "either":
		e.obs(j, "retry_either", 1)
	}
}

func (e *env) evalRawGRPC(j *job, o outcome, exp expect, wit map[string]any, sig func(...string) []string) {
	c := e.c
	if (j.err == nil) != (o.Kind == "nil") {
		j.add("success-iff", fmt.Sprintf("consumer returned %s but the gRPC call returned %v", o.Name, j.err), snap(wit), sig(riSig(o)...)...)
		return
	}
	if j.err == nil {
		e.obs(j, "raw_grpc_ok", 1)
		return
	}
	st, _ := status.FromError(j.err)
	d, hasRI := retryInfoOf(st)
	wit["grpc_code"], wit["grpc_retry_info"] = st.Code().String(), fmt.Sprint(hasRI, d)
	switch o.Kind {
	case "status":
		if st.Code() != o.Code {
			j.add("status-passthrough", fmt.Sprintf("consumer error carried gRPC status %s, the wire carries %s", o.Code, st.Code()), snap(wit), sig(append(riSig(o), "got", st.Code().String())...)...)
		} else if hasRI != o.HasRI || (hasRI && d != o.Delay) {
			j.add("status-passthrough", fmt.Sprintf("RetryInfo of the consumer's status (%v %v) arrived as (%v %v)", o.HasRI, o.Delay, hasRI, d), snap(wit), sig(append(riSig(o), "got", "retryinfo")...)...)
		} else {
			e.obs(j, "grpc_status_passed_through", 1)
		}
	default:
		if grpcRetryable(st.Code(), hasRI) != (exp.Class == "retry") {
			j.add("status-meaning", fmt.Sprintf("%s consumer error was reported with gRPC status %s", o.Kind, st.Code()), snap(wit), sig(append(riSig(o), "got", st.Code().String())...)...)
		}
		c.Distinct("wire_status_for_plain_errors", "grpc", o.Kind, st.Code().String())
	}
}

func (e *env) evalRawHTTP(j *job, o outcome, exp expect, wit map[string]any, sig func(...string) []string) {
	c := e.c
	h := j.hobs
	if h.Err != nil {
		j.add("transport", "raw HTTP request failed: "+h.Err.Error(), snap(wit), sig(riSig(o)...)...)
		return
	}
	if (h.Status >= 200 && h.Status < 300) != (o.Kind == "nil") {
		j.add("success-iff", fmt.Sprintf("consumer returned %s but the HTTP status is %d", o.Name, h.Status), snap(wit), sig(riSig(o)...)...)
		return
	}
	if o.Kind == "nil" {
		e.obs(j, "raw_http_ok", 1)
		return
	}
	retr := httpRetryable[h.Status]
	ok := true
	switch exp.Class {
	case "permanent":
		ok = !retr && h.Status >= 400
	case "retry":
		ok = retr
	}
	if !ok {
		j.add("status-meaning", fmt.Sprintf("consumer outcome %s (%s for the sender) was answered with HTTP %d (retryable=%v)", o.Name, exp.Class, h.Status, retr), snap(wit), sig(append(riSig(o), "http", fmt.Sprint(h.Status))...)...)
	}
	c.Distinct("wire_status_for_outcomes", "http", o.Kind, o.Code.String(), h.Status)
	if o.Kind == "status" {
		if code, decoded := statusInBody(h); !decoded || codes.Code(code) != o.Code {
			j.add("status-passthrough", fmt.Sprintf("consumer error carried gRPC status %s; the Status in the HTTP response body has code %d (decoded=%v)", o.Code, code, decoded), snap(wit), sig(append(riSig(o), "got", fmt.Sprint(code))...)...)
		} else {
			e.obs(j, "http_body_status_code_equal", 1)
		}
	}
	if exp.MinDelay > 0 && (h.Status == 429 || h.Status == 503) {
		d, has := retryAfterDuration(h)
		if !has || d < exp.MinDelay {
			j.add("throttle-delay", fmt.Sprintf("consumer asked for a retry delay of %v; Retry-After on the wire: present=%v value=%q", exp.MinDelay, h.HasRA, h.RetryAfter), snap(wit), sig(append(riSig(o), "got", "retry-after", "honoured", honoured(has, d, exp.MinDelay))...)...)
		} else {
			e.obs(j, "retry_after_on_wire>=requested", 1)
		}
	}
}

func floorSec(d time.Duration) time.Duration { return d / time.Second * time.Second }

// throttlePart: the retry sender waits max(back-off, throttle delay); with the fixed 5 ms back-off of this check a
// logged interval equal to the back-off means the throttle delay contributed nothing.
func throttlePart(logged time.Duration) time.Duration {
	if logged <= retryCfg.InitialInterval {
		return 0
	}
	return logged
}

// honoured classifies a too-short delay: "floor-seconds" when it is exactly the requested delay cut down to whole seconds.
func honoured(present bool, got, asked time.Duration) string {
	switch {
	case !present:
		return "none"
	case got == floorSec(asked):
		return "floor-seconds"
	}
	return "other"
}

// evalRefused: the request must be answered with the given client-error status and must not reach the consumer.
func (e *env) evalRefused(j *job, wit map[string]any, sig func(...string) []string, what string, wantHTTPs []int, wantGRPC []codes.Code) {
	wantHTTP := wantHTTPs[0]
	inHTTP := func(n int) bool {
		for _, w := range wantHTTPs {
			if w == n {
				return true
			}
		}
		return false
	}
	cl := j.cs.Client
	if j.after != j.before || len(j.recs) != 0 {
		j.add("consumer-reached", fmt.Sprintf("%s request (%s) reached the consumer behind the receiver (%d calls)", what, j.cs.Mal+j.cs.Zero+j.cs.OutName, j.after-j.before), snap(wit), sig("what", what, "kind", j.cs.Mal)...)
	}
	switch cl.Kind {
	case "rawhttp":
		if j.hobs.Err != nil {
			j.add("transport", "raw HTTP request failed: "+j.hobs.Err.Error(), snap(wit), sig("what", what, "kind", j.cs.Mal)...)
			return
		}
		if !inHTTP(j.hobs.Status) {
			j.add("client-error-status", fmt.Sprintf("%s request %q answered with HTTP %d, want %v", what, j.cs.Mal, j.hobs.Status, wantHTTPs), snap(wit), sig("what", what, "kind", j.cs.Mal, "got", fmt.Sprint(j.hobs.Status))...)
		} else {
			e.obs(j, "refused_http_"+fmt.Sprint(j.hobs.Status), 1)
		}
	case "rawgrpc":
		st, _ := status.FromError(j.err)
		okc := false
		for _, w := range wantGRPC {
			okc = okc || (j.err != nil && st.Code() == w)
		}
		if !okc {
			j.add("client-error-status", fmt.Sprintf("%s gRPC request %q answered with %v, want one of %v", what, j.cs.Mal, j.err, wantGRPC), snap(wit), sig("what", what, "kind", j.cs.Mal, "got", st.Code().String())...)
		} else {
			e.obs(j, "refused_grpc_"+st.Code().String(), 1)
		}
	case "exporter":
		class, _ := classify(j.err)
		good := class == "permanent"
		if cl.Transport == "grpc" {
			st := grpcStatusOf(j.err)
			good = good && st != nil && st.Code() == wantGRPC[0]
		} else {
			good = good && inHTTP(httpCodeIn(j.err))
		}
		if !good {
			j.add("client-error-status", fmt.Sprintf("%s export must fail permanently with %d/%v; exporter returned (%s) %v", what, wantHTTP, wantGRPC, class, trunc(fmt.Sprint(j.err), 200)), snap(wit), sig("what", what, "kind", j.cs.Mal, "got", class)...)
		} else {
			e.obs(j, "refused_exporter_permanent", 1)
		}
	}
}

// malformedHTTP: the client-error statuses the statement names per kind of bad request.
func malformedHTTP(mal string) []int {
	switch strings.SplitN(mal, ":", 2)[0] {
	case "media":
		return []int{415}
	case "method":
		return []int{405}
	case "both":
		return []int{400, 415}
	}
	return []int{400}
}

func (e *env) evalMalformed(j *job, wit map[string]any, sig func(...string) []string) {
	fam := strings.SplitN(j.cs.Mal, ":", 2)[0]
	switch fam {
	case "cut":
		e.evalCut(j, wit, sig)
	case "proto", "json", "encoding":
		e.evalRefused(j, snap(wit), sig, "malformed", malformedHTTP(j.cs.Mal), nil)
	case "both":
		e.evalRefused(j, snap(wit), sig, "malformed+unsupported-media-type", malformedHTTP(j.cs.Mal), nil)
	case "media":
		e.evalRefused(j, snap(wit), sig, "unsupported-media-type", malformedHTTP(j.cs.Mal), nil)
	case "method":
		e.evalRefused(j, snap(wit), sig, "wrong-method", malformedHTTP(j.cs.Mal), nil)
	case "grpc":
		// gRPC has no "client error" class; what the statement needs is a status that tells the sender not to
		// resend the same bytes. The OTLP spec names InvalidArgument; grpc-go itself (trusted base) answers
		// Internal for undecodable request bytes and Unimplemented for unknown methods/codecs before any
		// collector code runs. The code is recorded in the evidence.
		c := e.c
		if j.after != j.before || len(j.recs) != 0 {
			j.add("consumer-reached", fmt.Sprintf("malformed gRPC request (%s) reached the consumer", j.cs.Mal), snap(wit), sig("what", "malformed", "kind", j.cs.Mal)...)
		}
		st, _ := status.FromError(j.err)
		_, hasRI := retryInfoOf(st)
		if j.err == nil || grpcRetryable(st.Code(), hasRI) {
			j.add("client-error-status", fmt.Sprintf("malformed gRPC request %q answered with %v: not a status that stops the sender from resending", j.cs.Mal, j.err), snap(wit), sig("what", "malformed", "kind", j.cs.Mal, "got", st.Code().String())...)
		} else {
			e.obs(j, "refused_grpc_"+st.Code().String(), 1)
			c.Distinct("grpc_codes_for_malformed", j.cs.Mal, st.Code().String())
		}
	}
}

// evalCut: a request whose body was cut short is incomplete, hence malformed: it never reaches the consumer and is
// answered with a client-error status or not at all (connection closed) - never with a 2xx.
func (e *env) evalCut(j *job, wit map[string]any, sig func(...string) []string) {
	c := e.c
	delivered := 0
	for _, o := range j.cuts {
		if o.Timeout {
			j.inconclusive = true
			if j.round == 0 {
				c.Inconclusive("exchange-timeout")
			}
			continue
		}
		w := snap(wit)
		w["cut_request"] = o
		ks := sig("what", "truncated", "kind", j.cs.Mal, "cut", o.Where, "framing", o.Framing)
		if o.Where == "complete" {
			delivered++
			if o.Status < 200 || o.Status > 299 || o.Calls != 1 || len(j.recs) != 1 || !bytes.Equal(j.recs[0].Bytes, j.p.canon) {
				j.add("cut-control", fmt.Sprintf("the complete request sent with the raw-socket technique was not accepted and delivered as sent: status=%d consumer calls=%d err=%s", o.Status, o.Calls, o.ErrText), w, ks...)
			} else {
				e.obs(j, "cut_control_complete_request_delivered", 1)
			}
			continue
		}
		e.obs(j, "cut_requests", 1)
		c.Distinct("cut_points", j.cs.Signal, o.Where, o.Framing)
		bad := false
		if o.Calls != 0 {
			bad = true
			j.add("truncated-delivered", fmt.Sprintf("a %s request announced with %d bytes of which only %d were sent (%s, %s) reached the consumer behind the receiver (%d calls)", j.cs.Signal, o.Announced, o.Offset, o.Where, o.Framing, o.Calls), w, ks...)
		}
		switch {
		case o.Status >= 200 && o.Status <= 299:
			bad = true
			j.add("truncated-accepted", fmt.Sprintf("a %s request announced with %d bytes of which only %d were sent (%s, %s) was answered with HTTP %d", j.cs.Signal, o.Announced, o.Offset, o.Where, o.Framing, o.Status), w, ks...)
		case o.NoResponse:
			e.obs(j, "cut_requests_connection_closed_without_answer", 1)
		case o.Status >= 400 && o.Status <= 499:
			e.obs(j, "cut_requests_refused_"+fmt.Sprint(o.Status), 1)
		default:
			bad = true
			j.add("client-error-status", fmt.Sprintf("truncated request (%s) answered with HTTP %d, want a client-error status or no answer", o.Where, o.Status), w, append(ks, "got", fmt.Sprint(o.Status))...)
		}
		if !bad && o.Where == "entry-boundary" {
			e.obs(j, "cut_at_entry_boundary_refused", 1)
		}
	}
	if len(j.recs) != delivered {
		j.add("truncated-delivered", fmt.Sprintf("the consumer holds %d payloads of a request family in which %d complete requests were sent", len(j.recs), delivered), snap(wit), sig("what", "truncated", "kind", j.cs.Mal, "cut", "any", "framing", "any")...)
	}
}

func (e *env) evalZero(j *job, wit map[string]any, sig func(...string) []string) {
	if j.after != j.before || len(j.recs) != 0 {
		j.add("consumer-reached", fmt.Sprintf("request without items (%s) reached the consumer behind the receiver", j.cs.Zero), snap(wit), sig("what", "zero-items", "kind", j.cs.Zero)...)
	}
	okc := false
	switch j.cs.Client.Kind {
	case "rawhttp":
		okc = j.hobs.Err == nil && j.hobs.Status >= 200 && j.hobs.Status < 300
	default:
		okc = j.err == nil
	}
	if !okc {
		j.add("zero-items", fmt.Sprintf("request without items (%s) was not acknowledged: %v status=%d", j.cs.Zero, j.err, j.hobs.Status), snap(wit), sig("what", "zero-items", "kind", j.cs.Zero)...)
	} else {
		e.obs(j, "zero_item_requests_acknowledged", 1)
	}
}

// reproducerJobs: directed witnesses for the known findings (run as part of case 0 of shard 0).
func reproducerJobs() []*job {
	var out []*job
	for _, r := range []struct {
		signal, outcome string
		cl              clientSpec
		flavour         string
	}{
		// C15-a: fractional RetryInfo delay is truncated into the Retry-After header
		{"logs", "status:Unavailable/ri=frac", clientSpec{"rawhttp", "http", "proto", "none", ""}, "own"},
		{"logs", "status:Unavailable/ri=sub", clientSpec{"exporter", "http", "proto", "none", ""}, "own"},
		// C15-b/c/d (= C08-a/b/c seen through the hop): the OTLP/JSON decoder loses fields
		{"logs", "nil", clientSpec{"exporter", "http", "json", "none", ""}, "own-c08"},
		{"metrics", "nil", clientSpec{"exporter", "http", "json", "none", ""}, "own-c08"},
		{"profiles", "nil", clientSpec{"exporter", "http", "json", "none", ""}, "own-c08"},
	} {
		out = append(out, &job{g: 0, cs: caseSpec{Env: "plain", Mode: "repro", Client: r.cl, Signal: r.signal, Outcome: outcomeIndex(r.outcome), OutName: r.outcome, Flavour: r.flavour, Rep: -1}})
	}
	// C15-e: error handler answers 500 when the content type is neither protobuf nor JSON
	out = append(out, &job{g: 0, cs: caseSpec{Env: "plain", Mode: "malformed", Client: clientSpec{"rawhttp", "http", "", "none", ""}, Signal: "traces", Mal: "both:bad-gzip+text/plain", Rep: -1}})
	return out
}

func main() {
	_ = sort.Strings
	driver.Main(driver.Spec{
		ID:    "C15",
		Level: "exploration",
		Rule: "a case is one exchange (or one retried exchange) through the real OTLP receiver: the complete grid {18 exporter configurations (gRPC x none/gzip/snappy/zstd; HTTP x proto/json x none/gzip/zlib/deflate/zstd/snappy/lz4) + 6 raw clients} x 4 signals x 106 consumer outcomes (nil, transient, permanent, 16 gRPC codes x RetryInfo {none,0,1s,7s,1.5s,300ms}, wrapped variants), the same grid with the retry sender enabled, zero-item shapes, 28 malformed-request kinds, 9 kinds of requests cut short on the wire by a dying sender (raw TCP: full Content-Length announced, a prefix sent, write side closed - at every boundary between two top-level Resource* entries of a 3-5 resource payload, at random offsets, at 0 bytes; chunked without the terminating chunk; gzip stream cut) plus a complete control request, and a second receiver with a server-side authenticator x {good, bad, missing credentials}; payloads come from a PRNG generator with unique ids (and pdata/testdata) per case; " +
			"distinct = (client kind, transport, encoding, compression, signal, mode, consumer outcome / malformed kind / zero shape, environment); every counted case is non-trivial (it crossed the socket and was decided by the oracle)",
		Assumptions: []string{
			"expectation tables are written from the OTLP specification and the property statement (oracle.go), not from the code; ResourceExhausted without RetryInfo over HTTP may be answered retryable (429) or not - the exporter must then agree with the status it received",
			"malformed gRPC requests are decoded by grpc-go before collector code runs: the oracle requires 'consumer not reached and a non-retryable status' and records the code (grpc-go answers Internal/Unimplemented, not InvalidArgument)",
			"throttle classification of an exporter with retry disabled is read from the public error text 'Throttle (<delay>)'; with retry enabled it is read from the retry sender's log entry (zap core) and from the time between the two consumer invocations (a wait can only be too short)",
			"exchanges that end in a client-side timeout (90 s guard) are inconclusive; any other anomaly (except payload differences and the whole-second truncation, which a disturbed connection cannot produce) is reported only after two further executions of the same case reproduced it - an overloaded machine occasionally breaks a connection, functional defects of the hop are deterministic; unreproduced anomalies are counted as inconclusive and listed in the notes",
			"generated AnyValue bytes are never empty: protobuf (canonical form of the comparison and two of the three encodings) cannot tell an empty bytes value from an unset value - codec territory (C08)",
		},
		TrustedBase: []string{"grpc-go, net/http, the compression libraries", "pdata protobuf marshalling as the canonical form for payload comparison (C08 covers the codecs themselves)"},
		Shards:      func(string) int { return 16 },
		Variants: func(tier string) []string {
			return map[string][]string{"quick": {"plain"}, "thorough": {"race", "plain"}}[tier]
		},
		MinNontrivial: func(tier string) int { return map[string]int{"quick": 5000, "thorough": 8000}[tier] },
		ShardTimeout:  func(string) time.Duration { return 45 * time.Minute },
		Run:           run,
		MaxSamples:    2,
	})
}
