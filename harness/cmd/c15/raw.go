package main

import (
	"bufio"
	"bytes"
	"compress/gzip"
	"context"
	"encoding/json"
	"fmt"
	"io"
	"math/rand"
	"net"
	"net/http"
	"strconv"
	"strings"
	"time"

	"github.com/klauspost/compress/zstd"
	spb "google.golang.org/genproto/googleapis/rpc/status"
	"google.golang.org/grpc"
	"google.golang.org/grpc/metadata"
	"google.golang.org/protobuf/proto"

	"go.opentelemetry.io/collector/pdata/plog/plogotlp"
	"go.opentelemetry.io/collector/pdata/pmetric/pmetricotlp"
	"go.opentelemetry.io/collector/pdata/pprofile/pprofileotlp"
	"go.opentelemetry.io/collector/pdata/ptrace/ptraceotlp"
)

var httpPath = map[string]string{"logs": "/v1/logs", "traces": "/v1/traces", "metrics": "/v1/metrics", "profiles": "/v1development/profiles"}

var grpcMethod = map[string]string{
	"logs":     "/opentelemetry.proto.collector.logs.v1.LogsService/Export",
	"traces":   "/opentelemetry.proto.collector.trace.v1.TraceService/Export",
	"metrics":  "/opentelemetry.proto.collector.metrics.v1.MetricsService/Export",
	"profiles": "/opentelemetry.proto.collector.profiles.v1development.ProfilesService/Export",
}

var contentTypeOf = map[string]string{"proto": "application/x-protobuf", "json": "application/json"}

// requestBytes renders the export request of a payload in the given encoding (the harness' own use of the
// public p*otlp request types).
func requestBytes(p *payload, enc string) ([]byte, error) {
	switch p.Signal {
	case "logs":
		r := plogotlp.NewExportRequestFromLogs(p.ld)
		if enc == "json" {
			return r.MarshalJSON()
		}
		return r.MarshalProto()
	case "traces":
		r := ptraceotlp.NewExportRequestFromTraces(p.td)
		if enc == "json" {
			return r.MarshalJSON()
		}
		return r.MarshalProto()
	case "metrics":
		r := pmetricotlp.NewExportRequestFromMetrics(p.md)
		if enc == "json" {
			return r.MarshalJSON()
		}
		return r.MarshalProto()
	default:
		r := pprofileotlp.NewExportRequestFromProfiles(p.pd)
		if enc == "json" {
			return r.MarshalJSON()
		}
		return r.MarshalProto()
	}
}

func handCompress(comp string, b []byte) []byte {
	var out bytes.Buffer
	switch comp {
	case "gzip":
		w := gzip.NewWriter(&out)
		w.Write(b)
		w.Close()
	case "zstd":
		w, _ := zstd.NewWriter(&out, zstd.WithEncoderConcurrency(1))
		w.Write(b)
		w.Close()
	default:
		return b
	}
	return out.Bytes()
}

type httpObs struct {
	Status     int    `json:"status"`
	RetryAfter string `json:"retry_after"`
	HasRA      bool   `json:"has_retry_after"`
	CT         string `json:"content_type"`
	Body       []byte `json:"-"`
	BodyText   string `json:"body"`
	Err        error  `json:"-"`
	ErrText    string `json:"error,omitempty"`
}

// rawHTTPDo sends one hand-made HTTP request.
func (e *env) rawHTTPDo(method, signal, contentType, contentEncoding, cred string, body []byte) httpObs {
	ctx, cancel := context.WithTimeout(context.Background(), netGuard)
	defer cancel()
	var rdr io.Reader
	if body != nil {
		rdr = bytes.NewReader(body)
	}
	req, err := http.NewRequestWithContext(ctx, method, "http://"+e.httpAddr+httpPath[signal], rdr)
	if err != nil {
		return httpObs{Err: err, ErrText: err.Error()}
	}
	if contentType != "" {
		req.Header.Set("Content-Type", contentType)
	}
	if contentEncoding != "" {
		req.Header.Set("Content-Encoding", contentEncoding)
	}
	if h := credHeader(cred); h != "" {
		req.Header.Set("Authorization", h)
	}
	resp, err := e.rawHTTP.Do(req)
	if err != nil {
		return httpObs{Err: err, ErrText: err.Error()}
	}
	defer resp.Body.Close()
	b, _ := io.ReadAll(io.LimitReader(resp.Body, 1<<20))
	o := httpObs{Status: resp.StatusCode, CT: resp.Header.Get("Content-Type"), Body: b}
	if v := resp.Header.Values("Retry-After"); len(v) > 0 {
		o.HasRA, o.RetryAfter = true, v[0]
	}
	o.BodyText = string(b)
	if len(o.BodyText) > 300 {
		o.BodyText = o.BodyText[:300]
	}
	return o
}

// statusInBody decodes the rpc Status the OTLP/HTTP spec puts into error response bodies.
func statusInBody(o httpObs) (code int32, ok bool) {
	ct := strings.ToLower(o.CT)
	switch {
	case strings.HasPrefix(ct, "application/x-protobuf"):
		var st spb.Status
		if err := proto.Unmarshal(o.Body, &st); err != nil {
			return 0, false
		}
		return st.Code, true
	case strings.HasPrefix(ct, "application/json"):
		var st struct {
			Code    int32  `json:"code"`
			Message string `json:"message"`
		}
		if err := json.Unmarshal(o.Body, &st); err != nil {
			return 0, false
		}
		return st.Code, true
	}
	return 0, false
}

func retryAfterDuration(o httpObs) (time.Duration, bool) {
	if !o.HasRA {
		return 0, false
	}
	if n, err := strconv.Atoi(strings.TrimSpace(o.RetryAfter)); err == nil {
		return time.Duration(n) * time.Second, true
	}
	if t, err := http.ParseTime(o.RetryAfter); err == nil {
		return time.Until(t), true
	}
	return 0, false
}

// rawGRPCExport sends a valid request through the public p*otlp gRPC client on the harness' own connection.
func (e *env) rawGRPCExport(p *payload, cred, comp string) error {
	ctx, cancel := context.WithTimeout(context.Background(), netGuard)
	defer cancel()
	if h := credHeader(cred); h != "" {
		ctx = metadata.AppendToOutgoingContext(ctx, "authorization", h)
	}
	var opts []grpc.CallOption
	if comp == "gzip" {
		opts = append(opts, grpc.UseCompressor("gzip"))
	}
	var err error
	switch p.Signal {
	case "logs":
		_, err = plogotlp.NewGRPCClient(e.rawConn).Export(ctx, plogotlp.NewExportRequestFromLogs(p.ld), opts...)
	case "traces":
		_, err = ptraceotlp.NewGRPCClient(e.rawConn).Export(ctx, ptraceotlp.NewExportRequestFromTraces(p.td), opts...)
	case "metrics":
		_, err = pmetricotlp.NewGRPCClient(e.rawConn).Export(ctx, pmetricotlp.NewExportRequestFromMetrics(p.md), opts...)
	default:
		_, err = pprofileotlp.NewGRPCClient(e.rawConn).Export(ctx, pprofileotlp.NewExportRequestFromProfiles(p.pd), opts...)
	}
	return err
}

// rawCodec passes bytes through unchanged; its name becomes the content-subtype (application/grpc+<name>).
type rawCodec struct{ name string }

func (c rawCodec) Marshal(v any) ([]byte, error) { return v.([]byte), nil }
func (c rawCodec) Unmarshal(data []byte, v any) error {
	*(v.(*[]byte)) = append([]byte{}, data...)
	return nil
}
func (c rawCodec) Name() string { return c.name }

// rawGRPCBytes invokes a method with arbitrary request bytes.
func (e *env) rawGRPCBytes(method, subtype, cred string, body []byte) error {
	ctx, cancel := context.WithTimeout(context.Background(), netGuard)
	defer cancel()
	if h := credHeader(cred); h != "" {
		ctx = metadata.AppendToOutgoingContext(ctx, "authorization", h)
	}
	var out []byte
	return e.rawConn.Invoke(ctx, method, body, &out, grpc.ForceCodec(rawCodec{subtype}))
}

// ------------------------------------------------------------------ definitely malformed bodies

// malformedProto returns bytes that no protobuf parser can accept as an Export*ServiceRequest.
func malformedProto(rng *rand.Rand, valid []byte, kind string) []byte {
	switch kind {
	case "bad-length":
		// field 1, length-delimited, declared length far beyond the end
		return append(append([]byte{}, valid...), 0x0A, 0xFF, 0xFF, 0xFF, 0xFF, 0x0F, 0x01)
	case "truncated":
		// a strict, non-empty prefix that ends inside the first top-level entry: its declared length overruns the buffer
		end := firstEntryEnd(valid)
		if end <= 2 {
			return []byte{0x0A, 0x05, 0x01}
		}
		return append([]byte{}, valid[:1+rng.Intn(end-1)]...)
	case "bad-wiretype":
		return append([]byte{0x0F}, valid...) // field 1 with wire type 7, which does not exist
	default: // open varint
		return []byte{0x08, 0xFF, 0xFF, 0xFF}
	}
}

// firstEntryEnd returns the offset just behind the first top-level length-delimited field.
func firstEntryEnd(b []byte) int {
	if len(b) < 2 || b[0]&7 != 2 {
		return 0
	}
	n, shift, i := 0, uint(0), 1
	for ; i < len(b); i++ {
		n |= int(b[i]&0x7F) << shift
		shift += 7
		if b[i] < 0x80 {
			i++
			break
		}
	}
	if i+n > len(b) {
		return len(b)
	}
	return i + n
}

func malformedJSON(rng *rand.Rand, valid []byte, signal, kind string) []byte {
	switch kind {
	case "truncated":
		if len(valid) < 3 {
			return []byte("{")
		}
		return append([]byte{}, valid[:1+rng.Intn(len(valid)-2)]...) // a strict prefix of an object is never a complete document
	case "not-json":
		return []byte("this is not json at all")
	case "empty-body":
		return []byte{} // zero bytes are a valid protobuf message, but not a JSON document
	case "whitespace-only":
		return []byte(" \n\t ")
	case "trailing-garbage":
		return append(append([]byte{}, valid...), []byte(" trailing garbage")...)
	case "two-documents":
		return append(append([]byte{}, valid...), valid...)
	case "null":
		return []byte("null")
	case "array":
		return append(append([]byte("["), valid...), ']')
	case "wrong-type":
		field := map[string]string{"logs": "resourceLogs", "traces": "resourceSpans", "metrics": "resourceMetrics", "profiles": "resourceProfiles"}[signal]
		return []byte(fmt.Sprintf(`{"%s": 7}`, field))
	default: // unbalanced
		return []byte(`{"resourceLogs": [ {"resource": `)
	}
}

// ------------------------------------------------------------------ requests cut short on the wire

// topLevelEnds returns the offsets just behind every top-level field of a protobuf message (for an
// Export*ServiceRequest: behind every Resource* entry). Computed from the protobuf framing only.
func topLevelEnds(b []byte) []int {
	var ends []int
	for i := 0; i < len(b); {
		// tag
		wt := b[i] & 7
		for i < len(b) && b[i] >= 0x80 {
			i++
		}
		i++
		switch wt {
		case 0:
			for i < len(b) && b[i] >= 0x80 {
				i++
			}
			i++
		case 1:
			i += 8
		case 5:
			i += 4
		case 2:
			n, shift := 0, uint(0)
			for i < len(b) {
				c := b[i]
				i++
				n |= int(c&0x7F) << shift
				shift += 7
				if c < 0x80 {
					break
				}
			}
			i += n
		default:
			return ends
		}
		if i > len(b) {
			return ends
		}
		ends = append(ends, i)
	}
	return ends
}

// cutObs is what one cut-short request produced.
type cutObs struct {
	Where      string `json:"cut"`
	Offset     int    `json:"bytes_sent"`
	Announced  int    `json:"content_length_announced"`
	Framing    string `json:"framing"`
	Status     int    `json:"status"`
	NoResponse bool   `json:"no_response"`
	ErrText    string `json:"error,omitempty"`
	Timeout    bool   `json:"-"`
	Calls      int64  `json:"consumer_calls"`
}

// rawTCPCut plays a sender that dies in the middle of a request: it writes the request head, only `sent` of the
// body, and then closes its write side (FIN) so that the receiver's answer, if there is one, can still be read.
// framing: "length" (Content-Length = announced) or "chunked" (chunks for `sent`, terminating chunk missing).
func (e *env) rawTCPCut(signal, contentType, contentEncoding, framing string, announced int, sent []byte) (o cutObs) {
	o = cutObs{Offset: len(sent), Announced: announced, Framing: framing}
	conn, err := net.DialTimeout("tcp", e.httpAddr, netGuard)
	if err != nil {
		o.ErrText, o.Timeout = err.Error(), true // could not even connect: infrastructure
		return o
	}
	defer conn.Close()
	conn.SetDeadline(time.Now().Add(netGuard))
	var head bytes.Buffer
	fmt.Fprintf(&head, "POST %s HTTP/1.1\r\nHost: %s\r\nContent-Type: %s\r\n", httpPath[signal], e.httpAddr, contentType)
	if contentEncoding != "" {
		fmt.Fprintf(&head, "Content-Encoding: %s\r\n", contentEncoding)
	}
	if framing == "chunked" {
		head.WriteString("Transfer-Encoding: chunked\r\n\r\n")
		for off := 0; off < len(sent); {
			n := len(sent) - off
			if n > 1000 {
				n = 1000
			}
			fmt.Fprintf(&head, "%x\r\n", n)
			head.Write(sent[off : off+n])
			head.WriteString("\r\n")
			off += n
		}
		// no "0\r\n\r\n": the sender died before it finished
	} else {
		fmt.Fprintf(&head, "Content-Length: %d\r\n\r\n", announced)
		head.Write(sent)
	}
	if _, err := conn.Write(head.Bytes()); err != nil {
		o.ErrText, o.NoResponse = err.Error(), true
		return o
	}
	if tc, ok := conn.(*net.TCPConn); ok {
		tc.CloseWrite()
	}
	resp, err := http.ReadResponse(bufio.NewReader(conn), nil)
	if err != nil {
		o.ErrText = err.Error()
		if ne, ok := err.(net.Error); ok && ne.Timeout() {
			o.Timeout = true
		} else {
			o.NoResponse = true // the receiver closed the connection without answering
		}
		return o
	}
	io.Copy(io.Discard, io.LimitReader(resp.Body, 1<<16))
	resp.Body.Close()
	o.Status = resp.StatusCode
	return o
}

// damagedCompressed compresses valid followed by incompressible padding... no: the request itself must stay a valid
// OTLP message, so the damage goes into the compressed form of the message alone. One byte in the middle third of the
// compressed stream is replaced (never the first 16 bytes: frame / member header; never the last 8: trailer).
func damagedCompressed(rng *rand.Rand, algo string, valid []byte) []byte {
	var buf bytes.Buffer
	switch algo {
	case "zstd":
		w, err := zstd.NewWriter(&buf, zstd.WithEncoderCRC(true), zstd.WithEncoderLevel(zstd.SpeedFastest))
		if err != nil {
			panic(err)
		}
		_, _ = w.Write(valid)
		_ = w.Close()
	default:
		w := gzip.NewWriter(&buf)
		_, _ = w.Write(valid)
		_ = w.Close()
	}
	b := buf.Bytes()
	if len(b) < 40 {
		return b
	}
	lo, hi := 16, len(b)-8
	i := lo + rng.Intn(hi-lo)
	b[i] ^= byte(1 + rng.Intn(255))
	return b
}
