package main

import (
	"context"
	"errors"
	"fmt"

	"google.golang.org/grpc/codes"
	"google.golang.org/grpc/status"
	"net"
	"net/http"
	"sync"
	"sync/atomic"
	"time"

	"go.uber.org/zap/zapcore"
	"google.golang.org/grpc"
	"google.golang.org/grpc/credentials/insecure"

	"go.opentelemetry.io/collector/component"
	"go.opentelemetry.io/collector/config/configauth"
	"go.opentelemetry.io/collector/config/configcompression"
	"go.opentelemetry.io/collector/config/confighttp"
	"go.opentelemetry.io/collector/config/configopaque"
	"go.opentelemetry.io/collector/config/configretry"
	"go.opentelemetry.io/collector/config/configtls"
	"go.opentelemetry.io/collector/consumer"
	"go.opentelemetry.io/collector/consumer/xconsumer"
	"go.opentelemetry.io/collector/exporter"
	"go.opentelemetry.io/collector/exporter/exportertest"
	"go.opentelemetry.io/collector/exporter/otlpexporter"
	"go.opentelemetry.io/collector/exporter/otlphttpexporter"
	"go.opentelemetry.io/collector/exporter/xexporter"
	"go.opentelemetry.io/collector/pdata/plog"
	"go.opentelemetry.io/collector/pdata/pmetric"
	"go.opentelemetry.io/collector/pdata/pprofile"
	"go.opentelemetry.io/collector/pdata/ptrace"
	"go.opentelemetry.io/collector/receiver/otlpreceiver"
	"go.opentelemetry.io/collector/receiver/receivertest"
	"go.opentelemetry.io/collector/receiver/xreceiver"
	"go.opentelemetry.io/collector/verifharness/lib/driver"
	"go.opentelemetry.io/collector/verifharness/lib/loopkit"
)

const (
	netGuard  = 90 * time.Second // infrastructure guard of one exchange; firing => inconclusive
	goodToken = "Bearer c15-secret-token"
	badToken  = "Bearer not-the-token"
)

// ------------------------------------------------------------------ scripted sink

type sinkRec struct {
	Signal string
	Bytes  []byte
	Items  int
	In     time.Time
	Out    time.Time
	Ret    string
	RO     bool // the payload was already marked read-only when it reached the consumer
}

type sink struct {
	mu     sync.Mutex
	total  int64
	script map[string][]error
	recs   map[string][]sinkRec
}

func newSink() *sink { return &sink{script: map[string][]error{}, recs: map[string][]sinkRec{}} }

func (s *sink) arm(id string, outs []error) {
	s.mu.Lock()
	s.script[id] = outs
	delete(s.recs, id)
	s.mu.Unlock()
}

func (s *sink) take(id string) []sinkRec {
	s.mu.Lock()
	defer s.mu.Unlock()
	r := s.recs[id]
	delete(s.recs, id)
	delete(s.script, id)
	return r
}

func (s *sink) calls() int64 { s.mu.Lock(); defer s.mu.Unlock(); return s.total }

func (s *sink) consume(signal, id string, b []byte, items int, ro ...bool) error {
	in := time.Now()
	s.mu.Lock()
	s.total++
	var ret error
	if q := s.script[id]; len(q) > 0 {
		ret = q[0]
		s.script[id] = q[1:]
	}
	s.mu.Unlock()
	rs := "nil"
	if ret != nil {
		rs = ret.Error()
	}
	out := time.Now()
	s.mu.Lock()
	s.recs[id] = append(s.recs[id], sinkRec{Signal: signal, Bytes: b, Items: items, In: in, Out: out, Ret: rs, RO: len(ro) > 0 && ro[0]})
	s.mu.Unlock()
	return ret
}

func (s *sink) logs() consumer.Logs {
	c, _ := consumer.NewLogs(func(_ context.Context, ld plog.Logs) error {
		id := ""
		if ld.ResourceLogs().Len() > 0 {
			if v, ok := ld.ResourceLogs().At(0).Resource().Attributes().Get(idKey); ok {
				id = v.Str()
			}
		}
		b, _ := (&plog.ProtoMarshaler{}).MarshalLogs(ld)
		ro := ld.IsReadOnly()
		ld.MarkReadOnly() // the receiver feeds several pipelines: the fan-out shares the payload read-only
		return s.consume("logs", id, b, ld.LogRecordCount(), ro)
	})
	return c
}

func (s *sink) traces() consumer.Traces {
	c, _ := consumer.NewTraces(func(_ context.Context, td ptrace.Traces) error {
		id := ""
		if td.ResourceSpans().Len() > 0 {
			if v, ok := td.ResourceSpans().At(0).Resource().Attributes().Get(idKey); ok {
				id = v.Str()
			}
		}
		b, _ := (&ptrace.ProtoMarshaler{}).MarshalTraces(td)
		ro := td.IsReadOnly()
		td.MarkReadOnly() // the receiver feeds several pipelines: the fan-out shares the payload read-only
		return s.consume("traces", id, b, td.SpanCount(), ro)
	})
	return c
}

func (s *sink) metrics() consumer.Metrics {
	c, _ := consumer.NewMetrics(func(_ context.Context, md pmetric.Metrics) error {
		id := ""
		if md.ResourceMetrics().Len() > 0 {
			if v, ok := md.ResourceMetrics().At(0).Resource().Attributes().Get(idKey); ok {
				id = v.Str()
			}
		}
		b, _ := (&pmetric.ProtoMarshaler{}).MarshalMetrics(md)
		ro := md.IsReadOnly()
		md.MarkReadOnly() // the receiver feeds several pipelines: the fan-out shares the payload read-only
		return s.consume("metrics", id, b, md.DataPointCount(), ro)
	})
	return c
}

func (s *sink) profiles() xconsumer.Profiles {
	c, _ := xconsumer.NewProfiles(func(_ context.Context, pd pprofile.Profiles) error {
		id := ""
		if pd.ResourceProfiles().Len() > 0 {
			if v, ok := pd.ResourceProfiles().At(0).Resource().Attributes().Get(idKey); ok {
				id = v.Str()
			}
		}
		b, _ := (&pprofile.ProtoMarshaler{}).MarshalProfiles(pd)
		ro := pd.IsReadOnly()
		pd.MarkReadOnly()
		return s.consume("profiles", id, b, pd.SampleCount(), ro)
	})
	return c
}

// ------------------------------------------------------------------ server-side authenticator (extensionauth.Server)

type authExt struct {
	component.StartFunc
	component.ShutdownFunc
	calls atomic.Int64
	deny  atomic.Int64
}

func (a *authExt) Authenticate(ctx context.Context, sources map[string][]string) (context.Context, error) {
	a.calls.Add(1)
	v := sources["authorization"] // gRPC metadata keys are lower case
	if len(v) == 0 {
		v = sources["Authorization"] // net/http canonical form
	}
	switch {
	case len(v) == 0:
		a.deny.Add(1)
		return ctx, errors.New("c15: missing credentials")
	case v[0] != goodToken:
		// what an authenticator that asks a backend returns when it refuses: a plain error, or an error that is / wraps
		// the gRPC status of its own failed backend call. Whatever it is, the request is unauthenticated.
		switch a.deny.Add(1) % 4 {
		case 1:
			return ctx, status.Error(codes.Unavailable, "c15: token introspection endpoint unavailable")
		case 2:
			return ctx, fmt.Errorf("c15: invalid credentials: %w", status.Error(codes.ResourceExhausted, "introspection quota"))
		case 3:
			return ctx, status.Error(codes.DeadlineExceeded, "c15: introspection timed out")
		}
		return ctx, errors.New("c15: invalid credentials")
	}
	return ctx, nil
}

var authID = component.MustNewID("c15auth")

// ------------------------------------------------------------------ environment: one receiver + lazily built exporters + raw clients

type expInst struct {
	consume  func(ctx context.Context, p *payload) error
	shutdown func(ctx context.Context) error
	logs     *loopkit.LogCapture
}

type env struct {
	c        *driver.Ctx
	name     string
	auth     bool
	sink     *sink
	host     loopkit.Host
	ext      *authExt
	rcvs     []component.Component
	rcvLogs  *loopkit.LogCapture
	grpcAddr string
	httpAddr string
	mu       sync.Mutex
	exps     map[string]*expInst
	rawHTTP  *http.Client
	rawConn  *grpc.ClientConn
}

func freeAddr() (string, error) {
	ln, err := net.Listen("tcp", "127.0.0.1:0")
	if err != nil {
		return "", err
	}
	a := ln.Addr().String()
	ln.Close()
	return a, nil
}

func startEnv(c *driver.Ctx, name string, auth bool) (*env, error) {
	var lastErr error
	for try := 0; try < 6; try++ {
		e, err := startEnvOnce(c, name, auth)
		if err == nil {
			return e, nil
		}
		lastErr = err // most likely another process took the port between probing and listening
	}
	return nil, lastErr
}

func startEnvOnce(c *driver.Ctx, name string, auth bool) (*env, error) {
	e := &env{c: c, name: name, auth: auth, sink: newSink(), exps: map[string]*expInst{}, ext: &authExt{}}
	e.host = loopkit.Host{Ext: map[component.ID]component.Component{authID: e.ext}}
	var err error
	if e.grpcAddr, err = freeAddr(); err != nil {
		return nil, err
	}
	if e.httpAddr, err = freeAddr(); err != nil {
		return nil, err
	}
	rf := otlpreceiver.NewFactory()
	rcfg := rf.CreateDefaultConfig().(*otlpreceiver.Config)
	rcfg.GRPC.NetAddr.Endpoint = e.grpcAddr
	rcfg.HTTP.ServerConfig.Endpoint = e.httpAddr
	if auth {
		rcfg.GRPC.Auth = &configauth.Authentication{AuthenticatorID: authID}
		rcfg.HTTP.ServerConfig.Auth = &confighttp.AuthConfig{Authentication: configauth.Authentication{AuthenticatorID: authID}}
	}
	lc, logger := loopkit.NewLogCapture(zapcore.WarnLevel)
	e.rcvLogs = lc
	set := receivertest.NewNopSettings(rf.Type())
	set.Logger = logger
	ctx := context.Background()
	lr, err := rf.CreateLogs(ctx, set, rcfg, e.sink.logs())
	if err != nil {
		return nil, err
	}
	tr, err := rf.CreateTraces(ctx, set, rcfg, e.sink.traces())
	if err != nil {
		return nil, err
	}
	mr, err := rf.CreateMetrics(ctx, set, rcfg, e.sink.metrics())
	if err != nil {
		return nil, err
	}
	pr, err := rf.(xreceiver.Factory).CreateProfiles(ctx, set, rcfg, e.sink.profiles())
	if err != nil {
		return nil, err
	}
	e.rcvs = []component.Component{lr, tr, mr, pr}
	for i, r := range e.rcvs {
		if err := r.Start(ctx, e.host); err != nil {
			for _, s := range e.rcvs[:i+1] {
				s.Shutdown(ctx)
			}
			return nil, fmt.Errorf("receiver start: %w", err)
		}
	}
	e.rawHTTP = &http.Client{Transport: &http.Transport{MaxIdleConnsPerHost: 8, IdleConnTimeout: 30 * time.Second}, Timeout: netGuard}
	e.rawConn, err = grpc.NewClient(e.grpcAddr, grpc.WithTransportCredentials(insecure.NewCredentials()))
	if err != nil {
		e.stop()
		return nil, err
	}
	return e, nil
}

func (e *env) stop() {
	ctx, cancel := context.WithTimeout(context.Background(), 30*time.Second)
	defer cancel()
	e.mu.Lock()
	for _, x := range e.exps {
		x.shutdown(ctx)
	}
	e.exps = map[string]*expInst{}
	e.mu.Unlock()
	if e.rawConn != nil {
		e.rawConn.Close()
	}
	if e.rawHTTP != nil {
		e.rawHTTP.CloseIdleConnections()
	}
	for _, r := range e.rcvs {
		r.Shutdown(ctx)
	}
}

type clientSpec struct {
	Kind      string `json:"kind"`      // exporter | rawhttp | rawgrpc
	Transport string `json:"transport"` // grpc | http
	Enc       string `json:"encoding"`  // proto | json
	Comp      string `json:"compression"`
	Cred      string `json:"credentials,omitempty"` // "" (server has no authenticator) | good | bad | none
}

func (cl clientSpec) String() string {
	return fmt.Sprintf("%s/%s/%s/%s/%s", cl.Kind, cl.Transport, cl.Enc, cl.Comp, cl.Cred)
}

func credHeader(cred string) string {
	switch cred {
	case "good":
		return goodToken
	case "bad":
		return badToken
	}
	return ""
}

var retryCfg = configretry.BackOffConfig{Enabled: true, InitialInterval: 5 * time.Millisecond, RandomizationFactor: 0, Multiplier: 1, MaxInterval: 5 * time.Millisecond, MaxElapsedTime: 0}

// exporter returns (building and starting it on first use) the real exporter for a client spec and signal.
func (e *env) exporter(cl clientSpec, signal string, retry bool) (*expInst, error) {
	key := fmt.Sprintf("%s/retry=%v/%s", cl, retry, signal)
	e.mu.Lock()
	defer e.mu.Unlock()
	if x := e.exps[key]; x != nil {
		return x, nil
	}
	ctx := context.Background()
	lc, logger := loopkit.NewLogCapture(zapcore.InfoLevel)
	var fact exporter.Factory
	var cfg component.Config
	hdr := map[string]configopaque.String{}
	if h := credHeader(cl.Cred); h != "" {
		hdr["authorization"] = configopaque.String(h)
	}
	if cl.Transport == "grpc" {
		fact = otlpexporter.NewFactory()
		gc := fact.CreateDefaultConfig().(*otlpexporter.Config)
		gc.ClientConfig.Endpoint = e.grpcAddr
		gc.ClientConfig.TLSSetting = configtls.ClientConfig{Insecure: true}
		gc.ClientConfig.Compression = configcompression.Type(cl.Comp)
		gc.ClientConfig.Headers = hdr
		gc.QueueConfig.Enabled = false
		gc.RetryConfig.Enabled = false
		if retry {
			gc.RetryConfig = retryCfg
		}
		gc.TimeoutConfig.Timeout = netGuard
		cfg = gc
	} else {
		fact = otlphttpexporter.NewFactory()
		hc := fact.CreateDefaultConfig().(*otlphttpexporter.Config)
		hc.ClientConfig.Endpoint = "http://" + e.httpAddr
		hc.ClientConfig.Compression = configcompression.Type(cl.Comp)
		hc.ClientConfig.Headers = hdr
		hc.ClientConfig.Timeout = netGuard
		hc.Encoding = otlphttpexporter.EncodingType(cl.Enc)
		hc.QueueConfig.Enabled = false
		hc.RetryConfig.Enabled = false
		if retry {
			hc.RetryConfig = retryCfg
		}
		cfg = hc
	}
	set := exportertest.NewNopSettings(fact.Type())
	set.Logger = logger
	x := &expInst{logs: lc}
	var comp component.Component
	var err error
	switch signal {
	case "logs":
		var ex exporter.Logs
		ex, err = fact.CreateLogs(ctx, set, cfg)
		if err == nil {
			comp = ex
			x.consume = func(ctx context.Context, p *payload) error { return ex.ConsumeLogs(ctx, p.ld) }
		}
	case "traces":
		var ex exporter.Traces
		ex, err = fact.CreateTraces(ctx, set, cfg)
		if err == nil {
			comp = ex
			x.consume = func(ctx context.Context, p *payload) error { return ex.ConsumeTraces(ctx, p.td) }
		}
	case "metrics":
		var ex exporter.Metrics
		ex, err = fact.CreateMetrics(ctx, set, cfg)
		if err == nil {
			comp = ex
			x.consume = func(ctx context.Context, p *payload) error { return ex.ConsumeMetrics(ctx, p.md) }
		}
	default:
		var ex xexporter.Profiles
		ex, err = fact.(xexporter.Factory).CreateProfiles(ctx, set, cfg)
		if err == nil {
			comp = ex
			x.consume = func(ctx context.Context, p *payload) error { return ex.ConsumeProfiles(ctx, p.pd) }
		}
	}
	if err != nil {
		return nil, err
	}
	if err := comp.Start(ctx, e.host); err != nil {
		return nil, err
	}
	x.shutdown = comp.Shutdown
	e.exps[key] = x
	return x, nil
}
