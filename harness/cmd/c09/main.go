// C09 — the built pipeline graph routes data exactly as the configuration says.
//
// Workload: seeded random configurations (valid ones built constructively by kit.GenTopology: shared
// receivers/exporters/processor ids, connector chains, fan-in, fan-out, restricted connector types,
// routing connectors, all four signals; invalid ones derived from a valid base: connector cycles of
// length 1–4, back edges, unsupported signal pairs, connector used only as exporter / only as
// receiver) run through otelcol.NewCollector(...).Run with the YAML a user would write; one payload is
// injected at every receiver instance; then the collector is shut down.
//
// Oracle (kit/oracle.go, independent of service/internal/graph): the multiset of deliveries
// (exporter instance, tag, trail) equals the multiset over all configured paths; visits of
// non-mutating components likewise; create-call counts per instance key; instance identity learnt
// from unambiguous paths is a function of (pipeline, id) and injective; a routing connector's data reaches
// exactly the pipelines its route names (a fan-out over the listed consumers) and the router refuses the
// route iff it is empty or names an unconnected pipeline; errors of failing exporters and refusing routers
// reach the injecting receiver; invalid configurations make Run return an error and no Start is seen.
package main

import (
	"context"
	"fmt"
	"math/rand"
	"regexp"
	"sort"
	"strings"
	"time"

	"go.opentelemetry.io/collector/verifharness/lib/driver"
	"go.opentelemetry.io/collector/verifharness/lib/kit"
)

// ---- invalid configurations ------------------------------------------------------------------------

var invalidClasses = []string{"ring1", "ring2", "ring3", "ring4", "backedge", "unsupported-pair", "unsupported-partial", "exporter-only", "receiver-only"}

func freshPipe(t *kit.Topology, sig kit.Signal, name string) int {
	t.Receivers["krecv/1"] = nil
	t.Exporters["kexp/1"] = nil
	t.Pipelines = append(t.Pipelines, kit.Pipeline{Signal: sig, Name: name, Receivers: []string{"krecv/1"}, Exporters: []string{"kexp/1"}})
	return len(t.Pipelines) - 1
}

func link(t *kit.Topology, id string, a, b int) {
	t.Connectors[id] = nil
	if !has(t.Pipelines[a].Exporters, id) {
		t.Pipelines[a].Exporters = append(t.Pipelines[a].Exporters, id)
	}
	if !has(t.Pipelines[b].Receivers, id) {
		t.Pipelines[b].Receivers = append(t.Pipelines[b].Receivers, id)
	}
}

func has(l []string, s string) bool {
	for _, x := range l {
		if x == s {
			return true
		}
	}
	return false
}

// makeInvalid derives a configuration with one injected defect of the class from a valid base.
func makeInvalid(rng *rand.Rand, base *kit.Topology, class string) *kit.Topology {
	t := base.Clone()
	sig := func() kit.Signal { return kit.Signals[rng.Intn(4)] }
	switch class {
	case "ring1", "ring2", "ring3", "ring4":
		k := int(class[4] - '0')
		same := rng.Intn(2) == 0
		s0 := sig()
		var idx []int
		for i := 0; i < k; i++ {
			s := s0
			if !same {
				s = sig()
			}
			// sometimes the ring runs through an existing pipeline of the base
			if i > 0 && rng.Intn(4) == 0 && len(base.Pipelines) > 0 {
				j := rng.Intn(len(base.Pipelines))
				if !intsHave(idx, j) && (!same || t.Pipelines[j].Signal == s0) {
					idx = append(idx, j)
					continue
				}
			}
			idx = append(idx, freshPipe(t, s, fmt.Sprintf("ring%d", i)))
		}
		for i := 0; i < k; i++ {
			typ := "kconn"
			if t.Pipelines[idx[i]].Signal == t.Pipelines[idx[(i+1)%k]].Signal && rng.Intn(2) == 0 {
				typ = "ksame"
			}
			id := fmt.Sprintf("%s/r%d", typ, i)
			if k > 1 && rng.Intn(3) == 0 { // one connector id may serve several hops of the ring
				id = typ + "/r"
			}
			link(t, id, idx[i], idx[(i+1)%k])
		}
	case "backedge":
		// close a cycle over an existing connector path of the base; without one, build a chain first
		type pr struct{ a, b int }
		var reach []pr
		for _, ci := range t.ConnInstances() {
			for _, a := range ci.Sources {
				for _, b := range ci.Dests {
					reach = append(reach, pr{a, b})
				}
			}
		}
		if len(reach) == 0 {
			a, b := freshPipe(t, sig(), "be0"), freshPipe(t, sig(), "be1")
			link(t, "kconn/f", a, b)
			reach = append(reach, pr{a, b})
		}
		e := reach[rng.Intn(len(reach))]
		link(t, "kconn/back", e.b, e.a)
	case "unsupported-pair":
		// a restricted connector type between two pipelines whose pair the factory does not support
		types := []string{"kl2m", "ksame", "kt2lm", "kx2p"}
		typ := types[rng.Intn(len(types))]
		for try := 0; try < 50; try++ {
			s, d := sig(), sig()
			if !t.Supports(typ+"/u", s, d) {
				a, b := freshPipe(t, s, "ua"), freshPipe(t, d, "ub")
				if rng.Intn(2) == 0 && len(base.Pipelines) > 0 { // or an existing pipeline of the right signal
					for j, p := range base.Pipelines {
						if p.Signal == s {
							a = j
							break
						}
					}
				}
				link(t, typ+"/u", a, b)
				break
			}
		}
	case "unsupported-partial":
		// kl2m supports logs->metrics only: a second exporter-side (or receiver-side) signal has no counterpart
		a, b := freshPipe(t, kit.Logs, "ua"), freshPipe(t, kit.Metrics, "ub")
		link(t, "kl2m/u", a, b)
		if rng.Intn(2) == 0 {
			x := freshPipe(t, []kit.Signal{kit.Traces, kit.Metrics, kit.Profiles}[rng.Intn(3)], "ux")
			t.Pipelines[x].Exporters = append(t.Pipelines[x].Exporters, "kl2m/u")
		} else {
			x := freshPipe(t, []kit.Signal{kit.Traces, kit.Logs, kit.Profiles}[rng.Intn(3)], "ux")
			t.Pipelines[x].Receivers = append(t.Pipelines[x].Receivers, "kl2m/u")
		}
	case "exporter-only", "receiver-only":
		typ := []string{"kconn", "ksame", "kl2m"}[rng.Intn(3)]
		id := typ + "/o"
		t.Connectors[id] = nil
		var x int
		if len(t.Pipelines) > 0 && rng.Intn(2) == 0 {
			x = rng.Intn(len(t.Pipelines))
		} else {
			x = freshPipe(t, sig(), "only")
		}
		if class == "exporter-only" {
			t.Pipelines[x].Exporters = append(t.Pipelines[x].Exporters, id)
			if rng.Intn(3) == 0 { // the connector replaces the pipeline's only exporter
				t.Pipelines[x].Exporters = []string{id}
			}
		} else {
			t.Pipelines[x].Receivers = append(t.Pipelines[x].Receivers, id)
			if rng.Intn(3) == 0 {
				t.Pipelines[x].Receivers = []string{id}
			}
		}
	}
	return t
}

func intsHave(l []int, x int) bool {
	for _, y := range l {
		if y == x {
			return true
		}
	}
	return false
}

// ---- one case --------------------------------------------------------------------------------------

type outcome struct {
	launchErr error
	running   bool
	runErr    error
	injErr    map[string]error // tag -> error returned to the injecting receiver (last attempt)
	injected  int
	attempts  map[string][]kit.Attempt
	readOnly  int
	resends   int
	itemless  int
}

// injectShape: one injection in six carries no leaf items (never the "empty" shape: it has no resource to carry the tag).
func injectShape(rng *rand.Rand) string {
	if rng.Intn(6) != 0 {
		return "items"
	}
	return []string{"resource-only", "scope-only", "container-only"}[rng.Intn(3)]
}

// execute runs the collector and injects one payload at every receiver instance. plan says how the receiver sends
// it: as a fresh mutable payload, marked read-only (a receiver that keeps its payload), and re-sent — the very same
// object — after a downstream error (consumerretry style).
func execute(env *kit.Env, yaml string, rng *rand.Rand, rich bool, plan func(tag string) kit.SendOptions) outcome {
	var o outcome
	o.injErr = map[string]error{}
	o.attempts = map[string][]kit.Attempt{}
	run, err := env.Launch(yaml)
	if err != nil {
		o.launchErr = err
		return o
	}
	o.running = run.AwaitRunning()
	if !o.running {
		o.runErr = run.Wait()
		return o
	}
	for _, in := range env.Injectors() {
		var prng *rand.Rand
		if rich {
			prng = rng
		}
		so := plan(in.Tag())
		p := kit.NewPayload(in.Signal, kit.Msg{Tag: in.Tag()}, prng)
		if shape := injectShape(rng); shape != "items" {
			// a payload without leaf items (a resource or scope announcement, an empty metric) is data like any other:
			// it travels the same paths
			p = kit.NewShapedPayload(in.Signal, shape, kit.Msg{Tag: in.Tag()}, rng)
			o.itemless++
		}
		at := in.SendPayload(context.Background(), p, so)
		o.attempts[in.Tag()] = at
		o.injErr[in.Tag()] = at[len(at)-1].Err
		o.injected++
		if so.MarkReadOnly {
			o.readOnly++
		}
		o.resends += len(at) - 1
	}
	o.runErr = run.Stop()
	return o
}

var (
	idRe  = regexp.MustCompile(`k[a-z0-9]+/[A-Za-z0-9_]+`)
	numRe = regexp.MustCompile(`[0-9]+`)
)

// errClass reduces an error text to a low-cardinality class for signatures.
func errClass(err error) string {
	if err == nil {
		return "nil"
	}
	s := err.Error()
	switch {
	case strings.Contains(s, "cycle detected"):
		return "cycle detected"
	case strings.Contains(s, "not used in any supported receiver pipeline"):
		return "exporter side unsupported"
	case strings.Contains(s, "not used in any supported exporter pipeline"):
		return "receiver side unsupported"
	case strings.Contains(s, "invalid configuration"):
		return "invalid configuration"
	case strings.Contains(s, "failed to get config"):
		return "failed to get config"
	}
	s = numRe.ReplaceAllString(idRe.ReplaceAllString(s, "ID"), "N")
	if len(s) > 60 {
		s = s[:60]
	}
	return s
}

func kindsOf(keys []string) string {
	set := map[string]bool{}
	for _, k := range keys {
		set[kit.KeyKind(k)] = true
	}
	var l []string
	for k := range set {
		l = append(l, k)
	}
	sort.Strings(l)
	return strings.Join(l, "+")
}

type witness struct {
	Class      string         `json:"class"`
	YAML       string         `json:"yaml"`
	Verdict    kit.Verdict    `json:"reference_verdict"`
	RunErr     string         `json:"run_error,omitempty"`
	Missing    []string       `json:"missing,omitempty"`
	Unexpected []string       `json:"unexpected,omitempty"`
	Creates    map[string]int `json:"creates,omitempty"`
	Want       map[string]int `json:"expected_creates,omitempty"`
	Detail     string         `json:"detail,omitempty"`
	Events     []string       `json:"events,omitempty"`
}

func evStrings(evs []kit.Event, max int) []string {
	var out []string
	for i, e := range evs {
		if i >= max {
			out = append(out, "…")
			break
		}
		out = append(out, e.String())
	}
	return out
}

func errText(err error) string {
	if err == nil {
		return ""
	}
	return err.Error()
}

func runCase(c *driver.Ctx, class string, t *kit.Topology, rng *rand.Rand) {
	c.Eval()
	v := t.Validate()
	yaml := t.YAML()
	env := kit.NewEnv(kit.Options{ConnectorTypes: t.ConnPairs})
	var o outcome
	var pv any
	var pstack string
	stuck := c.Guard(60*time.Second, kit.Seq, func() {
		sendMode := rng.Intn(3) // 0: fresh mutable payloads only; 1, 2: a third of the receivers send read-only / re-send
		var exPlan *kit.Expectation
		plan := func(tag string) kit.SendOptions {
			var so kit.SendOptions
			if sendMode == 0 {
				return so
			}
			so.MarkReadOnly = rng.Intn(3) == 0
			if rng.Intn(3) == 0 {
				if exPlan == nil {
					exPlan = t.Expect() // only called while the collector runs: the configuration is valid
				}
				if len(exPlan.RouteRefusals[tag]) == 0 { // the refusal count of a router is per send; keep that oracle exact
					so.Resend = 1 + rng.Intn(2)
				}
			}
			return so
		}
		pv, pstack = driver.Catch(func() { o = execute(env, yaml, rng, rng.Intn(4) == 0, plan) })
	})
	w := witness{Class: class, YAML: yaml, Verdict: v}
	if stuck != nil {
		c.Inconclusive("collector run did not finish")
		c.Note("stuck case class=%s frames=%v", class, stuck.RepoFrames)
		return
	}
	if pv != nil {
		pv, pstack = kit.UnwrapPanic(pv, pstack)
		w.Detail = fmt.Sprintf("panic: %v\n%s", pv, pstack)
		c.Violation("panic", fmt.Sprintf("panic while running a %s configuration: %v", class, pv), w, "site", driver.PanicSite(pstack), "valid", fmt.Sprint(v.Valid))
		return
	}
	if o.launchErr != nil {
		w.Detail = o.launchErr.Error()
		c.Violation("launch", "otelcol.NewCollector failed: "+o.launchErr.Error(), w, "err", errClass(o.launchErr))
		return
	}
	w.RunErr = errText(o.runErr)
	evs := env.Events()
	c.Observe("collectors_run", 1)
	c.Observe("lifecycle_events", int64(len(evs)))
	// the interesting region: more than one pipeline, a connector, or an invalid configuration
	if len(t.Pipelines) >= 2 || len(t.UsedConnectors()) > 0 || !v.Valid {
		c.Nontrivial(t.Canonical())
	}
	c.Distinct("shapes", t.Shape(), v.Valid)
	if n := caseTwinPairs(t); n > 0 {
		c.Observe("configs_with_case_only_twin_ids", 1)
		c.Observe("case_only_twin_pairs_in_use", int64(n))
	}

	if !v.Valid {
		c.Observe("invalid_configs", 1)
		for _, r := range v.Reasons {
			c.Observe("invalid:"+r, 1)
		}
		c.Distinct("invalid_classes", class, strings.Join(v.Reasons, "+"), v.CycleLen)
		if v.CycleLen > 0 {
			c.Observe(fmt.Sprintf("cycle_len_%d", min(v.CycleLen, 5)), 1)
		}
		reasons := strings.Join(v.Reasons, "+")
		if o.running || o.runErr == nil {
			w.Events = evStrings(evs, 40)
			c.Violation("invalid-accepted", fmt.Sprintf("configuration the reference model rejects (%s) was accepted: running=%v err=%v; %s", reasons, o.running, o.runErr, t.Describe()), w,
				"reasons", reasons)
			return
		}
		c.Observe("rejected:"+errClass(o.runErr), 1)
		if st := kit.StartedKeys(evs); len(st) > 0 {
			w.Events = evStrings(evs, 40)
			c.Violation("started-despite-rejection", fmt.Sprintf("Run returned %q but %d components were started first, e.g. %s", errClass(o.runErr), len(st), st[0]), w,
				"reasons", reasons, "started", kindsOf(st))
		}
		if reasons == "conn-cycle" {
			msg := o.runErr.Error()
			named := false
			for _, id := range v.CycleConnectors {
				if strings.Contains(msg, fmt.Sprintf("connector %q", id)) {
					named = true
				}
			}
			if !strings.Contains(msg, "cycle detected") || !named {
				c.Violation("cycle-message", fmt.Sprintf("a pure connector cycle (connectors %v) was rejected with a message that does not name a connector cycle: %s", v.CycleConnectors, msg), w,
					"err", errClass(o.runErr))
			}
		}
		c.Observe("invalid_held", 1)
		return
	}

	// ---- valid configuration
	c.Observe("valid_configs", 1)
	if !o.running {
		c.Violation("valid-rejected", fmt.Sprintf("configuration the reference model accepts was rejected: %v; %s", o.runErr, t.Describe()), w, "err", errClass(o.runErr))
		return
	}
	if o.runErr != nil {
		c.Violation("run-error", "Run returned an error although no component fails in Start/Shutdown: "+o.runErr.Error(), w, "err", errClass(o.runErr))
	}
	ex := t.Expect()
	for tag, at := range o.attempts {
		if len(at) > 1 {
			ex.ApplyAttempts(tag, at)
		}
	}
	c.Observe("injections_without_leaf_items", int64(o.itemless))
	c.Observe("injections_sent_read_only", int64(o.readOnly))
	c.Observe("injections_resent_after_an_error", int64(o.resends))
	insts := t.ConnInstances()
	c.Observe("paths_expected", int64(len(ex.Paths)))
	depth := 0
	for _, p := range ex.Paths {
		d := 0
		for _, st := range p.Steps {
			if st.Kind == "connector" {
				d++
			}
		}
		depth = max(depth, d)
	}
	c.Observe(fmt.Sprintf("valid_connector_chain_depth_%d", min(depth, 4)), 1)
	if len(t.Flow().Shared) > 0 {
		c.Observe("valid_with_shared_receiver", 1)
	}
	c.Observe("connector_instances", int64(len(insts)))
	for _, ci := range insts {
		c.Distinct("connector_pairs_used", ci.From, ci.To)
		if rc := routeClass(ci); rc != "broadcast" {
			c.Observe("routing_instances:"+rc, 1)
			c.Distinct("routing_cases", rc, ci.From, ci.To, ci.Mode, len(ci.Dests))
		}
	}
	// every receiver instance exists and was injected
	for _, ri := range t.RecvInstances() {
		if env.Injector(ri.Signal, ri.ID) == nil {
			c.Violation("creates", fmt.Sprintf("receiver instance %s/%s was never created", ri.Signal, ri.ID), w, "kind", "receiver", "problem", "missing")
		}
	}
	c.Observe("payloads_injected", int64(o.injected))

	// deliveries: observed multiset == expected multiset
	got := map[string]int{}
	ds := env.Deliveries()
	for _, d := range ds {
		var tr []string
		for _, e := range d.Trail {
			s, _ := kit.StripInst(e)
			tr = append(tr, s)
		}
		got[kit.DeliveryID(d.Exporter, d.Tag, tr)]++
	}
	var missing, extra []string
	for k, n := range ex.Deliveries {
		if got[k] < n {
			missing = append(missing, fmt.Sprintf("%s ×%d (got %d)", k, n, got[k]))
		}
	}
	for k, n := range got {
		if n > ex.Deliveries[k] {
			extra = append(extra, fmt.Sprintf("%s ×%d (expected %d)", k, n, ex.Deliveries[k]))
		}
	}
	sort.Strings(missing)
	sort.Strings(extra)
	c.Observe("deliveries_expected", int64(sum(ex.Deliveries)))
	c.Observe("deliveries_observed", int64(len(ds)))
	hasConn := fmt.Sprint(len(insts) > 0)
	if len(missing) > 0 || len(extra) > 0 {
		w.Missing, w.Unexpected = missing, extra
		kind := "missing"
		if len(missing) == 0 {
			kind = "extra"
		} else if len(extra) > 0 {
			kind = "missing+extra"
		}
		first := append(append([]string(nil), missing...), extra...)[0]
		c.Violation("routing", fmt.Sprintf("deliveries differ from the configured paths (%d missing, %d unexpected), e.g. %s; %s", len(missing), len(extra), first, t.Describe()), w,
			"kind", kind, "connectors", hasConn)
	} else {
		c.Observe("deliveries_matched", int64(len(ds)))
	}
	// visits of non-mutating components
	gotV := map[string]int{}
	for _, vi := range env.Visits() {
		var tr []string
		for _, e := range vi.Trail {
			s, _ := kit.StripInst(e)
			tr = append(tr, s)
		}
		gotV[kit.DeliveryID(vi.Key, vi.Tag, tr)]++
	}
	var vdiff []string
	for k, n := range ex.Visits {
		if gotV[k] != n {
			vdiff = append(vdiff, fmt.Sprintf("%s expected %d got %d", k, n, gotV[k]))
		}
	}
	for k, n := range gotV {
		if _, ok := ex.Visits[k]; !ok {
			vdiff = append(vdiff, fmt.Sprintf("%s expected 0 got %d", k, n))
		}
	}
	c.Observe("visits_expected", int64(sum(ex.Visits)))
	if len(vdiff) > 0 {
		sort.Strings(vdiff)
		w.Unexpected = vdiff
		c.Violation("routing", fmt.Sprintf("visits of non-mutating processors / pass-through connectors differ from the configured paths, e.g. %s", vdiff[0]), w,
			"kind", "visits", "connectors", hasConn)
	}
	// create counts
	want, cre := t.ExpectedCreates(), env.Creates()
	c.Observe("create_keys_checked", int64(len(want)))
	var cdiff []string
	kinds := map[string]bool{}
	for k, n := range want {
		if cre[k] != n {
			cdiff = append(cdiff, fmt.Sprintf("%s created %d times, expected %d", k, cre[k], n))
			kinds[kit.KeyKind(k)] = true
		}
	}
	for k, n := range cre {
		if _, ok := want[k]; !ok {
			cdiff = append(cdiff, fmt.Sprintf("%s created %d times, expected 0", k, n))
			kinds[kit.KeyKind(k)] = true
		}
	}
	if len(cdiff) > 0 {
		sort.Strings(cdiff)
		w.Creates, w.Want = cre, want
		var ks []string
		for k := range kinds {
			ks = append(ks, k)
		}
		sort.Strings(ks)
		c.Violation("creates", fmt.Sprintf("factory create calls differ from one per configured instance: %s; %s", strings.Join(cdiff[:min(3, len(cdiff))], "; "), t.Describe()), w,
			"kind", strings.Join(ks, "+"), "problem", "count")
	}
	// instance identity: learnt from unambiguous deliveries
	if len(missing) == 0 && len(extra) == 0 {
		checkInstances(c, t, ex, ds, w)
	}
	// routing connectors: the router refuses a route iff it is empty or names a pipeline the connector
	// is not connected to (then nothing is forwarded: covered by the delivery multiset above)
	gotR := map[string]int{}
	for _, re := range env.RouteErrors() {
		var tr []string
		for _, e := range re.Trail {
			s, _ := kit.StripInst(e)
			tr = append(tr, s)
		}
		gotR[kit.DeliveryID(re.Key, re.Tag, tr)]++
	}
	c.Observe("route_refusals_expected", int64(sum(ex.RouteErrors)))
	var rdiff []string
	for k, n := range ex.RouteErrors {
		if gotR[k] != n {
			rdiff = append(rdiff, fmt.Sprintf("%s: router refusals expected %d got %d", k, n, gotR[k]))
		}
	}
	for k, n := range gotR {
		if _, ok := ex.RouteErrors[k]; !ok {
			rdiff = append(rdiff, fmt.Sprintf("%s: router refusals expected 0 got %d", k, n))
		}
	}
	if len(rdiff) > 0 {
		sort.Strings(rdiff)
		w.Unexpected = rdiff
		kind := "refused-valid-route"
		if sum(gotR) < sum(ex.RouteErrors) {
			kind = "accepted-bad-route"
		}
		var routes []string
		for _, ci := range insts {
			if ci.Routing {
				routes = append(routes, fmt.Sprintf("%s route %v (connected: %v, class %s)", ci.Key(), ci.Route, pipeIDs(t, ci.Dests), routeClass(ci)))
			}
		}
		c.Violation("routing", fmt.Sprintf("router refusals differ from \"error iff the route is empty or names an unconnected pipeline\": %s; %s", rdiff[0], strings.Join(routes, "; ")), w,
			"kind", kind, "connectors", hasConn)
	}
	// errors of failing exporters and of refusing routers reach the injector; otherwise no error
	for tag, err := range o.injErr {
		for _, k := range ex.RouteRefusals[tag] {
			if err == nil || !strings.Contains(err.Error(), k+" cannot route") {
				c.Violation("error-aggregation", fmt.Sprintf("the refusal of routing connector %s did not come back to receiver %s (got %v)", k, tag, err), w, "kind", "lost-route-error")
			}
		}
		wantFail := ex.FailingReachable[tag]
		if len(wantFail) == 0 {
			if err != nil && len(ex.RouteRefusals[tag]) == 0 {
				c.Violation("error-aggregation", fmt.Sprintf("injection %s returned %v although no failing exporter or refusing router is reachable", tag, err), w, "kind", "spurious")
			}
			continue
		}
		c.Observe("failing_exporters_reachable", int64(len(wantFail)))
		for _, k := range wantFail {
			if err == nil || !strings.Contains(err.Error(), k+" refuses") {
				w.Detail = fmt.Sprintf("tag %s: returned %v, reachable failing exporters %v", tag, err, wantFail)
				c.Violation("error-aggregation", fmt.Sprintf("the error of failing exporter %s did not come back to receiver %s (got %v)", k, tag, err), w, "kind", "lost")
			}
		}
	}
	c.Observe("valid_held", 1)
	if depth >= 2 {
		c.Sample(map[string]any{"class": class, "topology": t.Describe(), "expected_deliveries": sum(ex.Deliveries), "observed_deliveries": len(ds), "connector_instances": len(insts), "create_keys": len(want), "connector_chain_depth": depth})
	}
}

// routeClass names what a connector instance asks its router for.
func routeClass(ci kit.ConnInst) string {
	switch {
	case !ci.Routing:
		return "broadcast"
	case len(ci.Route) == 0:
		return "empty"
	case ci.RouteErr:
		return "unconnected"
	}
	seen := map[string]bool{}
	for _, r := range ci.Route {
		if seen[r] {
			return "repeated"
		}
		seen[r] = true
	}
	if len(ci.Route) == len(ci.Dests) {
		return "full"
	}
	return "subset"
}

func pipeIDs(t *kit.Topology, idx []int) []string {
	var out []string
	for _, i := range idx {
		out = append(out, t.Pipelines[i].ID())
	}
	return out
}

// addRouting appends a routing connector with N = 1..4 downstream pipelines to a valid base: one (or
// two) source pipelines -> connector -> N pipelines of one destination signal (mostly the same
// signal), with a route of the given class for that destination signal.
func addRouting(rng *rand.Rand, base *kit.Topology, class string) *kit.Topology {
	t := base.Clone()
	s := kit.Signals[rng.Intn(4)]
	d := s
	typ := []string{"kconn", "ksame"}[rng.Intn(2)]
	if rng.Intn(10) < 3 {
		d = kit.Signals[rng.Intn(4)]
		typ = "kconn"
	}
	id := typ + "/rt"
	cfg := map[string]any{}
	if s == d {
		if m := []string{"", "mutate", "pass"}[rng.Intn(3)]; m != "" {
			cfg["mode"] = m
		}
	}
	t.Connectors[id] = cfg
	procs := func() []string {
		var out []string
		for _, i := range rng.Perm(3)[:rng.Intn(3)] {
			p := fmt.Sprintf("kproc/%c", 'a'+i)
			if _, ok := t.Processors[p]; !ok {
				t.Processors[p] = nil
			}
			out = append(out, p)
		}
		return out
	}
	exps := func() []string {
		var out []string
		for _, i := range rng.Perm(3)[:1+rng.Intn(2)] {
			e := fmt.Sprintf("kexp/%d", i+1)
			if _, ok := t.Exporters[e]; !ok {
				t.Exporters[e] = nil
			}
			out = append(out, e)
		}
		return out
	}
	t.Receivers["krecv/1"] = nil
	src := kit.Pipeline{Signal: s, Name: "rt_src", Receivers: []string{"krecv/1"}, Processors: procs(), Exporters: []string{id}}
	if rng.Intn(2) == 0 {
		src.Exporters = append(src.Exporters, exps()...)
	}
	t.Pipelines = append(t.Pipelines, src)
	if typ == "kconn" && rng.Intn(3) == 0 { // a second instance of the connector (other source signal) shares the route
		s2 := kit.Signals[rng.Intn(4)]
		if s2 != s {
			t.Receivers["krecv/2"] = nil
			t.Pipelines = append(t.Pipelines, kit.Pipeline{Signal: s2, Name: "rt_src2", Receivers: []string{"krecv/2"}, Exporters: []string{id}})
		}
	}
	nd := 2 + rng.Intn(3)
	if rng.Intn(4) == 0 {
		nd = 1 // a router in front of a single destination pipeline is still a router
	}
	for k, n := 0, nd; k < n; k++ {
		p := kit.Pipeline{Signal: d, Name: fmt.Sprintf("rt_d%d", k), Receivers: []string{id}, Processors: procs(), Exporters: exps()}
		if rng.Intn(4) == 0 {
			p.Receivers = append(p.Receivers, "krecv/1")
		}
		t.Pipelines = append(t.Pipelines, p)
	}
	if rng.Intn(2) == 0 { // a pipeline of the destination signal the connector is NOT connected to
		t.Pipelines = append(t.Pipelines, kit.Pipeline{Signal: d, Name: "rt_other", Receivers: []string{"krecv/1"}, Exporters: exps()})
	}
	for _, ci := range t.ConnInstances() {
		if ci.ID == id && ci.To == d {
			cfg["routes"] = map[string]any{string(d): kit.MakeRoute(rng, class, t, ci)}
			break
		}
	}
	return t
}

// caseTwinPairs counts pairs of ids in use (pipeline ids and, per kind and signal, component ids) that
// differ only in letter case.
func caseTwinPairs(t *kit.Topology) int {
	groups := map[string]map[string]bool{}
	add := func(scope, id string) {
		k := scope + "|" + strings.ToLower(id)
		if groups[k] == nil {
			groups[k] = map[string]bool{}
		}
		groups[k][id] = true
	}
	for _, p := range t.Pipelines {
		add("pipeline", p.ID())
		for _, id := range p.Receivers {
			add("r:"+string(p.Signal), id)
		}
		for _, id := range p.Processors {
			add("p:"+p.ID(), id)
		}
		for _, id := range p.Exporters {
			add("e:"+string(p.Signal), id)
		}
	}
	n := 0
	for _, g := range groups {
		n += len(g) * (len(g) - 1) / 2
	}
	return n
}

func sum(m map[string]int) int {
	n := 0
	for _, v := range m {
		n += v
	}
	return n
}

// checkInstances: for paths whose delivery identity is unique, the observed trail tells which
// instance served each (pipeline, processor id) / connector instance; that mapping must be a function
// (one instance per node) and injective (no instance serves two nodes); the same for exporters.
func checkInstances(c *driver.Ctx, t *kit.Topology, ex *kit.Expectation, ds []*kit.Delivery, w witness) {
	pathOf := map[string]*kit.Path{}
	for i := range ex.Paths {
		p := &ex.Paths[i]
		k := kit.DeliveryID(p.Exporter, p.Tag, p.Trail())
		if ex.Deliveries[k] == 1 {
			pathOf[k] = p
		}
	}
	nodeInst := map[string]string{} // node -> instance ordinal
	instNode := map[string]string{}
	learn := func(node, inst string) {
		if old, ok := nodeInst[node]; ok && old != inst {
			c.Violation("instances", fmt.Sprintf("%s is served by two instances (#%s and #%s)", node, old, inst), w, "kind", kit.KeyKind(node), "problem", "split")
		}
		if old, ok := instNode[inst]; ok && old != node {
			c.Violation("instances", fmt.Sprintf("instance #%s serves both %s and %s", inst, old, node), w, "kind", kit.KeyKind(node), "problem", "shared")
		}
		nodeInst[node], instNode[inst] = inst, node
	}
	for _, d := range ds {
		var tr, ord []string
		for _, e := range d.Trail {
			s, o := kit.StripInst(e)
			tr, ord = append(tr, s), append(ord, o)
		}
		p := pathOf[kit.DeliveryID(d.Exporter, d.Tag, tr)]
		if p == nil {
			continue
		}
		i := 0
		for _, st := range p.Steps {
			if st.Entry == "" {
				continue
			}
			learn(st.Node, ord[i])
			i++
		}
		learn(d.Exporter, fmt.Sprint(d.Inst))
		c.Observe("instance_mappings_checked", int64(i+1))
	}
}

func run(c *driver.Ctx) {
	n := int64(c.N(600, 36000)) // cases per shard
	if c.Variant == "race" {
		n = int64(c.N(200, 4700))
	}
	for i := int64(0); i < n; i++ {
		if !c.Want(i) {
			continue
		}
		rng := c.CaseRand(i)
		opt := kit.GenOptions{
			SharedReceivers:  rng.Intn(3) == 0,
			NonMutatingProcs: []float64{0, 0, 0.3}[rng.Intn(3)],
			ConnModes:        rng.Intn(2) == 0,
			RouteTo:          []float64{0, 0.5}[rng.Intn(2)],
			FailingExporters: []float64{0, 0, 0.25}[rng.Intn(3)],
			CaseTwins:        rng.Intn(4) == 0, // ids and pipeline names that differ only in letter case
			RepeatedMentions: rng.Intn(4) == 0, // a receiver / exporter listed twice in one pipeline
		}
		if rng.Intn(6) == 0 {
			opt.UniqueProcessors = true
		}
		base := kit.GenTopology(rng, opt)
		class := "valid"
		t := base
		switch {
		case i%5 >= 3: // 40 % invalid, classes in rotation
			class = invalidClasses[(int(i/5)*2+int(i%5-3)+c.Shard)%len(invalidClasses)]
			t = makeInvalid(rng, base, class)
		case i%5 == 2: // 20 % carry a routing connector with 2–4 downstream pipelines, route classes in rotation
			rc := kit.RouteClasses[(int(i/5)+c.Shard)%len(kit.RouteClasses)]
			class = "routing-" + rc
			t = addRouting(rng, base, rc)
		}
		runCase(c, class, t, rng)
	}
}

func main() {
	driver.Main(driver.Spec{
		ID:    "C09",
		Level: "exploration",
		Rule: "a case is one seeded random service configuration (1–6 pipelines over the 4 signals, receivers/processors/exporters drawn from small id pools (a quarter of the cases with pools and pipeline names that differ only in letter case), kshared multi-signal receivers, connectors of 5 factory types with different supported signal pairs placed constructively incl. chains, fan-in, fan-out; 20 % carry a routing connector with 1–4 downstream pipelines that asks its router for a full / proper-subset / repeated-id (N entries) / unconnected-pipeline (N entries) / empty route; 40 % carry one injected defect: connector ring of length 1–4, back edge, unsupported pair, connector only as exporter/receiver) run through otelcol.NewCollector(...).Run with one payload injected at every receiver instance; " +
			"distinct = canonical configuration (pipelines with component lists and referenced configs); non-trivial = at least 2 pipelines or a connector, or an invalid configuration",
		Assumptions: []string{
			"the reference model (lib/kit/oracle.go) computes validity, connector instances, path multisets, create counts from the configuration only; it shares no code with service/internal/graph",
			"a processor cannot learn its pipeline from its settings: trails carry processor ids plus the instance ordinal; instance-per-pipeline is checked by create counts and by the instance mapping learnt from unambiguous paths",
			"duplicate listings of one component inside one pipeline are not generated",
		},
		TrustedBase: []string{"lib/kit test components and reference model", "gopkg.in/yaml.v3 for rendering the configuration"},
		Shards:      func(string) int { return 16 },
		Variants: func(tier string) []string {
			return []string{"race", "plain"}
		},
		MinNontrivial: func(tier string) int {
			if tier == "thorough" {
				return 150000
			}
			return 3000
		},
		ShardTimeout: func(tier string) time.Duration {
			if tier == "thorough" {
				return 90 * time.Minute
			}
			return 8 * time.Minute
		},
		Run:        run,
		MaxSamples: 2,
	})
}
